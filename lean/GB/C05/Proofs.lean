import GB.C05.Spec
/-
  C05 — helper lemmas for the property theorems (core Lean only).
-/
set_option linter.unusedSimpArgs false
set_option linter.unusedVariables false
namespace GB.C05
open GB

/-! ### listServiceNames -/

theorem mem_listFilter (cfg : Cfg) : ∀ (raw processed : List Name) (n : Name),
    n ∈ listFilter cfg processed raw ↔
      (n ∈ raw ∧ isValidFullName n = true ∧ ignored cfg n = false ∧ n ∉ processed) := by
  intro raw
  induction raw with
  | nil => intro p n; simp [listFilter]
  | cons s rest ih =>
    intro p n
    unfold listFilter
    by_cases hv : isValidFullName s = true
    · by_cases hp : s ∈ p
      · simp only [hv, hp, Bool.not_true, Bool.false_eq_true, ↓reduceIte, ih, List.mem_cons]
        constructor
        · rintro ⟨a, b, c, d⟩; exact ⟨Or.inr a, b, c, d⟩
        · rintro ⟨a | a, b, c, d⟩
          · subst a; exact absurd hp d
          · exact ⟨a, b, c, d⟩
      · by_cases hi : ignored cfg s = true
        · simp only [hv, hp, hi, Bool.not_true, Bool.false_eq_true, ↓reduceIte, ih, List.mem_cons]
          constructor
          · rintro ⟨a, b, c, d⟩; exact ⟨Or.inr a, b, c, fun h => d (Or.inr h)⟩
          · rintro ⟨a | a, b, c, d⟩
            · subst a; rw [hi] at c; exact absurd c (by decide)
            · refine ⟨a, b, c, ?_⟩
              rintro (h | h)
              · subst h; rw [hi] at c; exact absurd c (by decide)
              · exact d h
        · have hi' : ignored cfg s = false := by cases h : ignored cfg s <;> simp_all
          simp only [hv, hp, hi, Bool.not_true, Bool.false_eq_true, ↓reduceIte, List.mem_cons, ih]
          constructor
          · rintro (a | ⟨a, b, c, d⟩)
            · subst a; exact ⟨Or.inl rfl, hv, hi', hp⟩
            · exact ⟨Or.inr a, b, c, fun h => d (Or.inr h)⟩
          · rintro ⟨a | a, b, c, d⟩
            · exact Or.inl a
            · by_cases e : n = s
              · exact Or.inl e
              · refine Or.inr ⟨a, b, c, ?_⟩
                rintro (h | h)
                · exact e h
                · exact d h
    · have hv' : isValidFullName s = false := by cases h : isValidFullName s <;> simp_all
      simp only [hv', Bool.not_false, ↓reduceIte, ih, List.mem_cons]
      constructor
      · rintro ⟨a, b, c, d⟩; exact ⟨Or.inr a, b, c, d⟩
      · rintro ⟨a | a, b, c, d⟩
        · subst a; rw [hv'] at b; exact absurd b (by decide)
        · exact ⟨a, b, c, d⟩

theorem nodup_listFilter (cfg : Cfg) : ∀ (raw processed : List Name),
    (listFilter cfg processed raw).Nodup := by
  intro raw
  induction raw with
  | nil => intro p; simp [listFilter]
  | cons s rest ih =>
    intro p
    unfold listFilter
    split
    · exact ih p
    · split
      · exact ih p
      · split
        · exact ih _
        · rw [List.nodup_cons]
          refine ⟨?_, ih _⟩
          intro h
          have := (mem_listFilter cfg rest (s :: p) s).1 h
          exact this.2.2.2 (List.mem_cons_self)

/-! ### de-duplication by file name -/

theorem mem_dedupFiles : ∀ (l : List DFile) (p : List Name) (f : DFile),
    f ∈ dedupFiles p l → f ∈ l ∧ f.name ∉ p := by
  intro l
  induction l with
  | nil => intro p f h; simp [dedupFiles] at h
  | cons g rest ih =>
    intro p f h
    unfold dedupFiles at h
    split at h
    · have := ih p f h; exact ⟨List.mem_cons_of_mem _ this.1, this.2⟩
    · rename_i hg
      rcases List.mem_cons.1 h with e | h'
      · subst e; exact ⟨List.mem_cons_self, hg⟩
      · have := ih _ f h'
        exact ⟨List.mem_cons_of_mem _ this.1, fun hp => this.2 (List.mem_cons_of_mem _ hp)⟩

theorem names_dedupFiles : ∀ (l : List DFile) (p : List Name) (n : Name),
    n ∈ fileNames (dedupFiles p l) ↔ (n ∈ fileNames l ∧ n ∉ p) := by
  intro l
  induction l with
  | nil => intro p n; simp [dedupFiles, fileNames]
  | cons g rest ih =>
    intro p n
    unfold dedupFiles
    split
    · rename_i hg
      rw [ih]
      simp only [fileNames, List.map_cons, List.mem_cons]
      constructor
      · rintro ⟨a, b⟩; exact ⟨Or.inr a, b⟩
      · rintro ⟨a | a, b⟩
        · subst a; exact absurd hg b
        · exact ⟨a, b⟩
    · rename_i hg
      simp only [fileNames, List.map_cons, List.mem_cons] at ih ⊢
      rw [ih]
      simp only [List.mem_cons, not_or]
      constructor
      · rintro (a | ⟨a, b, c⟩)
        · subst a; exact ⟨Or.inl rfl, hg⟩
        · exact ⟨Or.inr a, c⟩
      · rintro ⟨a | a, b⟩
        · exact Or.inl a
        · by_cases e : n = g.name
          · exact Or.inl e
          · exact Or.inr ⟨a, e, b⟩

theorem nodup_dedupFiles : ∀ (l : List DFile) (p : List Name),
    (fileNames (dedupFiles p l)).Nodup := by
  intro l
  induction l with
  | nil => intro p; simp [dedupFiles, fileNames]
  | cons g rest ih =>
    intro p
    unfold dedupFiles
    split
    · exact ih p
    · simp only [fileNames, List.map_cons]
      rw [List.nodup_cons]
      refine ⟨?_, ih _⟩
      intro h
      have := (names_dedupFiles rest (g.name :: p) g.name).1 h
      exact this.2 List.mem_cons_self

/-- the first file of every name survives: what the registry holds for a name is what came first -/
theorem dedupFiles_nil_names (l : List DFile) (n : Name) :
    n ∈ fileNames (dedupFiles [] l) ↔ n ∈ fileNames l := by
  rw [names_dedupFiles]; simp

/-! ### missing-set bookkeeping -/

theorem mem_growNames (present : List Name) : ∀ (ds m : List Name) (d : Name),
    d ∈ growNames present m ds ↔ (d ∈ m ∨ (d ∈ ds ∧ d ∉ present)) := by
  intro ds
  induction ds with
  | nil => intro m d; simp [growNames]
  | cons x rest ih =>
    intro m d
    unfold growNames
    split
    · rename_i hx
      rw [ih]
      constructor
      · rintro (a | ⟨a, b⟩)
        · exact Or.inl a
        · exact Or.inr ⟨List.mem_cons_of_mem _ a, b⟩
      · rintro (a | ⟨a, b⟩)
        · exact Or.inl a
        · rcases List.mem_cons.1 a with e | a'
          · subst e
            rcases hx with h | h
            · exact absurd h b
            · exact Or.inl h
          · exact Or.inr ⟨a', b⟩
    · rename_i hx
      rw [ih]
      simp only [List.mem_append, List.mem_singleton, List.mem_cons, List.not_mem_nil, or_false]
      constructor
      · rintro ((a | a) | ⟨a, b⟩)
        · exact Or.inl a
        · subst a; exact Or.inr ⟨Or.inl rfl, fun h => hx (Or.inl h)⟩
        · exact Or.inr ⟨Or.inr a, b⟩
      · rintro (a | ⟨a | a, b⟩)
        · exact Or.inl (Or.inl a)
        · exact Or.inl (Or.inr a)
        · exact Or.inr ⟨a, b⟩

theorem mem_growMissing (fs : List DFile) (present m : List Name) (d : Name) :
    d ∈ growMissing fs present m ↔ (d ∈ m ∨ ((∃ f ∈ fs, d ∈ f.deps) ∧ d ∉ present)) := by
  unfold growMissing
  rw [mem_growNames]
  simp only [List.mem_flatMap]

theorem mem_shrinkMissing (fs : List DFile) (m : List Name) (d : Name) :
    d ∈ shrinkMissing fs m ↔ (d ∈ m ∧ d ∉ fileNames fs) := by
  unfold shrinkMissing
  simp [List.mem_filter]

/-! ### one pipelined batch -/

theorem execBatch_ok (pol : Policy) : ∀ (reqs : List Request) (h h' : History) (got : List DFile),
    execBatch pol h reqs = (h', .ok got) →
      (∀ f ∈ got, ∃ h'' q fs, q ∈ reqs ∧ pol h'' q = .files fs ∧ f ∈ fs) ∧
      (∀ q ∈ reqs, ∃ h'' fs, pol h'' q = .files fs ∧ ∀ f ∈ fs, f ∈ got) := by
  intro reqs
  induction reqs with
  | nil =>
    intro h h' got he
    simp only [execBatch, Prod.mk.injEq, Except.ok.injEq] at he
    rcases he with ⟨_, rfl⟩
    simp
  | cons q rest ih =>
    intro h h' got he
    unfold execBatch at he
    simp only at he
    cases ha : pol h q with
    | files fs =>
      simp only [ha] at he
      cases hr : execBatch pol (h ++ [(q, Answer.files fs)]) rest with
      | mk h2 r =>
        cases r with
        | error e => simp [hr] at he
        | ok more =>
          simp only [hr, Prod.mk.injEq, Except.ok.injEq] at he
          rcases he with ⟨_, rfl⟩
          have := ih _ _ _ hr
          constructor
          · intro f hf
            rcases List.mem_append.1 hf with hf | hf
            · exact ⟨h, q, fs, List.mem_cons_self, ha, hf⟩
            · rcases this.1 f hf with ⟨h'', q', fs', a, b, c⟩
              exact ⟨h'', q', fs', List.mem_cons_of_mem _ a, b, c⟩
          · intro q' hq'
            rcases List.mem_cons.1 hq' with e | hq'
            · subst e
              exact ⟨h, fs, ha, fun f hf => List.mem_append_left _ hf⟩
            · rcases this.2 q' hq' with ⟨h'', fs', a, b⟩
              exact ⟨h'', fs', a, fun f hf => List.mem_append_right _ (b f hf)⟩
    | garbled fs =>
      simp only [ha] at he
      cases hr : execBatch pol (h ++ [(q, Answer.garbled fs)]) rest with
      | mk h2 r => cases r <;> simp [hr] at he
    | error c => simp [ha] at he
    | listing l => simp [ha] at he
    | other t => simp [ha] at he

theorem execBatch_succeeds (pol : Policy) : ∀ (reqs : List Request) (h : History),
    (∀ q ∈ reqs, ∀ h'', ∃ fs, pol h'' q = .files fs) →
      ∃ h' got, execBatch pol h reqs = (h', .ok got) := by
  intro reqs
  induction reqs with
  | nil => intro h _; exact ⟨h, [], rfl⟩
  | cons q rest ih =>
    intro h hall
    rcases hall q List.mem_cons_self h with ⟨fs, ha⟩
    rcases ih (h ++ [(q, Answer.files fs)]) (fun q' hq' => hall q' (List.mem_cons_of_mem _ hq')) with ⟨h', got, hr⟩
    refine ⟨h', fs ++ got, ?_⟩
    unfold execBatch
    simp only [ha, hr]

/-! ### the BFS of retrieveDependencies: what holds for EVERY answering policy -/

structure SafeInv (s : Bfs) : Prop where
  nodup : (fileNames s.descriptors).Nodup
  present : ∀ n, n ∈ s.present ↔ n ∈ fileNames s.descriptors
  deps : ∀ f ∈ s.descriptors, ∀ d ∈ f.deps, d ∈ s.present ∨ d ∈ s.missing

theorem fileNames_append (a b : List DFile) : fileNames (a ++ b) = fileNames a ++ fileNames b := by
  simp [fileNames]

theorem mem_fileNames {fs : List DFile} {n : Name} : n ∈ fileNames fs ↔ ∃ f ∈ fs, f.name = n := by
  simp [fileNames]

theorem safeInv_next (s : Bfs) (h : History) (got : List DFile) (hs : SafeInv s)
    (hshrink : shrinkMissing (dedupFiles [] got) s.missing = []) :
    SafeInv (nextState (dedupFiles []) h got s) := by
  have hall : ∀ m ∈ s.missing, m ∈ fileNames (dedupFiles [] got) := by
    intro m hm
    by_cases hin : m ∈ fileNames (dedupFiles [] got)
    · exact hin
    · have : m ∈ shrinkMissing (dedupFiles [] got) s.missing := (mem_shrinkMissing _ _ _).2 ⟨hm, hin⟩
      rw [hshrink] at this; exact absurd this (by simp)
  constructor
  · -- nodup
    show (fileNames (s.descriptors ++ (dedupFiles [] got).filter (fun f => f.name ∉ s.present))).Nodup
    rw [fileNames_append, List.nodup_append]
    refine ⟨hs.nodup, ?_, ?_⟩
    · have hsub : ((dedupFiles [] got).filter (fun f => f.name ∉ s.present)).Sublist (dedupFiles [] got) :=
        List.filter_sublist
      exact (nodup_dedupFiles got []).sublist (hsub.map _)
    · intro a ha b hb hab
      subst hab
      rcases mem_fileNames.1 hb with ⟨g, hg, rfl⟩
      have := (List.mem_filter.1 hg).2
      simp only [decide_eq_true_eq] at this
      exact this ((hs.present _).2 ha)
  · -- present
    intro n
    show n ∈ s.present ++ fileNames (dedupFiles [] got) ↔
      n ∈ fileNames (s.descriptors ++ (dedupFiles [] got).filter (fun f => f.name ∉ s.present))
    rw [fileNames_append, List.mem_append, List.mem_append]
    constructor
    · rintro (a | a)
      · exact Or.inl ((hs.present n).1 a)
      · by_cases hp : n ∈ s.present
        · exact Or.inl ((hs.present n).1 hp)
        · rcases mem_fileNames.1 a with ⟨g, hg, rfl⟩
          exact Or.inr (mem_fileNames.2 ⟨g, List.mem_filter.2 ⟨hg, by simpa using hp⟩, rfl⟩)
    · rintro (a | a)
      · exact Or.inl ((hs.present n).2 a)
      · rcases mem_fileNames.1 a with ⟨g, hg, rfl⟩
        exact Or.inr (mem_fileNames.2 ⟨g, (List.mem_filter.1 hg).1, rfl⟩)
  · -- deps
    intro f hf d hd
    show d ∈ s.present ++ fileNames (dedupFiles [] got) ∨
      d ∈ growMissing (dedupFiles [] got) (s.present ++ fileNames (dedupFiles [] got)) (shrinkMissing (dedupFiles [] got) s.missing)
    have hf' : f ∈ s.descriptors ++ (dedupFiles [] got).filter (fun f => f.name ∉ s.present) := hf
    rcases List.mem_append.1 hf' with hf | hf
    · rcases hs.deps f hf d hd with a | a
      · exact Or.inl (List.mem_append_left _ a)
      · exact Or.inl (List.mem_append_right _ (hall d a))
    · by_cases hp : d ∈ s.present ++ fileNames (dedupFiles [] got)
      · exact Or.inl hp
      · exact Or.inr ((mem_growMissing _ _ _ _).2 (Or.inr ⟨⟨f, (List.mem_filter.1 hf).1, hd⟩, hp⟩))

theorem closed_of_safe (s : Bfs) (hs : SafeInv s) (hm : s.missing = []) : Closed s.descriptors := by
  intro f hf d hd
  rcases hs.deps f hf d hd with a | a
  · exact (hs.present d).1 a
  · rw [hm] at a; exact absurd a (by simp)

theorem bfsLoop_safe (pol : Policy) (sched : Sched) (Q : DFile → Prop)
    (hQ : ∀ h q fs, pol h q = .files fs → ∀ f ∈ fs, Q f) :
    ∀ (fuel : Nat) (s : Bfs) (h : History) (ds : List DFile), SafeInv s → (∀ f ∈ s.descriptors, Q f) →
      bfsLoop (dedupFiles []) pol sched fuel s = (h, .ok ds) →
        Closed ds ∧ (fileNames ds).Nodup ∧ (∀ f ∈ ds, Q f) ∧ (∀ f ∈ s.descriptors, f ∈ ds) := by
  intro fuel
  induction fuel with
  | zero =>
    intro s h ds hs hq he
    unfold bfsLoop at he
    split at he
    · rename_i hm
      simp only [Prod.mk.injEq, Except.ok.injEq] at he
      rcases he with ⟨_, rfl⟩
      exact ⟨closed_of_safe s hs (List.isEmpty_iff.1 hm), hs.nodup, hq, fun f hf => hf⟩
    · simp at he
  | succ fuel ih =>
    intro s h ds hs hq he
    unfold bfsLoop at he
    split at he
    · rename_i hm
      simp only [Prod.mk.injEq, Except.ok.injEq] at he
      rcases he with ⟨_, rfl⟩
      exact ⟨closed_of_safe s hs (List.isEmpty_iff.1 hm), hs.nodup, hq, fun f hf => hf⟩
    · split at he
      · simp at he
      · rename_i h1 got hb
        split at he
        · simp at he
        · rename_i hsh
          have hshrink : shrinkMissing (dedupFiles [] got) s.missing = [] := by
            simpa using hsh
          have hgot := (execBatch_ok pol _ _ _ _ hb).1
          have hq' : ∀ f ∈ (nextState (dedupFiles []) h1 got s).descriptors, Q f := by
            intro f hf
            have hf' : f ∈ s.descriptors ++ (dedupFiles [] got).filter (fun f => f.name ∉ s.present) := hf
            rcases List.mem_append.1 hf' with hf | hf
            · exact hq f hf
            · have hfg : f ∈ got := (mem_dedupFiles got [] f (List.mem_filter.1 hf).1).1
              rcases hgot f hfg with ⟨h'', q, fs, _, b, c⟩
              exact hQ h'' q fs b f c
          rcases ih _ h ds (safeInv_next s h1 got hs hshrink) hq' he with ⟨a, b, c, d⟩
          refine ⟨a, b, c, fun f hf => d f ?_⟩
          show f ∈ s.descriptors ++ (dedupFiles [] got).filter (fun f => f.name ∉ s.present)
          exact List.mem_append_left _ hf

def initBfs (h : History) (descriptors : List DFile) : Bfs :=
  { hist := h, descriptors := descriptors, present := fileNames descriptors,
    missing := growMissing descriptors (fileNames descriptors) [] }

theorem retrieveDependencies_eq (dedup : List DFile → List DFile) (cfg : Cfg) (pol : Policy) (sched : Sched)
    (h : History) (ds : List DFile) :
    retrieveDependencies dedup cfg pol sched h ds = bfsLoop dedup pol sched cfg.limit (initBfs h ds) := rfl

theorem safeInv_init (h : History) (ds : List DFile) (hn : (fileNames ds).Nodup) : SafeInv (initBfs h ds) := by
  constructor
  · exact hn
  · intro n; exact Iff.rfl
  · intro f hf d hd
    by_cases hp : d ∈ fileNames ds
    · exact Or.inl hp
    · exact Or.inr ((mem_growMissing _ _ _ _).2 (Or.inr ⟨⟨f, hf, hd⟩, hp⟩))

/-- what a successful conversation guarantees whatever the target answered -/
theorem runStream_safe (cfg : Cfg) (pol : Policy) (sched : Sched) (Q : DFile → Prop)
    (hQ : ∀ h q fs, pol h q = .files fs → ∀ f ∈ fs, Q f)
    (h : History) (ok : StreamOk) (hno : cfg.onlyServices = false)
    (he : runStream (dedupFiles []) cfg pol sched = (h, .ok ok)) :
    ∃ raw, pol [] .list = .listing raw ∧ ok.names = listServiceNames cfg raw ∧
      Closed ok.files ∧ (fileNames ok.files).Nodup ∧ (∀ f ∈ ok.files, Q f) ∧
      (∀ n ∈ ok.names, ∃ h'' fs, pol h'' (.symbol n) = .files fs ∧ ∀ f ∈ fs, f.name ∈ fileNames ok.files) := by
  unfold runStream at he
  simp only at he
  cases ha : pol [] Request.list with
  | error c => simp [ha] at he
  | files fs => simp [ha] at he
  | garbled fs => simp [ha] at he
  | other t => simp [ha] at he
  | listing raw =>
    simp only [ha, hno, Bool.false_eq_true, ↓reduceIte] at he
    refine ⟨raw, rfl, ?_⟩
    cases hb : execBatch pol [(Request.list, Answer.listing raw)] ((listServiceNames cfg raw).map Request.symbol) with
    | mk h1 r =>
      cases r with
      | error e => simp [hb] at he
      | ok got =>
        simp only [hb] at he
        rw [retrieveDependencies_eq] at he
        cases hl : bfsLoop (dedupFiles []) pol sched cfg.limit (initBfs h1 (dedupFiles [] got)) with
        | mk h2 r2 =>
          cases r2 with
          | error e => simp [hl] at he
          | ok ds =>
            simp only [hl, Prod.mk.injEq, Except.ok.injEq] at he
            rcases he with ⟨_, rfl⟩
            have hgot := execBatch_ok pol _ _ _ _ hb
            have hq0 : ∀ f ∈ (initBfs h1 (dedupFiles [] got)).descriptors, Q f := by
              intro f hf
              have hfg : f ∈ got := (mem_dedupFiles got [] f hf).1
              rcases hgot.1 f hfg with ⟨h'', q, fs, _, b, c⟩
              exact hQ h'' q fs b f c
            rcases bfsLoop_safe pol sched Q hQ _ _ _ _ (safeInv_init h1 _ (nodup_dedupFiles got [])) hq0 hl with ⟨a, b, c, d⟩
            refine ⟨rfl, a, b, c, ?_⟩
            intro n hn
            rcases hgot.2 (Request.symbol n) (List.mem_map.2 ⟨n, hn, rfl⟩) with ⟨h'', fs, e1, e2⟩
            refine ⟨h'', fs, e1, fun f hf => ?_⟩
            have h1' : f.name ∈ fileNames (dedupFiles [] got) :=
              (dedupFiles_nil_names got f.name).2 (mem_fileNames.2 ⟨f, e2 f hf, rfl⟩)
            rcases mem_fileNames.1 h1' with ⟨g, hg, hgn⟩
            exact mem_fileNames.2 ⟨g, d g hg, hgn⟩

/-! ### the BFS against a conformant target -/

theorem eq_of_key_eq {α : Type} (key : α → Name) : ∀ {l : List α}, (l.map key).Nodup →
    ∀ {a b : α}, a ∈ l → b ∈ l → key a = key b → a = b := by
  intro l
  induction l with
  | nil => intro _ a b ha; simp at ha
  | cons x rest ih =>
    intro hn a b ha hb hk
    simp only [List.map_cons, List.nodup_cons] at hn
    rcases List.mem_cons.1 ha with e1 | ha'
    · rcases List.mem_cons.1 hb with e2 | hb'
      · rw [e1, e2]
      · subst e1
        exact absurd (List.mem_map.2 ⟨b, hb', hk.symm⟩) hn.1
    · rcases List.mem_cons.1 hb with e2 | hb'
      · subst e2
        exact absurd (List.mem_map.2 ⟨a, ha', hk⟩) hn.1
      · exact ih hn.2 ha' hb' hk

theorem eq_of_name_eq {files : List DFile} (hn : (fileNames files).Nodup) {f g : DFile}
    (hf : f ∈ files) (hg : g ∈ files) (h : f.name = g.name) : f = g :=
  eq_of_key_eq (α := DFile) (fun x => x.name) (l := files) hn hf hg h

structure LiveInv (srv : Server) (s : Bfs) : Prop extends SafeInv s where
  own : ∀ f ∈ s.descriptors, f ∈ srv.files
  fresh : ∀ m ∈ s.missing, m ∉ s.present
  wantedBy : ∀ m ∈ s.missing, ∃ f ∈ s.descriptors, m ∈ f.deps

theorem missing_is_file {srv : Server} (hwf : WFFiles srv.files) {s : Bfs} (hs : LiveInv srv s) :
    ∀ m ∈ s.missing, m ∈ fileNames srv.files := by
  intro m hm
  rcases hs.wantedBy m hm with ⟨f, hf, hd⟩
  exact hwf.closed f (hs.own f hf) m hd

/-- one round against a conformant target: the batch succeeds, nothing asked for stays missing,
    the invariant is kept, and every file received answers a request of this round -/
theorem live_step {srv : Server} {pol : Policy} {sched : Sched} (hwf : WFFiles srv.files)
    (hc : Conformant srv pol) (hfair : FairSched sched) {s : Bfs} (hs : LiveInv srv s) :
    ∃ h got, execBatch pol s.hist ((sched s.hist s.missing).map Request.filename) = (h, .ok got) ∧
      (∀ m ∈ s.missing, m ∈ fileNames (dedupFiles [] got)) ∧
      shrinkMissing (dedupFiles [] got) s.missing = [] ∧
      LiveInv srv (nextState (dedupFiles []) h got s) ∧
      (∀ f ∈ got, ∃ m ∈ s.missing, ∃ h'' fs, pol h'' (.filename m) = .files fs ∧ f ∈ fs) := by
  have hmf := missing_is_file hwf hs
  have hsucc : ∀ q ∈ (sched s.hist s.missing).map Request.filename, ∀ h'', ∃ fs, pol h'' q = .files fs := by
    intro q hq h''
    rcases List.mem_map.1 hq with ⟨m, hm, rfl⟩
    rcases hc.filename h'' m (hmf m ((hfair _ _ _).1 hm)) with ⟨fs, e, _⟩
    exact ⟨fs, e⟩
  rcases execBatch_succeeds pol _ s.hist hsucc with ⟨h, got, hb⟩
  have hgot := execBatch_ok pol _ _ _ _ hb
  have hall : ∀ m ∈ s.missing, m ∈ fileNames (dedupFiles [] got) := by
    intro m hm
    have hq : Request.filename m ∈ (sched s.hist s.missing).map Request.filename :=
      List.mem_map.2 ⟨m, (hfair _ _ _).2 hm, rfl⟩
    rcases hgot.2 _ hq with ⟨h'', fs, e1, e2⟩
    rcases hc.filename h'' m (hmf m hm) with ⟨fs', e1', hin⟩
    rw [e1] at e1'
    injection e1' with e1'
    subst e1'
    rcases mem_fileNames.1 hin with ⟨g, hg, hgn⟩
    exact (dedupFiles_nil_names got m).2 (mem_fileNames.2 ⟨g, e2 g hg, hgn⟩)
  have hshrink : shrinkMissing (dedupFiles [] got) s.missing = [] := by
    unfold shrinkMissing
    rw [List.filter_eq_nil_iff]
    intro m hm
    simpa using hall m hm
  have hown : ∀ f ∈ got, f ∈ srv.files := by
    intro f hf
    rcases hgot.1 f hf with ⟨h'', q, fs, _, b, c⟩
    exact hc.honest h'' q fs b f c
  refine ⟨h, got, hb, hall, hshrink, ?_, ?_⟩
  · have hsafe := safeInv_next s h got hs.toSafeInv hshrink
    have hown' : ∀ f ∈ (nextState (dedupFiles []) h got s).descriptors, f ∈ srv.files := by
      intro f hf
      have hf' : f ∈ s.descriptors ++ (dedupFiles [] got).filter (fun f => f.name ∉ s.present) := hf
      rcases List.mem_append.1 hf' with hf | hf
      · exact hs.own f hf
      · exact hown f (mem_dedupFiles got [] f (List.mem_filter.1 hf).1).1
    have hmiss : ∀ m, m ∈ (nextState (dedupFiles []) h got s).missing ↔
        ((∃ f ∈ dedupFiles [] got, m ∈ f.deps) ∧ m ∉ s.present ++ fileNames (dedupFiles [] got)) := by
      intro m
      show m ∈ growMissing (dedupFiles [] got) (s.present ++ fileNames (dedupFiles [] got)) (shrinkMissing (dedupFiles [] got) s.missing) ↔ _
      rw [mem_growMissing, hshrink]
      simp
    refine { toSafeInv := hsafe, own := hown', fresh := ?_, wantedBy := ?_ }
    · intro m hm
      exact ((hmiss m).1 hm).2
    · intro m hm
      rcases ((hmiss m).1 hm).1 with ⟨f, hf, hd⟩
      refine ⟨f, ?_, hd⟩
      show f ∈ s.descriptors ++ (dedupFiles [] got).filter (fun f => f.name ∉ s.present)
      by_cases hp : f.name ∈ s.present
      · rcases mem_fileNames.1 ((hs.present _).1 hp) with ⟨f', hf', hn⟩
        have : f' = f := eq_of_name_eq hwf.nodup (hs.own f' hf') (hown f (mem_dedupFiles got [] f hf).1) hn
        subst this
        exact List.mem_append_left _ hf'
      · exact List.mem_append_right _ (List.mem_filter.2 ⟨hf, by simpa using hp⟩)
  · intro f hf
    rcases hgot.1 f hf with ⟨h'', q, fs, hq, b, c⟩
    rcases List.mem_map.1 hq with ⟨m, hm, rfl⟩
    exact ⟨m, (hfair _ _ _).1 hm, h'', fs, b, c⟩

/-- liveness of the loop for any round-indexed invariant `P` that forces `missing = []` at 0 -/
theorem bfsLoop_live {srv : Server} {pol : Policy} {sched : Sched} (hwf : WFFiles srv.files)
    (hc : Conformant srv pol) (hfair : FairSched sched) (P : Nat → Bfs → Prop)
    (hzero : ∀ s, LiveInv srv s → P 0 s → s.missing = [])
    (hstep : ∀ fuel s h got, LiveInv srv s → P (fuel + 1) s → s.missing ≠ [] →
      (∀ m ∈ s.missing, m ∈ fileNames (dedupFiles [] got)) →
      (∀ f ∈ got, ∃ m ∈ s.missing, ∃ h'' fs, pol h'' (.filename m) = .files fs ∧ f ∈ fs) →
      LiveInv srv (nextState (dedupFiles []) h got s) →
      P fuel (nextState (dedupFiles []) h got s)) :
    ∀ (fuel : Nat) (s : Bfs), LiveInv srv s → P fuel s →
      ∃ h ds, bfsLoop (dedupFiles []) pol sched fuel s = (h, .ok ds) := by
  intro fuel
  induction fuel with
  | zero =>
    intro s hs hp
    refine ⟨s.hist, s.descriptors, ?_⟩
    unfold bfsLoop
    simp [hzero s hs hp]
  | succ fuel ih =>
    intro s hs hp
    by_cases hm : s.missing = []
    · refine ⟨s.hist, s.descriptors, ?_⟩
      unfold bfsLoop
      simp [hm]
    · rcases live_step hwf hc hfair hs with ⟨h, got, hb, hall, hshrink, hnext, hprov⟩
      rcases ih _ hnext (hstep fuel s h got hs hp hm hall hprov hnext) with ⟨h', ds, hl⟩
      refine ⟨h', ds, ?_⟩
      unfold bfsLoop
      have : s.missing.isEmpty = false := by
        cases hmm : s.missing with
        | nil => exact absurd hmm hm
        | cons _ _ => rfl
      simp only [this, Bool.false_eq_true, ↓reduceIte, hb, hshrink, List.isEmpty_nil, Bool.not_true]
      exact hl

theorem filter_length_lt {α : Type} (p q : α → Bool) : ∀ (l : List α),
    (∀ x ∈ l, p x = true → q x = true) → (∃ x ∈ l, q x = true ∧ p x = false) →
      (l.filter p).length < (l.filter q).length := by
  intro l
  induction l with
  | nil => intro _ h; rcases h with ⟨x, hx, _⟩; simp at hx
  | cons a rest ih =>
    intro himp hex
    have hle : ∀ (l : List α), (∀ x ∈ l, p x = true → q x = true) → (l.filter p).length ≤ (l.filter q).length := by
      intro l
      induction l with
      | nil => intro _; simp
      | cons b r ihr =>
        intro hi
        have := ihr (fun x hx => hi x (List.mem_cons_of_mem _ hx))
        simp only [List.filter_cons]
        cases hpb : p b
        · cases hqb : q b <;> simp <;> omega
        · have := hi b List.mem_cons_self hpb
          simp [this]; omega
    have himp' : ∀ x ∈ rest, p x = true → q x = true := fun x hx => himp x (List.mem_cons_of_mem _ hx)
    simp only [List.filter_cons]
    rcases hex with ⟨x, hx, hq, hp⟩
    rcases List.mem_cons.1 hx with e | hx'
    · subst e
      have := hle rest himp'
      simp [hq, hp]; omega
    · have := ih himp' ⟨x, hx', hq, hp⟩
      cases hpa : p a
      · cases hqa : q a <;> simp <;> omega
      · have := himp a List.mem_cons_self hpa
        simp [this]; omega

/-! ### the whole conversation against a conformant target -/

theorem wanted_of_mem_names {cfg : Cfg} {raw : List Name} {n : Name}
    (h : n ∈ listServiceNames cfg raw) : wanted cfg raw n := by
  have := (mem_listFilter cfg raw [] n).1 h
  exact ⟨this.1, this.2.1, this.2.2.1⟩

theorem mem_names_of_wanted {cfg : Cfg} {raw : List Name} {n : Name}
    (h : wanted cfg raw n) : n ∈ listServiceNames cfg raw :=
  (mem_listFilter cfg raw [] n).2 ⟨h.1, h.2.1, h.2.2, by simp⟩

/-- the FileContainingSymbol batch against a conformant target -/
theorem batch0_live {cfg : Cfg} {srv : Server} {pol : Policy} (hwf : WF cfg srv) (hc : Conformant srv pol)
    (h0 : History) :
    ∃ h1 got, execBatch pol h0 ((listServiceNames cfg srv.listed).map Request.symbol) = (h1, .ok got) ∧
      (∀ f ∈ got, f ∈ srv.files) ∧
      (∀ n ∈ listServiceNames cfg srv.listed, ∃ f ∈ got, definesService f n) ∧
      (∀ f ∈ got, ∃ n ∈ listServiceNames cfg srv.listed, ∃ h'' fs, pol h'' (.symbol n) = .files fs ∧ f ∈ fs) := by
  have hsucc : ∀ q ∈ (listServiceNames cfg srv.listed).map Request.symbol, ∀ h'', ∃ fs, pol h'' q = .files fs := by
    intro q hq h''
    rcases List.mem_map.1 hq with ⟨n, hn, rfl⟩
    rcases hc.symbol h'' n (hwf.defined n (wanted_of_mem_names hn)) with ⟨fs, e, _⟩
    exact ⟨fs, e⟩
  rcases execBatch_succeeds pol _ h0 hsucc with ⟨h1, got, hb⟩
  have hgot := execBatch_ok pol _ _ _ _ hb
  refine ⟨h1, got, hb, ?_, ?_, ?_⟩
  · intro f hf
    rcases hgot.1 f hf with ⟨h'', q, fs, _, b, c⟩
    exact hc.honest h'' q fs b f c
  · intro n hn
    rcases hgot.2 _ (List.mem_map.2 ⟨n, hn, rfl⟩) with ⟨h'', fs, e1, e2⟩
    rcases hc.symbol h'' n (hwf.defined n (wanted_of_mem_names hn)) with ⟨fs', e1', f, hf, hd⟩
    rw [e1] at e1'
    injection e1' with e1'
    subst e1'
    exact ⟨f, e2 f hf, hd⟩
  · intro f hf
    rcases hgot.1 f hf with ⟨h'', q, fs, hq, b, c⟩
    rcases List.mem_map.1 hq with ⟨n, hn, rfl⟩
    exact ⟨n, hn, h'', fs, b, c⟩

theorem liveInv_init {srv : Server} (h : History) (got : List DFile) (hown : ∀ f ∈ got, f ∈ srv.files) :
    LiveInv srv (initBfs h (dedupFiles [] got)) := by
  refine { toSafeInv := safeInv_init h _ (nodup_dedupFiles got []), own := ?_, fresh := ?_, wantedBy := ?_ }
  · intro f hf; exact hown f (mem_dedupFiles got [] f hf).1
  · intro m hm
    have := (mem_growMissing _ _ _ _).1 hm
    rcases this with a | ⟨_, b⟩
    · simp at a
    · exact b
  · intro m hm
    have := (mem_growMissing _ _ _ _).1 hm
    rcases this with a | ⟨b, _⟩
    · simp at a
    · exact b

theorem runStream_live {cfg : Cfg} {srv : Server} {pol : Policy} {sched : Sched} (hwf : WF cfg srv)
    (hc : Conformant srv pol) (hfair : FairSched sched) (hno : cfg.onlyServices = false)
    (P : Nat → Bfs → Prop)
    (hzero : ∀ s, LiveInv srv s → P 0 s → s.missing = [])
    (hstep : ∀ fuel s h got, LiveInv srv s → P (fuel + 1) s → s.missing ≠ [] →
      (∀ m ∈ s.missing, m ∈ fileNames (dedupFiles [] got)) →
      (∀ f ∈ got, ∃ m ∈ s.missing, ∃ h'' fs, pol h'' (.filename m) = .files fs ∧ f ∈ fs) →
      LiveInv srv (nextState (dedupFiles []) h got s) →
      P fuel (nextState (dedupFiles []) h got s))
    (hinit : ∀ h1 got, (∀ f ∈ got, f ∈ srv.files) →
      (∀ n ∈ listServiceNames cfg srv.listed, ∃ f ∈ got, definesService f n) →
      (∀ f ∈ got, ∃ n ∈ listServiceNames cfg srv.listed, ∃ h'' fs, pol h'' (.symbol n) = .files fs ∧ f ∈ fs) →
      P cfg.limit (initBfs h1 (dedupFiles [] got))) :
    ∃ h ok, runStream (dedupFiles []) cfg pol sched = (h, .ok ok) := by
  rcases batch0_live hwf hc [(Request.list, Answer.listing srv.listed)] with ⟨h1, got, hb, hown, hdef, hprov⟩
  rcases bfsLoop_live hwf.toWFFiles hc hfair P hzero hstep cfg.limit _ (liveInv_init h1 got hown)
      (hinit h1 got hown hdef hprov) with ⟨h2, ds, hl⟩
  refine ⟨h2, { names := listServiceNames cfg srv.listed, files := ds }, ?_⟩
  unfold runStream
  simp only [hc.list, hno, Bool.false_eq_true, ↓reduceIte, hb, retrieveDependencies_eq, hl]

/-- (A) any conformant target: one new file per round at least, so `#files` rounds suffice -/
theorem runStream_live_any {cfg : Cfg} {srv : Server} {pol : Policy} {sched : Sched} (hwf : WF cfg srv)
    (hc : Conformant srv pol) (hfair : FairSched sched) (hno : cfg.onlyServices = false)
    (hlim : srv.files.length ≤ cfg.limit) :
    ∃ h ok, runStream (dedupFiles []) cfg pol sched = (h, .ok ok) := by
  refine runStream_live hwf hc hfair hno
    (fun fuel s => (srv.files.filter (fun f => decide (f.name ∉ s.present))).length ≤ fuel) ?_ ?_ ?_
  · intro s hs hp
    cases hm : s.missing with
    | nil => rfl
    | cons m rest =>
      exfalso
      have hmm : m ∈ s.missing := by rw [hm]; exact List.mem_cons_self
      rcases mem_fileNames.1 (missing_is_file hwf.toWFFiles hs m hmm) with ⟨f, hf, hfn⟩
      have hfil : f ∈ srv.files.filter (fun f => decide (f.name ∉ s.present)) :=
        List.mem_filter.2 ⟨hf, by rw [hfn]; simpa using hs.fresh m hmm⟩
      have : (srv.files.filter (fun f => decide (f.name ∉ s.present))).length = 0 := Nat.le_zero.1 hp
      rw [List.length_eq_zero_iff.1 this] at hfil
      simp at hfil
  · intro fuel s h got hs hp hne hall hprov hnext
    have hpres : (nextState (dedupFiles []) h got s).present = s.present ++ fileNames (dedupFiles [] got) := rfl
    show (srv.files.filter (fun f => decide (f.name ∉ (nextState (dedupFiles []) h got s).present))).length ≤ fuel
    rw [hpres]
    have hlt := filter_length_lt (fun f : DFile => decide (f.name ∉ s.present ++ fileNames (dedupFiles [] got)))
      (fun f : DFile => decide (f.name ∉ s.present)) srv.files
      (by
        intro x _ hx
        simp only [decide_eq_true_eq] at hx ⊢
        exact fun hin => hx (List.mem_append_left _ hin))
      (by
        cases hm : s.missing with
        | nil => exact absurd hm hne
        | cons m rest =>
          have hmm : m ∈ s.missing := by rw [hm]; exact List.mem_cons_self
          rcases mem_fileNames.1 (missing_is_file hwf.toWFFiles hs m hmm) with ⟨f, hf, hfn⟩
          refine ⟨f, hf, ?_, ?_⟩
          · rw [hfn]; simpa using hs.fresh m hmm
          · rw [hfn]
            have := List.mem_append_right s.present (hall m hmm)
            simp only [decide_eq_false_iff_not, Decidable.not_not]
            exact this)
    omega
  · intro h1 got _ _ _
    exact Nat.le_trans (List.length_filter_le _ _) hlim

/-! ### import distance -/

theorem within_roots_mono {files : List DFile} {R1 R2 : List Name} (hsub : ∀ r ∈ R1, r ∈ R2) {k : Nat} {n : Name}
    (hw : Within files R1 k n) : Within files R2 k n := by
  induction hw with
  | root hr => exact .root (hsub _ hr)
  | step _ hi ih => exact .step ih hi
  | mono _ ih => exact .mono ih

theorem reach_trans {files : List DFile} {R : List Name} {m g : Name}
    (h1 : Reach files R m) (h2 : Reach files [m] g) : Reach files R g := by
  rcases h2 with ⟨k2, hw⟩
  induction hw with
  | @root n hr =>
    have : n = m := by simpa using hr
    rw [this]; exact h1
  | step _ hi ih => rcases ih with ⟨k, hk⟩; exact ⟨k + 1, .step hk hi⟩
  | mono _ ih => exact ih

theorem reach_step {files : List DFile} {R : List Name} {a b : Name}
    (h1 : Reach files R a) (hi : Imports files a b) : Reach files R b := by
  rcases h1 with ⟨k, hk⟩; exact ⟨k + 1, .step hk hi⟩

theorem within_zero {files : List DFile} {R : List Name} {n : Name} (h : Within files R 0 n) : n ∈ R := by
  cases h with
  | root hr => exact hr

theorem within_succ {files : List DFile} {R : List Name} {k : Nat} {n : Name} (h : Within files R (k + 1) n) :
    Within files R k n ∨ ∃ a, Within files R k a ∧ Imports files a n := by
  cases h with
  | step hw hi => exact Or.inr ⟨_, hw, hi⟩
  | mono hw => exact Or.inl hw

theorem mem_rootNames {cfg : Cfg} {srv : Server} {r : Name} :
    r ∈ rootNames cfg srv ↔ ∃ f ∈ srv.files, f.name = r ∧ ∃ n, wanted cfg srv.listed n ∧ definesService f n := by
  unfold rootNames
  rw [mem_fileNames]
  constructor
  · rintro ⟨f, hf, rfl⟩
    rcases List.mem_filter.1 hf with ⟨hf1, hf2⟩
    rcases List.any_eq_true.1 hf2 with ⟨sv, hsv, hw⟩
    exact ⟨f, hf1, rfl, sv.name, by simpa using hw, sv, hsv, rfl⟩
  · rintro ⟨f, hf, rfl, n, hw, sv, hsv, rfl⟩
    exact ⟨f, List.mem_filter.2 ⟨hf, List.any_eq_true.2 ⟨sv, hsv, by simpa using hw⟩⟩, rfl⟩

/-- two files of a set with unique symbols that define the same service are the same file -/
theorem unique_definer : ∀ {files : List DFile}, (symbols files).Nodup → ∀ {f g : DFile} {n : Name},
    f ∈ files → g ∈ files → definesService f n → definesService g n → f = g := by
  intro files
  induction files with
  | nil => intro _ f g n hf; simp at hf
  | cons x rest ih =>
    intro hn f g n hf hg hdf hdg
    have hsym : symbols (x :: rest) = (x.messages ++ x.services.map (·.name)) ++ symbols rest := by
      simp [symbols]
    rw [hsym, List.nodup_append] at hn
    have hin : ∀ {y : DFile}, y ∈ rest → definesService y n → n ∈ symbols rest := by
      intro y hy hd
      rcases hd with ⟨sv, hsv, rfl⟩
      unfold symbols
      exact List.mem_flatMap.2 ⟨y, hy, List.mem_append_right _ (List.mem_map.2 ⟨sv, hsv, rfl⟩)⟩
    have hx : definesService x n → n ∈ x.messages ++ x.services.map (·.name) := by
      rintro ⟨sv, hsv, rfl⟩
      exact List.mem_append_right _ (List.mem_map.2 ⟨sv, hsv, rfl⟩)
    rcases List.mem_cons.1 hf with e1 | hf'
    · rcases List.mem_cons.1 hg with e2 | hg'
      · rw [e1, e2]
      · subst e1
        exact absurd rfl (hn.2.2 n (hx hdf) n (hin hg' hdg))
    · rcases List.mem_cons.1 hg with e2 | hg'
      · subst e2
        exact absurd rfl (hn.2.2 n (hx hdg) n (hin hf' hdf))
      · exact ih hn.2.1 hf' hg' hdf hdg

/-- (B) a conformant target whose answers stay inside the closure of the request: as many rounds as the
    breadth-first import depth below the wanted services' files suffice -/
theorem runStream_live_focused {cfg : Cfg} {srv : Server} {pol : Policy} {sched : Sched} (hwf : WF cfg srv)
    (hc : Conformant srv pol) (hfoc : Focused srv pol) (hfair : FairSched sched)
    (hno : cfg.onlyServices = false)
    (hdepth : ∀ n, Reach srv.files (rootNames cfg srv) n → Within srv.files (rootNames cfg srv) cfg.limit n) :
    ∃ h ok, runStream (dedupFiles []) cfg pol sched = (h, .ok ok) := by
  have hreachMissing : ∀ {s : Bfs}, LiveInv srv s →
      (∀ f ∈ s.descriptors, Reach srv.files (rootNames cfg srv) f.name) →
      ∀ m ∈ s.missing, Reach srv.files (rootNames cfg srv) m := by
    intro s hs hr m hm
    rcases hs.wantedBy m hm with ⟨f, hf, hd⟩
    exact reach_step (hr f hf) ⟨f, hs.own f hf, rfl, hd⟩
  refine runStream_live hwf hc hfair hno
    (fun fuel s => fuel ≤ cfg.limit ∧ (∀ f ∈ s.descriptors, Reach srv.files (rootNames cfg srv) f.name) ∧
      (∀ n, Within srv.files (rootNames cfg srv) (cfg.limit - fuel) n → n ∈ s.present)) ?_ ?_ ?_
  · rintro s hs ⟨_, hr, hw⟩
    cases hm : s.missing with
    | nil => rfl
    | cons m rest =>
      exfalso
      have hmm : m ∈ s.missing := by rw [hm]; exact List.mem_cons_self
      have := hw m (by simpa using hdepth m (hreachMissing hs hr m hmm))
      exact hs.fresh m hmm this
  · rintro fuel s h got hs ⟨hle, hr, hw⟩ hne hall hprov hnext
    refine ⟨by omega, ?_, ?_⟩
    · intro f hf
      have hf' : f ∈ s.descriptors ++ (dedupFiles [] got).filter (fun f => f.name ∉ s.present) := hf
      rcases List.mem_append.1 hf' with hf | hf
      · exact hr f hf
      · have hfg : f ∈ got := (mem_dedupFiles got [] f (List.mem_filter.1 hf).1).1
        rcases hprov f hfg with ⟨m, hm, h'', fs, e, hin⟩
        exact reach_trans (hreachMissing hs hr m hm) (hfoc.filename h'' m fs e f hin)
    · intro n hn
      show n ∈ s.present ++ fileNames (dedupFiles [] got)
      have hidx : cfg.limit - fuel = (cfg.limit - (fuel + 1)) + 1 := by omega
      rw [hidx] at hn
      rcases within_succ hn with hprev | ⟨a, ha, hi⟩
      · exact List.mem_append_left _ (hw n hprev)
      · have hap := hw a ha
        rcases mem_fileNames.1 ((hs.present a).1 hap) with ⟨f', hf', hfn⟩
        rcases hi with ⟨f, hf, hfa, hd⟩
        have : f' = f := eq_of_name_eq hwf.nodup (hs.own f' hf') hf (by rw [hfn, hfa])
        subst this
        rcases hs.deps f' hf' n hd with hp | hmiss
        · exact List.mem_append_left _ hp
        · exact List.mem_append_right _ (hall n hmiss)
  · intro h1 got hown hdef hprov
    refine ⟨Nat.le_refl _, ?_, ?_⟩
    · intro f hf
      have hfg : f ∈ got := (mem_dedupFiles got [] f hf).1
      rcases hprov f hfg with ⟨n, hn, h'', fs, e, hin⟩
      rcases hfoc.symbol h'' n fs e f hin with ⟨r, hr, hdr, hreach⟩
      have hroot : r.name ∈ rootNames cfg srv :=
        mem_rootNames.2 ⟨r, hr, rfl, n, wanted_of_mem_names hn, hdr⟩
      rcases hreach with ⟨k, hk⟩
      exact ⟨k, within_roots_mono (by intro x hx; have : x = r.name := by simpa using hx
                                      rw [this]; exact hroot) hk⟩
    · intro n hn
      rw [Nat.sub_self] at hn
      rcases mem_rootNames.1 (within_zero hn) with ⟨f, hf, hfn, sn, hw, hd⟩
      rcases hdef sn (mem_names_of_wanted hw) with ⟨g, hg, hdg⟩
      have : g = f := unique_definer hwf.symbols (hown g hg) hf hdg hd
      subst this
      show n ∈ fileNames (dedupFiles [] got)
      exact (dedupFiles_nil_names got n).2 (mem_fileNames.2 ⟨g, hg, hfn⟩)

/-! ### the registry: protodesc.NewFiles accepts what the BFS hands over, content is the target's -/

theorem nodupB_iff {α : Type} [DecidableEq α] : ∀ (l : List α), nodupB l = true ↔ l.Nodup := by
  intro l
  induction l with
  | nil => simp [nodupB]
  | cons a r ih => simp [nodupB, ih, List.nodup_cons]

theorem unique_owner {α β : Type} (g : α → List β) : ∀ {L : List α}, (L.flatMap g).Nodup →
    ∀ {a b : α} {x : β}, a ∈ L → b ∈ L → x ∈ g a → x ∈ g b → a = b := by
  intro L
  induction L with
  | nil => intro _ a b x ha; simp at ha
  | cons y rest ih =>
    intro hn a b x ha hb hxa hxb
    rw [List.flatMap_cons, List.nodup_append] at hn
    rcases List.mem_cons.1 ha with e1 | ha'
    · rcases List.mem_cons.1 hb with e2 | hb'
      · rw [e1, e2]
      · subst e1
        exact absurd rfl (hn.2.2 x hxa x (List.mem_flatMap.2 ⟨b, hb', hxb⟩))
    · rcases List.mem_cons.1 hb with e2 | hb'
      · subst e2
        exact absurd rfl (hn.2.2 x hxb x (List.mem_flatMap.2 ⟨a, ha', hxa⟩))
      · exact ih hn.2.1 ha' hb' hxa hxb

theorem nodup_flatMap_of_subset {α β : Type} (g : α → List β) {L : List α} (hL : (L.flatMap g).Nodup) :
    ∀ (ds : List α), ds.Nodup → (∀ a ∈ ds, a ∈ L) → (ds.flatMap g).Nodup := by
  intro ds
  induction ds with
  | nil => intro _ _; simp
  | cons a rest ih =>
    intro hn hsub
    rw [List.nodup_cons] at hn
    rw [List.flatMap_cons, List.nodup_append]
    refine ⟨(List.pairwise_flatMap.1 hL).1 a (hsub a List.mem_cons_self),
      ih hn.2 (fun x hx => hsub x (List.mem_cons_of_mem _ hx)), ?_⟩
    intro x hx y hy hxy
    subst hxy
    rcases List.mem_flatMap.1 hy with ⟨b, hb, hxb⟩
    have : a = b := unique_owner g hL (hsub a List.mem_cons_self) (hsub b (List.mem_cons_of_mem _ hb)) hx hxb
    subst this
    exact hn.1 hb

theorem nodup_of_nodup_names : ∀ {ds : List DFile}, (fileNames ds).Nodup → ds.Nodup := by
  intro ds
  induction ds with
  | nil => intro _; simp
  | cons a rest ih =>
    intro h
    simp only [fileNames, List.map_cons, List.nodup_cons] at h
    rw [List.nodup_cons]
    exact ⟨fun hin => h.1 (List.mem_map.2 ⟨a, hin, rfl⟩), ih h.2⟩

theorem exists_min_rank (rank : Name → Nat) : ∀ (fs : List DFile), fs ≠ [] →
    ∃ f ∈ fs, ∀ g ∈ fs, rank f.name ≤ rank g.name := by
  intro fs
  induction fs with
  | nil => intro h; exact absurd rfl h
  | cons a rest ih =>
    intro _
    cases hr : rest with
    | nil => exact ⟨a, List.mem_cons_self, by intro g hg; simp at hg; subst hg; exact Nat.le_refl _⟩
    | cons b r2 =>
      have : rest ≠ [] := by rw [hr]; simp
      rcases ih this with ⟨m, hm, hmin⟩
      rw [← hr]
      by_cases hle : rank a.name ≤ rank m.name
      · refine ⟨a, List.mem_cons_self, ?_⟩
        intro g hg
        rcases List.mem_cons.1 hg with e | hg'
        · subst e; exact Nat.le_refl _
        · exact Nat.le_trans hle (hmin g hg')
      · refine ⟨m, List.mem_cons_of_mem _ hm, ?_⟩
        intro g hg
        rcases List.mem_cons.1 hg with e | hg'
        · subst e; omega
        · exact hmin g hg'

/-- the topological peeling succeeds on any set whose imports go down a rank and are either already
    peeled or still in the set -/
theorem peel_ok (rank : Name → Nat) : ∀ (n : Nat) (done : List Name) (fs : List DFile),
    (∀ f ∈ fs, ∀ d ∈ f.deps, rank d < rank f.name) →
    (∀ f ∈ fs, ∀ d ∈ f.deps, d ∈ done ∨ d ∈ fileNames fs) →
    fs.length ≤ n → peel done n fs = true := by
  intro n
  induction n with
  | zero =>
    intro done fs _ _ hl
    have : fs = [] := List.length_eq_zero_iff.1 (Nat.le_zero.1 hl)
    subst this; simp [peel]
  | succ n ih =>
    intro done fs hrank hdeps hl
    cases hfs : fs with
    | nil => simp [peel]
    | cons a rest =>
      rw [← hfs]
      have hne : fs ≠ [] := by rw [hfs]; simp
      rcases exists_min_rank rank fs hne with ⟨m, hm, hmin⟩
      have hmready : (m.deps.all (· ∈ done)) = true := by
        rw [List.all_eq_true]
        intro d hd
        rcases hdeps m hm d hd with h | h
        · simpa using h
        · rcases mem_fileNames.1 h with ⟨g, hg, hgn⟩
          have h1 := hrank m hm d hd
          have h2 := hmin g hg
          rw [hgn] at h2
          omega
      have hmem : m ∈ fs.filter (fun f => f.deps.all (· ∈ done)) := List.mem_filter.2 ⟨hm, hmready⟩
      have hready : (fs.filter (fun f => f.deps.all (· ∈ done))).isEmpty = false := by
        cases hq : fs.filter (fun f => f.deps.all (· ∈ done)) with
        | nil => rw [hq] at hmem; simp at hmem
        | cons _ _ => rfl
      have hpeel : peel done (n + 1) fs =
          peel (done ++ fileNames (fs.filter (fun f => f.deps.all (· ∈ done)))) n
            (fs.filter (fun f => !(f.deps.all (· ∈ done)))) := by
        rw [hfs]
        simp only [peel]
        rw [← hfs, hready]
        simp
      rw [hpeel]
      apply ih
      · intro f hf; exact hrank f (List.mem_filter.1 hf).1
      · intro f hf d hd
        rcases hdeps f (List.mem_filter.1 hf).1 d hd with h | h
        · exact Or.inl (List.mem_append_left _ h)
        · rcases mem_fileNames.1 h with ⟨g, hg, hgn⟩
          by_cases hgr : (g.deps.all (· ∈ done)) = true
          · exact Or.inl (List.mem_append_right _ (mem_fileNames.2 ⟨g, List.mem_filter.2 ⟨hg, hgr⟩, hgn⟩))
          · exact Or.inr (mem_fileNames.2 ⟨g, List.mem_filter.2 ⟨hg, by simpa using hgr⟩, hgn⟩)
      · have hlt := filter_length_lt (fun f : DFile => !(f.deps.all (· ∈ done))) (fun _ => true) fs
          (by intro _ _ _; rfl) ⟨m, hm, rfl, by simp [hmready]⟩
        have : (fs.filter (fun _ => true)).length = fs.length := by simp
        omega

theorem newFiles_ok {files ds : List DFile} (hwf : WFFiles files) (hsub : ∀ f ∈ ds, f ∈ files)
    (hnd : (fileNames ds).Nodup) (hcl : Closed ds) : newFiles ds = .ok ds := by
  have h1 : nodupB (fileNames ds) = true := (nodupB_iff _).2 hnd
  have h2 : closedB ds = true := by
    unfold closedB
    rw [List.all_eq_true]
    intro f hf
    rw [List.all_eq_true]
    intro d hd
    simpa using hcl f hf d hd
  have h3 : acyclicB ds = true := by
    rcases hwf.acyclic with ⟨rank, hrank⟩
    unfold acyclicB
    apply peel_ok rank
    · intro f hf; exact hrank f (hsub f hf)
    · intro f hf d hd; exact Or.inr (hcl f hf d hd)
    · exact Nat.le_refl _
  have h4 : nodupB (symbols ds) = true := by
    rw [nodupB_iff]
    unfold symbols
    exact nodup_flatMap_of_subset _ hwf.symbols ds (nodup_of_nodup_names hnd) hsub
  have h5 : typesResolveB ds = true := by
    have hsrv := hwf.types
    unfold typesResolveB at hsrv ⊢
    rw [List.all_eq_true] at hsrv ⊢
    intro f hf
    have hf0 := hsrv f (hsub f hf)
    simp only [List.all_eq_true] at hf0 ⊢
    intro sv hsv m hm
    have hvis : ∀ x, x ∈ f.messages ++ (files.filter (fun g => g.name ∈ f.deps)).flatMap (·.messages) →
        x ∈ f.messages ++ (ds.filter (fun g => g.name ∈ f.deps)).flatMap (·.messages) := by
      intro x hx
      rcases List.mem_append.1 hx with hx | hx
      · exact List.mem_append_left _ hx
      · rcases List.mem_flatMap.1 hx with ⟨g, hg, hxg⟩
        rcases List.mem_filter.1 hg with ⟨hg1, hg2⟩
        have hgd : g.name ∈ f.deps := by simpa using hg2
        rcases mem_fileNames.1 (hcl f hf g.name hgd) with ⟨g', hg', hgn⟩
        have : g' = g := eq_of_name_eq hwf.nodup (hsub g' hg') hg1 hgn
        subst this
        exact List.mem_append_right _ (List.mem_flatMap.2 ⟨g', List.mem_filter.2 ⟨hg', hg2⟩, hxg⟩)
    have := hf0 sv hsv m hm
    simp only [Bool.and_eq_true, decide_eq_true_eq] at this ⊢
    exact ⟨hvis _ this.1, hvis _ this.2⟩
  unfold newFiles
  simp [h1, h2, h3, h4, h5]

/-- service names are among the symbols -/
theorem serviceNames_sublist : ∀ (files : List DFile),
    ((files.flatMap (·.services)).map (·.name)).Sublist (symbols files) := by
  intro files
  induction files with
  | nil => simp [symbols]
  | cons a rest ih =>
    have h1 : symbols (a :: rest) = (a.messages ++ a.services.map (·.name)) ++ symbols rest := by simp [symbols]
    rw [h1, List.flatMap_cons, List.map_append]
    exact List.Sublist.append (List.sublist_append_right _ _) ih

theorem find_unique : ∀ (l : List DService) (sv : DService), sv ∈ l →
    (∀ a ∈ l, a.name = sv.name → a = sv) → l.find? (fun s => s.name == sv.name) = some sv := by
  intro l
  induction l with
  | nil => intro sv h; simp at h
  | cons x rest ih =>
    intro sv hin huniq
    rw [List.find?_cons]
    by_cases hx : x.name = sv.name
    · have : x = sv := huniq x List.mem_cons_self hx
      subst this; simp
    · have hx' : (x.name == sv.name) = false := by simpa using hx
      rw [hx']
      rcases List.mem_cons.1 hin with e | hin'
      · exact absurd (by rw [e]) hx
      · exact ih sv hin' (fun a ha => huniq a (List.mem_cons_of_mem _ ha))

/-- the registry's definition of a service is the target's -/
theorem findService_eq {files ds : List DFile} (hsym : (symbols files).Nodup) (hsub : ∀ f ∈ ds, f ∈ files)
    {f : DFile} {n : Name} (hf : f ∈ ds) (hd : definesService f n) :
    findService ds n = findService files n := by
  rcases hd with ⟨sv, hsv, rfl⟩
  have hnd : ((files.flatMap (·.services)).map (·.name)).Nodup := (serviceNames_sublist files).nodup hsym
  have hall : ∀ a ∈ files.flatMap (·.services), a.name = sv.name → a = sv := by
    intro a ha hn
    exact eq_of_key_eq (α := DService) (fun s => s.name) (l := files.flatMap (·.services)) hnd ha
      (List.mem_flatMap.2 ⟨f, hsub f hf, hsv⟩) hn
  have hmem : ∀ a ∈ ds.flatMap (·.services), a ∈ files.flatMap (·.services) := by
    intro a ha
    rcases List.mem_flatMap.1 ha with ⟨g, hg, hag⟩
    exact List.mem_flatMap.2 ⟨g, hsub g hg, hag⟩
  unfold findService
  rw [find_unique _ sv (List.mem_flatMap.2 ⟨f, hf, hsv⟩) (fun a ha => hall a (hmem a ha)),
    find_unique _ sv (List.mem_flatMap.2 ⟨f, hsub f hf, hsv⟩) hall]

/-! ### parsing the registry into the description -/

theorem mem_insertBy {α : Type} (le : α → α → Bool) (a : α) : ∀ (l : List α) (x : α),
    x ∈ insertBy le a l ↔ (x = a ∨ x ∈ l) := by
  intro l
  induction l with
  | nil => intro x; simp [insertBy]
  | cons b r ih =>
    intro x
    unfold insertBy
    split
    · simp
    · simp only [List.mem_cons, ih]
      constructor
      · rintro (h | h | h)
        · exact Or.inr (Or.inl h)
        · exact Or.inl h
        · exact Or.inr (Or.inr h)
      · rintro (h | h | h)
        · exact Or.inr (Or.inl h)
        · exact Or.inl h
        · exact Or.inr (Or.inr h)

theorem mem_sortBy {α : Type} (le : α → α → Bool) : ∀ (l : List α) (x : α), x ∈ sortBy le l ↔ x ∈ l := by
  intro l
  induction l with
  | nil => intro x; simp [sortBy]
  | cons a r ih => intro x; simp [sortBy, mem_insertBy, ih]

theorem findService_name {files : List DFile} {n : Name} {sd : DService}
    (h : findService files n = some sd) : sd.name = n := by
  unfold findService at h
  have := List.find?_some h
  simpa using this

theorem parseTarget_eq {reg files : List DFile} {ns : List Name}
    (h : ∀ n ∈ ns, findService reg n = findService files n) :
    parseTarget reg ns = ns.map (contractOf files) := by
  unfold parseTarget
  apply List.map_congr_left
  intro n hn
  rw [h n hn]
  unfold contractOf
  cases hf : findService files n with
  | none => rfl
  | some sd =>
    have := findService_name hf
    simp only [parseService]
    rw [this]

/-- every service of a parsed description is the registry's definition, or name-only when the
    registry does not define it -/
theorem parseTarget_exact (reg : List DFile) (ns : List Name) :
    parseTarget reg ns = ns.map (contractOf reg) :=
  parseTarget_eq (fun _ _ => rfl)

/-! ### completeness: what a successful conversation with a conformant target amounts to -/

/-- the conversation reproduced the target's contract -/
structure Complete (cfg : Cfg) (srv : Server) (ok : StreamOk) : Prop where
  names : ok.names = listServiceNames cfg srv.listed
  own : ∀ f ∈ ok.files, f ∈ srv.files
  nodup : (fileNames ok.files).Nodup
  closed : Closed ok.files
  registry : newFiles ok.files = .ok ok.files
  exact : ∀ ns, (∀ n ∈ ns, n ∈ ok.names) → parseTarget ok.files ns = ns.map (contractOf srv.files)

theorem complete_of_ok {cfg : Cfg} {srv : Server} {pol : Policy} {sched : Sched} (hwf : WF cfg srv)
    (hc : Conformant srv pol) (hno : cfg.onlyServices = false) {h : History} {ok : StreamOk}
    (he : runStream (dedupFiles []) cfg pol sched = (h, .ok ok)) : Complete cfg srv ok := by
  rcases runStream_safe cfg pol sched (fun f => f ∈ srv.files) hc.honest h ok hno he with
    ⟨raw, hraw, hnames, hcl, hnd, hown, hsym⟩
  have hraw' : raw = srv.listed := by
    have := hc.list []
    rw [hraw] at this
    injection this
  subst hraw'
  refine ⟨hnames, hown, hnd, hcl, newFiles_ok hwf.toWFFiles hown hnd hcl, ?_⟩
  intro ns hns
  apply parseTarget_eq
  intro n hn
  have hn' := hns n hn
  rcases hsym n hn' with ⟨h'', fs, e1, e2⟩
  rw [hnames] at hn'
  rcases hc.symbol h'' n (hwf.defined n (wanted_of_mem_names hn')) with ⟨fs', e1', f, hf, hd⟩
  rw [e1] at e1'
  injection e1' with e1'
  subst e1'
  rcases mem_fileNames.1 (e2 f hf) with ⟨g, hg, hgn⟩
  have : g = f := eq_of_name_eq hwf.nodup (hown g hg) (hc.honest h'' _ _ e1 f hf) hgn
  subst this
  exact findService_eq hwf.symbols hown hg hd

theorem newFiles_eq {fs reg : List DFile} (h : newFiles fs = .ok reg) : reg = fs := by
  unfold newFiles at h
  repeat (split at h; · simp at h)
  injection h with h; exact h.symm

/-- the description delivered for a complete conversation: the target's contract for exactly the
    wanted services — or nothing new when it equals what was delivered last -/
theorem finish_complete {cfg : Cfg} {srv : Server} {ok : StreamOk} (hk : Complete cfg srv ok)
    (last : Option Snapshot) :
    (finish last ok = (last, .unchanged) ∧ last = some (snapshotOf ok)) ∨
    finish last ok = (some (snapshotOf ok), .update
      { services := (sortBy bytesLe (listServiceNames cfg srv.listed)).map (contractOf srv.files),
        files := ok.files }) := by
  unfold finish
  by_cases hl : last = some (snapshotOf ok)
  · left; simp [hl]
  · right
    simp only [hl, ↓reduceIte, hk.registry]
    have : parseTarget ok.files (snapshotOf ok).services = (snapshotOf ok).services.map (contractOf srv.files) :=
      hk.exact _ (by intro n hn; exact (mem_sortBy bytesLe ok.names n).1 hn)
    rw [this]
    simp [snapshotOf, hk.names]

end GB.C05
