import GB.Base.Bytes
import GB.Base.LTS
/-
  C13 — executable model of the streaming framing code (core-only Lean).

  transcoding/json.go   jsonEncoder.Encode           → `jsonLine`
  transcoding/http.go   sseResponseStream.Transcode  → `sseEvent`
                        StandardTranscoder.Bind      → `bind` (marshaler choice, SSE negotiation, refusals)
                        standardResponseTranscoder.ContentType → `responseContentType` (fixed code; D15 = `…PreFix`)
  webbridge/http.go     TranscodedHTTPBridge.ServeHTTP / httpStream.send → `httpOutcome`
  webbridge/websocket.go gwsStream.send → `wsOut`; websocketError → `websocketError`; closeReason → `closeReasonWhole` (= `closeReason` ∘ `toValidUTF8`);
                        gwsStream.Recv / gwsHandler.OnMessage / ServeHTTP's close(done) → the LTS `step`
  gws                   Conn.emitError truncates the close payload to 125 bytes → `gwsClosePayload` (environment)
-/
namespace GB.C13
open GB

/-! ## bytes -/

def LF : UInt8 := 0x0A
def CR : UInt8 := 0x0D
def SP : UInt8 := 0x20
def COLON : UInt8 := 0x3A

def sseMime : Bytes := [116, 101, 120, 116, 47, 101, 118, 101, 110, 116, 45, 115, 116, 114, 101, 97, 109]
def jsonMime : Bytes := [97, 112, 112, 108, 105, 99, 97, 116, 105, 111, 110, 47, 106, 115, 111, 110]
def binMime : Bytes := [97, 112, 112, 108, 105, 99, 97, 116, 105, 111, 110, 47, 120, 45, 112, 114, 111, 116, 111, 98, 117, 102]
/-- `"data:"` -/
def dataPrefix : Bytes := [100, 97, 116, 97, 58]

/-! ## HTTP stream encoders -/

/-- `jsonEncoder.Encode`: `writer.Write(append(b, jsonDelimiter))`. -/
def jsonLine (b : Bytes) : Bytes := b ++ [LF]

/-- `sseResponseStream.Transcode`: `slices.Concat("data:", b, "\n\n")`. -/
def sseEvent (b : Bytes) : Bytes := dataPrefix ++ b ++ [LF, LF]

/-- The response body after the payloads `ps` have been sent, one `Transcode` per message. -/
def streamBody (sse : Bool) (ps : List Bytes) : Bytes :=
  ps.flatMap (fun p => if sse then sseEvent p else jsonLine p)

/-! ## Bind: marshaler choice and SSE negotiation -/

structure Marshaler where
  mime : Bytes
  binary : Bool
  /-- implements `StreamMarshaler` -/
  stream : Bool
deriving DecidableEq, Repr

/-- `mimeMarshalers[mt]`: the map is filled in list order, so the last marshaler of a MIME type wins. -/
def lookup (ms : List Marshaler) (mt : Bytes) : Option Marshaler :=
  (ms.filter (fun m => m.mime = mt)).getLast?

def lowerByte (b : UInt8) : UInt8 := if 65 ≤ b ∧ b ≤ 90 then b + 32 else b

def isSpace (b : UInt8) : Bool := b = 0x20 || b = 0x09 || b = 0x0A || b = 0x0D

def trimLeft : Bytes → Bytes
  | [] => []
  | b :: bs => if isSpace b then trimLeft bs else b :: bs

def trim (v : Bytes) : Bytes := (trimLeft (trimLeft v).reverse).reverse

/-- `mime.ParseMediaType` restricted to values whose parameters are well formed (generator contract):
    the part before the first `;`, trimmed, lower-cased. -/
def mediaType (v : Bytes) : Bytes := (trim (v.takeWhile (· ≠ 0x3B))).map lowerByte

inductive BindErr
  | unsupportedMedia         -- 415
  | sseClientStreaming       -- InvalidArgument
  | sseNotServerStreaming    -- InvalidArgument
deriving DecidableEq, Repr

structure BindReq where
  accept : List Bytes        -- values of the Accept header, verbatim
  contentType : List Bytes   -- values of the Content-Type header, verbatim
  cs : Bool
  ss : Bool

structure Bound where
  reqM : Marshaler
  respM : Marshaler
  isSSE : Bool
deriving DecidableEq, Repr

def pickRequest (ms : List Marshaler) (dflt : Marshaler) (ct : List Bytes) : Except BindErr Marshaler :=
  if ct = [] then .ok dflt
  else match ct.findSome? (fun v => lookup ms (mediaType v)) with
    | some m => .ok m
    | none => .error .unsupportedMedia

/-- Accept values are compared verbatim, "no need to parse the Accept header". -/
def pickResponse (ms : List Marshaler) (accept : List Bytes) : Option Marshaler :=
  accept.findSome? (lookup ms)

def bind (ms : List Marshaler) (dflt : Marshaler) (r : BindReq) : Except BindErr Bound :=
  match pickRequest ms dflt r.contentType with
  | .error e => .error e
  | .ok reqM =>
    let respM := (pickResponse ms r.accept).getD reqM
    let isSSE := (pickResponse ms r.accept).isNone && r.accept.contains sseMime
    if isSSE && r.cs then .error .sseClientStreaming
    else if isSSE && !r.ss then .error .sseNotServerStreaming
    else .ok { reqM, respM, isSSE }

/-- `standardResponseTranscoder.ContentType` after the D15 fix. -/
def responseContentType (b : Bound) : Bytes := if b.isSSE then sseMime else b.respM.mime

/-- `ContentType(google.rpc.Status)`: an error status is marshalled by `Transcode` as one plain document, never
    framed as an SSE event, so it keeps the marshaler's type also for an SSE-bound transcoder (repo fix from the
    C10 slice: "keep the marshaler's content type for error statuses of SSE requests"). -/
def statusContentType (b : Bound) : Bytes := b.respM.mime

/-- …and as it was before the fix (ignores `isSSE`). -/
def responseContentTypePreFix (b : Bound) : Bytes := b.respM.mime

/-! ## where record framing is applied

  `standardResponseTranscoder.Transcode` marshals one message (or status) and returns the marshaler's bare
  document — for every binding, SSE or not. Framing is the business of the stream encoders only
  (`jsonEncoder.Encode` appends the line feed, `sseResponseStream.Transcode` wraps into `data:…\n\n`);
  the unary HTTP body and every WebSocket message (`gwsStream.send`) are built from `Transcode` directly. -/

/-- `standardResponseTranscoder.Transcode` on top of the marshaler's output `p` -/
def transcodeMsg (_b : Bound) (p : Bytes) : Bytes := p

/-- seeded variant C13-m10: framing moved into the per-message `Transcode` of an SSE-bound transcoder -/
def transcodeMsgM10 (b : Bound) (p : Bytes) : Bytes := if b.isSSE then dataPrefix ++ p ++ [LF, LF] else p

/-! ## TranscodedHTTPBridge.ServeHTTP, as far as framing is concerned -/

/-- grpc-gateway `HTTPStatusFromCode`. -/
def httpStatusFromCode : Nat → Nat
  | 0 => 200 | 1 => 499 | 2 => 500 | 3 => 400 | 4 => 504 | 5 => 404 | 6 => 409 | 7 => 403 | 16 => 401
  | 8 => 429 | 9 => 400 | 10 => 409 | 11 => 400 | 12 => 501 | 13 => 500 | 14 => 503 | 15 => 500
  | _ => 500

/-- How the scripted target ends the call. -/
inductive End
  | ok
  | hang
  | err (code : Nat) (msg : Bytes)
deriving DecidableEq, Repr

structure HttpOutcome where
  status : Nat
  /-- `none`: no Content-Type header is set by the bridge -/
  ct : Option Bytes
  /-- `none`: the body is an error rendering (property C10), not predicted here -/
  body : Option Bytes
deriving DecidableEq, Repr

def bindErrStatus : BindErr → Nat
  | .unsupportedMedia => 415
  | _ => 400

/-- `wholeBody`: the response body path selects the whole message (the binary test marshaler
    only marshals whole messages). `ps`: the marshaler's output for each scripted response. -/
def httpOutcome (ms : List Marshaler) (dflt : Marshaler) (r : BindReq) (wholeBody : Bool)
    (ps : List Bytes) (e : End) : HttpOutcome :=
  match bind ms dflt r with
  | .error be => { status := bindErrStatus be, ct := none, body := none }   -- writeTextError
  | .ok b =>
    let ct := responseContentType b
    if r.cs then { status := 501, ct := some ct, body := none }
    else if r.ss then
      if !b.respM.stream then { status := 400, ct := some (statusContentType b), body := none }
      else match ps, e with
        | [], .err c _ => { status := httpStatusFromCode c, ct := some (statusContentType b), body := none }
        | [], _ => { status := 200, ct := none, body := some [] }
        | ps, _ => { status := 200, ct := some ct, body := some (streamBody b.isSSE ps) }
    else
      match ps, e with
        | p :: _, .ok =>
          -- the binary test marshaler only marshals whole messages: Internal once a response is marshaled
          if b.respM.binary && !wholeBody then { status := 500, ct := some ct, body := none }
          else { status := 200, ct := some ct, body := if b.respM.binary then none else some p }
        | _, .err c _ => { status := httpStatusFromCode c, ct := some ct, body := none }
        | _, _ => { status := 503, ct := some ct, body := none }

/-! ## HTTP: the server-streaming loop as a sequence of write / flush events

  `ProxyForwarder.forwardOutgoingToIncoming`: `for { outgoing.Recv(msg); Incoming.Send(msg) }`;
  `httpStream.send` with a stream transcoder: `respstream.Transcode(msg)` — one `Write` of one framed record
  (`jsonEncoder.Encode` / `sseResponseStream.Transcode`) — then `flusher.Flush()`. -/

inductive WEv
  /-- the target's `Recv` returned response `i` (0-based) -/
  | targetRecv (i : Nat)
  /-- one `Write` on the response -/
  | write (b : Bytes)
  /-- `http.Flusher.Flush` -/
  | flush
deriving DecidableEq, Repr

/-- `httpStream.send` on a streamed response -/
def sendEvents (sse : Bool) (p : Bytes) : List WEv := [.write (if sse then sseEvent p else jsonLine p), .flush]

/-- `send` as it would be without the flush (seeded variant M2) -/
def sendEventsNoFlush (sse : Bool) (p : Bytes) : List WEv := [.write (if sse then sseEvent p else jsonLine p)]

/-- the response loop of the forwarder from message index `i` on -/
def streamTraceFrom (send : Bytes → List WEv) : Nat → List Bytes → List WEv
  | _, [] => []
  | i, p :: rest => .targetRecv i :: send p ++ streamTraceFrom send (i + 1) rest

def streamTrace (sse : Bool) (ps : List Bytes) : List WEv := streamTraceFrom (sendEvents sse) 0 ps

/-- the response as the client can see it: written bytes sit in the server's buffer until a flush -/
structure Wire where
  buffered : Bytes
  visible : Bytes
deriving DecidableEq, Repr

def wireStep (w : Wire) : WEv → Wire
  | .write b => { w with buffered := w.buffered ++ b }
  | .flush => { buffered := [], visible := w.visible ++ w.buffered }
  | .targetRecv _ => w

def wireRun (evs : List WEv) : Wire := evs.foldl wireStep { buffered := [], visible := [] }

/-- model-free discipline on a trace: whenever the target is asked for the next message, and at the end,
    nothing written is still unflushed (`dirty` = something was written since the last flush) -/
def flushedBeforeRecv : Bool → List WEv → Bool
  | dirty, [] => !dirty
  | dirty, .targetRecv _ :: r => !dirty && flushedBeforeRecv false r
  | _, .write _ :: r => flushedBeforeRecv true r
  | _, .flush :: r => flushedBeforeRecv false r

/-- the regenerated shape of `httpStream.send`'s streaming block: the statement right after the one that calls
    `respstream.Transcode` is `s.flusher.Flush()` -/
def flushFollowsTranscode (shape : List String) : Bool :=
  match shape.dropWhile (· != "transcode") with
  | "transcode" :: "flush" :: rest => !rest.contains "transcode"
  | _ => false

/-- each stream encoder performs exactly one `Write` per message, with the framed record as its argument -/
def encoderWritesOK (ws : List (String × List String)) (delim : String) : Bool :=
  ws == [("jsonEncoder.Encode", ["append(b,jsonDelimiter)"]),
         ("sseResponseStream.Transcode", ["slices.Concat([]byte(\"data:\"),b,[]byte(\"\\n\\n\"))"])] &&
  delim == "'\\n'"

/-! ## WebSocket: outgoing messages -/

structure WsMsg where
  binary : Bool
  payload : Bytes
deriving DecidableEq, Repr

/-- `gwsStream.send`: one `WriteMessage` per response, opcode from the transcoder's binary flag. -/
def wsSend (binary : Bool) (p : Bytes) : WsMsg := { binary, payload := p }

def wsOut (binary : Bool) (ps : List Bytes) : List WsMsg := ps.map (wsSend binary)

/-- the WebSocket messages of a call bound as `b` (the handshake's headers went through `bind`): built from
    the per-message `Transcode`, never from a stream encoder -/
def wsFrames (tc : Bound → Bytes → Bytes) (b : Bound) (ps : List Bytes) : List WsMsg :=
  ps.map (fun p => wsSend b.respM.binary (tc b p))

/-- the HTTP stream body of a call bound as `b`: stream encoder on top of `Transcode` (with the variant's
    `Transcode` the SSE encoder writes its result as is) -/
def httpStreamBody (b : Bound) (ps : List Bytes) : Bytes := streamBody b.isSSE (ps.map (transcodeMsg b))

def httpStreamBodyM10 (b : Bound) (ps : List Bytes) : Bytes :=
  ps.flatMap (fun p => if b.isSSE then transcodeMsgM10 b p else jsonLine (transcodeMsgM10 b p))

/-! ## WebSocket: close frame -/

def codeName : Nat → Bytes
  | 0 => [79, 75]
  | 1 => [67, 97, 110, 99, 101, 108, 101, 100]
  | 2 => [85, 110, 107, 110, 111, 119, 110]
  | 3 => [73, 110, 118, 97, 108, 105, 100, 65, 114, 103, 117, 109, 101, 110, 116]
  | 4 => [68, 101, 97, 100, 108, 105, 110, 101, 69, 120, 99, 101, 101, 100, 101, 100]
  | 5 => [78, 111, 116, 70, 111, 117, 110, 100]
  | 6 => [65, 108, 114, 101, 97, 100, 121, 69, 120, 105, 115, 116, 115]
  | 7 => [80, 101, 114, 109, 105, 115, 115, 105, 111, 110, 68, 101, 110, 105, 101, 100]
  | 8 => [82, 101, 115, 111, 117, 114, 99, 101, 69, 120, 104, 97, 117, 115, 116, 101, 100]
  | 9 => [70, 97, 105, 108, 101, 100, 80, 114, 101, 99, 111, 110, 100, 105, 116, 105, 111, 110]
  | 10 => [65, 98, 111, 114, 116, 101, 100]
  | 11 => [79, 117, 116, 79, 102, 82, 97, 110, 103, 101]
  | 12 => [85, 110, 105, 109, 112, 108, 101, 109, 101, 110, 116, 101, 100]
  | 13 => [73, 110, 116, 101, 114, 110, 97, 108]
  | 14 => [85, 110, 97, 118, 97, 105, 108, 97, 98, 108, 101]
  | 15 => [68, 97, 116, 97, 76, 111, 115, 115]
  | 16 => [85, 110, 97, 117, 116, 104, 101, 110, 116, 105, 99, 97, 116, 101, 100]
  | n => [67, 111, 100, 101, 40] ++ (Nat.toDigits 10 n).map (fun c => UInt8.ofNat c.toNat) ++ [41]   -- "Code(n)"

/-- `"code X: "` -/
def reasonPrefix (c : Nat) : Bytes := [99, 111, 100, 101, 32] ++ codeName c ++ [58, 32]

def msgExpectedText : Bytes := [114, 101, 99, 101, 105, 118, 101, 100, 32, 98, 105, 110, 97, 114, 121, 32, 109, 101, 115, 115, 97, 103, 101, 32, 105, 110, 115, 116, 101, 97, 100, 32, 111, 102, 32, 116, 101, 120, 116]
def msgExpectedBinary : Bytes := [114, 101, 99, 101, 105, 118, 101, 100, 32, 116, 101, 120, 116, 32, 109, 101, 115, 115, 97, 103, 101, 32, 105, 110, 115, 116, 101, 97, 100, 32, 111, 102, 32, 98, 105, 110, 97, 114, 121]
def msgUnaryEOF : Bytes := [103, 114, 112, 99, 98, 114, 105, 100, 103, 101, 58, 32, 117, 110, 101, 120, 112, 101, 99, 116, 101, 100, 32, 69, 79, 70, 32, 102, 114, 111, 109, 32, 115, 101, 114, 118, 101, 114, 32, 102, 111, 114, 32, 117, 110, 97, 114, 121, 32, 114, 101, 115, 112, 111, 110, 115, 101, 58, 32, 69, 79, 70]

/-- What `Forward` returned. -/
inductive FwdResult
  | ok
  /-- a gRPC status error (from the target, the forwarder or a transcoder) -/
  | status (code : Nat) (msg : Bytes)
  /-- `errExpectedBinary` (`true`) / `errExpectedText` (`false`): status InvalidArgument, matched by `errors.Is` -/
  | wrongType (expectedBinary : Bool)
deriving DecidableEq, Repr

/-- `websocketError`. -/
def websocketError : FwdResult → Nat × Bytes
  | .ok => (1000, [])
  | .status c m => (1001, reasonPrefix c ++ m)
  | .wrongType eb => (1003, reasonPrefix 3 ++ (if eb then msgExpectedBinary else msgExpectedText))

/-- `utf8.RuneStart`. -/
def runeStart (b : UInt8) : Bool := b &&& 0xC0 != 0x80

/-! ### UTF-8 as Go's `unicode/utf8` accepts it

  A byte-at-a-time acceptor with the accept ranges of `utf8.first` / `utf8.acceptRanges`: no overlong forms
  (`C0`, `C1`, `E0 80..9F`, `F0 80..8F`), no surrogates (`ED A0..BF`), nothing above U+10FFFF (`F4 90..`, `F5..FF`). -/

inductive U8
  | start          -- between runes
  | c1             -- one continuation byte to go
  | c2 | c2e0 | c2ed   -- two to go (generic / after E0: A0..BF / after ED: 80..9F)
  | c3 | c3f0 | c3f4   -- three to go (generic / after F0: 90..BF / after F4: 80..8F)
  | bad
deriving DecidableEq, Repr

def utf8Step (q : U8) (b : UInt8) : U8 :=
  match q with
  | .start =>
    if b.toNat < 0x80 then .start else if b.toNat < 0xC2 then .bad else if b.toNat < 0xE0 then .c1
    else if b.toNat = 0xE0 then .c2e0 else if b.toNat = 0xED then .c2ed else if b.toNat < 0xF0 then .c2
    else if b.toNat = 0xF0 then .c3f0 else if b.toNat < 0xF4 then .c3 else if b.toNat = 0xF4 then .c3f4 else .bad
  | .c1 => if 0x80 ≤ b.toNat ∧ b.toNat < 0xC0 then .start else .bad
  | .c2 => if 0x80 ≤ b.toNat ∧ b.toNat < 0xC0 then .c1 else .bad
  | .c2e0 => if 0xA0 ≤ b.toNat ∧ b.toNat < 0xC0 then .c1 else .bad
  | .c2ed => if 0x80 ≤ b.toNat ∧ b.toNat < 0xA0 then .c1 else .bad
  | .c3 => if 0x80 ≤ b.toNat ∧ b.toNat < 0xC0 then .c2 else .bad
  | .c3f0 => if 0x90 ≤ b.toNat ∧ b.toNat < 0xC0 then .c2 else .bad
  | .c3f4 => if 0x80 ≤ b.toNat ∧ b.toNat < 0x90 then .c2 else .bad
  | .bad => .bad

/-- `utf8.Valid` / `utf8.ValidString` -/
def ValidUTF8 (s : Bytes) : Bool := s.foldl utf8Step .start == .start

/-- the first `n` bytes of `s` exist and form whole runes -/
def okPrefix (s : Bytes) (n : Nat) : Bool := n ≤ s.length && (s.take n).foldl utf8Step .start == .start

/-- `utf8.DecodeRuneInString(s)`, as far as its width is concerned: `some n` = a well-formed rune of `n`
    bytes starts `s`; `none` = `(RuneError, 1)` (or `s` is empty) -/
def runeLen (s : Bytes) : Option Nat :=
  if okPrefix s 1 then some 1 else if okPrefix s 2 then some 2 else if okPrefix s 3 then some 3
  else if okPrefix s 4 then some 4 else none

/-- `"\uFFFD"` -/
def replacementChar : Bytes := [0xEF, 0xBF, 0xBD]

/-- the main loop of `strings.ToValidUTF8(s, "\uFFFD")`: well-formed runes are copied, every *run* of bytes
    that start no well-formed rune becomes one replacement character (`invalid` = the previous byte was
    such a byte). `fuel` ≥ the remaining length. (The function's first loop only finds the first invalid
    byte and copies what precedes it — the same as running this loop from the start.) -/
def toValidAux : Nat → Bool → Bytes → Bytes
  | 0, _, _ => []
  | _, _, [] => []
  | fuel + 1, invalid, c :: rest =>
    match runeLen (c :: rest) with
    | some n => (c :: rest).take n ++ toValidAux fuel false ((c :: rest).drop n)
    | none => (if invalid then [] else replacementChar) ++ toValidAux fuel true rest

def toValidUTF8 (s : Bytes) : Bytes := toValidAux s.length false s

/-- `for n > 0 && !utf8.RuneStart(reason[n]) { n-- }` -/
def truncPoint (r : Bytes) : Nat → Nat
  | 0 => 0
  | n + 1 => match r[n + 1]? with
    | some b => if runeStart b then n + 1 else truncPoint r n
    | none => n + 1

def maxCloseReasonLen : Nat := 123

/-- `closeReason` (webbridge/websocket.go) AFTER its first statement `reason = strings.ToValidUTF8(reason, "\uFFFD")`:
    cut at most 123 bytes, backing off to a rune start. (Name kept from the earlier rounds — C17 refers to it.) -/
def closeReason (r : Bytes) : Bytes :=
  if r.length ≤ maxCloseReasonLen then r else r.take (truncPoint r maxCloseReasonLen)

/-- `closeReason` (webbridge/websocket.go), the whole function: `strings.ToValidUTF8(reason, "\uFFFD")`, then the cut. -/
def closeReasonWhole (r : Bytes) : Bytes := closeReason (toValidUTF8 r)

/-- gws `Conn.emitError`: code ++ reason, cut to 125 bytes (environment fact). -/
def gwsClosePayload (code : Nat) (reason : Bytes) : Bytes :=
  ([UInt8.ofNat (code / 256), UInt8.ofNat (code % 256)] ++ reason).take 125

/-- The close frame a client sees when `ServeHTTP` ends with `res`: (code, reason). -/
def closeFrame (res : FwdResult) : Nat × Bytes :=
  let (c, r) := websocketError res
  (c, (gwsClosePayload c (closeReasonWhole r)).drop 2)

/-- Before the fix the reason went to gws unmodified. -/
def closeFramePreFix (res : FwdResult) : Nat × Bytes :=
  let (c, r) := websocketError res
  (c, (gwsClosePayload c r).drop 2)

/-! ## WebSocket: incoming frames — the gwsStream hand-off as an LTS -/

structure Frame where
  /-- opcode ≠ text -/
  binary : Bool
  /-- the request transcoder rejects the payload (only looked at when the binding has a request body) -/
  malformed : Bool
  /-- content of the request message the payload decodes to -/
  text : Bytes
deriving DecidableEq, Repr

structure Cfg where
  /-- `Method.ClientStreaming` -/
  cs : Bool
  /-- `Binding.RequestBodyPath != ""` -/
  body : Bool
  /-- binary flag of the request transcoder's `ContentType()` -/
  expectBinary : Bool
deriving DecidableEq, Repr

/-- `gwsReadEvent` -/
inductive Ev
  | data (f : Frame)
  | wrongType
deriving DecidableEq, Repr

def typeOK (cfg : Cfg) (f : Frame) : Bool := f.binary == cfg.expectBinary

/-- the event `OnMessage` builds for a frame -/
def evOf (cfg : Cfg) (f : Frame) : Ev := if typeOK cfg f then .data f else .wrongType

/-- the read-loop goroutine -/
inductive Reader
  | idle                -- in `ReadLoop`, between two frames
  | offering (f : Frame)  -- `OnMessage` in `select { events <- evOf f; <-done }`
  | closing             -- after the select, before `if !cs { close(events) }`
  | exited              -- `ReadLoop` returned
deriving DecidableEq, Repr

/-- why a `Recv` returned an error -/
inductive RecvErr
  | wrongType   -- `event.err`
  | transcode   -- the request transcoder rejected the payload (InvalidArgument)
  | eof         -- `events` closed
  | ctx         -- `ctx.Done()`
deriving DecidableEq, Repr

/-- the forwarder's use of `Recv` -/
inductive RecvSt
  | idle       -- not inside `Recv`
  | waiting    -- `Recv` in `select { <-events; <-ctx.Done() }`
  | stopped    -- a `Recv` returned an error; the forwarder does not call it again
deriving DecidableEq, Repr

structure St where
  /-- frames on the wire, not yet read by the read loop -/
  pending : List Frame
  reader : Reader
  recv : RecvSt
  alreadyRead : Bool
  eventsClosed : Bool
  done : Bool
  cancelled : Bool
  /-- number of `Recv` calls started -/
  calls : Nat
  /-- history: every frame the client sent -/
  sent : List Frame
  /-- history: frames the read loop took off the wire -/
  consumed : List Frame
  /-- history: request bodies that reached `reqtc.Transcode` successfully, in order -/
  delivered : List Frame
  /-- history: `Recv` calls answered without a body (no body expected) -/
  emptyBodies : Nat
  result : Option RecvErr
deriving DecidableEq, Repr

def init : St :=
  { pending := [], reader := .idle, recv := .idle, alreadyRead := false, eventsClosed := false, done := false,
    cancelled := false, calls := 0, sent := [], consumed := [], delivered := [], emptyBodies := 0, result := none }

inductive Lbl
  | clientSend (f : Frame)  -- the client writes a frame
  | read                    -- the read loop takes the next frame and runs `OnMessage` up to its select
  | handoff                 -- rendezvous of `events <- ev` with `Recv`'s `<-events`
  | onDone                  -- `OnMessage`'s select takes `<-done`
  | finishOnMessage         -- `if !cs { close(events) }`, back to the loop
  | recvCall                -- the forwarder calls `Recv`
  | recvClosed              -- `Recv` sees `events` closed: `io.EOF`
  | recvCtx                 -- `Recv`'s select takes `<-ctx.Done()`
  | cancel                  -- the call's context is cancelled
  | closeDone               -- `ServeHTTP`: `close(stream.done)` (after `Forward` returned)
  | readerExit              -- the socket is closed, `ReadLoop` returns
deriving DecidableEq, Repr

/-- One step of the hand-off protocol. The forwarder (`ProxyForwarder`) calls `Recv` in a loop for
    client-streaming methods and exactly once otherwise; `close(done)` happens after `Forward`
    returned, i.e. when no `Recv` is in progress and none will follow. -/
def step (cfg : Cfg) (s : St) : Lbl → Option St
  | .clientSend f => some { s with pending := s.pending ++ [f], sent := s.sent ++ [f] }
  | .read =>
    match s.reader, s.pending with
    | .idle, f :: rest =>
      let s := { s with pending := rest, consumed := s.consumed ++ [f] }
      -- `ClientStreaming || (RequestBodyPath != "" && alreadyRead.CompareAndSwap(false, true))`
      if cfg.cs then some { s with reader := .offering f }
      else if cfg.body && !s.alreadyRead then some { s with alreadyRead := true, reader := .offering f }
      else some s
    | _, _ => none
  | .handoff =>
    match s.reader, s.recv with
    | .offering f0, .waiting =>
      if s.eventsClosed then none else
      match evOf cfg f0 with
      | .wrongType => some { s with reader := .closing, recv := .stopped, result := some .wrongType }
      | .data f =>
        if f.malformed && cfg.body then some { s with reader := .closing, recv := .stopped, result := some .transcode }
        else some { s with reader := .closing, recv := .idle, delivered := s.delivered ++ [f] }
    | _, _ => none
  | .onDone =>
    match s.reader with
    | .offering _ => if s.done then some { s with reader := .closing } else none
    | _ => none
  | .finishOnMessage =>
    match s.reader with
    | .closing => some { s with reader := .idle, eventsClosed := s.eventsClosed || !cfg.cs }
    | _ => none
  | .recvCall =>
    if s.recv = .idle ∧ s.done = false ∧ (cfg.cs = true ∨ s.calls = 0) then
      if cfg.cs || cfg.body then some { s with recv := .waiting, calls := s.calls + 1 }
      else some { s with calls := s.calls + 1, emptyBodies := s.emptyBodies + 1 }
    else none
  | .recvClosed =>
    if s.recv = .waiting ∧ s.eventsClosed = true then some { s with recv := .stopped, result := some .eof } else none
  | .recvCtx =>
    if s.recv = .waiting ∧ s.cancelled = true then some { s with recv := .stopped, result := some .ctx } else none
  | .cancel => some { s with cancelled := true }
  -- `close(stream.done)` runs once, after `Forward` returned (no `Recv` in progress)
  | .closeDone => if s.recv ≠ .waiting ∧ s.done = false then some { s with done := true } else none
  -- `go func() { defer wg.Done(); defer cancel(); socket.ReadLoop() }()`: when the loop returns the call's
  -- context is cancelled (and `wg.Wait()` in the epilogue is released)
  | .readerExit =>
    match s.reader with
    | .idle => some { s with reader := .exited, cancelled := true }
    | _ => none

/-! ## WebSocket: progress of the hand-off (who can move, who waits for whom) -/

/-- `ServeHTTP` has returned: `close(done)` ran and `wg.Wait()` was released by the read-loop goroutine. -/
def returned (s : St) : Bool := s.done && s.reader == .exited

/-- moves of the environment: the client writes a frame; the request context is cancelled from outside.
    (`readerExit` — the socket read fails because the client closed or dropped the connection — is the third
    one while the call is live; once the close frame is out it is forced by the read deadline, see `internalAt`.) -/
def isEnv : Lbl → Bool
  | .clientSend _ => true
  | .cancel => true
  | _ => false

/-- moves that need nobody outside the bridge: the read loop (`read`, `onDone`, `finishOnMessage`), the
    rendezvous (`handoff`), `Recv` returning (`recvClosed`, `recvCtx`), and — ENVIRONMENT ASSUMPTION on the
    forwarder, stated here and nowhere else — the forwarder calling `Recv` again (`recvCall`: in a loop for
    client streaming, once otherwise) or `Forward` returning (`closeDone`: whenever no `Recv` is in progress;
    C01/C02 prove that ProxyForwarder returns after a `Recv` error or the end of the target's stream).
    After `close(done)` the epilogue has set a read deadline (`wsCloseTimeout`), so `ReadLoop` returns even
    if the client stays silent: `readerExit` is then internal too. -/
def internalAt (s : St) : Lbl → Bool
  | .clientSend _ => false
  | .cancel => false
  | .readerExit => s.done
  | _ => true

/-- the one way the call legitimately stands still: `Recv` waits for a frame, the read loop is idle with
    nothing to read, nobody has cancelled — everything waits for the CLIENT, who can always move
    (`clientSend`, or close the socket: `readerExit`, which cancels the context) -/
def awaitingClient (s : St) : Bool :=
  !s.done && s.recv == .waiting && s.reader == .idle && s.pending.isEmpty && !s.cancelled && !s.eventsClosed

def readerRank : Reader → Nat
  | .offering _ => 5 | .closing => 2 | .idle => 1 | .exited => 0

def recvRank : RecvSt → Nat
  | .idle => 2 | .waiting => 1 | .stopped => 0

/-- variant: strictly decreased by every move that is not the environment's -/
def rank (s : St) : Nat :=
  6 * s.pending.length + readerRank s.reader + recvRank s.recv + (if s.done then 0 else 1) + (if s.calls = 0 then 1 else 0)

/-! ## WebSocket: the sequential reading of the hand-off (used by the driver and the theorems) -/

/-- a frame becomes a request message: right opcode and, when the binding has a request body
    (otherwise `transcodeFunc` never looks at the payload), a payload the transcoder accepts -/
def frameOK (cfg : Cfg) (f : Frame) : Bool := typeOK cfg f && !(f.malformed && cfg.body)

/-- the frames that can become request messages at all -/
def effective (cfg : Cfg) (fs : List Frame) : List Frame :=
  if cfg.cs then fs else if cfg.body then fs.take 1 else []

/-- the frames that become request messages: up to the first refused one -/
def expectedDelivered (cfg : Cfg) (fs : List Frame) : List Frame := (effective cfg fs).takeWhile (frameOK cfg)

/-- the frame that ends the call, if any -/
def firstBad (cfg : Cfg) (fs : List Frame) : Option Frame := ((effective cfg fs).dropWhile (frameOK cfg)).head?

/-! ## The root constructor `grpcbridge.NewWebBridge` (bridge.go): from options to per-bridge transcoders -/

/-- `transcoding.DefaultJSONMarshaler` as far as negotiation is concerned -/
def jsonMarshaler : Marshaler := { mime := jsonMime, binary := false, stream := true }

/-- the `BridgeOption`s that touch `transcoderOpts` -/
inductive BridgeOpt
  | withMarshalers (ms : List Marshaler)
  | withDefaultMarshaler (m : Marshaler)
deriving DecidableEq, Repr

/-- `transcoding.StandardTranscoderOpts` (`none` = nil, the field was never set) -/
structure TranscoderOpts where
  marshalers : Option (List Marshaler)
  dflt : Option Marshaler
deriving DecidableEq, Repr

def applyBridgeOpt (o : TranscoderOpts) : BridgeOpt → TranscoderOpts
  | .withMarshalers ms => { o with marshalers := some ms }
  | .withDefaultMarshaler m => { o with dflt := some m }

/-- `for _, opt := range opts { opt.applyBridge(&options) }` starting from `defaultBridgeOptions()` -/
def bridgeOptions (opts : List BridgeOpt) : TranscoderOpts := opts.foldl applyBridgeOpt { marshalers := none, dflt := none }

/-- a `StandardTranscoder`: what `Bind` consults -/
structure Transcoder where
  ms : List Marshaler
  dflt : Marshaler
deriving DecidableEq, Repr

/-- `NewStandardTranscoder(opts.withDefaults())` -/
def newStandardTranscoder (o : TranscoderOpts) : Transcoder :=
  { ms := o.marshalers.getD [jsonMarshaler], dflt := o.dflt.getD jsonMarshaler }

/-- the four handlers behind `WebBridge` -/
inductive Bridge
  | transcodedHTTP | transcodedWS | grpcWebHTTP | grpcWebWS
deriving DecidableEq, Repr

/-- the entry points a transcoded call can come in through (`WebBridge.ServeHTTP` dispatch) -/
inductive Entry
  | http | sse | ws
deriving DecidableEq, Repr

def entryBridge : Entry → Bridge
  | .http => .transcodedHTTP
  | .sse => .transcodedHTTP
  | .ws => .transcodedWS

/-- What `NewWebBridge` puts into the `Transcoder` field of each bridge's Opts (`none`: not set — the
    gRPC-Web handlers have no such field): the one `transcoder := NewStandardTranscoder(options.transcoderOpts)`. -/
def wiredTranscoder (opts : List BridgeOpt) : Bridge → Option Transcoder
  | .transcodedHTTP => some (newStandardTranscoder (bridgeOptions opts))
  | .transcodedWS => some (newStandardTranscoder (bridgeOptions opts))
  | .grpcWebHTTP => none
  | .grpcWebWS => none

/-- the seeded variant C13-m6: the WebSocket Opts literal lost its `Transcoder` line -/
def wiredTranscoderM6 (opts : List BridgeOpt) : Bridge → Option Transcoder
  | .transcodedHTTP => some (newStandardTranscoder (bridgeOptions opts))
  | _ => none

/-- `webbridge.…Opts.withDefaults`: a nil `Transcoder` becomes `NewStandardTranscoder(StandardTranscoderOpts{})` -/
def effectiveTranscoder (w : Option Transcoder) : Transcoder :=
  w.getD (newStandardTranscoder { marshalers := none, dflt := none })

/-- the transcoder that serves a request arriving through entry point `e` -/
def entryTranscoder (wiring : Bridge → Option Transcoder) (e : Entry) : Transcoder :=
  effectiveTranscoder (wiring (entryBridge e))

/-- the negotiation result for a request arriving through entry point `e` -/
def entryBind (wiring : Bridge → Option Transcoder) (e : Entry) (r : BindReq) : Except BindErr Bound :=
  bind (entryTranscoder wiring e).ms (entryTranscoder wiring e).dflt r

/-! ### the same plumbing read off the regenerated fact `Generated.webBridgeWiring` -/

/-- one row of the fact: (constructor, Opts type, fields the type declares, fields the value sets) -/
abbrev WiringRow := String × String × List String × List (String × String)

def ctorName : Bridge → String
  | .transcodedHTTP => "NewTranscodedHTTPBridge"
  | .transcodedWS => "NewTranscodedWebSocketBridge"
  | .grpcWebHTTP => "NewGRPCWebBridge"
  | .grpcWebWS => "NewGRPCWebSocketBridge"

/-- the expression a constructor's Opts value sets `field` to -/
def fieldExpr (rows : List WiringRow) (ctor field : String) : Option String :=
  match rows.find? (fun r => r.1 == ctor) with
  | some r => (r.2.2.2.find? (fun kv => kv.1 == field)).map (·.2)
  | none => none

/-- every row whose Opts type declares `field` sets it, and all of them to the expression `e` -/
def fieldShared (rows : List WiringRow) (field e : String) : Bool :=
  rows.all (fun r => !r.2.2.1.contains field || (r.2.2.2.find? (fun kv => kv.1 == field)).map (·.2) == some e)

/-- the wiring the source has now: all four constructors are called exactly once; `Transcoder`,
    `Forwarder` and `Logger` are set wherever the Opts type has them, each to one shared expression -/
def wiringOK (rows : List WiringRow) (transcoderInit : String) : Bool :=
  rows.map (·.1) == ["NewGRPCWebBridge", "NewGRPCWebSocketBridge", "NewTranscodedHTTPBridge", "NewTranscodedWebSocketBridge"] &&
  fieldShared rows "Transcoder" "transcoder" &&
  fieldShared rows "Forwarder" "options.common.forwarder" &&
  fieldShared rows "Logger" "options.common.logger" &&
  transcoderInit == "transcoding.NewStandardTranscoder(options.transcoderOpts)"

/-- `wiredTranscoder` as the source spells it: a bridge gets the shared transcoder iff its Opts value sets
    `Transcoder: transcoder` -/
def wiredFrom (rows : List WiringRow) (opts : List BridgeOpt) (b : Bridge) : Option Transcoder :=
  if fieldExpr rows (ctorName b) "Transcoder" == some "transcoder" then some (newStandardTranscoder (bridgeOptions opts)) else none

end GB.C13
