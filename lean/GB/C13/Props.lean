import GB.C13.Proofs3
import GB.Generated.Facts
import GB.C09.Props
/-
  C13 — streamed responses are framed one message per record in the transport's format.
  Property theorems only; lemmas live in Proofs.lean, the model in Model.lean, the client-side
  readers (`splitLines`, `parseSSE`) in Spec.lean.
-/
set_option linter.unusedSimpArgs false
set_option linter.unusedVariables false
open GB GB.C13

/-! ## HTTP: record splitting is lossless -/

/-- Newline-delimited JSON: a client that cuts the body at line feeds reads back exactly the
    payloads, one record per message, in order — for every number of messages and every payload
    without a raw line feed (assumption on the marshaler's compact output, checked on every run). -/
theorem C13_lines (bs : List Bytes) (h : ∀ b ∈ bs, LF ∉ b) :
    splitLines (streamBody false bs) = bs := by
  unfold splitLines
  exact splitLines_stream bs (fun b hb x hx e => h b hb (e ▸ hx))

/-- The assumption is necessary: a payload with a raw line feed is read as two records.
    (This is what `json.MarshalIndent` did to list/map bodies before the fix.) -/
theorem C13_lines_fails_on_raw_newline :
    splitLines (streamBody false [[91, 10, 93]]) = [[91], [93]] := by decide

/-- Server-Sent Events: a WHATWG-conformant event-stream reader dispatches exactly the payloads,
    one event per message, in order — for payloads without raw LF/CR and not starting with a space. -/
theorem C13_sse (bs : List Bytes) (h : ∀ b ∈ bs, LF ∉ b ∧ CR ∉ b ∧ b.head? ≠ some SP) :
    parseSSE (streamBody true bs) = bs := by
  unfold parseSSE
  have := sse_stream bs [] (fun b hb => ⟨fun x hx => ⟨fun e => (h b hb).1 (e ▸ hx), fun e => (h b hb).2.1 (e ▸ hx)⟩, (h b hb).2.2⟩)
  have h0 : sseInit = cleanSt [] := rfl
  rw [h0, this]
  simp [cleanSt]

/-- With a multi-line payload only the first line reaches the SSE client. -/
theorem C13_sse_fails_on_raw_newline :
    parseSSE (streamBody true [[91, 10, 93]]) = [[91]] := by decide

example : splitLines (streamBody false [[123, 125], [], [34, 92, 110, 34]]) = [[123, 125], [], [34, 92, 110, 34]] := by decide
example : parseSSE (streamBody true [[123, 125], [], [100, 97, 116, 97, 58]]) = [[123, 125], [], [100, 97, 116, 97, 58]] := by decide

/-- Nothing but records: after the last message the body ends exactly at a record boundary — no
    unterminated line on plain HTTP, no partial line or undispatched data for SSE. (The driver demands
    the same of every observed stream body; seeded C13-m5 appended an unframed status document.) -/
theorem C13_stream_no_residue (bs : List Bytes) (h : ∀ b ∈ bs, LF ∉ b ∧ CR ∉ b ∧ b.head? ≠ some SP) :
    lineRest (streamBody false bs) = [] ∧ sseClean (streamBody true bs) = true := by
  constructor
  · unfold lineRest
    exact lineRest_stream bs (fun b hb x hx e => (h b hb).1 (e ▸ hx))
  · unfold sseClean
    have := sse_stream bs [] (fun b hb => ⟨fun x hx => ⟨fun e => (h b hb).1 (e ▸ hx), fun e => (h b hb).2.1 (e ▸ hx)⟩, (h b hb).2.2⟩)
    have h0 : sseInit = cleanSt [] := rfl
    rw [h0, this]
    simp [cleanSt]

/-- …which a status document written after the records violates (the C13-m5 shape `{"a"}\n{}` / `data:x\n\n{}`). -/
theorem C13_stream_residue_witness :
    lineRest ([123, 125, 10] ++ [123, 125]) = [123, 125] ∧ sseClean ([100, 97, 116, 97, 58, 120, 10, 10] ++ [123, 125]) = false := by
  decide

/-! ## SSE negotiation, refusals, Content-Type -/

/-- SSE is negotiated iff `Accept` carries `text/event-stream` and no marshaler matched `Accept`. -/
theorem C13_sse_negotiation (ms : List Marshaler) (d : Marshaler) (r : BindReq) (b : Bound)
    (h : bind ms d r = .ok b) :
    b.isSSE = true ↔ (sseMime ∈ r.accept ∧ ∀ a ∈ r.accept, lookup ms a = none) := by
  unfold GB.C13.bind at h
  cases hp : pickRequest ms d r.contentType with
  | error e => simp [hp] at h
  | ok m =>
    simp only [hp] at h
    split at h
    · simp at h
    · split at h
      · simp at h
      · simp only [Except.ok.injEq] at h
        subst h
        simp only [Bool.and_eq_true, Option.isNone_iff_eq_none, List.contains_iff_mem, pickResponse,
          List.findSome?_eq_none_iff]
        exact ⟨fun ⟨a, b⟩ => ⟨b, a⟩, fun ⟨a, b⟩ => ⟨b, a⟩⟩

/-- SSE asked for a client-streaming or non-server-streaming method is refused with
    InvalidArgument (HTTP 400), whatever else the request says. -/
theorem C13_sse_refused (ms : List Marshaler) (d : Marshaler) (r : BindReq) (m : Marshaler)
    (hreq : pickRequest ms d r.contentType = .ok m)
    (hacc : sseMime ∈ r.accept) (hnone : ∀ a ∈ r.accept, lookup ms a = none)
    (hm : r.cs = true ∨ r.ss = false) :
    ∃ e, bind ms d r = .error e ∧ (e = .sseClientStreaming ∨ e = .sseNotServerStreaming) ∧ bindErrStatus e = 400 := by
  have hpr : pickResponse ms r.accept = none := by
    simp only [pickResponse, List.findSome?_eq_none_iff]; exact hnone
  have hc : r.accept.contains sseMime = true := by simp [hacc]
  unfold GB.C13.bind
  simp only [hreq, hpr, Option.isNone_none, hc, Bool.and_self, Bool.true_and]
  by_cases hcs : r.cs = true
  · exact ⟨.sseClientStreaming, by simp [hcs], Or.inl rfl, rfl⟩
  · have hss : r.ss = false := by rcases hm with h | h; exact absurd h hcs; exact h
    exact ⟨.sseNotServerStreaming, by simp [hcs, hss], Or.inr rfl, rfl⟩

/-- On the HTTP bridge the SSE refusal comes first: a client-streaming (incl. bidi) or
    non-server-streaming call that asks for SSE is answered 400 by `Bind`, not by the bridge's
    later "client streaming through HTTP not supported" (501) check. -/
theorem C13_http_sse_refusal_first (ms : List Marshaler) (d : Marshaler) (r : BindReq) (m : Marshaler)
    (hreq : pickRequest ms d r.contentType = .ok m)
    (hacc : sseMime ∈ r.accept) (hnone : ∀ a ∈ r.accept, lookup ms a = none)
    (hm : r.cs = true ∨ r.ss = false) (whole : Bool) (ps : List Bytes) (e : End) :
    (httpOutcome ms d r whole ps e).status = 400 := by
  obtain ⟨be, hb, _, hs⟩ := C13_sse_refused ms d r m hreq hacc hnone hm
  unfold httpOutcome
  rw [hb]
  exact hs

/-- …and it is accepted, as SSE, for a server-streaming method. -/
theorem C13_sse_accepted (ms : List Marshaler) (d : Marshaler) (r : BindReq) (m : Marshaler)
    (hreq : pickRequest ms d r.contentType = .ok m)
    (hacc : sseMime ∈ r.accept) (hnone : ∀ a ∈ r.accept, lookup ms a = none)
    (hcs : r.cs = false) (hss : r.ss = true) :
    bind ms d r = .ok { reqM := m, respM := m, isSSE := true } := by
  have hpr : pickResponse ms r.accept = none := by
    simp only [pickResponse, List.findSome?_eq_none_iff]; exact hnone
  have hc : r.accept.contains sseMime = true := by simp [hacc]
  unfold GB.C13.bind
  simp [hreq, hpr, hc, hcs, hss, hacc]

/-- An SSE response is served as `text/event-stream` (the fixed `ContentType`). -/
theorem C13_sse_content_type (b : Bound) (h : b.isSSE = true) : responseContentType b = sseMime := by
  simp [responseContentType, h]

/-- D15: before the fix the SSE stream carried the marshaler's Content-Type. -/
theorem C13_sse_content_type_prefix_fails :
    ∃ b : Bound, b.isSSE = true ∧ responseContentTypePreFix b = jsonMime ∧ jsonMime ≠ sseMime :=
  ⟨{ reqM := ⟨jsonMime, false, true⟩, respM := ⟨jsonMime, false, true⟩, isSSE := true }, rfl, rfl, by decide⟩

/-- End to end on the bridge model: a negotiated SSE call that sends `ps ≠ []` answers 200,
    `text/event-stream`, and a body a conformant client reads back as exactly `ps`. -/
theorem C13_http_sse_stream (ms : List Marshaler) (d : Marshaler) (r : BindReq) (m : Marshaler) (e : End)
    (ps : List Bytes) (hreq : pickRequest ms d r.contentType = .ok m) (hstream : m.stream = true)
    (hacc : sseMime ∈ r.accept) (hnone : ∀ a ∈ r.accept, lookup ms a = none)
    (hcs : r.cs = false) (hss : r.ss = true) (hne : ps ≠ [])
    (hsafe : ∀ b ∈ ps, LF ∉ b ∧ CR ∉ b ∧ b.head? ≠ some SP) (whole : Bool) :
    ∃ body, httpOutcome ms d r whole ps e = { status := 200, ct := some sseMime, body := some body } ∧
      parseSSE body = ps := by
  refine ⟨streamBody true ps, ?_, C13_sse ps hsafe⟩
  unfold httpOutcome
  rw [C13_sse_accepted ms d r m hreq hacc hnone hcs hss]
  simp only [hcs, Bool.false_eq_true, ↓reduceIte, hss, hstream, Bool.not_true, responseContentType]
  cases ps with
  | nil => exact absurd rfl hne
  | cons p rest => cases e <;> rfl

/-! ## WebSocket, client → target: the hand-off between the read loop and `Recv` -/

/-- Safety, for every interleaving of client writes, read loop, `Recv`, cancellation and close:
    what has reached the request transcoder is always a prefix of the frames the property
    allows — the client's frames in order (client streaming), only the first (otherwise), up to
    the first refused frame. Nothing is duplicated, reordered or invented. -/
theorem C13_ws_in_safe (cfg : Cfg) (s : St) (h : GB.LTS.Reachable (step cfg) init s) :
    s.delivered <+: expectedDelivered cfg s.sent := by
  have inv := inv_reachable cfg s h
  unfold expectedDelivered
  have h1 : s.delivered <+: (effective cfg s.consumed).takeWhile (frameOK cfg) :=
    prefix_takeWhile _ _ _ inv.pre inv.allOK
  have h2 : effective cfg s.consumed <+: effective cfg s.sent :=
    effective_prefix cfg _ _ (by rw [inv.hist]; exact List.prefix_append _ _)
  exact List.IsPrefix.trans h1 (takeWhile_prefix_mono _ _ _ h2)

/-- No loss while the call is live: once the read loop has caught up (nothing pending, no
    `OnMessage` in flight) and the call has neither ended nor failed, *every* allowed frame has
    been delivered: all client frames for client streaming, exactly the first one otherwise. -/
theorem C13_ws_in_complete (cfg : Cfg) (s : St) (h : GB.LTS.Reachable (step cfg) init s)
    (hp : s.pending = []) (hr : ∀ f, s.reader ≠ .offering f) (hd : s.done = false) (hres : s.result = none) :
    s.delivered = effective cfg s.sent := by
  have inv := inv_reachable cfg s h
  have : s.sent = s.consumed := by rw [inv.hist, hp]; simp
  rw [this]
  exact inv.flightN hr hd hres

/-- The two readings of `effective`: the property's "each client message becomes one request
    message (only the first for non-client-streaming methods)". -/
theorem C13_ws_in_client_streaming (cfg : Cfg) (fs : List Frame) (h : cfg.cs = true) : effective cfg fs = fs := by
  simp [effective, h]

theorem C13_ws_in_first_only (cfg : Cfg) (fs : List Frame) (h : cfg.cs = false) (hb : cfg.body = true) :
    effective cfg fs = fs.take 1 := by
  simp [effective, h, hb]

/-- A binding without request body never consumes a frame as a request: the single request
    message is built without waiting (`Recv` does not wait when no body is expected). -/
theorem C13_ws_in_no_body (cfg : Cfg) (s : St) (h : GB.LTS.Reachable (step cfg) init s)
    (hcs : cfg.cs = false) (hb : cfg.body = false) : s.delivered = [] ∧ s.emptyBodies ≤ 1 := by
  have inv := inv_reachable cfg s h
  constructor
  · have := inv.pre
    simpa [effective, hcs, hb] using this
  · have := inv.calls1 hcs
    have := inv.empt
    omega

/-- A frame of the wrong type ends the call with close code 1003: when `Recv` has returned the
    wrong-type error, the frames before the offending one (and only those) were delivered, the
    offending frame is the first refused frame of the client's sequence, and the close frame
    built from that error carries 1003 and the gRPC code InvalidArgument. -/
theorem C13_ws_wrong_type_1003 (cfg : Cfg) (s : St) (h : GB.LTS.Reachable (step cfg) init s)
    (hres : s.result = some .wrongType) :
    s.delivered = expectedDelivered cfg s.sent ∧
    (∃ f, firstBad cfg s.sent = some f ∧ typeOK cfg f = false) ∧
    (closeFrame (.wrongType cfg.expectBinary)).1 = 1003 ∧
    reasonPrefix 3 <+: (closeFrame (.wrongType cfg.expectBinary)).2 := by
  have inv := inv_reachable cfg s h
  obtain ⟨f, hf, hbad⟩ := inv.badType hres
  have hsent : s.delivered ++ [f] <+: effective cfg s.sent :=
    List.IsPrefix.trans hf (effective_prefix cfg _ _ (by rw [inv.hist]; exact List.prefix_append _ _))
  have hfo : frameOK cfg f = false := by simp [frameOK, hbad]
  have := takeWhile_of_bad (frameOK cfg) _ _ f hsent inv.allOK hfo
  refine ⟨this.1.symm, ⟨f, this.2, hbad⟩, ?_, ?_⟩
  · rw [closeFrame_reason]; rfl
  · rw [closeFrame_reason]
    simp only [websocketError]
    have hfix : ∀ eb : Bool, closeReasonWhole (reasonPrefix 3 ++ (if eb then msgExpectedBinary else msgExpectedText)) =
        reasonPrefix 3 ++ (if eb then msgExpectedBinary else msgExpectedText) := by decide
    rw [hfix]
    exact List.prefix_append _ _

/-- The same for a payload the request transcoder rejects: delivered = everything before it. -/
theorem C13_ws_in_refused_exact (cfg : Cfg) (s : St) (h : GB.LTS.Reachable (step cfg) init s)
    (hres : s.result = some .wrongType ∨ s.result = some .transcode) :
    s.delivered = expectedDelivered cfg s.sent ∧ (firstBad cfg s.sent).isSome = true := by
  have inv := inv_reachable cfg s h
  obtain ⟨f, hf, hbad⟩ := inv.bad hres
  have hsent : s.delivered ++ [f] <+: effective cfg s.sent :=
    List.IsPrefix.trans hf (effective_prefix cfg _ _ (by rw [inv.hist]; exact List.prefix_append _ _))
  have := takeWhile_of_bad (frameOK cfg) _ _ f hsent inv.allOK hbad
  exact ⟨this.1.symm, by unfold firstBad; rw [this.2]; rfl⟩

/-! ## WebSocket, target → client -/

/-- One WebSocket message per `Send`, in order, payload untouched, opcode = the codec's binary flag. -/
theorem C13_ws_out (binary : Bool) (ps : List Bytes) :
    (wsOut binary ps).length = ps.length ∧ (wsOut binary ps).map (·.payload) = ps ∧
    ∀ m ∈ wsOut binary ps, m.binary = binary := by
  refine ⟨by simp [wsOut], ?_, ?_⟩
  · simp [wsOut, wsSend, Function.comp_def]
  · intro m hm
    simp only [wsOut, List.mem_map] at hm
    obtain ⟨p, _, rfl⟩ := hm
    rfl

/-! ## WebSocket: close frame -/

/-- A clean end of the call closes the socket with 1000 and an empty reason. -/
theorem C13_close_clean : closeFrame .ok = (1000, []) := by decide

/-- An error closes with a non-1000 code and a reason that — for EVERY gRPC code (a uint32: the 17 named ones
    and `Code(n)`) and EVERY status message, valid UTF-8 or not — starts with `code <gRPC code>: `, is at most
    123 bytes, IS VALID UTF-8 (so the client reports code and reason instead of failing the connection), is a
    prefix of the sanitised full reason `strings.ToValidUTF8(reason, "\uFFFD")`, and loses at most 3 bytes to the
    rune-boundary back-off. No hypothesis on the message is left (round 5; formerly `hstart`). -/
theorem C13_close_error (c : Nat) (m : Bytes) (hc : c < 2 ^ 32) :
    (closeFrame (.status c m)).1 = 1001 ∧
    reasonPrefix c <+: (closeFrame (.status c m)).2 ∧
    (closeFrame (.status c m)).2.length ≤ 123 ∧
    ValidUTF8 (closeFrame (.status c m)).2 = true ∧
    (closeFrame (.status c m)).2 <+: toValidUTF8 (reasonPrefix c ++ m) ∧
    (closeFrame (.status c m)).2 <+: reasonPrefix c ++ toValidUTF8 m ∧
    (123 < (toValidUTF8 (reasonPrefix c ++ m)).length → 120 ≤ (closeFrame (.status c m)).2.length) := by
  rw [closeFrame_reason]
  simp only [websocketError]
  have hv := toValidUTF8_valid (reasonPrefix c ++ m)
  have hpre : reasonPrefix c <+: toValidUTF8 (reasonPrefix c ++ m) := by
    rw [toValidUTF8_ascii_prefix _ _ (reasonPrefix_ascii c hc)]; exact List.prefix_append _ _
  have hl := reasonPrefix_len c hc
  refine ⟨trivial, closeReason_keeps_prefix_valid _ _ (by omega) hpre hv, closeReasonWhole_length _,
    closeReason_valid _ hv, closeReason_prefix _, ?_, closeReason_loses_le3 _ hv⟩
  rw [← toValidUTF8_ascii_prefix _ _ (reasonPrefix_ascii c hc)]
  exact closeReason_prefix _

/-- `codes.Code.String()` of a code without a name: `Code(<decimal>)` — the prefix the close reason of such a
    status starts with (e.g. `code Code(17): `, `code Code(4294967295): `). -/
theorem C13_close_unknown_code_prefix :
    reasonPrefix 17 = [99, 111, 100, 101, 32, 67, 111, 100, 101, 40, 49, 55, 41, 58, 32] ∧
    reasonPrefix 4294967295 = [99, 111, 100, 101, 32, 67, 111, 100, 101, 40, 52, 50, 57, 52, 57, 54, 55, 50, 57, 53, 41, 58, 32] ∧
    (∀ c, c < 2 ^ 32 → (reasonPrefix c).length ≤ 25 ∧ ∀ x ∈ reasonPrefix c, x.toNat < 0x80) :=
  ⟨by decide, by decide, fun c hc => ⟨reasonPrefix_len c hc, reasonPrefix_ascii c hc⟩⟩

/-- `strings.ToValidUTF8`: the result is valid UTF-8 for every input. -/
theorem C13_toValidUTF8_valid (s : Bytes) : ValidUTF8 (toValidUTF8 s) = true := toValidUTF8_valid s

/-- The cut on valid UTF-8 (what `closeReasonWhole` does after sanitising): the result is valid, a prefix, at most
    123 bytes, and when something is cut at least 120 bytes remain; the cut is at 0 or right before a byte
    that starts a rune — never inside a rune. Valid UTF-8 never has four continuation bytes in a row, which
    is what bounds the back-off loop. -/
theorem C13_close_cut_valid (v : Bytes) (hv : ValidUTF8 v = true) :
    ValidUTF8 (closeReason v) = true ∧ closeReason v <+: v ∧ (closeReason v).length ≤ 123 ∧
    (123 < v.length → 120 ≤ (closeReason v).length) :=
  ⟨closeReason_valid v hv, closeReason_prefix v, closeReason_length v, closeReason_loses_le3 v hv⟩

/-- What `ValidUTF8` rejects, as Go's `utf8.Valid` does: overlong forms, surrogates, code points above
    U+10FFFF, stray continuation bytes, truncated runes; and accepts the boundary code points. -/
theorem C13_validUTF8_boundaries :
    ValidUTF8 [0xC0, 0x80] = false ∧ ValidUTF8 [0xC1, 0xBF] = false ∧ ValidUTF8 [0xE0, 0x9F, 0xBF] = false ∧
    ValidUTF8 [0xF0, 0x8F, 0xBF, 0xBF] = false ∧ ValidUTF8 [0xED, 0xA0, 0x80] = false ∧ ValidUTF8 [0xED, 0xBF, 0xBF] = false ∧
    ValidUTF8 [0xF4, 0x90, 0x80, 0x80] = false ∧ ValidUTF8 [0xF5, 0x80, 0x80, 0x80] = false ∧ ValidUTF8 [0x80] = false ∧
    ValidUTF8 [0xE2, 0x82] = false ∧ ValidUTF8 [0xFF] = false ∧
    ValidUTF8 [0x7F] = true ∧ ValidUTF8 [0xC2, 0x80] = true ∧ ValidUTF8 [0xDF, 0xBF] = true ∧ ValidUTF8 [0xE0, 0xA0, 0x80] = true ∧
    ValidUTF8 [0xED, 0x9F, 0xBF] = true ∧ ValidUTF8 [0xEE, 0x80, 0x80] = true ∧ ValidUTF8 [0xEF, 0xBF, 0xBF] = true ∧
    ValidUTF8 [0xF0, 0x90, 0x80, 0x80] = true ∧ ValidUTF8 [0xF4, 0x8F, 0xBF, 0xBF] = true := by decide

/-- `ToValidUTF8` on the shapes that matter at the cut: a run of invalid bytes becomes ONE U+FFFD, a truncated
    rune before ASCII is replaced, a literal U+FFFD is kept, valid text is untouched. -/
theorem C13_toValidUTF8_examples :
    toValidUTF8 [97, 0xFF, 0xFE, 98] = [97, 0xEF, 0xBF, 0xBD, 98] ∧
    toValidUTF8 [0xE2, 0x82, 97] = [0xEF, 0xBF, 0xBD, 97] ∧
    toValidUTF8 [0xEF, 0xBF, 0xBD, 0x80] = [0xEF, 0xBF, 0xBD, 0xEF, 0xBF, 0xBD] ∧
    toValidUTF8 [0xC3, 0xA9, 0xE4, 0xB8, 0x96, 0xF0, 0x9F, 0x98, 0x80] = [0xC3, 0xA9, 0xE4, 0xB8, 0x96, 0xF0, 0x9F, 0x98, 0x80] ∧
    toValidUTF8 [0xED, 0xA0, 0x80] = [0xEF, 0xBF, 0xBD] := by decide

/-- The cut never splits a rune: a shortened reason ends right before a byte that starts a rune. -/
theorem C13_close_reason_rune_boundary (r : Bytes) (h : 123 < r.length) :
    ∃ n, closeReason r = r.take n ∧ n ≤ 123 ∧ (n = 0 ∨ ∀ b, r[n]? = some b → runeStart b = true) := by
  refine ⟨truncPoint r 123, ?_, truncPoint_le r 123, truncPoint_boundary r 123⟩
  unfold closeReason maxCloseReasonLen
  simp [Nat.not_le.2 h]

set_option maxRecDepth 100000 in
/-- What the fix removed: handing the reason to gws unmodified cuts "…é" after the first byte of
    the `é`, leaving an invalid UTF-8 close payload that clients answer with a protocol error.
    Witness: status Aborted with message 108×'a' ++ "é". -/
theorem C13_close_prefix_splits_rune :
    let m : Bytes := List.replicate 108 97 ++ [0xC3, 0xA9]
    (closeFramePreFix (.status 10 m)).2.getLast? = some 0xC3 ∧
    (closeFrame (.status 10 m)).2.getLast? = some 97 := by
  decide

example : closeFrame (.status 5 [110, 111]) = (1001, [99, 111, 100, 101, 32, 78, 111, 116, 70, 111, 117, 110, 100, 58, 32, 110, 111]) := by decide

/-! ## non-vacuity of the LTS theorems: concrete schedules -/

/-- client streaming: two frames, both delivered, call still live -/
example :
    let cfg : Cfg := { cs := true, body := true, expectBinary := false }
    let f1 : Frame := { binary := false, malformed := false, text := [1] }
    let f2 : Frame := { binary := false, malformed := false, text := [2] }
    (GB.LTS.run (step cfg) init
      [.clientSend f1, .clientSend f2, .recvCall, .read, .handoff, .finishOnMessage, .read, .recvCall, .handoff, .finishOnMessage]).map
        (fun s => (s.delivered, s.result, s.done)) = some ([f1, f2], none, false) := by decide

/-- non-client-streaming: only the first of two frames is delivered, the second is dropped, `Recv` then sees EOF never being called again -/
example :
    let cfg : Cfg := { cs := false, body := true, expectBinary := false }
    let f1 : Frame := { binary := false, malformed := false, text := [1] }
    let f2 : Frame := { binary := false, malformed := false, text := [2] }
    (GB.LTS.run (step cfg) init
      [.clientSend f1, .clientSend f2, .read, .recvCall, .handoff, .finishOnMessage, .read]).map
        (fun s => (s.delivered, s.eventsClosed, s.pending)) = some ([f1], true, []) := by decide

/-- wrong frame type: `Recv` returns the error, nothing after it is delivered -/
example :
    let cfg : Cfg := { cs := true, body := true, expectBinary := false }
    let f1 : Frame := { binary := false, malformed := false, text := [1] }
    let f2 : Frame := { binary := true, malformed := false, text := [2] }
    (GB.LTS.run (step cfg) init
      [.clientSend f1, .clientSend f2, .recvCall, .read, .handoff, .finishOnMessage, .read, .recvCall, .handoff]).map
        (fun s => (s.delivered, s.result)) = some ([f1], some .wrongType) := by decide


/-! ## ===== corollaries from the C09 text layer (added by the C09 slice; nothing above is changed) =====

  `C13_lines` and `C13_sse` assume that a record contains no raw line feed (and, for SSE, no raw carriage return
  and no leading space). For bodies that are compact JSON — `GB.C09.renderCompact j`, the model of what
  `json.Marshal` writes for a field body (tied to the real `Marshal` output on every C09 `enc` case) — the
  assumption is a theorem (`C09_render_no_raw_newline`, `C09_render_head`), so record splitting is lossless
  outright. `numsValid` (number literals are JSON numbers) holds for everything the field encoder writes
  (`C09_encode_numbers_valid`). Whole-message bodies written by protojson stay under the original assumption. -/

/-- Newline-delimited JSON is lossless for compact JSON bodies: no assumption on the payloads is left. -/
theorem C13_json_lines_lossless (js : List GB.C09.J) (hv : ∀ j ∈ js, GB.C09.numsValid j = true) :
    splitLines (streamBody false (js.map GB.C09.renderCompact)) = js.map GB.C09.renderCompact := by
  apply C13_lines
  intro b hb
  obtain ⟨j, hj, e⟩ := List.mem_map.mp hb
  subst e
  exact (C09_render_no_raw_newline j (hv j hj)).1

/-- Server-Sent Events are lossless for compact JSON bodies. -/
theorem C13_sse_lossless (js : List GB.C09.J) (hv : ∀ j ∈ js, GB.C09.numsValid j = true) :
    parseSSE (streamBody true (js.map GB.C09.renderCompact)) = js.map GB.C09.renderCompact := by
  apply C13_sse
  intro b hb
  obtain ⟨j, hj, e⟩ := List.mem_map.mp hb
  subst e
  have hn := C09_render_no_raw_newline j (hv j hj)
  obtain ⟨c, t, e, hc, _⟩ := C09_render_head j (hv j hj)
  refine ⟨hn.1, hn.2, ?_⟩
  rw [e]
  intro h
  simp only [List.head?_cons, Option.some.injEq] at h
  exact hc h

/-- …in particular for every body the field encoder produces (float formatter writing JSON numbers). -/
theorem C13_json_lines_lossless_encoded (ops : GB.C09.FloatOps) (hf : ∀ b bits, GB.C09.validNum (ops.fmt b bits) = true)
    (o : GB.C09.Opts) (k : GB.C09.Kind) (fs : List GB.C09.Field) (js : List GB.C09.J)
    (h : fs.map (GB.C09.encode ops o k) = js.map GB.C09.Res.ok) :
    splitLines (streamBody false (js.map GB.C09.renderCompact)) = js.map GB.C09.renderCompact ∧
    parseSSE (streamBody true (js.map GB.C09.renderCompact)) = js.map GB.C09.renderCompact := by
  have hv : ∀ j ∈ js, GB.C09.numsValid j = true := by
    intro j hj
    have hm : GB.C09.Res.ok j ∈ fs.map (GB.C09.encode ops o k) := by rw [h]; exact List.mem_map.mpr ⟨j, hj, rfl⟩
    obtain ⟨f, _, hf'⟩ := List.mem_map.mp hm
    exact C09_encode_numbers_valid ops hf o k f j hf'
  exact ⟨C13_json_lines_lossless js hv, C13_sse_lossless js hv⟩

example : splitLines (streamBody false ([GB.C09.J.arr [.str [10], .num [49]], .obj []].map GB.C09.renderCompact))
    = [[91, 34, 92, 110, 34, 44, 49, 93], [123, 125]] := by decide

/-! ## The root constructor: one transcoder configuration for every entry point -/

/-- Facts tie (regenerated from bridge.go and webbridge/*.go on every run): inside `NewWebBridge` each of
    the four `webbridge.New…Bridge` constructors is called once, and every Opts value sets `Transcoder`,
    `Forwarder` and `Logger` wherever its type has the field — all to the same expression; `transcoder` is
    `transcoding.NewStandardTranscoder(options.transcoderOpts)`. A dropped or diverging field breaks this theorem. -/
theorem C13_facts_wiring :
    wiringOK GB.Generated.webBridgeWiring GB.Generated.webBridgeTranscoderInit = true := by decide

/-- …and read as plumbing, the source gives every bridge exactly what the model says. -/
theorem C13_facts_wiring_is_model (opts : List BridgeOpt) (b : Bridge) :
    wiredFrom GB.Generated.webBridgeWiring opts b = wiredTranscoder opts b := by
  cases b <;> simp [wiredFrom, wiredTranscoder] <;> decide

/-- The SAME transcoder configuration governs HTTP, SSE and transcoded WebSocket: for every option list,
    with the wiring the source has now, the transcoder serving a request is `NewStandardTranscoder` of
    the folded options whatever the entry point, so the marshalers `Bind` chooses (and every refusal)
    depend only on (options, negotiation input) — never on the entry point. -/
theorem C13_entry_points_share_transcoder (opts : List BridgeOpt) (e₁ e₂ : Entry) (r : BindReq) :
    entryTranscoder (wiredFrom GB.Generated.webBridgeWiring opts) e₁ = newStandardTranscoder (bridgeOptions opts) ∧
    entryBind (wiredFrom GB.Generated.webBridgeWiring opts) e₁ r =
      entryBind (wiredFrom GB.Generated.webBridgeWiring opts) e₂ r := by
  have h : ∀ e, entryTranscoder (wiredFrom GB.Generated.webBridgeWiring opts) e = newStandardTranscoder (bridgeOptions opts) := by
    intro e
    unfold entryTranscoder
    rw [C13_facts_wiring_is_model]
    cases e <;> rfl
  exact ⟨h e₁, by unfold entryBind; rw [h e₁, h e₂]⟩

/-- `WithMarshalers` / `WithDefaultMarshaler` reach the transcoder: last one wins, unset fields default to JSON. -/
theorem C13_options_reach_transcoder (opts : List BridgeOpt) (ms : List Marshaler) (m : Marshaler) :
    newStandardTranscoder (bridgeOptions (opts ++ [.withMarshalers ms])) =
      { ms := ms, dflt := (newStandardTranscoder (bridgeOptions opts)).dflt } ∧
    newStandardTranscoder (bridgeOptions (opts ++ [.withDefaultMarshaler m])) =
      { ms := (newStandardTranscoder (bridgeOptions opts)).ms, dflt := m } ∧
    newStandardTranscoder (bridgeOptions []) = { ms := [jsonMarshaler], dflt := jsonMarshaler } := by
  refine ⟨?_, ?_, rfl⟩ <;> simp [bridgeOptions, List.foldl_append, applyBridgeOpt, newStandardTranscoder]

/-- Negative witness for the seeded variant C13-m6 (WebSocket Opts literal without `Transcoder`): with a
    binary default marshaler a request without Content-Type is bound to the binary codec over HTTP but
    to JSON over WebSocket — wrong frame kind out, wrong frame-type check in. -/
theorem C13_entry_points_m6_fails :
    let bin : Marshaler := { mime := binMime, binary := true, stream := true }
    let opts := [BridgeOpt.withDefaultMarshaler bin]
    let r : BindReq := { accept := [], contentType := [], cs := true, ss := true }
    (entryBind (wiredTranscoderM6 opts) .http r).toOption.map (·.respM.binary) = some true ∧
    (entryBind (wiredTranscoderM6 opts) .ws r).toOption.map (·.respM.binary) = some false ∧
    (entryBind (wiredTranscoder opts) .ws r).toOption.map (·.respM.binary) = some true := by
  decide

/-! ## ===== round 5 (deepening): chunk-boundary safety =====

  An HTTP client never sees "the body": it sees whatever `Read` returns, cut at arbitrary places. The
  theorems below say that the cut points are irrelevant, that reading more never revises what was already
  surfaced, and that a record is surfaced only once its terminator has arrived — so at every moment the
  records a client holds are a prefix of the messages sent, and at the end they are exactly the messages.
  Preconditions on the payload bytes are the same as for `C13_lines` / `C13_sse` (necessary:
  `C13_lines_fails_on_raw_newline`, `C13_chunk_witness_raw_newline`; discharged for compact JSON bodies by
  `C13_json_lines_lossless` / `C13_sse_lossless` through the C09 renderer). -/

/-- Chunking is irrelevant (NDJSON): an incremental reader fed any sequence of chunks holds exactly the
    records of the concatenation. No hypothesis on the bytes. -/
theorem C13_chunked_lines (chunks : List Bytes) : readLinesChunked chunks = splitLines chunks.flatten := by
  unfold readLinesChunked
  rw [foldl_chunks lineByte chunks, lineFold_recs]
  rfl

/-- Chunking is irrelevant (SSE). -/
theorem C13_chunked_sse (chunks : List Bytes) : readSSEChunked chunks = parseSSE chunks.flatten := by
  unfold readSSEChunked parseSSE
  rw [foldl_chunks sseByte chunks]

/-- Reading more bytes only appends records (both readers, every byte string): nothing already surfaced
    is ever withdrawn or changed. -/
theorem C13_readers_monotone (a b : Bytes) :
    splitLines a <+: splitLines (a ++ b) ∧ parseSSE a <+: parseSSE (a ++ b) :=
  ⟨by rw [splitLines_append]; exact List.prefix_append _ _, parseSSE_append a b⟩

/-- Every prefix of an NDJSON stream body parses to a prefix of the messages: no partial record is ever
    surfaced, whatever `k` bytes have arrived. -/
theorem C13_lines_prefix_safe (bs : List Bytes) (h : ∀ b ∈ bs, LF ∉ b) (k : Nat) :
    splitLines ((streamBody false bs).take k) <+: bs := by
  have hm := (C13_readers_monotone ((streamBody false bs).take k) ((streamBody false bs).drop k)).1
  rw [List.take_append_drop, C13_lines bs h] at hm
  exact hm

/-- Every prefix of an SSE stream body parses to a prefix of the messages. -/
theorem C13_sse_prefix_safe (bs : List Bytes) (h : ∀ b ∈ bs, LF ∉ b ∧ CR ∉ b ∧ b.head? ≠ some SP) (k : Nat) :
    parseSSE ((streamBody true bs).take k) <+: bs := by
  have hm := (C13_readers_monotone ((streamBody true bs).take k) ((streamBody true bs).drop k)).2
  rw [List.take_append_drop, C13_sse bs h] at hm
  exact hm

/-- Exactly the complete records: after `bs₁` whole records and any part `p` of the next one short of its
    line feed, the client holds `bs₁` — the partial record is withheld, the complete ones are all there. -/
theorem C13_lines_partial_withheld (bs₁ : List Bytes) (p : Bytes) (h : ∀ b ∈ bs₁, LF ∉ b) (hp : LF ∉ p) :
    splitLines (streamBody false bs₁ ++ p) = bs₁ := by
  rw [splitLines_append, C13_lines bs₁ h, lineRest_streamBody bs₁ h,
    splitLinesAux_noLF p [] (fun x hx e => hp (e ▸ hx))]
  simp

/-- The same for SSE: after whole events `bs₁` and any part `p` of the next event short of its final blank
    line (`p` a prefix of `data:<payload>\n`), the client has dispatched exactly `bs₁`. -/
theorem C13_sse_partial_withheld (bs₁ : List Bytes) (b p : Bytes)
    (h : ∀ b ∈ bs₁, LF ∉ b ∧ CR ∉ b ∧ b.head? ≠ some SP) (hb : LF ∉ b ∧ CR ∉ b ∧ b.head? ≠ some SP)
    (hp : p <+: dataPrefix ++ b ++ [LF]) :
    parseSSE (streamBody true bs₁ ++ p) = bs₁ := by
  unfold parseSSE
  have h0 : sseInit = cleanSt [] := rfl
  rw [List.foldl_append, h0,
    sse_stream bs₁ [] (fun b hb => ⟨fun x hx => ⟨fun e => (h b hb).1 (e ▸ hx), fun e => (h b hb).2.1 (e ▸ hx)⟩, (h b hb).2.2⟩),
    sse_partial_event b p _ (fun x hx => ⟨fun e => hb.1 (e ▸ hx), fun e => hb.2.1 (e ▸ hx)⟩) hb.2.2 hp]
  simp

/-- The client's view, end to end: the network delivers the stream body in arbitrary chunks; after every
    number `j` of chunks the records held are a prefix of the messages, and after the last chunk they are
    exactly the messages — for NDJSON and for SSE. -/
theorem C13_chunked_stream (sse : Bool) (bs : List Bytes)
    (h : ∀ b ∈ bs, LF ∉ b ∧ (sse = true → CR ∉ b ∧ b.head? ≠ some SP))
    (chunks : List Bytes) (hc : chunks.flatten = streamBody sse bs) (j : Nat) :
    (if sse then readSSEChunked (chunks.take j) else readLinesChunked (chunks.take j)) <+: bs ∧
    (if sse then readSSEChunked chunks else readLinesChunked chunks) = bs := by
  have hsplit : (chunks.take j).flatten ++ (chunks.drop j).flatten = streamBody sse bs := by
    rw [← List.flatten_append, List.take_append_drop, hc]
  cases sse with
  | false =>
    have hl : ∀ b ∈ bs, LF ∉ b := fun b hb => (h b hb).1
    simp only [Bool.false_eq_true, ↓reduceIte, C13_chunked_lines]
    refine ⟨?_, by rw [hc]; exact C13_lines bs hl⟩
    have hm := (C13_readers_monotone (chunks.take j).flatten (chunks.drop j).flatten).1
    rw [hsplit, C13_lines bs hl] at hm
    exact hm
  | true =>
    have hl : ∀ b ∈ bs, LF ∉ b ∧ CR ∉ b ∧ b.head? ≠ some SP := fun b hb => ⟨(h b hb).1, (h b hb).2 rfl⟩
    simp only [↓reduceIte, C13_chunked_sse]
    refine ⟨?_, by rw [hc]; exact C13_sse bs hl⟩
    have hm := (C13_readers_monotone (chunks.take j).flatten (chunks.drop j).flatten).2
    rw [hsplit, C13_sse bs hl] at hm
    exact hm

/-- Without the precondition the prefix property itself fails: with the D23 payload `[\n]` a client that has
    received 2 bytes holds the record `[`, which is not a prefix of the messages sent (kernel-checked). -/
theorem C13_chunk_witness_raw_newline :
    splitLines ((streamBody false [[91, 10, 93]]).take 2) = [[91]] ∧ ¬ ([[91]] <+: [([91, 10, 93] : Bytes)]) ∧
    readLinesChunked [[91], [10, 93], [10]] = [[91], [93]] := by
  refine ⟨by decide, ?_, by decide⟩
  intro hp
  obtain ⟨t, ht⟩ := hp
  simp at ht

example : readLinesChunked [[123], [125, 10, 91], [93], [10]] = [[123, 125], [91, 93]] := by decide
example : readSSEChunked [[100, 97], [116, 97, 58, 120, 10], [10, 100]] = [[120]] := by decide

/-! ## ===== round 5 (deepening): progress of the gwsStream hand-off — `ServeHTTP`'s epilogue is reached =====

  Threads: the handler (`Forward` … `closeGracefully` … `close(done)` … `wg.Wait()`), the forwarder inside
  `Forward` (calls `Recv`), the read-loop goroutine (`ReadLoop` → `OnMessage` → `select { events <- ev; <-done }`,
  `defer cancel()`). ENVIRONMENT ASSUMPTIONS (all in `internalAt` / `isEnv`, Model.lean): the forwarder calls
  `Recv` in a loop for client streaming and once otherwise, and `Forward` returns when no `Recv` is in
  progress (`closeDone`; ProxyForwarder, C01/C02); after the close frame the read deadline `wsCloseTimeout`
  makes `ReadLoop` return (`readerExit` is internal once `done`); writes to the client (`Send`,
  `closeGracefully`) are bounded by the same deadline and are not part of this LTS. -/

/-- Deadlock freedom over ALL reachable states (every interleaving of client writes, read loop, `Recv`,
    cancellation, close): while `ServeHTTP` has not returned, some move that needs nobody outside the bridge is
    enabled — or the call is in the one legitimate waiting state, `Recv` waiting for a frame of a silent,
    still connected client with an idle read loop (`awaitingClient`), from which the client can always move. -/
theorem C13_ws_no_deadlock (cfg : Cfg) (s : St) (h : GB.LTS.Reachable (step cfg) init s) (hr : returned s = false) :
    (∃ l, internalAt s l = true ∧ (step cfg s l).isSome = true) ∨ awaitingClient s = true :=
  no_deadlock cfg s h hr

/-- The variant: every move except the environment's (`clientSend`, `cancel`) strictly decreases `rank` —
    from any state at most `rank s` moves can happen without new input: no livelock, no unbounded
    `Recv`/`OnMessage` ping-pong. (No reachability needed.) -/
theorem C13_ws_rank_decreases (cfg : Cfg) (s : St) (l : Lbl) (s' : St) (hl : isEnv l = false)
    (hs : step cfg s l = some s') : rank s' < rank s :=
  rank_decreases cfg s l s' hl hs

/-- The epilogue is reached. From any reachable state, let the bridge run under ANY scheduler without further
    client input until nothing internal is enabled (`ls` is such a maximal run): it takes at most `rank s`
    moves and ends either with `ServeHTTP` returned or waiting for the client; and if the call was cancelled
    (the client closed or dropped the socket — `readerExit` cancels — or the request context ended) it ends
    with `ServeHTTP` returned. -/
theorem C13_ws_epilogue_reached (cfg : Cfg) (s s' : St) (ls : List Lbl)
    (h : GB.LTS.Reachable (step cfg) init s) (hrun : GB.LTS.run (step cfg) s ls = some s')
    (hint : ∀ l ∈ ls, isEnv l = false)
    (hmax : ∀ l, internalAt s' l = true → step cfg s' l = none) :
    ls.length ≤ rank s ∧ (returned s' = true ∨ awaitingClient s' = true) ∧
    (s'.cancelled = true → returned s' = true) := by
  have hb := run_bounded cfg ls s s' hrun hint
  have hreach := GB.LTS.run_reachable (step cfg) init s ls h hrun
  have hfin : returned s' = true ∨ awaitingClient s' = true := by
    cases hr : returned s' with
    | true => exact Or.inl rfl
    | false =>
      rcases no_deadlock cfg s' hreach hr with ⟨l, hl, hen⟩ | hw
      · rw [hmax l hl] at hen; simp at hen
      · exact Or.inr hw
  refine ⟨by omega, hfin, ?_⟩
  intro hc
  rcases hfin with hr | hw
  · exact hr
  · simp [awaitingClient, hc] at hw

/-- Once the handler has closed `done`, nothing waits for the client any more: every maximal internal run ends
    with `ServeHTTP` returned (in at most `rank s` moves). -/
theorem C13_ws_epilogue_after_done (cfg : Cfg) (s s' : St) (ls : List Lbl)
    (h : GB.LTS.Reachable (step cfg) init s) (hd : s.done = true)
    (hrun : GB.LTS.run (step cfg) s ls = some s') (hint : ∀ l ∈ ls, isEnv l = false)
    (hmax : ∀ l, internalAt s' l = true → step cfg s' l = none) :
    returned s' = true ∧ ls.length ≤ rank s := by
  obtain ⟨hlen, hfin, _⟩ := C13_ws_epilogue_reached cfg s s' ls h hrun hint hmax
  refine ⟨?_, hlen⟩
  rcases hfin with hr | hw
  · exact hr
  · -- `done` is never reset
    have hmono : ∀ (ls : List Lbl) (a b : St), GB.LTS.run (step cfg) a ls = some b → a.done = true → b.done = true := by
      intro ls
      induction ls with
      | nil => intro a b hab; simp [GB.LTS.run] at hab; subst hab; exact id
      | cons l rest ih =>
        intro a b hab ha
        simp only [GB.LTS.run] at hab
        cases hs : step cfg a l with
        | none => simp [hs] at hab
        | some a1 =>
          rw [hs] at hab
          refine ih a1 b hab ?_
          cases l <;> simp only [step] at hs
          all_goals (repeat' (split at hs))
          all_goals (first | (cases hs; simp_all) | simp_all)
    have := hmono ls s s' hrun hd
    simp [awaitingClient, this] at hw

/-- Non-vacuity: a client-streaming call in which the target ends the stream while a second frame is being
    offered — `Forward` returns, `close(done)` releases `OnMessage`, the read loop ends, `ServeHTTP` returns;
    the run is maximal (nothing internal is enabled at its end). -/
theorem C13_ws_epilogue_example :
    let cfg : Cfg := { cs := true, body := true, expectBinary := false }
    let f1 : Frame := { binary := false, malformed := false, text := [1] }
    let f2 : Frame := { binary := false, malformed := false, text := [2] }
    ((GB.LTS.run (step cfg) init [.clientSend f1, .clientSend f2, .recvCall, .read, .handoff, .finishOnMessage, .read,
        .closeDone, .onDone, .finishOnMessage, .readerExit]).map
      (fun s => (returned s, s.delivered, rank s,
        [Lbl.read, .handoff, .onDone, .finishOnMessage, .recvCall, .recvClosed, .recvCtx, .closeDone, .readerExit].all
          (fun l => (step cfg s l).isNone)))) = some (true, [f1], 2, true) := by
  decide

/-- …and the waiting state is real: with a silent client the call stands in `awaitingClient` (nothing internal
    enabled), and the client closing the socket leads to `Recv` returning the context error. -/
theorem C13_ws_awaiting_client_example :
    let cfg : Cfg := { cs := true, body := true, expectBinary := false }
    ((GB.LTS.run (step cfg) init [.recvCall]).map (fun s => (awaitingClient s,
        [Lbl.read, .handoff, .onDone, .finishOnMessage, .recvCall, .recvClosed, .recvCtx, .closeDone].all (fun l => (step cfg s l).isNone)))
      = some (true, true)) ∧
    ((GB.LTS.run (step cfg) init [.recvCall, .readerExit, .recvCtx, .closeDone]).map (fun s => (returned s, s.result))
      = some (true, some .ctx)) := by
  decide

/-! ## ===== round 5 (deepening): flush per message =====

  A server-streaming client must see message i before message i+1 is even produced. The model of the response
  loop (`streamTrace`: target `Recv` i → one `Write` of the framed record → `Flush`) is tied to the code by the
  regenerated facts `httpStreamSendShape` / `streamEncoderWrites` (`C13_facts_flush`) and by the observed
  event trace of every HTTP case (recording ResponseWriter + target log, compared event for event). -/

/-- At the moment the target is asked for message `i` (and at the end of the stream), everything written so
    far has been flushed: the client can see exactly the first `i` records, nothing is held back in the
    server's buffer — for every number of messages and every payload. -/
theorem C13_flush_visible_before_next (sse : Bool) (ps : List Bytes) (i : Nat) (hi : i ≤ ps.length) :
    ∃ post, streamTrace sse ps = streamTrace sse (ps.take i) ++ post ∧
      (i < ps.length → post.head? = some (.targetRecv i)) ∧ (i = ps.length → post = []) ∧
      wireRun (streamTrace sse (ps.take i)) = { buffered := [], visible := streamBody sse (ps.take i) } := by
  refine ⟨streamTraceFrom (sendEvents sse) i (ps.drop i), ?_, ?_, ?_, ?_⟩
  · have h := streamTraceFrom_append (sendEvents sse) 0 (ps.take i) (ps.drop i)
    rw [List.take_append_drop, List.length_take, Nat.min_eq_left hi, Nat.zero_add] at h
    exact h
  · intro hlt
    cases hd : ps.drop i with
    | nil => have := congrArg List.length hd; simp at this; omega
    | cons p rest => simp [streamTraceFrom]
  · intro he
    rw [he, List.drop_length]
    rfl
  · unfold wireRun streamTrace
    rw [wire_streamTraceFrom]
    simp

/-- …so what the client has parsed by then is exactly the first `i` messages (NDJSON and SSE). -/
theorem C13_flush_client_sees_before_next (sse : Bool) (ps : List Bytes) (i : Nat)
    (h : ∀ b ∈ ps, LF ∉ b ∧ (sse = true → CR ∉ b ∧ b.head? ≠ some SP)) :
    (if sse then parseSSE (wireRun (streamTrace sse (ps.take i))).visible
     else splitLines (wireRun (streamTrace sse (ps.take i))).visible) = ps.take i := by
  have hw : wireRun (streamTrace sse (ps.take i)) = { buffered := [], visible := streamBody sse (ps.take i) } := by
    unfold wireRun streamTrace
    rw [wire_streamTraceFrom]
    simp
  rw [hw]
  have hsub : ∀ b ∈ ps.take i, b ∈ ps := fun b hb => List.mem_of_mem_take hb
  cases sse with
  | false => exact C13_lines _ (fun b hb => (h b (hsub b hb)).1)
  | true => exact C13_sse _ (fun b hb => ⟨(h b (hsub b hb)).1, (h b (hsub b hb)).2 rfl⟩)

/-- The discipline the driver demands of every observed trace holds for the model's loop. -/
theorem C13_flush_discipline (sse : Bool) (ps : List Bytes) : flushedBeforeRecv false (streamTrace sse ps) = true :=
  flushed_streamTraceFrom sse 0 ps

/-- Without the flush (seeded variant M2) the client sees nothing when the second message is produced. -/
theorem C13_flush_missing_witness :
    let tr := streamTraceFrom (sendEventsNoFlush false) 0 [[97], [98]]
    flushedBeforeRecv false tr = false ∧ (wireRun (tr.take 2)).visible = [] ∧ (wireRun (tr.take 2)).buffered = [97, 10] := by
  decide

/-- Facts tie (regenerated from webbridge/http.go, transcoding/json.go, transcoding/http.go on every run): in
    `httpStream.send` the statement after `respstream.Transcode(msg)` is `s.flusher.Flush()`; `jsonEncoder.Encode`
    performs exactly one `Write(append(b, jsonDelimiter))` with `jsonDelimiter = '\n'` (= `jsonLine`),
    `sseResponseStream.Transcode` exactly one `Write(slices.Concat("data:", b, "\n\n"))` (= `sseEvent`): one
    `Write` per record, one `Flush` per `Write` — the shape `sendEvents` models. A removed or moved `Flush`, a
    second `Write`, a changed delimiter break this theorem. -/
theorem C13_facts_flush :
    flushFollowsTranscode GB.Generated.httpStreamSendShape = true ∧
    encoderWritesOK GB.Generated.streamEncoderWrites GB.Generated.jsonDelimiterLit = true := by decide

/-! ## ===== round 5: where record framing is applied (seeded C13-m10) =====

  The WebSocket handshake's headers go through the same `Bind` as an HTTP request, so a handshake with
  `Accept: text/event-stream` on a server-streaming method binds the response transcoder as SSE. That must not
  show in the frames: `gwsStream.send` builds each message from the per-message `Transcode`, which returns the
  marshaler's bare document for every binding; `data:…\n\n` is written by `sseResponseStream.Transcode` only. -/

/-- WebSocket messages do not depend on the SSE flag of the binding: one message per response, payload = the
    marshaler's document, opcode = the response marshaler's binary flag — the same frames as for the binding
    with `isSSE` cleared; while over HTTP the same binding streams `data:` events. -/
theorem C13_ws_frames_independent_of_sse (b : Bound) (ps : List Bytes) :
    (wsFrames transcodeMsg b ps).map (·.payload) = ps ∧
    wsFrames transcodeMsg b ps = wsFrames transcodeMsg { b with isSSE := false } ps ∧
    wsFrames transcodeMsg b ps = wsOut b.respM.binary ps ∧
    httpStreamBody b ps = streamBody b.isSSE ps := by
  refine ⟨?_, rfl, rfl, ?_⟩
  · simp [wsFrames, wsSend, transcodeMsg, Function.comp_def]
  · have h : transcodeMsg b = id := rfl
    unfold httpStreamBody
    rw [h, List.map_id]

/-- The seeded variant C13-m10 (framing inside the per-message `Transcode` of an SSE-bound transcoder): the
    HTTP SSE body is byte-identical for EVERY binding and message list — which is why the repository's own SSE
    tests cannot see it — but an SSE-bound WebSocket call sends `data:{}\n\n` instead of `{}`. -/
theorem C13_ws_frames_m10_fails :
    (∀ (b : Bound) (ps : List Bytes), httpStreamBodyM10 b ps = httpStreamBody b ps) ∧
    (let b : Bound := { reqM := jsonMarshaler, respM := jsonMarshaler, isSSE := true }
     (wsFrames transcodeMsgM10 b [[123, 125]]).map (·.payload) = [[100, 97, 116, 97, 58, 123, 125, 10, 10]] ∧
     (wsFrames transcodeMsg b [[123, 125]]).map (·.payload) = [[123, 125]]) := by
  refine ⟨?_, by decide⟩
  intro b ps
  cases hb : b.isSSE <;>
    simp [httpStreamBodyM10, httpStreamBody, streamBody, transcodeMsgM10, transcodeMsg, sseEvent, hb, List.flatMap_map]

/-- Facts tie: the per-message `standardResponseTranscoder.Transcode` neither reads `isSSE` nor contains a framing
    literal (regenerated from transcoding/http.go on every run; together with `C13_facts_flush`: the `data:` wrapping
    sits in `sseResponseStream.Transcode`'s single `Write`). Every `bind` case of the run also compares the real
    `Transcode` output of the bound transcoder with the marshaler's bare document. -/
theorem C13_facts_framing_site : GB.Generated.responseTranscodeFramingMentions = [] := by decide

/-! ## ===== round 5: `strings.ToValidUTF8` on valid input ===== -/

/-- `strings.ToValidUTF8` leaves valid UTF-8 untouched (so for well-formed status messages `closeReason` is the
    cut alone — the model of the earlier rounds). -/
theorem C13_toValidUTF8_id (s : Bytes) (h : ValidUTF8 s = true) : toValidUTF8 s = s := toValidUTF8_id s h

/-- `ToValidUTF8` is idempotent. -/
theorem C13_toValidUTF8_idem (s : Bytes) : toValidUTF8 (toValidUTF8 s) = toValidUTF8 s :=
  toValidUTF8_id _ (toValidUTF8_valid s)

/-- For a status message that is valid UTF-8 the close reason is a prefix of the reason itself,
    `code <gRPC code>: <message>`, and the whole of it when that fits into 123 bytes. -/
theorem C13_close_error_valid_message (c : Nat) (m : Bytes) (hc : c < 2 ^ 32) (hm : ValidUTF8 m = true) :
    (closeFrame (.status c m)).2 <+: reasonPrefix c ++ m ∧
    ((reasonPrefix c ++ m).length ≤ 123 → (closeFrame (.status c m)).2 = reasonPrefix c ++ m) := by
  have h := (C13_close_error c m hc).2.2.2.2.2.1
  rw [toValidUTF8_id m hm] at h
  refine ⟨h, ?_⟩
  intro hlen
  rw [closeFrame_reason]
  simp only [websocketError]
  unfold closeReasonWhole
  rw [toValidUTF8_ascii_prefix _ _ (reasonPrefix_ascii c hc), toValidUTF8_id m hm]
  unfold closeReason maxCloseReasonLen
  rw [if_pos hlen]

/-- Facts tie for the hand-off LTS (regenerated from webbridge/websocket.go on every run): `OnMessage` blocks in
    `select { stream.events <- event; <-stream.done }` (labels `handoff` / `onDone`), `Recv` in
    `select { <-s.events; <-ctx.Done() }` (`handoff` / `recvClosed` / `recvCtx`), `close(stream.events)` is guarded by
    `!ClientStreaming` (`finishOnMessage`), the goroutine running `ReadLoop` defers `cancel()` and `wg.Done()`
    (`readerExit` cancels and releases `wg.Wait()`), and the handler closes `done` before `wg.Wait()` (`closeDone`
    precedes the wait; fact shared with C02). A select that loses its `done` case, a dropped `defer cancel()`, a
    reordered epilogue break this theorem — they are exactly what `C13_ws_no_deadlock` rests on. -/
theorem C13_facts_handoff_shape :
    GB.Generated.gwsSelectShape =
      [("gwsHandler.OnMessage", ["stream.events<-event", "<-stream.done"]),
       ("gwsStream.Recv", ["ev,ok:=<-s.events", "<-ctx.Done()"])] ∧
    GB.Generated.gwsReaderDefers = ["wg.Done()", "cancel()"] ∧
    GB.Generated.gwsEventsCloseGuard = ["!stream.req.route.Method.ClientStreaming"] ∧
    (GB.Generated.wsEpilogueOrder.find? (·.1 == "TranscodedWebSocketBridge.ServeHTTP")).map (·.2) = some ["closeDone", "wgWait"] := by
  decide

/-! ## ===== follow-up (seeded C13-m11): the close code is 1000 exactly for a clean end ===== -/

/-- 1000 ⇔ `Forward` returned nil. Every error — whatever its gRPC code: Canceled (1) and DeadlineExceeded (4) are not
    special, nor is any other of the 2^32 codes — closes with 1001 (1003 for a wrong frame type) and a non-empty
    reason; the model of `websocketError` has no case distinction on the status code at all. The driver judges the
    close frame of every `ws` case against `closeFrame` (VIOL `error-close-without-grpc-code` / `clean-end-not-1000`). -/
theorem C13_close_code_error_iff (res : FwdResult) :
    ((closeFrame res).1 = 1000 ↔ res = .ok) ∧
    (∀ c m, (closeFrame (.status c m)).1 = 1001) ∧
    (∀ eb, (closeFrame (.wrongType eb)).1 = 1003) ∧
    (∀ c m, c < 2 ^ 32 → (closeFrame (.status c m)).2 ≠ []) := by
  refine ⟨?_, fun c m => by rw [closeFrame_reason]; rfl, fun eb => by rw [closeFrame_reason]; rfl, ?_⟩
  · rw [closeFrame_reason]
    cases res <;> simp [websocketError]
  · intro c m hc hnil
    have hp := (C13_close_error c m hc).2.1
    rw [hnil] at hp
    have : reasonPrefix c = [] := List.prefix_nil.1 hp
    simp [reasonPrefix] at this

/-- The target ending the call with CANCELLED while the client listens: 1001, reason `code Canceled: context canceled`. -/
theorem C13_close_canceled_example :
    closeFrame (.status 1 [99, 111, 110, 116, 101, 120, 116, 32, 99, 97, 110, 99, 101, 108, 101, 100]) =
      (1001, [99, 111, 100, 101, 32, 67, 97, 110, 99, 101, 108, 101, 100, 58, 32,
              99, 111, 110, 116, 101, 120, 116, 32, 99, 97, 110, 99, 101, 108, 101, 100]) := by decide

/-- Facts tie (regenerated from webbridge/websocket.go on every run): in `websocketError` the only return of 1000 sits
    under exactly `err == nil`, every other path returns the variable `code`, which is 1001 unless the error is one of the
    two frame-type sentinels (1003). A widened condition (seeded C13-m11: `|| status.Code(err) == codes.Canceled`), another
    early return or another code assignment break this theorem. -/
theorem C13_facts_close_code :
    GB.Generated.websocketErrorReturns = [("err==nil", "1000,\"\""), ("", "code,reason")] ∧
    GB.Generated.websocketErrorCodeAssigns =
      [("", "1001"), ("errors.Is(err,errExpectedBinary)||errors.Is(err,errExpectedText)", "1003")] := by decide

/-! ## wave 7: `strings.ToValidUTF8` as coded (two loops and the fast path) -/

/-- `strings.ToValidUTF8(s, "�")` modelled statement by statement — the first loop scanning for the first byte
    that starts no well-formed rune (`firstInvalid`), the fast path `if b.Cap() == 0 { return s }`, the builder
    pre-filled with `s[:i]`, the main loop over `s[i:]` with its `c < RuneSelf` shortcut (`toValidMain`) — computes
    the same function as the one-loop model `toValidUTF8` used everywhere else in this slice. -/
theorem C13_toValidUTF8_fastpath_eq (s : Bytes) : toValidUTF8Coded s = toValidUTF8 s := toValidUTF8Coded_eq s

/-- the fast path is taken exactly for valid UTF-8 (and then returns its argument) -/
theorem C13_toValidUTF8_fastpath_iff (s : Bytes) :
    firstInvalid s.length s = none ↔ ValidUTF8 s = true :=
  ⟨firstInvalid_none_valid _ s (Nat.le_refl _), valid_firstInvalid_none _ s⟩

/-- on the slow path the scan stops at a byte that starts no well-formed rune, after a valid prefix that is copied
    unchanged; the main loop starts there (so the output begins `s[:i] ++ "�"`). -/
theorem C13_toValidUTF8_slowpath (s : Bytes) (i : Nat) (h : firstInvalid s.length s = some i) :
    i < s.length ∧ ValidUTF8 (s.take i) = true ∧ runeLen (s.drop i) = none ∧
      toValidUTF8 s = s.take i ++ replacementChar ++ toValidAux (s.length - i - 1) true (s.drop (i + 1)) := by
  obtain ⟨h1, h2, h3, h4⟩ := firstInvalid_some_split _ s i (Nat.le_refl _) h
  refine ⟨h1, h3, h2, ?_⟩
  unfold toValidUTF8
  rw [h4]
  have hd : s.drop i = s[i] :: s.drop (i + 1) := (List.getElem_cons_drop h1).symm
  rw [hd] at h2
  obtain ⟨k, hk⟩ : ∃ k, s.length = k + 1 := ⟨s.length - 1, by omega⟩
  rw [hd, hk]
  simp only [toValidAux, h2, Bool.false_eq_true, ↓reduceIte, List.append_assoc]
  congr 2
  apply toValidAux_fuel <;> simp only [List.length_drop] <;> omega

/-! ## wave 7: parameters and white space of well-formed header values never change `Bind`'s decision

  `mime.ParseMediaType` is applied by `pickRequestMarshaler` to the Content-Type values ONLY; the Accept values are
  looked up and compared with `"text/event-stream"` verbatim ("No need to parse the Accept header…"). So the
  parameter-independence holds — and is proved — for the Content-Type side on the decidable class `wfMediaValue`
  (where `mediaType` is `ParseMediaType`); for Accept the literal statement is FALSE in the code as written, see
  `C13_bind_accept_verbatim_witness` (a well-formed `text/event-stream;q=1` does not negotiate SSE). -/

/-- two requests that differ only in their Content-Type values, all of them in the well-formed class and with
    pairwise the same media type (`type/subtype`, trimmed, lower-cased), get the same `Bind` result: the same
    marshalers, the same SSE decision, the same refusal. Parameters, their order/quoting, OWS and letter case are
    invisible. (The class hypothesis scopes the claim to where the model IS `mime.ParseMediaType`; inside the
    model the equality holds for all values.) -/
theorem C13_bind_ignores_parameters (ms : List Marshaler) (d : Marshaler) (r r' : BindReq)
    (_hwf : ∀ v ∈ r.contentType ++ r'.contentType, wfMediaValue v = true)
    (hct : r'.contentType.map mediaType = r.contentType.map mediaType)
    (ha : r'.accept = r.accept) (hcs : r'.cs = r.cs) (hss : r'.ss = r.ss) :
    C13.bind ms d r' = C13.bind ms d r := by
  unfold C13.bind
  rw [pickRequest_mediaType ms d _ _ hct, ha, hcs, hss]

/-- …hence the whole HTTP outcome (status, Content-Type, framing of the body) -/
theorem C13_http_outcome_ignores_parameters (ms : List Marshaler) (d : Marshaler) (r r' : BindReq)
    (hwf : ∀ v ∈ r.contentType ++ r'.contentType, wfMediaValue v = true)
    (hct : r'.contentType.map mediaType = r.contentType.map mediaType)
    (ha : r'.accept = r.accept) (hcs : r'.cs = r.cs) (hss : r'.ss = r.ss)
    (whole : Bool) (ps : List Bytes) (e : End) :
    httpOutcome ms d r' whole ps e = httpOutcome ms d r whole ps e := by
  unfold httpOutcome
  rw [C13_bind_ignores_parameters ms d r r' hwf hct ha hcs hss, hcs, hss]

/-- members of the class and their media types: ` Application/JSON ; charset="utf-8"; q=1 ;`, bare, no subtype;
    non-members: duplicate key, missing value, space before `=`, bad token, `;` inside quotes (conservative) -/
theorem C13_wfMediaValue_examples :
    wfMediaValue ([32, 65, 112, 112, 108, 105, 99, 97, 116, 105, 111, 110, 47, 74, 83, 79, 78, 32, 59, 32, 99, 104, 97, 114, 115, 101, 116, 61, 34, 117, 116, 102, 45, 56, 34, 59, 32, 113, 61, 49, 32, 59] : Bytes) = true ∧
    mediaType ([32, 65, 112, 112, 108, 105, 99, 97, 116, 105, 111, 110, 47, 74, 83, 79, 78, 32, 59, 32, 99, 104, 97, 114, 115, 101, 116, 61, 34, 117, 116, 102, 45, 56, 34, 59, 32, 113, 61, 49, 32, 59] : Bytes) = jsonMime ∧
    wfMediaValue jsonMime = true ∧ mediaType jsonMime = jsonMime ∧
    wfMediaValue ([116, 101, 120, 116, 47, 101, 118, 101, 110, 116, 45, 115, 116, 114, 101, 97, 109, 59, 113, 61, 49] : Bytes) = true ∧
    mediaType ([116, 101, 120, 116, 47, 101, 118, 101, 110, 116, 45, 115, 116, 114, 101, 97, 109, 59, 113, 61, 49] : Bytes) = sseMime ∧
    wfMediaValue ([102, 111, 114, 109, 45, 100, 97, 116, 97] : Bytes) = true ∧
    wfMediaValue ([97, 47, 98, 59, 113, 61, 49, 59, 81, 61, 50] : Bytes) = false ∧
    wfMediaValue ([97, 47, 98, 59, 113] : Bytes) = false ∧
    wfMediaValue ([97, 47, 98, 59, 113, 32, 61, 49] : Bytes) = false ∧
    wfMediaValue ([97, 32, 98, 47, 99] : Bytes) = false ∧
    wfMediaValue ([97, 47, 98, 47, 99] : Bytes) = false ∧
    wfMediaValue ([97, 47, 98, 59, 59, 113, 61, 49] : Bytes) = false ∧
    wfMediaValue ([] : Bytes) = false := by decide

/-- the Accept side is verbatim in the code (`t.mimeMarshalers[mt]`, `slices.Contains(accept, "text/event-stream")`):
    a well-formed value with the SAME media type but a parameter changes the decision — SSE is not negotiated.
    So "depends only on the media types of the Accept elements" does not hold for the code as written; this is the
    documented behaviour the model and the harness (Accept menu incl. a quality list) agree on. -/
theorem C13_bind_accept_verbatim_witness :
    let j : Marshaler := { mime := jsonMime, binary := false, stream := true }
    let v' : Bytes := ([116, 101, 120, 116, 47, 101, 118, 101, 110, 116, 45, 115, 116, 114, 101, 97, 109, 59, 113, 61, 49] : Bytes)
    wfMediaValue sseMime = true ∧ wfMediaValue v' = true ∧ mediaType v' = mediaType sseMime ∧
    (match C13.bind [j] j { accept := [sseMime], contentType := [], cs := false, ss := true } with
      | .ok b => b.isSSE | .error _ => false) = true ∧
    (match C13.bind [j] j { accept := [v'], contentType := [], cs := false, ss := true } with
      | .ok b => b.isSSE | .error _ => true) = false := by decide
