import GB.C13.Spec
/-
  C13 — helper lemmas for Props.lean.
-/
set_option linter.unusedSimpArgs false
set_option linter.unusedVariables false
namespace GB.C13
open GB

/-! ### newline-delimited records -/

theorem splitLinesAux_line (b rest cur : Bytes) (h : ∀ x ∈ b, x ≠ LF) :
    splitLinesAux (b ++ LF :: rest) cur = (cur ++ b) :: splitLinesAux rest [] := by
  induction b generalizing cur with
  | nil => simp [splitLinesAux]
  | cons x xs ih =>
    have hx : x ≠ LF := h x (by simp)
    have hxs : ∀ y ∈ xs, y ≠ LF := fun y hy => h y (by simp [hy])
    simp only [List.cons_append, splitLinesAux, hx, ↓reduceIte]
    rw [ih _ hxs]
    simp

theorem splitLines_stream (bs : List Bytes) (h : ∀ b ∈ bs, ∀ x ∈ b, x ≠ LF) :
    splitLinesAux (streamBody false bs) [] = bs := by
  induction bs with
  | nil => simp [streamBody, splitLinesAux]
  | cons b rest ih =>
    have hb := h b (by simp)
    have hrest : ∀ c ∈ rest, ∀ x ∈ c, x ≠ LF := fun c hc => h c (by simp [hc])
    have ih' := ih hrest
    simp only [streamBody, List.flatMap_cons, Bool.false_eq_true, ↓reduceIte, jsonLine] at ih' ⊢
    rw [List.append_assoc]
    simp only [List.singleton_append]
    rw [splitLinesAux_line b _ [] hb, ih']
    simp

theorem lineRestAux_line (b rest cur : Bytes) (h : ∀ x ∈ b, x ≠ LF) :
    lineRestAux (b ++ LF :: rest) cur = lineRestAux rest [] := by
  induction b generalizing cur with
  | nil => simp [lineRestAux]
  | cons x xs ih =>
    have hx : x ≠ LF := h x (by simp)
    have hxs : ∀ y ∈ xs, y ≠ LF := fun y hy => h y (by simp [hy])
    simp only [List.cons_append, lineRestAux, hx, ↓reduceIte]
    exact ih _ hxs

theorem lineRest_stream (bs : List Bytes) (h : ∀ b ∈ bs, ∀ x ∈ b, x ≠ LF) :
    lineRestAux (streamBody false bs) [] = [] := by
  induction bs with
  | nil => simp [streamBody, lineRestAux]
  | cons b rest ih =>
    have hb := h b (by simp)
    have hrest : ∀ c ∈ rest, ∀ x ∈ c, x ≠ LF := fun c hc => h c (by simp [hc])
    have ih' := ih hrest
    simp only [streamBody, List.flatMap_cons, Bool.false_eq_true, ↓reduceIte, jsonLine] at ih' ⊢
    rw [List.append_assoc]
    simp only [List.singleton_append]
    rw [lineRestAux_line b _ [] hb]
    exact ih'

/-! ### text/event-stream -/

theorem sse_plain (xs : Bytes) (st : SseSt) (h : ∀ x ∈ xs, x ≠ LF ∧ x ≠ CR) (hp : st.prevCR = false) :
    xs.foldl sseByte st = { st with line := st.line ++ xs } := by
  induction xs generalizing st with
  | nil => simp
  | cons x rest ih =>
    have hx := h x (by simp)
    have hrest : ∀ y ∈ rest, y ≠ LF ∧ y ≠ CR := fun y hy => h y (by simp [hy])
    simp only [List.foldl_cons]
    have h1 : sseByte st x = { st with line := st.line ++ [x], prevCR := false } := by
      simp [sseByte, hx.1, hx.2]
    rw [h1, ih _ hrest rfl]
    simp [hp]

theorem splitField_data (b : Bytes) (hsp : b.head? ≠ some SP) :
    splitField (dataPrefix ++ b) = ([100, 97, 116, 97], b) := by
  have hc : (100 : UInt8) ≠ COLON ∧ (97 : UInt8) ≠ COLON ∧ (116 : UInt8) ≠ COLON := by decide
  cases b with
  | nil => simp [splitField, dataPrefix, COLON, List.takeWhile, List.dropWhile]
  | cons x xs =>
    have : x ≠ SP := by intro e; apply hsp; simp [e]
    simp [splitField, dataPrefix, COLON, List.takeWhile, List.dropWhile, this]

def cleanSt (o : List Bytes) : SseSt := { line := [], prevCR := false, dataLines := [], out := o }

theorem sse_event (b : Bytes) (o : List Bytes)
    (h : ∀ x ∈ b, x ≠ LF ∧ x ≠ CR) (hsp : b.head? ≠ some SP) :
    (sseEvent b).foldl sseByte (cleanSt o) = cleanSt (o ++ [b]) := by
  have hd : ∀ x ∈ dataPrefix ++ b, x ≠ LF ∧ x ≠ CR := by
    intro x hx
    rcases List.mem_append.1 hx with h1 | h1
    · simp [dataPrefix] at h1
      rcases h1 with rfl | rfl | rfl | rfl | rfl <;> decide
    · exact h x h1
  unfold sseEvent
  rw [List.foldl_append, sse_plain _ _ hd rfl]
  simp only [cleanSt, List.nil_append, List.foldl_cons, List.foldl_nil]
  -- first LF ends the `data:` line
  have e1 : sseByte { line := dataPrefix ++ b, prevCR := false, dataLines := [], out := o } LF
      = { line := [], prevCR := false, dataLines := [b], out := o } := by
    have hne : ∃ y ys, dataPrefix ++ b = y :: ys ∧ y = 100 := ⟨100, [97, 116, 97, 58] ++ b, by simp [dataPrefix], rfl⟩
    obtain ⟨y, ys, hy, hy100⟩ := hne
    simp only [sseByte, ↓reduceIte, Bool.false_eq_true, sseEndLine]
    rw [hy]
    simp only
    have : y ≠ COLON := by subst hy100; decide
    simp only [this, ↓reduceIte]
    rw [← hy, splitField_data b hsp]
    simp
  rw [e1]
  -- second LF is the blank line that dispatches
  simp [sseByte, sseEndLine, joinLF]

theorem sse_stream (bs : List Bytes) (o : List Bytes)
    (h : ∀ b ∈ bs, (∀ x ∈ b, x ≠ LF ∧ x ≠ CR) ∧ b.head? ≠ some SP) :
    (streamBody true bs).foldl sseByte (cleanSt o) = cleanSt (o ++ bs) := by
  induction bs generalizing o with
  | nil => simp [streamBody]
  | cons b rest ih =>
    have hb := h b (by simp)
    have hrest : ∀ c ∈ rest, (∀ x ∈ c, x ≠ LF ∧ x ≠ CR) ∧ c.head? ≠ some SP := fun c hc => h c (by simp [hc])
    have ih' := ih (o ++ [b]) hrest
    simp only [streamBody, List.flatMap_cons, ↓reduceIte] at ih' ⊢
    rw [List.foldl_append, sse_event b o hb.1 hb.2, ih']
    simp

end GB.C13

namespace GB.C13
open GB

/-! ### list lemmas -/

theorem prefix_takeWhile {α} (p : α → Bool) (D L : List α) (h : D <+: L) (hp : ∀ x ∈ D, p x = true) :
    D <+: L.takeWhile p := by
  obtain ⟨t, rfl⟩ := h
  induction D with
  | nil => simp
  | cons x xs ih =>
    have hx := hp x (by simp)
    simp only [List.cons_append, List.takeWhile_cons, hx, ↓reduceIte]
    exact List.cons_prefix_cons.2 ⟨rfl, ih (fun y hy => hp y (by simp [hy]))⟩

theorem takeWhile_prefix_mono {α} (p : α → Bool) (A B : List α) (h : A <+: B) :
    A.takeWhile p <+: B.takeWhile p := by
  obtain ⟨t, rfl⟩ := h
  induction A with
  | nil => simp
  | cons x xs ih =>
    simp only [List.cons_append, List.takeWhile_cons]
    split
    · exact List.cons_prefix_cons.2 ⟨rfl, ih⟩
    · simp

theorem takeWhile_of_bad {α} (p : α → Bool) (D L : List α) (f : α) (h : D ++ [f] <+: L)
    (hp : ∀ x ∈ D, p x = true) (hf : p f = false) :
    L.takeWhile p = D ∧ (L.dropWhile p).head? = some f := by
  obtain ⟨t, rfl⟩ := h
  induction D with
  | nil => simp [List.takeWhile_cons, List.dropWhile_cons, hf]
  | cons x xs ih =>
    have hx := hp x (by simp)
    have := ih (fun y hy => hp y (by simp [hy]))
    simp only [List.cons_append, List.takeWhile_cons, List.dropWhile_cons, hx, ↓reduceIte]
    simp only [List.append_assoc] at this ⊢
    exact ⟨by rw [this.1], this.2⟩

/-! ### `effective` -/

theorem effective_snoc (cfg : Cfg) (c : List Frame) (f : Frame) :
    effective cfg (c ++ [f]) =
      if cfg.cs then effective cfg c ++ [f]
      else if cfg.body then (if c = [] then [f] else effective cfg c) else effective cfg c := by
  unfold effective
  cases cfg.cs <;> cases cfg.body <;> simp
  cases c <;> simp

theorem effective_prefix (cfg : Cfg) (a b : List Frame) (h : a <+: b) : effective cfg a <+: effective cfg b := by
  unfold effective
  cases cfg.cs <;> cases cfg.body <;> simp [h]
  obtain ⟨t, rfl⟩ := h
  cases a <;> simp

theorem effective_prefix_snoc (cfg : Cfg) (c : List Frame) (f : Frame) :
    effective cfg c <+: effective cfg (c ++ [f]) := effective_prefix cfg _ _ (List.prefix_append _ _)

end GB.C13

namespace GB.C13
open GB

/-! ### the hand-off invariant -/

structure Inv (cfg : Cfg) (s : St) : Prop where
  hist : s.sent = s.consumed ++ s.pending
  allOK : ∀ f ∈ s.delivered, frameOK cfg f = true
  pre : s.delivered <+: effective cfg s.consumed
  waitLive : s.recv = .waiting → s.done = false
  noRes : s.recv ≠ .stopped → s.result = none
  latch : cfg.cs = false → cfg.body = true → (s.alreadyRead = true ↔ s.consumed ≠ [])
  flightO : ∀ f, s.reader = .offering f → ∃ X, effective cfg s.consumed = X ++ [f] ∧ s.delivered <+: X ∧
        (s.done = false → s.result = none → s.delivered = X)
  flightN : (∀ f, s.reader ≠ .offering f) → s.done = false → s.result = none →
        s.delivered = effective cfg s.consumed
  bad : (s.result = some .wrongType ∨ s.result = some .transcode) →
    ∃ f, s.delivered ++ [f] <+: effective cfg s.consumed ∧ frameOK cfg f = false
  badType : s.result = some .wrongType →
    ∃ f, s.delivered ++ [f] <+: effective cfg s.consumed ∧ typeOK cfg f = false
  calls1 : cfg.cs = false → s.calls ≤ 1
  empt : s.emptyBodies ≤ s.calls
  empt0 : (cfg.cs = true ∨ cfg.body = true) → s.emptyBodies = 0

theorem inv_init (cfg : Cfg) : Inv cfg init := by
  constructor <;> simp [init, effective]

end GB.C13

namespace GB.C13
open GB

theorem inv_clientSend (cfg : Cfg) (s : St) (f : Frame) (h : Inv cfg s) :
    Inv cfg { s with pending := s.pending ++ [f], sent := s.sent ++ [f] } := by
  refine { h with hist := ?_ }
  simp [h.hist]

theorem inv_cancel (cfg : Cfg) (s : St) (h : Inv cfg s) : Inv cfg { s with cancelled := true } := by
  exact { h with }

end GB.C13

namespace GB.C13
open GB

theorem inv_read (cfg : Cfg) (s s' : St) (h : Inv cfg s) (hs : step cfg s .read = some s') : Inv cfg s' := by
  simp only [step] at hs
  split at hs
  next f rest hr hp =>
    have hpre : s.delivered <+: effective cfg (s.consumed ++ [f]) :=
      List.IsPrefix.trans h.pre (effective_prefix_snoc cfg _ f)
    have hbadmono : ∀ (g : Frame), s.delivered ++ [g] <+: effective cfg s.consumed →
        s.delivered ++ [g] <+: effective cfg (s.consumed ++ [f]) :=
      fun g hg => List.IsPrefix.trans hg (effective_prefix_snoc cfg _ f)
    by_cases hcs : cfg.cs = true
    · -- client streaming: every frame is offered
      simp only [hcs, ↓reduceIte, Option.some.injEq] at hs
      subst hs
      refine { h with hist := ?_, pre := hpre, latch := ?_, flightO := ?_, flightN := ?_, bad := ?_, badType := ?_ }
      · simp [h.hist, hp]
      · intro hc; simp [hcs] at hc
      · intro g hg
        simp only [Reader.offering.injEq] at hg
        subst hg
        refine ⟨effective cfg s.consumed, ?_, h.pre, ?_⟩
        · simp [effective_snoc, hcs]
        · exact h.flightN (by simp [hr])
      · intro hno; exact absurd rfl (hno f)
      · intro hb; obtain ⟨g, hg, hk⟩ := h.bad hb; exact ⟨g, hbadmono g hg, hk⟩
      · intro hb; obtain ⟨g, hg, hk⟩ := h.badType hb; exact ⟨g, hbadmono g hg, hk⟩
    · have hcs' : cfg.cs = false := by simpa using hcs
      simp only [hcs', Bool.false_eq_true, ↓reduceIte] at hs
      by_cases hfirst : (cfg.body && !s.alreadyRead) = true
      · -- the single frame a non-client-streaming call reads
        simp only [hfirst, ↓reduceIte, Option.some.injEq] at hs
        subst hs
        simp only [Bool.and_eq_true, Bool.not_eq_eq_eq_not, Bool.not_true] at hfirst
        have hempty : s.consumed = [] := by
          have := h.latch hcs' hfirst.1
          cases hc : s.consumed with
          | nil => rfl
          | cons a b => have := this.2 (by simp [hc]); simp [hfirst.2] at this
        have hD : s.delivered = [] := by
          have := h.pre; simp [hempty, effective, hcs', hfirst.1] at this; exact this
        refine { h with hist := ?_, pre := hpre, latch := ?_, flightO := ?_, flightN := ?_, bad := ?_, badType := ?_ }
        · simp [h.hist, hp]
        · intro _ _; simp
        · intro g hg
          simp only [Reader.offering.injEq] at hg
          subst hg
          refine ⟨[], ?_, ?_, ?_⟩
          · simp [hempty, effective, hcs', hfirst.1]
          · simp [hD]
          · intro _ _; exact hD
        · intro hno; exact absurd rfl (hno f)
        · intro hb; obtain ⟨g, hg, hk⟩ := h.bad hb; exact ⟨g, hbadmono g hg, hk⟩
        · intro hb; obtain ⟨g, hg, hk⟩ := h.badType hb; exact ⟨g, hbadmono g hg, hk⟩
      · -- the frame is dropped
        simp only [hfirst, Bool.false_eq_true, ↓reduceIte, Option.some.injEq] at hs
        subst hs
        have heff : effective cfg (s.consumed ++ [f]) = effective cfg s.consumed := by
          rw [effective_snoc]
          simp only [hcs', Bool.false_eq_true, ↓reduceIte]
          by_cases hb : cfg.body = true
          · have har : s.alreadyRead = true := by
              cases har : s.alreadyRead with
              | true => rfl
              | false => simp [hb, har] at hfirst
            have hne := (h.latch hcs' hb).1 har
            simp [hb, hne]
          · simp [hb]
        refine { h with hist := ?_, pre := hpre, latch := ?_, flightO := ?_, flightN := ?_, bad := ?_, badType := ?_ }
        · simp [h.hist, hp]
        · intro _ hb
          have har : s.alreadyRead = true := by
            cases har : s.alreadyRead with
            | true => rfl
            | false => simp [hb, har] at hfirst
          simp [har]
        · intro g hg; simp [hr] at hg
        · intro hno hd hres
          show s.delivered = effective cfg (s.consumed ++ [f])
          rw [heff]; exact h.flightN (by simp [hr]) hd hres
        · intro hb; obtain ⟨g, hg, hk⟩ := h.bad hb; exact ⟨g, hbadmono g hg, hk⟩
        · intro hb; obtain ⟨g, hg, hk⟩ := h.badType hb; exact ⟨g, hbadmono g hg, hk⟩
  next => simp at hs

end GB.C13

namespace GB.C13
open GB

theorem inv_handoff (cfg : Cfg) (s s' : St) (h : Inv cfg s) (hs : step cfg s .handoff = some s') : Inv cfg s' := by
  simp only [step] at hs
  split at hs
  next f0 hr hw =>
    have hdone : s.done = false := h.waitLive hw
    have hres : s.result = none := h.noRes (by simp [hw])
    obtain ⟨X, hX, hDX, hEq⟩ := h.flightO f0 hr
    have hD : s.delivered = X := hEq hdone hres
    have hfull : s.delivered ++ [f0] = effective cfg s.consumed := by rw [hX, hD]
    by_cases hc : s.eventsClosed = true
    · simp [hc] at hs
    · simp only [hc, Bool.false_eq_true, ↓reduceIte] at hs
      by_cases ht : typeOK cfg f0 = true
      · simp only [evOf, ht, ↓reduceIte] at hs
        by_cases hm : (f0.malformed && cfg.body) = true
        · -- the transcoder rejects the payload
          simp only [hm, ↓reduceIte, Option.some.injEq] at hs
          subst hs
          refine { h with waitLive := ?_, noRes := ?_, flightO := ?_, flightN := ?_, bad := ?_, badType := ?_ }
          · intro hh; simp at hh
          · intro hh; simp at hh
          · intro g hg; simp at hg
          · intro _ _ hh; simp at hh
          · intro _; exact ⟨f0, by rw [hfull]; exact List.prefix_refl _, by simp [frameOK, ht, hm]⟩
          · intro hh; simp at hh
        · -- delivered
          simp only [hm, Bool.false_eq_true, ↓reduceIte, Option.some.injEq] at hs
          subst hs
          refine { h with allOK := ?_, pre := ?_, waitLive := ?_, noRes := ?_, flightO := ?_, flightN := ?_,
                          bad := ?_, badType := ?_ }
          · intro g hg
            rcases List.mem_append.1 hg with hg | hg
            · exact h.allOK g hg
            · simp only [List.mem_singleton] at hg; subst hg; simp [frameOK, ht, hm]
          · show s.delivered ++ [f0] <+: effective cfg s.consumed
            rw [hfull]; exact List.prefix_refl _
          · intro hh; simp at hh
          · intro _; exact hres
          · intro g hg; simp at hg
          · intro _ _ _; exact hfull
          · intro hb; simp [hres] at hb
          · intro hb; simp [hres] at hb
      · -- wrong frame type
        simp only [evOf, ht, Bool.false_eq_true, ↓reduceIte, Option.some.injEq] at hs
        subst hs
        have ht' : typeOK cfg f0 = false := by simpa using ht
        refine { h with waitLive := ?_, noRes := ?_, flightO := ?_, flightN := ?_, bad := ?_, badType := ?_ }
        · intro hh; simp at hh
        · intro hh; simp at hh
        · intro g hg; simp at hg
        · intro _ _ hh; simp at hh
        · intro _; exact ⟨f0, by rw [hfull]; exact List.prefix_refl _, by simp [frameOK, ht']⟩
        · intro _; exact ⟨f0, by rw [hfull]; exact List.prefix_refl _, ht'⟩
  next => simp at hs

theorem inv_onDone (cfg : Cfg) (s s' : St) (h : Inv cfg s) (hs : step cfg s .onDone = some s') : Inv cfg s' := by
  simp only [step] at hs
  split at hs
  next f0 hr =>
    by_cases hd : s.done = true
    · simp only [hd, ↓reduceIte, Option.some.injEq] at hs
      subst hs
      refine { h with waitLive := ?_, flightO := ?_, flightN := ?_ }
      · intro hw; have := h.waitLive hw; simp [hd] at this
      · intro g hg; simp at hg
      · intro _ hh; simp at hh
    · simp [hd] at hs
  next => simp at hs

theorem inv_finish (cfg : Cfg) (s s' : St) (h : Inv cfg s) (hs : step cfg s .finishOnMessage = some s') : Inv cfg s' := by
  simp only [step] at hs
  split at hs
  next hr =>
    simp only [Option.some.injEq] at hs
    subst hs
    refine { h with flightO := ?_, flightN := ?_ }
    · intro g hg; simp at hg
    · intro _ hd hres; exact h.flightN (by simp [hr]) hd hres
  next => simp at hs

theorem inv_recvCall (cfg : Cfg) (s s' : St) (h : Inv cfg s) (hs : step cfg s .recvCall = some s') : Inv cfg s' := by
  simp only [step] at hs
  split at hs
  next hc =>
    obtain ⟨hidle, hdone, hcalls⟩ := hc
    have hres : s.result = none := h.noRes (by simp [hidle])
    by_cases hb : (cfg.cs || cfg.body) = true
    · simp only [hb, ↓reduceIte, Option.some.injEq] at hs
      subst hs
      refine { h with waitLive := ?_, noRes := ?_, calls1 := ?_, empt := ?_ }
      · intro _; exact hdone
      · intro _; exact hres
      · intro hcs
        rcases hcalls with hh | hh
        · simp [hcs] at hh
        · show s.calls + 1 ≤ 1
          omega
      · show s.emptyBodies ≤ s.calls + 1
        have := h.empt; omega
    · simp only [hb, Bool.false_eq_true, ↓reduceIte, Option.some.injEq] at hs
      subst hs
      refine { h with calls1 := ?_, empt := ?_, empt0 := ?_ }
      · intro hcs
        rcases hcalls with hh | hh
        · simp [hcs] at hh
        · show s.calls + 1 ≤ 1
          omega
      · show s.emptyBodies + 1 ≤ s.calls + 1
        have := h.empt; omega
      · intro hh
        simp only [Bool.or_eq_true, not_or, Bool.not_eq_true] at hb
        rcases hh with hh | hh <;> simp [hb.1, hb.2] at hh
  next => simp at hs

theorem inv_recvStop (cfg : Cfg) (s : St) (e : RecvErr) (h : Inv cfg s)
    (he : e ≠ .wrongType ∧ e ≠ .transcode) : Inv cfg { s with recv := .stopped, result := some e } := by
  refine { h with waitLive := ?_, noRes := ?_, flightO := ?_, flightN := ?_, bad := ?_, badType := ?_ }
  · intro hh; simp at hh
  · intro hh; simp at hh
  · intro g hg
    obtain ⟨X, hX, hDX, _⟩ := h.flightO g hg
    exact ⟨X, hX, hDX, fun _ hh => by simp at hh⟩
  · intro _ _ hh; simp at hh
  · intro hb
    simp only [Option.some.injEq] at hb
    rcases hb with hb | hb
    · exact absurd hb he.1
    · exact absurd hb he.2
  · intro hb
    simp only [Option.some.injEq] at hb
    exact absurd hb he.1

theorem inv_closeDone (cfg : Cfg) (s s' : St) (h : Inv cfg s) (hs : step cfg s .closeDone = some s') : Inv cfg s' := by
  simp only [step] at hs
  split at hs
  next hw =>
    simp only [Option.some.injEq] at hs
    subst hs
    refine { h with waitLive := ?_, flightO := ?_, flightN := ?_ }
    · intro hh; exact absurd hh hw.1
    · intro g hg
      obtain ⟨X, hX, hDX, _⟩ := h.flightO g hg
      exact ⟨X, hX, hDX, fun hh => by simp at hh⟩
    · intro _ hh; simp at hh
  next => simp at hs

theorem inv_readerExit (cfg : Cfg) (s s' : St) (h : Inv cfg s) (hs : step cfg s .readerExit = some s') : Inv cfg s' := by
  simp only [step] at hs
  split at hs
  next hr =>
    simp only [Option.some.injEq] at hs
    subst hs
    refine { h with flightO := ?_, flightN := ?_ }
    · intro g hg; simp at hg
    · intro _ hd hres; exact h.flightN (by simp [hr]) hd hres
  next => simp at hs

/-- The invariant is preserved by every step. -/
theorem inv_step (cfg : Cfg) (s : St) (l : Lbl) (s' : St) (h : Inv cfg s) (hs : step cfg s l = some s') : Inv cfg s' := by
  cases l with
  | clientSend f => simp only [step, Option.some.injEq] at hs; subst hs; exact inv_clientSend cfg s f h
  | read => exact inv_read cfg s s' h hs
  | handoff => exact inv_handoff cfg s s' h hs
  | onDone => exact inv_onDone cfg s s' h hs
  | finishOnMessage => exact inv_finish cfg s s' h hs
  | recvCall => exact inv_recvCall cfg s s' h hs
  | recvClosed =>
    simp only [step] at hs
    split at hs
    · simp only [Option.some.injEq] at hs; subst hs; exact inv_recvStop cfg s .eof h (by decide)
    · simp at hs
  | recvCtx =>
    simp only [step] at hs
    split at hs
    · simp only [Option.some.injEq] at hs; subst hs; exact inv_recvStop cfg s .ctx h (by decide)
    · simp at hs
  | cancel => simp only [step, Option.some.injEq] at hs; subst hs; exact inv_cancel cfg s h
  | closeDone => exact inv_closeDone cfg s s' h hs
  | readerExit => exact inv_readerExit cfg s s' h hs

theorem inv_reachable (cfg : Cfg) (s : St) (h : GB.LTS.Reachable (step cfg) init s) : Inv cfg s :=
  GB.LTS.invariant (step cfg) init (Inv cfg) (inv_init cfg) (inv_step cfg) s h

end GB.C13

namespace GB.C13
open GB

/-! ### close reason -/

theorem truncPoint_le (r : Bytes) (n : Nat) : truncPoint r n ≤ n := by
  induction n with
  | zero => simp [truncPoint]
  | succ n ih =>
    simp only [truncPoint]
    split
    · split
      · omega
      · omega
    · omega

/-- the cut is at 0, or on a byte that starts a rune (or past the end) -/
theorem truncPoint_boundary (r : Bytes) (n : Nat) :
    truncPoint r n = 0 ∨ (∀ b, r[truncPoint r n]? = some b → runeStart b = true) := by
  induction n with
  | zero => simp [truncPoint]
  | succ n ih =>
    simp only [truncPoint]
    split
    next b hb =>
      split
      next hrs => right; intro b' hb'; rw [hb] at hb'; cases hb'; exact hrs
      next => exact ih
    next hb => right; intro b' hb'; rw [hb] at hb'; cases hb'

/-- scanning down from `n` stops at the first rune start, so not below any rune start `j ≤ n` -/
theorem truncPoint_ge (r : Bytes) (n j : Nat) (b : UInt8) (hj : j ≤ n) (hb : r[j]? = some b)
    (hs : runeStart b = true) : j ≤ truncPoint r n := by
  induction n with
  | zero => omega
  | succ n ih =>
    simp only [truncPoint]
    by_cases hjn : j = n + 1
    · subst hjn; simp [hb, hs]
    · have hj' : j ≤ n := by omega
      split
      · split
        · omega
        · exact ih hj'
      · omega

theorem closeReason_length (r : Bytes) : (closeReason r).length ≤ 123 := by
  unfold closeReason maxCloseReasonLen
  split
  · assumption
  · have := truncPoint_le r 123
    simp only [List.length_take]
    omega

theorem closeReasonWhole_length (r : Bytes) : (closeReasonWhole r).length ≤ 123 := closeReason_length _

theorem closeReason_prefix (r : Bytes) : closeReason r <+: r := by
  unfold closeReason
  split
  · exact List.prefix_refl _
  · exact List.take_prefix _ _

/-- what gws puts on the wire, minus the code, is exactly the prepared reason -/
theorem closeFrame_reason (res : FwdResult) :
    closeFrame res = ((websocketError res).1, closeReasonWhole (websocketError res).2) := by
  unfold closeFrame gwsClosePayload
  have hl := closeReasonWhole_length (websocketError res).2
  simp only [List.cons_append, List.nil_append]
  have : (UInt8.ofNat ((websocketError res).1 / 256) :: UInt8.ofNat ((websocketError res).1 % 256) ::
      closeReasonWhole (websocketError res).2).length ≤ 125 := by simp; omega
  rw [List.take_of_length_le this]
  simp

theorem reasonPrefix_short : ∀ c, c ≤ 16 → (reasonPrefix c).length ≤ 25 := by decide

/-- the prefix `code X: ` survives the cut when some byte among 25..123 of the reason starts a rune
    (always the case for valid UTF-8, where at most 3 continuation bytes follow one another) -/
theorem closeReason_keeps_prefix (p m : Bytes) (hp : p.length ≤ 25)
    (hstart : 123 < (p ++ m).length → ∃ j b, 25 ≤ j ∧ j ≤ 123 ∧ (p ++ m)[j]? = some b ∧ runeStart b = true) :
    p <+: closeReason (p ++ m) := by
  unfold closeReason maxCloseReasonLen
  split
  · exact List.prefix_append _ _
  · rename_i hlen
    obtain ⟨j, b, hj1, hj2, hb, hs⟩ := hstart (by omega)
    have := truncPoint_ge (p ++ m) 123 j b hj2 hb hs
    rw [List.take_append]
    have hz : truncPoint (p ++ m) 123 - p.length + p.length = truncPoint (p ++ m) 123 := by omega
    rw [List.take_of_length_le (by omega)]
    exact List.prefix_append _ _

end GB.C13
