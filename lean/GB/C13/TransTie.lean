import GB.Generated.Trans
import GB.Base.TransLemmas
import GB.C13.Model
/-
  C13 — SOURCE-TO-LEAN TRANSLATOR TIE for `closeReason` (webbridge/websocket.go), regenerated from the source
  on every run.  `strings.ToValidUTF8` is not modelled: the translator keeps it UNINTERPRETED (a parameter of
  the generated definition).  The hand model `GB.C13.closeReason` is stated for reasons that are valid UTF-8,
  where `ToValidUTF8` is the identity — so the tie instantiates the parameter with the identity; the general
  statement `C13_trans_closeReason_any` covers every function in its place.
  The `for n > 0 && !utf8.RuneStart(reason[n]) { n-- }` loop is the model's `truncPoint`.
-/
set_option linter.unusedSimpArgs false
set_option linter.unusedVariables false

open GB GB.Trans

theorem GB.C13.TransTie.runeStart_eq (b : UInt8) : GB.Trans.runeStart b = GB.C13.runeStart b := rfl

/-- the countdown loop is `truncPoint` -/
theorem GB.C13.TransTie.while_truncPoint (r : Bytes) : ∀ k : Nat,
    whileLoop (ρ := Bytes) k (k : Int) (fun n => (decide (n > (0 : Int))) && (!(GB.Trans.runeStart (idx r n))))
      (fun n => Ctl.next (n - 1)) = Out.done ((GB.C13.truncPoint r k : Nat) : Int) := by
  intro k
  induction k with
  | zero => rfl
  | succ k ih =>
    have hpos : ((k + 1 : Nat) : Int) > 0 := by omega
    have hnn : ¬ (((k + 1 : Nat) : Int) < 0) := by omega
    have htn : (((k + 1 : Nat) : Int)).toNat = k + 1 := by omega
    have hidx : idx r ((k + 1 : Nat) : Int) = (r[k + 1]?).getD 0 := by
      simp only [idx, hnn, if_false, htn, List.getD_eq_getElem?_getD]
    simp only [whileLoop, GB.C13.truncPoint, hidx, hpos, decide_true, Bool.true_and]
    cases hb : r[k + 1]? with
    | none =>
      have : GB.Trans.runeStart 0 = true := by decide
      simp [this]
    | some b =>
      simp only [Option.getD_some]
      by_cases hs : GB.Trans.runeStart b = true
      · have hs' : GB.C13.runeStart b = true := hs
        simp [hs, hs']
      · have hs1 : GB.Trans.runeStart b = false := by simpa using hs
        have hs' : GB.C13.runeStart b = false := hs1
        simp only [hs1, hs', Bool.not_false, if_true, Bool.false_eq_true, if_false]
        have : (((k + 1 : Nat) : Int) - 1) = (k : Int) := by omega
        rw [this]; exact ih

/-- webbridge `closeReason`, for every function in the place of `strings.ToValidUTF8` -/
theorem C13_trans_closeReason_any : ∀ (f : GB.Bytes → GB.Bytes → GB.Bytes) (r : GB.Bytes),
    GB.Generated.Trans.closeReason f r = GB.C13.closeReason (f r [239, 191, 189]) := by
  intro f r
  unfold GB.Generated.Trans.closeReason GB.C13.closeReason GB.C13.maxCloseReasonLen
  have hlen : ∀ x : Bytes, (len x ≤ (123 : Int)) ↔ x.length ≤ 123 := by intro x; simp only [len, Int.ofNat_eq_natCast]; omega
  by_cases h : (f r [239, 191, 189]).length ≤ 123
  · simp [hlen, h]
  · have w := GB.C13.TransTie.while_truncPoint (f r [239, 191, 189]) 123
    have h123 : Int.toNat (123 : Int) = 123 := rfl
    simp only [hlen, h, decide_false, Bool.false_eq_true, if_false, h123]
    have w' : whileLoop (ρ := Bytes) 123 (123 : Int)
        (fun n => (decide (n > (0 : Int))) && (!(GB.Trans.runeStart (idx (f r [239, 191, 189]) n))))
        (fun n => Ctl.next (n - 1)) = Out.done ((GB.C13.truncPoint (f r [239, 191, 189]) 123 : Nat) : Int) := w
    rw [w']
    simp [slice]

/-- webbridge `closeReason` on a valid-UTF-8 reason (`strings.ToValidUTF8` = identity there): the hand model -/
theorem C13_trans_closeReason : ∀ r : GB.Bytes,
    GB.Generated.Trans.closeReason (fun s _ => s) r = GB.C13.closeReason r := by
  intro r; rw [C13_trans_closeReason_any]
