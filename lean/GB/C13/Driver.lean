import GB.Base.Proto
import GB.C13.Spec
namespace GB.C13
open GB GB.Proto

/-! line-protocol helpers -/

def parseListStr (s : String) : List String := if s = "-" || s = "" then [] else s.splitOn ","

def parseHexList (s : String) : Option (List Bytes) := (parseListStr s).mapM parseHex

def parseEnd (s : String) : Option End :=
  if s = "ok" then some .ok
  else if s = "hang" then some .hang
  else match s.toList with
    | 'e' :: rest =>
      match (String.ofList rest).splitOn ":" with
      | [c, m] => do
        let c ← c.toNat?
        let m ← parseHex m
        some (.err c m)
      | _ => none
    | _ => none

def parseFrame (s : String) : Option Frame :=
  match s.toList with
  | op :: kind :: ':' :: rest => do
    let t ← parseHex (String.ofList rest)
    if (op = 't' || op = 'b') && (kind = 'g' || kind = 'm') then
      some { binary := op = 'b', malformed := kind = 'm', text := t }
    else none
  | _ => none

def jsonM : Marshaler := jsonMarshaler
def binM : Marshaler := { mime := binMime, binary := true, stream := false }
/-- the transcoder configuration of the harness: JSON (default) and a binary, non-streaming marshaler -/
def marshalers : List Marshaler := [jsonM, binM]

def showOptHex : Option Bytes → String
  | none => "-"
  | some b => toHex b

/-- `R<i>` / `W<n>` / `F` of an observed trace (the bytes of a write are not observed, only their number) -/
def parseWEv (s : String) : Option WEv :=
  match s.toList with
  | ['F'] => some .flush
  | 'R' :: rest => (String.ofList rest).toNat?.map .targetRecv
  | 'W' :: rest => (String.ofList rest).toNat?.map (fun n => .write (List.replicate n 0))
  | _ => none

def showWEv : WEv → String
  | .targetRecv i => s!"R{i}"
  | .write b => s!"W{b.length}"
  | .flush => "F"

/-- cut `body` into chunks of the given sizes (`none` unless they add up to the body) -/
def cutChunks (body : Bytes) : List Nat → Option (List Bytes)
  | [] => if body = [] then some [] else none
  | n :: rest => if n ≤ body.length then (cutChunks (body.drop n) rest).map (body.take n :: ·) else none

def isListPrefix (a b : List Bytes) : Bool := a.length ≤ b.length && b.take a.length == a

/-- `http <cs> <ss> <accept…> <content-type…> <rbp> <lockstep> <msgs…> <end>
      => <status> <content-type|-> <body> <payloads…> <records…> <flush> <trace R<i>/W<n>/F…> <chunk sizes…>` -/
def handleHTTP (i o : List String) : String :=
  match i, o with
  | [_, cs, ss, acc, ct, rbp, _lock, msgs, e], [status, rct, body, payloads, recs, flush, trace, chunks] =>
    match parseHexList acc, parseHexList ct, parseEnd e, status.toNat?, parseHex body, parseHexList payloads with
    | some acc, some ct, some e, some status, some body, some ps =>
      let cs := cs = "1"
      let ss := ss = "1"
      let req : BindReq := { accept := acc, contentType := ct, cs, ss }
      let msgsL := parseListStr msgs
      let recsL := parseListStr recs
      let exp := httpOutcome marshalers jsonM req (rbp = "w") ps e
      let bound := bind marshalers jsonM req
      let sseReq := sseRequested marshalers acc && (match pickRequest marshalers jsonM ct with | .ok _ => true | .error _ => false)
      let isSSE := match bound with | .ok b => b.isSSE | .error _ => false
      -- the property's demands on what was observed
      -- SSE asked for a client-streaming or non-server-streaming method must get the SSE refusal
      -- (InvalidArgument = 400; Bind runs before the bridge's own client-streaming check)
      if sseReq && (cs || !ss) && status = 200 then s!"VIOL sse-not-refused status={status}"
      else if sseReq && (cs || !ss) && status ≠ 400 then
        s!"VIOL sse-refusal-missing status={status} want=400 (refused, but not by the SSE check)"
      else if status = 200 && ss && !cs && isSSE && rct ≠ toHex sseMime && msgsL ≠ [] then
        s!"VIOL sse-content-type got={rct} want={toHex sseMime}"
      else if status = 200 && ss && !cs && !(ps.all (fun p => if isSSE then sseSafe p else lineSafe p)) then
        "VIOL payload-breaks-framing (encoder emitted a raw line break)"
      else if status = 200 && ss && !cs && recsL ≠ msgsL then
        s!"VIOL records got={recsL.length} want={msgsL.length} (records read back by the client differ from the messages sent)"
      else if status = 200 && ss && !cs && !(if rct = toHex sseMime then sseClean body else lineRest body = []) then
        "VIOL stray-bytes-after-records (the stream body does not end at a record boundary: something other than a framed record was written)"
      else if status = 200 && ss && !cs && flush ≠ "ok" then "VIOL not-flushed-per-message"
      else if status = 200 && ss && !cs && (match (parseListStr trace).mapM parseWEv with
          | some evs => !flushedBeforeRecv false evs
          | none => true) then
        s!"VIOL not-flushed-before-next-message trace={trace} (something written is still unflushed when the target is asked for the next message, or at the end of the stream)"
      else if status = 200 && ss && !cs && (match cutChunks body ((parseListStr chunks).filterMap String.toNat?) with
          | some cs => !(List.range (cs.length + 1)).all (fun j =>
              isListPrefix (if rct = toHex sseMime then readSSEChunked (cs.take j) else readLinesChunked (cs.take j)) ps)
          | none => false) then
        "VIOL partial-record-surfaced (after some chunk the client held records that are not a prefix of the messages sent)"
      -- model = implementation
      else if status ≠ exp.status then s!"DIFF model=status:{exp.status}"
      else if (match exp.ct with | some c => rct != toHex c | none => rct != "-" && exp.body.isSome) then
        s!"DIFF model=ct:{showOptHex exp.ct}"
      else if (match exp.body with | some b => b != body | none => false) then s!"DIFF model=body:{showOptHex exp.body}"
      else if status = 200 && ss && !cs && (if isSSE then parseSSE body else splitLines body) ≠ ps then
        "DIFF model=parser (the model's record reader does not return the payloads)"
      else if status = 200 && ss && !cs && (parseListStr trace) ≠ (streamTrace isSSE ps).map showWEv then
        s!"DIFF model=trace:{(streamTrace isSSE ps).map showWEv} (write/flush events of the response loop)"
      else if status = 200 && ss && !cs && (match cutChunks body ((parseListStr chunks).filterMap String.toNat?) with
          | some cs => (if isSSE then readSSEChunked cs else readLinesChunked cs) ≠ ps
          | none => true) then
        "DIFF model=chunked-reader (the chunked reader fed the client's chunks does not return the payloads)"
      else
        let nt := if (status = 200 && ss && msgsL ≠ []) || sseReq then " nt" else ""
        let br :=
          if status = 200 && ss then (if msgsL = [] then "http-empty-stream" else if isSSE then "http-sse-stream" else "http-json-stream")
          else if sseReq && status = 400 then "http-sse-refused"
          else if status = 200 then "http-unary"
          else s!"http-{status}"
        s!"OK{nt} b={br}"
    | _, _, _, _, _, _ => "BAD http fields"
  | _, _ => "BAD http arity"

def showClose (c : Nat × Bytes) : String := s!"c{c.1}:{toHex c.2}"

/-- close code and reason of an observed `c<code>:<hex>` field -/
def parseClose (s : String) : Option (Nat × Bytes) :=
  match s.toList with
  | 'c' :: rest =>
    match (String.ofList rest).splitOn ":" with
    | [c, r] => do
      let c ← c.toNat?
      let r ← parseHex r
      some (c, r)
    | _ => none
  | _ => none

/-- `<codec>[~<variant>]` → codec letters and the extra Accept value of the handshake -/
def parseWSCodec (s : String) : Option (String × List Bytes) :=
  let ok (c : String) : Bool := c ∈ ["j", "b", "jj", "jb", "bj", "bb"]
  match s.splitOn "~" with
  | [c] => if ok c then some (c, []) else none
  | [c, v] =>
    if !ok c then none
    else match v with
      | "e" => some (c, [sseMime])
      | "s" => some (c, [ascii "*/*"])
      | "q" => some (c, [ascii "text/event-stream;q=0.9, application/json;q=0.8"])
      | "E" => some (c, [ascii "TEXT/EVENT-STREAM"])
      | _ => none
  | _ => none

/-- an observed WebSocket message `t:x<hex>` whose payload is a `data:…\n\n` event -/
def wsMsgSSEFramed (m : String) : Bool :=
  match parseHex (String.ofList (m.toList.drop 2)) with
  | some p => isPrefixOfB dataPrefix p && p.reverse.take 2 == [LF, LF]
  | none => false

/-- `ws <cs> <ss> <body> <codec> <frames…> <resp…> <end> <gap> <close> <readn>
      => <upgrade> <messages…> <records…> <close> <received…> <ret> <payloads…>` -/
def handleWS (i o : List String) : String :=
  match i, o with
  | [_, cs, ss, body, codec, frames, resp, e, _gap, closeMode, _readn], [up, msgs, recs, close, recv, ret, payloads] =>
    match (parseListStr frames).mapM parseFrame, parseEnd e, parseHexList payloads, parseWSCodec codec with
    | some fs, some e, some ps, some (codec, extraAccept) =>
      let cs := cs = "1"
      let ss := ss = "1"
      -- codec = <request><response> (one letter: no Accept value for a marshaler, the response falls back to the
      -- request marshaler); `~variant` adds an Accept value that matches no marshaler (text/event-stream, */*, …).
      -- The handshake headers go through the model's `bind`: frame-type check by the REQUEST marshaler, response
      -- opcode by the RESPONSE marshaler, and NOTHING else of the handshake may show in the frames.
      let accept : List Bytes := (if codec.length = 2 then [if codec.endsWith "b" then binMime else jsonMime] else []) ++ extraAccept
      let contentType : List Bytes := if codec.startsWith "b" then [binMime] else if codec.length = 2 then [jsonMime] else []
      let req : BindReq := { accept, contentType, cs, ss }
      let sseReq := sseRequested marshalers accept
      match bind marshalers jsonM req with
      | .error be =>
        if sseReq && (cs || !ss) && up = "101" then
          "VIOL sse-not-refused (WebSocket upgraded although SSE was asked for a client-streaming or non-server-streaming method)"
        else if up ≠ toString (bindErrStatus be) then s!"DIFF model=upgrade:{bindErrStatus be}"
        else if ret ≠ "noupgrade" then s!"DIFF model=ret:noupgrade"
        else s!"OK nt b=ws-refused-{up}"
      | .ok bound =>
      let cfg : Cfg := { cs, body := body = "1", expectBinary := bound.reqM.binary }
      let respBinary : Bool := bound.respM.binary
      let respL := parseListStr resp
      let msgsL := parseListStr msgs
      let recsL := parseListStr recs
      let recvL := parseListStr recv
      let deliv := expectedDelivered cfg fs
      let bad := firstBad cfg fs
      let started := cfg.cs || !cfg.body || deliv ≠ []
      -- without a request body in the binding the payload is not read: one empty request per frame
      let recvExp : List String :=
        if cfg.body then deliv.map (fun f => toHex f.text)
        else if cfg.cs then deliv.map (fun _ => "x") else ["x"]
      -- how the call ends: `none` = only the client can end it
      let res : Option FwdResult :=
        match bad with
        | some f => some (if typeOK cfg f then .status 3 [] else .wrongType cfg.expectBinary)
        | none =>
          if !started then none
          else match e with
            | .ok => some (if !ss && ps = [] then .status 14 msgUnaryEOF else .ok)
            | .err c m => some (.status c m)
            | .hang => none
      let nOut : Nat :=
        if bad.isSome || !started then 0
        else if ss then ps.length
        else match e with | .ok => min 1 ps.length | _ => 0
      let outExp := wsOut respBinary (ps.take nOut)
      let opc := if respBinary then "b" else "t"
      let msgsExp := outExp.map (fun m => s!"{opc}:{toHex m.payload}")
      let malformedEnd := match bad with | some f => typeOK cfg f | none => false
      let closeExp : String :=
        match res with
        | none => if closeMode = "cli" then "c1000:x" else "none"
        | some r => showClose (closeFrame r)
      if up ≠ "101" then s!"DIFF model=upgrade:101"
      -- the property's demands on what was observed
      else if msgsL.any wsMsgSSEFramed then
        "VIOL ws-frame-sse-framed (a WebSocket message carries a `data:` event instead of the codec's document: the transport's record format must not depend on the handshake's Accept header)"
      else if !(msgsL.all (fun m => m.startsWith (opc ++ ":"))) then s!"VIOL opcode (a response was not sent as a {opc} message)"
      else if recsL ≠ respL.take nOut then
        s!"VIOL out-records got={recsL.length} want={nOut} (messages read by the client differ from the responses sent)"
      else if recvL ≠ recvExp then
        s!"VIOL in-records got={recvL.length} want={recvExp.length} (request messages at the target differ from the client frames)"
      else if (match bad with | some f => !typeOK cfg f | none => false) && !(close.startsWith "c1003:") then
        s!"VIOL wrong-frame-type-not-1003 got={close}"
      else if res = some .ok && close ≠ "c1000:x" then s!"VIOL clean-end-not-1000 got={close}"
      else if (match res with
          | some (.status c _) =>
            (match parseClose close with
             | some (code, reason) => code == 1000 || !isPrefixOfB (reasonPrefix c) reason
             | none => true)
          | _ => false) then s!"VIOL error-close-without-grpc-code got={close}"
      -- model = implementation
      else if msgsL ≠ msgsExp then s!"DIFF model=messages"
      else if !malformedEnd && close ≠ closeExp then s!"DIFF model=close:{closeExp}"
      else if malformedEnd && !(close.startsWith "c1001:") then s!"DIFF model=close:c1001"
      else if ret ≠ "ok" then s!"DIFF model=ret:ok"
      else
        let nt := if fs.length + respL.length ≥ 1 then " nt" else ""
        let bin := if cfg.cs then "ws-in-all" else if cfg.body then "ws-in-first" else "ws-in-none"
        let bend := match bad, res with
          | some f, _ => if typeOK cfg f then "malformed" else "wrongtype"
          | none, none => "client-close"
          | none, some .ok => "clean"
          | none, some _ => "error"
        let mix := if cfg.expectBinary != respBinary then "-mixed" else ""
        let acc := if bound.isSSE then "-sseaccept" else if extraAccept ≠ [] then "-extraaccept" else ""
        s!"OK{nt} b={bin}-{bend}{mix}{acc}"
    | _, _, _, _ => "BAD ws fields"
  | _, _ => "BAD ws arity"

def reqOK (ct : List Bytes) : Bool :=
  match pickRequest marshalers jsonM ct with | .ok _ => true | .error _ => false

/-- `bind <cs> <ss> <accept…> <content-type…>
      => ok <req mime> <req binary> <resp content-type> <resp binary> <streams> | err <grpc code> <HTTPStatus override>` -/
def handleBind (i o : List String) : String :=
  match i with
  | [_, cs, ss, acc, ct] =>
    match parseHexList acc, parseHexList ct with
    | some acc, some ct =>
      let cs := cs = "1"
      let ss := ss = "1"
      let req : BindReq := { accept := acc, contentType := ct, cs, ss }
      let sseReq := sseRequested marshalers acc && reqOK ct
      let b01 (b : Bool) : String := if b then "1" else "0"
      let exp : List String :=
        match bind marshalers jsonM req with
        | .ok b => ["ok", toHex b.reqM.mime, b01 b.reqM.binary, toHex (responseContentType b), b01 b.respM.binary, b01 b.respM.stream] ++
            -- `Transcode` returns the bare document of the marshaler (`transcodeMsg`), whatever the binding says about SSE
            (match o[7]?.bind parseHex with | some bare => [toHex (transcodeMsg b bare), toHex bare] | none => ["?", "?"])
        | .error .unsupportedMedia => ["err", "3", "415"]
        | .error _ => ["err", "3", "0"]
      let mustRefuse := sseReq && (cs || !ss)
      if mustRefuse && o.head? = some "ok" then "VIOL sse-not-refused (Bind accepted SSE for a client-streaming or non-server-streaming method)"
      else if mustRefuse && o ≠ ["err", "3", "0"] then s!"VIOL sse-refusal-missing got={o} want=InvalidArgument"
      else if sseReq && !mustRefuse && o.head? = some "ok" && o[3]? ≠ some (toHex sseMime) then
        s!"VIOL sse-content-type got={o[3]?.getD "-"} want={toHex sseMime}"
      else if o.head? = some "ok" && o[6]? ≠ o[7]? then
        "VIOL transcode-framed (the per-message Transcode of the bound response transcoder is not the marshaler's bare document: record framing belongs to the stream encoder; WebSocket frames are built from Transcode)"
      else if o ≠ exp then s!"DIFF model={exp}"
      else
        let br := if mustRefuse then "bind-sse-refused" else if sseReq then "bind-sse"
          else if o.head? = some "ok" then "bind-ok" else "bind-415"
        s!"OK nt b={br}"
    | _, _ => "BAD bind fields"
  | _ => "BAD bind arity"

/-- `wsup <cs> <ss> <body> <accept…> <content-type…> => <handshake status>` -/
def handleWSUp (i o : List String) : String :=
  match i, o with
  | [_, cs, ss, _body, acc, ct], [status] =>
    match parseHexList acc, parseHexList ct with
    | some acc, some ct =>
      let cs := cs = "1"
      let ss := ss = "1"
      let req : BindReq := { accept := acc, contentType := ct, cs, ss }
      let sseReq := sseRequested marshalers acc && reqOK ct
      let exp : String :=
        match bind marshalers jsonM req with
        | .ok _ => "101"
        | .error e => toString (bindErrStatus e)
      let mustRefuse := sseReq && (cs || !ss)
      if mustRefuse && status = "101" then "VIOL sse-not-refused (WebSocket upgraded although SSE was asked for a client-streaming or non-server-streaming method)"
      else if mustRefuse && status ≠ "400" then s!"VIOL sse-refusal-missing status={status} want=400"
      else if status ≠ exp then s!"DIFF model=status:{exp}"
      else
        let br := if mustRefuse then "wsup-sse-refused" else if status = "101" then "wsup-101" else s!"wsup-{status}"
        s!"OK nt b={br}"
    | _, _ => "BAD wsup fields"
  | _, _ => "BAD wsup arity"

/-- `application/x-c13-bin` -/
def glueBinMime : Bytes := ascii "application/x-c13-bin"
/-- the harness's binary codec of the `glue` op: flagged binary, own content type, can stream -/
def glueBinM : Marshaler := { mime := glueBinMime, binary := true, stream := true }

def parseGlueOpts (s : String) : Option (List BridgeOpt) :=
  (s.splitOn "+").foldlM (fun acc part =>
    match part with
    | "none" => some acc
    | "mj" => some (acc ++ [.withMarshalers [jsonM]])
    | "mjb" => some (acc ++ [.withMarshalers [jsonM, glueBinM]])
    | "mb" => some (acc ++ [.withMarshalers [glueBinM]])
    | "db" => some (acc ++ [.withDefaultMarshaler glueBinM])
    | _ => none) []

def glueSel : String → List Bytes
  | "j" => [jsonMime]
  | "b" => [glueBinMime]
  | _ => []

def parseEntry : String → Option Entry
  | "http" => some .http | "sse" => some .sse | "ws" => some .ws | _ => none

/-- `glue <opts> <entry> <kind> <content-type> <accept> <frames> <resp…>
      => <status> <content-type|-> <records kind:codec:text…> <close|-> <received…|-> <ret>`
    The bridge was built by the root constructor; the prediction uses the transcoder every entry point
    must share (`wiredTranscoder`, theorem `C13_entry_points_share_transcoder`). -/
def handleGlue (i o : List String) : String :=
  match i, o with
  | [_, optS, entryS, kind, ctS, accS, frames, resp], [status, rct, recs, close, recv, ret] =>
    match parseGlueOpts optS, parseEntry entryS with
    | some opts, some entry =>
      let cs := kind = "bidi"
      let t := entryTranscoder (wiredTranscoder opts) entry
      let accept := if entry = .sse then [sseMime] else glueSel accS
      let req : BindReq := { accept, contentType := glueSel ctS, cs, ss := true }
      let respL := parseListStr resp
      let recsL := parseListStr recs
      let recvL := parseListStr recv
      -- per-record rule that needs no model: a WebSocket record of the binary codec travels in a binary
      -- frame, one of a text codec in a text frame
      if recsL.any (fun r => r.startsWith "t:b:" || r.startsWith "b:j:") then
        "VIOL frame-kind (a record was sent in the wrong WebSocket frame type for the codec that produced it)"
      else if recsL.any (fun r => (r.splitOn ":")[1]? = some "!") then "VIOL record-undecodable"
      else
      match bind t.ms t.dflt req with
      | .error e =>
        if status ≠ toString (bindErrStatus e) then s!"DIFF model=status:{bindErrStatus e}"
        else s!"OK nt b=glue-{entryS}-{status}"
      | .ok b =>
        let codec := if b.respM.binary then "b" else "j"
        if entry ≠ .ws then
          if cs then
            (if status ≠ "501" then s!"DIFF model=status:501" else s!"OK nt b=glue-{entryS}-501")
          else
            let k := if b.isSSE then "e" else "l"
            let recsExp := respL.map (fun x => s!"{k}:{codec}:{x}")
            if status ≠ "200" then s!"DIFF model=status:200"
            else if recsL.any (fun r => (r.splitOn ":")[1]? ≠ some codec) then
              s!"VIOL entry-point-codec want={codec} (records were not produced by the codec the bridge options select for this request)"
            else if recsL ≠ recsExp then s!"VIOL records got={recsL.length} want={recsExp.length}"
            else if rct ≠ toHex (responseContentType b) then s!"DIFF model=ct:{toHex (responseContentType b)}"
            else s!"OK nt b=glue-{entryS}-{codec}"
        else
          let cfg : Cfg := { cs, body := true, expectBinary := b.reqM.binary }
          let fs : List Frame := (if frames = "-" then [] else frames.toList).zipIdx.map
            (fun (c, n) => { binary := c = 'b', malformed := false, text := ascii s!"f{n}" })
          let deliv := expectedDelivered cfg fs
          let bad := firstBad cfg fs
          let recvExp := deliv.map (fun f => toHex f.text)
          let k := if b.respM.binary then "b" else "t"
          let recsExp := if bad.isSome then [] else respL.map (fun x => s!"{k}:{codec}:{x}")
          if status ≠ "101" then s!"DIFF model=status:101"
          else if recsL.any (fun r => (r.splitOn ":")[1]? ≠ some codec) then
            s!"VIOL entry-point-codec want={codec} (records were not produced by the codec the bridge options select for this request)"
          else if bad.isNone && close = "c1003" then
            "VIOL frame-refused (a frame of the type the configured request codec expects was refused with 1003)"
          else if bad.isSome && close ≠ "c1003" then s!"VIOL wrong-frame-type-not-1003 got={close}"
          else if recvL ≠ recvExp then s!"VIOL in-records got={recvL.length} want={recvExp.length}"
          else if recsL ≠ recsExp then s!"VIOL records got={recsL.length} want={recsExp.length}"
          else if bad.isNone && close ≠ "c1000" then s!"DIFF model=close:c1000"
          else if ret ≠ "ok" then "DIFF model=ret:ok"
          else s!"OK nt b=glue-ws-{codec}{if bad.isSome then "-1003" else ""}"
    | _, _ => "BAD glue fields"
  | _, _ => "BAD glue arity"

/-- `cr <reason> => <closeReasonWhole(reason)> <utf8.ValidString(reason)> <strings.ToValidUTF8(reason)>` — the real
    `webbridge.closeReasonWhole`, Go's validator and sanitiser against `closeReasonWhole`, `ValidUTF8`, `toValidUTF8`. -/
def handleCR (i o : List String) : String :=
  match i, o with
  | [_, r], [cr, valid, tv] =>
    match parseHex r, parseHex cr, parseHex tv with
    | some r, some cr, some tv =>
      -- the property's demands on the observed reason: readable by a client (valid UTF-8), fits a control frame
      if !ValidUTF8 cr then "VIOL close-reason-invalid-utf8 (clients fail the connection instead of reporting code and reason)"
      else if cr.length > 123 then s!"VIOL close-reason-too-long len={cr.length}"
      else if !isPrefixOfB cr (toValidUTF8 r) then "VIOL close-reason-not-a-prefix (of the sanitised reason)"
      else if (toValidUTF8 r).length > 123 && cr.length < 120 then s!"VIOL close-reason-overcut len={cr.length} (more than 3 bytes lost)"
      -- model = implementation
      else if (valid = "1") != ValidUTF8 r then s!"DIFF model=valid:{ValidUTF8 r}"
      else if tv != toValidUTF8 r then s!"DIFF model=toValidUTF8:{toHex (toValidUTF8 r)}"
      else if cr != closeReasonWhole r then s!"DIFF model=closeReasonWhole:{toHex (closeReasonWhole r)}"
      else
        let br := if (toValidUTF8 r).length > 123 then (if cr.length < 123 then "cr-backed-off" else "cr-cut") else "cr-short"
        s!"OK nt b={br}{if ValidUTF8 r then "" else "-sanitised"}"
    | _, _, _ => "BAD cr fields"
  | _, _ => "BAD cr arity"

def handle : Handler
  | "cr" :: i, o => handleCR ("cr" :: i) o
  | "glue" :: i, o => handleGlue ("glue" :: i) o
  | "http" :: i, o => handleHTTP ("http" :: i) o
  | "ws" :: i, o => handleWS ("ws" :: i) o
  | "bind" :: i, o => handleBind ("bind" :: i) o
  | "wsup" :: i, o => handleWSUp ("wsup" :: i) o
  | _, _ => "BAD c13 line"

end GB.C13
