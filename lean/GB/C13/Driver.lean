import GB.Base.Proto
namespace GB.C13
open GB GB.Proto

/-- stub: replaced when the C13 slice is built -/
def handle : Handler := fun _ _ => "BAD c13 unimplemented"

end GB.C13
