import GB.C13.Proofs2
/-
  C13, wave 7 (Lean only):
  (1) `strings.ToValidUTF8` as coded — first loop (scan for the first invalid byte), fast path (`return s`),
      main loop with its ASCII shortcut — and its equality with the one-loop model `toValidUTF8`;
  (2) the class of header values on which `mediaType` is `mime.ParseMediaType` (decidable predicate `wfMediaValue`),
      and the lemmas behind `C13_bind_ignores_parameters`.
  Core-only definitions; nothing here is used by the driver.
-/
namespace GB.C13
open GB

/-! ## `strings.ToValidUTF8(s, "�")` as coded -/

/-- the first loop: `for i, c := range s { if c != utf8.RuneError { continue }; _, wid := utf8.DecodeRuneInString(s[i:]);
    if wid == 1 { b.Grow(…); b.WriteString(s[:i]); s = s[i:]; break } }` — the offset of the first byte that starts no
    well-formed rune (`range` advances rune by rune; a literal U+FFFD decodes with width 3 and is passed over).
    `fuel` ≥ the remaining length. -/
def firstInvalid : Nat → Bytes → Option Nat
  | 0, _ => none
  | _, [] => none
  | fuel + 1, c :: rest =>
    match runeLen (c :: rest) with
    | some n => (firstInvalid fuel ((c :: rest).drop n)).map (· + n)
    | none => some 0

/-- the second loop as coded: `c < utf8.RuneSelf` is copied without decoding; otherwise `DecodeRuneInString`:
    width 1 = invalid byte (one replacement per run), else the rune's bytes are copied. -/
def toValidMain : Nat → Bool → Bytes → Bytes
  | 0, _, _ => []
  | _, _, [] => []
  | fuel + 1, invalid, c :: rest =>
    if c.toNat < 0x80 then c :: toValidMain fuel false rest
    else match runeLen (c :: rest) with
      | some n => (c :: rest).take n ++ toValidMain fuel false ((c :: rest).drop n)
      | none => (if invalid then [] else replacementChar) ++ toValidMain fuel true rest

/-- the whole function as coded: no invalid byte found ⇒ `b.Cap() == 0` ⇒ `return s` (fast path); otherwise the
    builder holds `s[:i]` and the main loop runs over `s[i:]` with `invalid = false`. -/
def toValidUTF8Coded (s : Bytes) : Bytes :=
  match firstInvalid s.length s with
  | none => s
  | some i => s.take i ++ toValidMain (s.drop i).length false (s.drop i)

theorem runeLen_ascii (c : UInt8) (rest : Bytes) (h : c.toNat < 0x80) : runeLen (c :: rest) = some 1 := by
  simp [runeLen, okPrefix, utf8Step, h]

/-- the ASCII shortcut of the main loop is the general branch for a one-byte rune -/
theorem toValidMain_eq (fuel : Nat) (inv : Bool) (s : Bytes) : toValidMain fuel inv s = toValidAux fuel inv s := by
  induction fuel generalizing inv s with
  | zero => simp [toValidMain, toValidAux]
  | succ fuel ih =>
    cases s with
    | nil => simp [toValidMain, toValidAux]
    | cons c rest =>
      simp only [toValidMain, toValidAux]
      by_cases hc : c.toNat < 0x80
      · simp [hc, runeLen_ascii c rest hc, ih]
      · simp only [hc, ↓reduceIte]
        cases hr : runeLen (c :: rest) <;> simp [ih]

/-- enough fuel is enough -/
theorem toValidAux_fuel (f1 f2 : Nat) (inv : Bool) (s : Bytes) (h1 : s.length ≤ f1) (h2 : s.length ≤ f2) :
    toValidAux f1 inv s = toValidAux f2 inv s := by
  induction f1 generalizing f2 inv s with
  | zero =>
    have : s = [] := List.eq_nil_of_length_eq_zero (by omega)
    subst this; cases f2 <;> simp [toValidAux]
  | succ f1 ih =>
    cases s with
    | nil => cases f2 <;> simp [toValidAux]
    | cons c rest =>
      cases f2 with
      | zero => simp at h2
      | succ f2 =>
        simp only [toValidAux]
        simp only [List.length_cons] at h1 h2
        split
        next n hn =>
          have hn1 := (runeLen_ok _ _ hn).2
          rw [ih f2 false _ (by simp only [List.length_drop, List.length_cons]; omega)
            (by simp only [List.length_drop, List.length_cons]; omega)]
        next =>
          rw [ih f2 true rest (by omega) (by omega)]

/-- the scan finds nothing exactly on valid UTF-8 -/
theorem firstInvalid_none_valid (fuel : Nat) (s : Bytes) (hf : s.length ≤ fuel) (h : firstInvalid fuel s = none) :
    ValidUTF8 s = true := by
  induction fuel generalizing s with
  | zero =>
    have : s = [] := List.eq_nil_of_length_eq_zero (by omega)
    subst this; rfl
  | succ fuel ih =>
    cases s with
    | nil => rfl
    | cons c rest =>
      simp only [firstInvalid] at h
      split at h
      next n hn =>
        obtain ⟨hok, hn1⟩ := runeLen_ok _ _ hn
        simp only [Option.map_eq_none_iff] at h
        have hv := ih _ (by simp only [List.length_drop, List.length_cons] at hf ⊢; omega) h
        simp only [okPrefix, Bool.and_eq_true, beq_iff_eq] at hok
        unfold ValidUTF8 at hv ⊢
        rw [← List.take_append_drop n (c :: rest), List.foldl_append, hok.2]
        exact hv
      next => cases h

theorem valid_firstInvalid_none (fuel : Nat) (s : Bytes) (h : ValidUTF8 s = true) : firstInvalid fuel s = none := by
  induction fuel generalizing s with
  | zero => simp [firstInvalid]
  | succ fuel ih =>
    cases s with
    | nil => simp [firstInvalid]
    | cons c rest =>
      obtain ⟨n, hn, _, _, hv⟩ := valid_head_rune c rest h
      simp only [firstInvalid, hn, ih _ hv, Option.map_none]

/-- what precedes the first invalid byte is copied, the main loop continues there with `invalid = false` -/
theorem firstInvalid_some_split (fuel : Nat) (s : Bytes) (i : Nat) (hf : s.length ≤ fuel)
    (h : firstInvalid fuel s = some i) :
    i < s.length ∧ runeLen (s.drop i) = none ∧ ValidUTF8 (s.take i) = true ∧
      toValidAux fuel false s = s.take i ++ toValidAux fuel false (s.drop i) := by
  induction fuel generalizing s i with
  | zero => simp [firstInvalid] at h
  | succ fuel ih =>
    cases s with
    | nil => simp [firstInvalid] at h
    | cons c rest =>
      simp only [firstInvalid] at h
      split at h
      next n hn =>
        obtain ⟨hok, hn1⟩ := runeLen_ok _ _ hn
        simp only [okPrefix, Bool.and_eq_true, beq_iff_eq, decide_eq_true_eq] at hok
        simp only [Option.map_eq_some_iff] at h
        obtain ⟨j, hj, hji⟩ := h
        subst hji
        have hlen : ((c :: rest).drop n).length ≤ fuel := by
          simp only [List.length_drop, List.length_cons] at hf ⊢; omega
        obtain ⟨h1, h2, h3, h4⟩ := ih _ j hlen hj
        have hadd : n + j = j + n := Nat.add_comm _ _
        refine ⟨?_, ?_, ?_, ?_⟩
        · simp only [List.length_drop] at h1; omega
        · rw [← hadd, ← List.drop_drop]; exact h2
        · rw [← hadd, List.take_add]
          unfold ValidUTF8 at h3 ⊢
          rw [List.foldl_append, hok.2]; exact h3
        · simp only [toValidAux, hn]
          rw [h4, ← hadd, List.take_add, ← List.drop_drop, List.append_assoc]
          congr 2
          apply toValidAux_fuel
          · simp only [List.length_drop, List.length_cons] at hf ⊢; omega
          · simp only [List.length_drop, List.length_cons] at hf ⊢; omega
      next hn =>
        cases h
        exact ⟨by simp, by simpa using hn, rfl, by simp⟩

/-- the function as coded (scan, fast path, main loop with the ASCII shortcut) equals the one-loop model -/
theorem toValidUTF8Coded_eq (s : Bytes) : toValidUTF8Coded s = toValidUTF8 s := by
  unfold toValidUTF8Coded
  split
  next h => exact (toValidUTF8_id s (firstInvalid_none_valid _ s (Nat.le_refl _) h)).symm
  next i h =>
    obtain ⟨_, _, _, h4⟩ := firstInvalid_some_split _ s i (Nat.le_refl _) h
    unfold toValidUTF8
    rw [h4, toValidMain_eq]
    congr 1
    exact toValidAux_fuel _ _ _ _ (Nat.le_refl _) (by simp only [List.length_drop]; omega)

/-! ## the class of header values on which `mediaType` is `mime.ParseMediaType` -/

/-- `mime.isTokenChar`: a printable ASCII byte that is not one of `()<>@,;:\"/[]?=` (and not a space) -/
def isTokenByte (b : UInt8) : Bool :=
  0x20 < b.toNat && b.toNat < 0x7F &&
    !([0x28, 0x29, 0x3C, 0x3E, 0x40, 0x2C, 0x3B, 0x3A, 0x5C, 0x22, 0x2F, 0x5B, 0x5D, 0x3F, 0x3D] : Bytes).contains b

def isToken (t : Bytes) : Bool := t != [] && t.all isTokenByte

/-- `checkMediaTypeDisposition`: `token [ "/" token ]` and nothing else -/
def wfTypeSubtype (t : Bytes) : Bool :=
  isToken (t.takeWhile (· ≠ 0x2F)) &&
    (match t.dropWhile (· ≠ 0x2F) with
     | [] => true
     | _ :: sub => isToken sub)

def splitOnByte (d : UInt8) : Bytes → List Bytes
  | [] => [[]]
  | b :: bs =>
    if b = d then [] :: splitOnByte d bs
    else match splitOnByte d bs with
      | [] => [[b]]
      | h :: t => (b :: h) :: t

/-- key of a `key=value` segment, lower-cased as `consumeMediaParam` does -/
def paramKey (p : Bytes) : Bytes := (p.takeWhile (· ≠ 0x3D)).map lowerByte

/-- one parameter after `;` and the surrounding white space are removed: `token "=" (token | quoted-string)`; the
    quoted strings of the class contain printable ASCII without `"`, `\` and `;` (a conservative sub-class of what
    `consumeValue` accepts: no escapes, no `;` inside quotes) -/
def wfParam (p : Bytes) : Bool :=
  isToken (p.takeWhile (· ≠ 0x3D)) &&
    (match p.dropWhile (· ≠ 0x3D) with
     | [] => false
     | _ :: 0x22 :: q =>
       q.getLast? == some 0x22 &&
         q.dropLast.all (fun b => 0x20 ≤ b.toNat && b.toNat < 0x7F && b != 0x22 && b != 0x5C && b != 0x3B)
     | _ :: v => isToken v)

/-- THE WELL-FORMED CLASS, decidable: the value is `OWS type["/"subtype] OWS *( ";" OWS key=value OWS ) [ ";" OWS ]`
    with pairwise distinct (case-insensitive) keys. On this class `mime.ParseMediaType` returns no error and its media
    type is `mediaType v`; outside of it `ParseMediaType` may fail (duplicate or malformed parameter, bad token) and
    `pickRequestMarshaler` then skips the value, which `mediaType` does not model. White space is the model's
    (SP, HT, LF, CR): other `unicode.IsSpace` bytes fail the token tests, so the class excludes them. -/
def wfMediaValue (v : Bytes) : Bool :=
  match splitOnByte 0x3B v with
  | [] => false
  | base :: ps =>
    let ps' := if (ps.getLast?.map trim) == some [] then ps.dropLast else ps
    wfTypeSubtype ((trim base).map lowerByte) &&
      ps'.all (fun p => wfParam (trim p)) &&
      decide ((ps'.map (fun p => paramKey (trim p))).Nodup)

theorem findSome_mediaType (ms : List Marshaler) (ct : List Bytes) :
    ct.findSome? (fun v => lookup ms (mediaType v)) = (ct.map mediaType).findSome? (lookup ms) := by
  induction ct with
  | nil => rfl
  | cons a t ih => simp only [List.findSome?, List.map_cons, ih]

/-- `pickRequestMarshaler` sees its header values through `mediaType` only -/
theorem pickRequest_mediaType (ms : List Marshaler) (d : Marshaler) (c c' : List Bytes)
    (h : c'.map mediaType = c.map mediaType) : pickRequest ms d c' = pickRequest ms d c := by
  unfold pickRequest
  rw [findSome_mediaType, findSome_mediaType, h]
  have hn : c' = [] ↔ c = [] := by
    rw [← List.map_eq_nil_iff (f := mediaType) (l := c'), h, List.map_eq_nil_iff]
  by_cases hc : c = []
  · simp [hc, hn.mpr hc]
  · have hc' : ¬ c' = [] := fun h' => hc (hn.mp h')
    simp [hc, hc']

theorem trimLeft_spaces_append (pre x : Bytes) (h : ∀ b ∈ pre, isSpace b = true) : trimLeft (pre ++ x) = trimLeft x := by
  induction pre with
  | nil => rfl
  | cons a t ih =>
    have ha := h a (by simp)
    simp only [List.cons_append, trimLeft, ha, ↓reduceIte]
    exact ih (fun b hb => h b (by simp [hb]))

theorem trimLeft_nonspace (x : Bytes) (h : x.head?.all (fun b => !isSpace b) = true) : trimLeft x = x := by
  cases x with
  | nil => rfl
  | cons a t =>
    simp only [List.head?_cons, Option.all_some, Bool.not_eq_eq_eq_not, Bool.not_true] at h
    simp [trimLeft, h]

end GB.C13
