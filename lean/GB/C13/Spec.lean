import GB.C13.Model
/-
  C13 — specification side: how a *client* reads records back, written independently of the
  encoders in Model.lean.

  * `splitLines`  — newline-delimited JSON: a record is everything up to a line feed; an
                    unterminated tail is not a record (yet).
  * `parseSSE`    — text/event-stream per the WHATWG algorithm ("9.2.6 Interpreting an event
                    stream"): lines end in LF, CR or CRLF; a line starting with ':' is a comment;
                    a `data` field appends value + LF to the data buffer (one leading space of the
                    value is dropped); other fields do not touch the data buffer; a blank line
                    dispatches the buffer minus its final LF, unless no `data` line was seen.
-/
namespace GB.C13
open GB

/-! ### newline-delimited records -/

def splitLinesAux : Bytes → Bytes → List Bytes
  | [], _ => []
  | b :: rest, cur => if b = LF then cur :: splitLinesAux rest [] else splitLinesAux rest (cur ++ [b])

def splitLines (s : Bytes) : List Bytes := splitLinesAux s []

/-! ### text/event-stream -/

structure SseSt where
  /-- bytes of the current line -/
  line : Bytes
  /-- the previous byte was a CR (a following LF belongs to the same line end) -/
  prevCR : Bool
  /-- values of the `data` lines of the current event -/
  dataLines : List Bytes
  /-- dispatched events -/
  out : List Bytes
deriving DecidableEq, Repr

def joinLF : List Bytes → Bytes
  | [] => []
  | [x] => x
  | x :: xs => x ++ [LF] ++ joinLF xs

/-- field name and value of a non-empty, non-comment line -/
def splitField (line : Bytes) : Bytes × Bytes :=
  let name := line.takeWhile (· ≠ COLON)
  let rest := (line.dropWhile (· ≠ COLON)).drop 1
  (name, match rest with
    | b :: r => if b = SP then r else b :: r
    | [] => [])

def sseEndLine (st : SseSt) : SseSt :=
  match st.line with
  | [] =>
    -- blank line: dispatch
    if st.dataLines = [] then { st with line := [] }
    else { st with line := [], dataLines := [], out := st.out ++ [joinLF st.dataLines] }
  | b :: _ =>
    if b = COLON then { st with line := [] }
    else
      let (name, value) := splitField st.line
      if name = [100, 97, 116, 97] then { st with line := [], dataLines := st.dataLines ++ [value] }
      else { st with line := [] }

def sseByte (st : SseSt) (b : UInt8) : SseSt :=
  if b = LF then
    if st.prevCR then { st with prevCR := false } else sseEndLine st
  else if b = CR then { sseEndLine st with prevCR := true }
  else { st with line := st.line ++ [b], prevCR := false }

def sseInit : SseSt := { line := [], prevCR := false, dataLines := [], out := [] }

/-- the events a client has dispatched after reading `s` (an incomplete event is not dispatched) -/
def parseSSE (s : Bytes) : List Bytes := (s.foldl sseByte sseInit).out

/-! ### nothing but records: what is left over after the last complete record -/

/-- bytes after the last line feed (an unterminated tail is not a record — and must not be there) -/
def lineRestAux : Bytes → Bytes → Bytes
  | [], cur => cur
  | b :: rest, cur => if b = LF then lineRestAux rest [] else lineRestAux rest (cur ++ [b])

def lineRest (s : Bytes) : Bytes := lineRestAux s []

/-- the event-stream reader is between events at the end of `s`: no partial line, no undispatched data -/
def sseClean (s : Bytes) : Bool :=
  let st := s.foldl sseByte sseInit
  st.line = [] && st.dataLines = []


/-! ### reading the body in arbitrary chunks (what an HTTP client really does) -/

/-- incremental line reader: the unterminated tail is kept aside, never surfaced -/
structure LineSt where
  cur : Bytes
  recs : List Bytes
deriving DecidableEq, Repr

def lineByte (st : LineSt) (b : UInt8) : LineSt :=
  if b = LF then { cur := [], recs := st.recs ++ [st.cur] } else { st with cur := st.cur ++ [b] }

/-- the records a client has after the network delivered `chunks`, one `Read` per chunk -/
def readLinesChunked (chunks : List Bytes) : List Bytes :=
  (chunks.foldl (fun (st : LineSt) (c : Bytes) => c.foldl lineByte st) { cur := [], recs := [] }).recs

/-- the events an event-stream client has dispatched after the network delivered `chunks` -/
def readSSEChunked (chunks : List Bytes) : List Bytes :=
  (chunks.foldl (fun (st : SseSt) (c : Bytes) => c.foldl sseByte st) sseInit).out

/-! ### what the property demands of one observed call (used by the driver) -/

/-- the payload assumptions under which records can be split at all -/
def lineSafe (p : Bytes) : Bool := !p.contains LF
def sseSafe (p : Bytes) : Bool := !p.contains LF && !p.contains CR && p.head? != some SP

/-- SSE was asked for: `Accept` carries text/event-stream and no marshaler matched `Accept`. -/
def sseRequested (ms : List Marshaler) (accept : List Bytes) : Bool :=
  accept.contains sseMime && (pickResponse ms accept).isNone

def isPrefixOfB (p s : Bytes) : Bool := p.length ≤ s.length && s.take p.length == p

end GB.C13
