import GB.C13.Proofs
/-
  C13 — helper lemmas of the deepening round: chunk-boundary safety of the client-side readers.
-/
set_option linter.unusedSimpArgs false
set_option linter.unusedVariables false
namespace GB.C13
open GB

/-! ### chunked reading = reading the concatenation -/

theorem foldl_chunks {σ : Type} (f : σ → UInt8 → σ) (chunks : List Bytes) (st : σ) :
    chunks.foldl (fun st c => c.foldl f st) st = chunks.flatten.foldl f st := by
  induction chunks generalizing st with
  | nil => rfl
  | cons c cs ih => simp only [List.foldl_cons, List.flatten_cons, List.foldl_append]; exact ih _

theorem lineFold_recs (s : Bytes) (st : LineSt) :
    (s.foldl lineByte st).recs = st.recs ++ splitLinesAux s st.cur := by
  induction s generalizing st with
  | nil => simp [splitLinesAux]
  | cons b rest ih =>
    simp only [List.foldl_cons, splitLinesAux]
    rw [ih]
    by_cases hb : b = LF
    · simp [lineByte, hb]
    · simp [lineByte, hb]

theorem lineFold_cur (s : Bytes) (st : LineSt) :
    (s.foldl lineByte st).cur = lineRestAux s st.cur := by
  induction s generalizing st with
  | nil => simp [lineRestAux]
  | cons b rest ih =>
    simp only [List.foldl_cons, lineRestAux]
    rw [ih]
    by_cases hb : b = LF
    · simp [lineByte, hb]
    · simp [lineByte, hb]

/-- reading more bytes only appends records: what was surfaced stays, nothing is revised -/
theorem splitLines_append (a b : Bytes) :
    splitLines (a ++ b) = splitLines a ++ splitLinesAux b (lineRest a) := by
  have h := lineFold_recs (a ++ b) { cur := [], recs := [] }
  rw [List.foldl_append, lineFold_recs b, lineFold_recs a, lineFold_cur a] at h
  simp only [List.nil_append] at h
  unfold splitLines lineRest
  exact h.symm

/-! ### the event-stream reader only ever appends to `out` -/

theorem sseEndLine_out (st : SseSt) : st.out <+: (sseEndLine st).out := by
  unfold sseEndLine
  split
  · split
    · exact List.prefix_refl _
    · exact List.prefix_append _ _
  · split
    · exact List.prefix_refl _
    · simp only []
      split <;> exact List.prefix_refl _

theorem sseByte_out (st : SseSt) (b : UInt8) : st.out <+: (sseByte st b).out := by
  unfold sseByte
  split
  · split
    · exact List.prefix_refl _
    · exact sseEndLine_out st
  · split
    · exact sseEndLine_out st
    · exact List.prefix_refl _

theorem sseFold_out (s : Bytes) (st : SseSt) : st.out <+: (s.foldl sseByte st).out := by
  induction s generalizing st with
  | nil => exact List.prefix_refl _
  | cons b rest ih => exact List.IsPrefix.trans (sseByte_out st b) (ih _)

theorem parseSSE_append (a b : Bytes) : parseSSE a <+: parseSSE (a ++ b) := by
  unfold parseSSE
  rw [List.foldl_append]
  exact sseFold_out b _

end GB.C13

namespace GB.C13
open GB

theorem splitLinesAux_noLF (p cur : Bytes) (h : ∀ x ∈ p, x ≠ LF) : splitLinesAux p cur = [] := by
  induction p generalizing cur with
  | nil => rfl
  | cons x xs ih =>
    have hx : x ≠ LF := h x (by simp)
    simp only [splitLinesAux, hx, ↓reduceIte]
    exact ih _ (fun y hy => h y (by simp [hy]))

theorem lineRest_streamBody (bs : List Bytes) (h : ∀ b ∈ bs, LF ∉ b) : lineRest (streamBody false bs) = [] := by
  unfold lineRest
  exact lineRest_stream bs (fun b hb x hx e => h b hb (e ▸ hx))

/-- the first line feed of an event: the `data:` line is stored, nothing is dispatched yet -/
theorem sse_event_line (b : Bytes) (o : List Bytes)
    (h : ∀ x ∈ b, x ≠ LF ∧ x ≠ CR) (hsp : b.head? ≠ some SP) :
    (dataPrefix ++ b ++ [LF]).foldl sseByte (cleanSt o) = { line := [], prevCR := false, dataLines := [b], out := o } := by
  have hd : ∀ x ∈ dataPrefix ++ b, x ≠ LF ∧ x ≠ CR := by
    intro x hx
    rcases List.mem_append.1 hx with h1 | h1
    · simp [dataPrefix] at h1
      rcases h1 with rfl | rfl | rfl | rfl | rfl <;> decide
    · exact h x h1
  rw [List.foldl_append, sse_plain _ _ hd rfl]
  simp only [cleanSt, List.nil_append, List.foldl_cons, List.foldl_nil]
  have hne : ∃ y ys, dataPrefix ++ b = y :: ys ∧ y = 100 := ⟨100, [97, 116, 97, 58] ++ b, by simp [dataPrefix], rfl⟩
  obtain ⟨y, ys, hy, hy100⟩ := hne
  simp only [sseByte, ↓reduceIte, Bool.false_eq_true, sseEndLine]
  rw [hy]
  simp only
  have : y ≠ COLON := by subst hy100; decide
  simp only [this, ↓reduceIte]
  rw [← hy, splitField_data b hsp]
  simp

/-- a partially received event (anything short of the blank line) dispatches nothing -/
theorem sse_partial_event (b p : Bytes) (o : List Bytes)
    (h : ∀ x ∈ b, x ≠ LF ∧ x ≠ CR) (hsp : b.head? ≠ some SP) (hp : p <+: dataPrefix ++ b ++ [LF]) :
    (p.foldl sseByte (cleanSt o)).out = o := by
  rcases List.prefix_concat_iff.1 hp with rfl | hp'
  · rw [sse_event_line b o h hsp]
  · have hd : ∀ x ∈ p, x ≠ LF ∧ x ≠ CR := by
      intro x hx
      have hx' : x ∈ dataPrefix ++ b := hp'.subset hx
      rcases List.mem_append.1 hx' with h1 | h1
      · simp [dataPrefix] at h1
        rcases h1 with rfl | rfl | rfl | rfl | rfl <;> decide
      · exact h x h1
    rw [sse_plain _ _ hd rfl]
    rfl

end GB.C13
