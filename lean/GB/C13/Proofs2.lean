import GB.C13.Proofs
/-
  C13 — helper lemmas of the deepening round: chunk-boundary safety of the client-side readers.
-/
set_option linter.unusedSimpArgs false
set_option linter.unusedVariables false
namespace GB.C13
open GB

/-! ### chunked reading = reading the concatenation -/

theorem foldl_chunks {σ : Type} (f : σ → UInt8 → σ) (chunks : List Bytes) (st : σ) :
    chunks.foldl (fun st c => c.foldl f st) st = chunks.flatten.foldl f st := by
  induction chunks generalizing st with
  | nil => rfl
  | cons c cs ih => simp only [List.foldl_cons, List.flatten_cons, List.foldl_append]; exact ih _

theorem lineFold_recs (s : Bytes) (st : LineSt) :
    (s.foldl lineByte st).recs = st.recs ++ splitLinesAux s st.cur := by
  induction s generalizing st with
  | nil => simp [splitLinesAux]
  | cons b rest ih =>
    simp only [List.foldl_cons, splitLinesAux]
    rw [ih]
    by_cases hb : b = LF
    · simp [lineByte, hb]
    · simp [lineByte, hb]

theorem lineFold_cur (s : Bytes) (st : LineSt) :
    (s.foldl lineByte st).cur = lineRestAux s st.cur := by
  induction s generalizing st with
  | nil => simp [lineRestAux]
  | cons b rest ih =>
    simp only [List.foldl_cons, lineRestAux]
    rw [ih]
    by_cases hb : b = LF
    · simp [lineByte, hb]
    · simp [lineByte, hb]

/-- reading more bytes only appends records: what was surfaced stays, nothing is revised -/
theorem splitLines_append (a b : Bytes) :
    splitLines (a ++ b) = splitLines a ++ splitLinesAux b (lineRest a) := by
  have h := lineFold_recs (a ++ b) { cur := [], recs := [] }
  rw [List.foldl_append, lineFold_recs b, lineFold_recs a, lineFold_cur a] at h
  simp only [List.nil_append] at h
  unfold splitLines lineRest
  exact h.symm

/-! ### the event-stream reader only ever appends to `out` -/

theorem sseEndLine_out (st : SseSt) : st.out <+: (sseEndLine st).out := by
  unfold sseEndLine
  split
  · split
    · exact List.prefix_refl _
    · exact List.prefix_append _ _
  · split
    · exact List.prefix_refl _
    · simp only []
      split <;> exact List.prefix_refl _

theorem sseByte_out (st : SseSt) (b : UInt8) : st.out <+: (sseByte st b).out := by
  unfold sseByte
  split
  · split
    · exact List.prefix_refl _
    · exact sseEndLine_out st
  · split
    · exact sseEndLine_out st
    · exact List.prefix_refl _

theorem sseFold_out (s : Bytes) (st : SseSt) : st.out <+: (s.foldl sseByte st).out := by
  induction s generalizing st with
  | nil => exact List.prefix_refl _
  | cons b rest ih => exact List.IsPrefix.trans (sseByte_out st b) (ih _)

theorem parseSSE_append (a b : Bytes) : parseSSE a <+: parseSSE (a ++ b) := by
  unfold parseSSE
  rw [List.foldl_append]
  exact sseFold_out b _

end GB.C13

namespace GB.C13
open GB

theorem splitLinesAux_noLF (p cur : Bytes) (h : ∀ x ∈ p, x ≠ LF) : splitLinesAux p cur = [] := by
  induction p generalizing cur with
  | nil => rfl
  | cons x xs ih =>
    have hx : x ≠ LF := h x (by simp)
    simp only [splitLinesAux, hx, ↓reduceIte]
    exact ih _ (fun y hy => h y (by simp [hy]))

theorem lineRest_streamBody (bs : List Bytes) (h : ∀ b ∈ bs, LF ∉ b) : lineRest (streamBody false bs) = [] := by
  unfold lineRest
  exact lineRest_stream bs (fun b hb x hx e => h b hb (e ▸ hx))

/-- the first line feed of an event: the `data:` line is stored, nothing is dispatched yet -/
theorem sse_event_line (b : Bytes) (o : List Bytes)
    (h : ∀ x ∈ b, x ≠ LF ∧ x ≠ CR) (hsp : b.head? ≠ some SP) :
    (dataPrefix ++ b ++ [LF]).foldl sseByte (cleanSt o) = { line := [], prevCR := false, dataLines := [b], out := o } := by
  have hd : ∀ x ∈ dataPrefix ++ b, x ≠ LF ∧ x ≠ CR := by
    intro x hx
    rcases List.mem_append.1 hx with h1 | h1
    · simp [dataPrefix] at h1
      rcases h1 with rfl | rfl | rfl | rfl | rfl <;> decide
    · exact h x h1
  rw [List.foldl_append, sse_plain _ _ hd rfl]
  simp only [cleanSt, List.nil_append, List.foldl_cons, List.foldl_nil]
  have hne : ∃ y ys, dataPrefix ++ b = y :: ys ∧ y = 100 := ⟨100, [97, 116, 97, 58] ++ b, by simp [dataPrefix], rfl⟩
  obtain ⟨y, ys, hy, hy100⟩ := hne
  simp only [sseByte, ↓reduceIte, Bool.false_eq_true, sseEndLine]
  rw [hy]
  simp only
  have : y ≠ COLON := by subst hy100; decide
  simp only [this, ↓reduceIte]
  rw [← hy, splitField_data b hsp]
  simp

/-- a partially received event (anything short of the blank line) dispatches nothing -/
theorem sse_partial_event (b p : Bytes) (o : List Bytes)
    (h : ∀ x ∈ b, x ≠ LF ∧ x ≠ CR) (hsp : b.head? ≠ some SP) (hp : p <+: dataPrefix ++ b ++ [LF]) :
    (p.foldl sseByte (cleanSt o)).out = o := by
  rcases List.prefix_concat_iff.1 hp with rfl | hp'
  · rw [sse_event_line b o h hsp]
  · have hd : ∀ x ∈ p, x ≠ LF ∧ x ≠ CR := by
      intro x hx
      have hx' : x ∈ dataPrefix ++ b := hp'.subset hx
      rcases List.mem_append.1 hx' with h1 | h1
      · simp [dataPrefix] at h1
        rcases h1 with rfl | rfl | rfl | rfl | rfl <;> decide
      · exact h x h1
    rw [sse_plain _ _ hd rfl]
    rfl

end GB.C13

namespace GB.C13
open GB

/-! ### UTF-8 -/

def U8.depth : U8 → Nat
  | .start => 0 | .c1 => 1 | .c2 => 2 | .c2e0 => 2 | .c2ed => 2 | .c3 => 3 | .c3f0 => 3 | .c3f4 => 3 | .bad => 0

def isContByte (b : UInt8) : Prop := 0x80 ≤ b.toNat ∧ b.toNat < 0xC0

set_option maxRecDepth 100000 in
theorem runeStart_ofNat : ∀ n, n < 256 → (runeStart (UInt8.ofNat n) = true ↔ ¬ (0x80 ≤ n ∧ n < 0xC0)) := by decide

theorem runeStart_iff (b : UInt8) : runeStart b = true ↔ ¬ isContByte b := by
  have h := runeStart_ofNat b.toNat b.toNat_lt
  rw [UInt8.ofNat_toNat] at h
  exact h

theorem fold_bad (s : Bytes) : s.foldl utf8Step .bad = .bad := by
  induction s with
  | nil => rfl
  | cons b rest ih => simpa [utf8Step] using ih

/-- in the middle of a rune only a continuation byte is accepted -/
theorem step_nonstart_runeStart (q : U8) (b : UInt8) (hq : q ≠ .start) (hb : ¬ isContByte b) :
    utf8Step q b = .bad := by
  unfold isContByte at hb
  cases q <;> simp only [utf8Step] <;> (repeat' split) <;> (first | exact absurd rfl hq | rfl | omega)

/-- a continuation byte is rejected or brings the rune one byte closer to its end -/
theorem step_cont (q : U8) (b : UInt8) (hb : isContByte b) :
    utf8Step q b = .bad ∨ ((utf8Step q b).depth + 1 = q.depth ∧ utf8Step q b ≠ .bad) := by
  unfold isContByte at hb
  cases q <;> simp only [utf8Step] <;> (repeat' split) <;> (first | omega | simp [U8.depth])

theorem depth_le (q : U8) : q.depth ≤ 3 := by cases q <;> decide

theorem four_conts (q : U8) (b1 b2 b3 b4 : UInt8)
    (h1 : isContByte b1) (h2 : isContByte b2) (h3 : isContByte b3) (h4 : isContByte b4) :
    utf8Step (utf8Step (utf8Step (utf8Step q b1) b2) b3) b4 = .bad := by
  have hbad : ∀ b, utf8Step .bad b = .bad := fun _ => rfl
  have hd := depth_le q
  rcases step_cont q b1 h1 with e1 | ⟨d1, _⟩
  · rw [e1, hbad, hbad, hbad]
  rcases step_cont (utf8Step q b1) b2 h2 with e2 | ⟨d2, _⟩
  · rw [e2, hbad, hbad]
  rcases step_cont (utf8Step (utf8Step q b1) b2) b3 h3 with e3 | ⟨d3, _⟩
  · rw [e3, hbad]
  rcases step_cont (utf8Step (utf8Step (utf8Step q b1) b2) b3) b4 h4 with e4 | ⟨d4, _⟩
  · exact e4
  · omega

/-- valid UTF-8 cut right before a byte that starts a rune is valid UTF-8 -/
theorem valid_take_at_runeStart (a t : Bytes) (b : UInt8) (h : ValidUTF8 (a ++ b :: t) = true)
    (hb : runeStart b = true) : ValidUTF8 a = true := by
  unfold ValidUTF8 at h ⊢
  rw [List.foldl_append, List.foldl_cons] at h
  by_cases hq : a.foldl utf8Step .start = .start
  · simp [hq]
  · rw [step_nonstart_runeStart _ b hq ((runeStart_iff b).1 hb), fold_bad] at h
    simp at h

/-- valid UTF-8 never has four continuation bytes in a row -/
theorem valid_no_four_conts (a t : Bytes) (b1 b2 b3 b4 : UInt8)
    (h : ValidUTF8 (a ++ b1 :: b2 :: b3 :: b4 :: t) = true) :
    runeStart b1 = true ∨ runeStart b2 = true ∨ runeStart b3 = true ∨ runeStart b4 = true := by
  by_cases h1 : runeStart b1 = true
  · exact Or.inl h1
  by_cases h2 : runeStart b2 = true
  · exact Or.inr (Or.inl h2)
  by_cases h3 : runeStart b3 = true
  · exact Or.inr (Or.inr (Or.inl h3))
  by_cases h4 : runeStart b4 = true
  · exact Or.inr (Or.inr (Or.inr h4))
  exfalso
  have c1 : isContByte b1 := Classical.not_not.1 (fun hn => h1 ((runeStart_iff b1).2 hn))
  have c2 : isContByte b2 := Classical.not_not.1 (fun hn => h2 ((runeStart_iff b2).2 hn))
  have c3 : isContByte b3 := Classical.not_not.1 (fun hn => h3 ((runeStart_iff b3).2 hn))
  have c4 : isContByte b4 := Classical.not_not.1 (fun hn => h4 ((runeStart_iff b4).2 hn))
  unfold ValidUTF8 at h
  rw [List.foldl_append] at h
  simp only [List.foldl_cons] at h
  rw [four_conts _ b1 b2 b3 b4 c1 c2 c3 c4, fold_bad] at h
  simp at h

end GB.C13

namespace GB.C13
open GB

/-! ### the cut of `closeReasonWhole` on valid UTF-8 -/

theorem validUTF8_nil : ValidUTF8 [] = true := rfl

/-- cutting valid UTF-8 at `truncPoint` leaves valid UTF-8 (the cut is never inside a rune) -/
theorem closeReason_valid (v : Bytes) (h : ValidUTF8 v = true) : ValidUTF8 (closeReason v) = true := by
  unfold closeReason maxCloseReasonLen
  split
  · exact h
  · rename_i hlen
    have hle := truncPoint_le v 123
    have hlt : truncPoint v 123 < v.length := by omega
    rcases truncPoint_boundary v 123 with h0 | hb
    · rw [h0]; rfl
    · have hsplit : v = v.take (truncPoint v 123) ++ v[truncPoint v 123] :: v.drop (truncPoint v 123 + 1) := by
        rw [← List.drop_eq_getElem_cons hlt, List.take_append_drop]
      rw [hsplit] at h
      exact valid_take_at_runeStart _ _ _ h (hb _ (List.getElem?_eq_getElem hlt))

/-- …and loses at most 3 bytes: one of the bytes 120..123 of valid UTF-8 starts a rune -/
theorem truncPoint_ge_120 (v : Bytes) (h : ValidUTF8 v = true) (hlen : 123 < v.length) :
    120 ≤ truncPoint v 123 := by
  have hd : (v.drop 120).length = v.length - 120 := List.length_drop
  have hsplit : v = v.take 120 ++ v.drop 120 := (List.take_append_drop 120 v).symm
  have hg : ∀ i, (v.drop 120)[i]? = v[120 + i]? := fun i => List.getElem?_drop
  match hm : v.drop 120 with
  | [] => simp [hm] at hd; omega
  | [_] => simp [hm] at hd; omega
  | [_, _] => simp [hm] at hd; omega
  | [_, _, _] => simp [hm] at hd; omega
  | b1 :: b2 :: b3 :: b4 :: t =>
    rw [hm] at hsplit hg
    rw [hsplit] at h
    have e1 : v[120]? = some b1 := by have := hg 0; simpa using this.symm
    have e2 : v[121]? = some b2 := by have := hg 1; simpa using this.symm
    have e3 : v[122]? = some b3 := by have := hg 2; simpa using this.symm
    have e4 : v[123]? = some b4 := by have := hg 3; simpa using this.symm
    rcases valid_no_four_conts _ _ _ _ _ _ h with r | r | r | r
    · exact truncPoint_ge v 123 120 b1 (by omega) e1 r
    · have := truncPoint_ge v 123 121 b2 (by omega) e2 r; omega
    · have := truncPoint_ge v 123 122 b3 (by omega) e3 r; omega
    · have := truncPoint_ge v 123 123 b4 (by omega) e4 r; omega

theorem closeReason_loses_le3 (v : Bytes) (h : ValidUTF8 v = true) (hlen : 123 < v.length) :
    120 ≤ (closeReason v).length := by
  unfold closeReason maxCloseReasonLen
  have := truncPoint_ge_120 v h hlen
  have := truncPoint_le v 123
  simp only [Nat.not_le.2 hlen, ↓reduceIte, List.length_take]
  omega

/-- a prefix of at most 120 bytes survives the cut of valid UTF-8 -/
theorem closeReason_keeps_prefix_valid (p v : Bytes) (hp : p.length ≤ 120) (hpv : p <+: v)
    (h : ValidUTF8 v = true) : p <+: closeReason v := by
  unfold closeReason maxCloseReasonLen
  split
  · exact hpv
  · rename_i hlen
    have := truncPoint_ge_120 v h (by omega)
    obtain ⟨t, rfl⟩ := hpv
    rw [List.take_append, List.take_of_length_le (by omega)]
    exact List.prefix_append _ _

/-! ### `strings.ToValidUTF8` -/

theorem runeLen_ok (s : Bytes) (n : Nat) (h : runeLen s = some n) : okPrefix s n = true ∧ 1 ≤ n := by
  unfold runeLen at h
  repeat' (split at h)
  all_goals first
    | (cases h; exact ⟨by assumption, by omega⟩)
    | cases h

theorem replacement_valid : replacementChar.foldl utf8Step .start = .start := by decide

/-- the output of `ToValidUTF8` is valid UTF-8, for every input -/
theorem toValidAux_valid (fuel : Nat) (inv : Bool) (s : Bytes) :
    (toValidAux fuel inv s).foldl utf8Step .start = .start := by
  induction fuel generalizing inv s with
  | zero => simp [toValidAux]
  | succ fuel ih =>
    cases s with
    | nil => simp [toValidAux]
    | cons c rest =>
      simp only [toValidAux]
      split
      next n hn =>
        have hok := (runeLen_ok _ _ hn).1
        simp only [okPrefix, Bool.and_eq_true, beq_iff_eq] at hok
        rw [List.foldl_append, hok.2]
        exact ih _ _
      next =>
        rw [List.foldl_append]
        cases inv
        · simp only [Bool.false_eq_true, ↓reduceIte, replacement_valid]; exact ih _ _
        · simp only [↓reduceIte, List.foldl_nil]; exact ih _ _

theorem toValidUTF8_valid (s : Bytes) : ValidUTF8 (toValidUTF8 s) = true := by
  unfold ValidUTF8 toValidUTF8
  rw [toValidAux_valid]
  rfl

/-- an ASCII byte is copied -/
theorem toValidUTF8_ascii_cons (a : UInt8) (s : Bytes) (ha : a.toNat < 0x80) :
    toValidUTF8 (a :: s) = a :: toValidUTF8 s := by
  have hr : runeLen (a :: s) = some 1 := by
    simp [runeLen, okPrefix, utf8Step, ha]
  simp [toValidUTF8, toValidAux, hr]

theorem toValidUTF8_ascii_prefix (p m : Bytes) (hp : ∀ x ∈ p, x.toNat < 0x80) :
    toValidUTF8 (p ++ m) = p ++ toValidUTF8 m := by
  induction p with
  | nil => rfl
  | cons a rest ih =>
    rw [List.cons_append, toValidUTF8_ascii_cons a _ (hp a (by simp)), ih (fun x hx => hp x (by simp [hx]))]
    rfl

end GB.C13

namespace GB.C13
open GB

/-! ### `code X: ` for every `codes.Code` (a uint32), including `Code(n)` -/

theorem digit_byte_ascii (ch : Char) (h : ch.isDigit = true) : (UInt8.ofNat ch.toNat).toNat < 0x80 := by
  simp only [Char.isDigit, Bool.and_eq_true, decide_eq_true_eq, ge_iff_le, UInt32.le_iff_toNat_le] at h
  have h2 : ch.toNat ≤ 57 := h.2
  simp only [UInt8.toNat_ofNat']
  omega

theorem codeName_props (c : Nat) (hc : c < 2 ^ 32) :
    (∀ x ∈ codeName c, x.toNat < 0x80) ∧ (codeName c).length ≤ 18 := by
  unfold codeName
  split
  all_goals try (exact ⟨by decide, by decide⟩)
  constructor
  · intro x hx
    simp only [List.mem_append, List.mem_map, List.mem_cons, List.mem_nil_iff, or_false] at hx
    rcases hx with (hx | ⟨ch, hch, rfl⟩) | hx
    · rcases hx with rfl | rfl | rfl | rfl | rfl <;> decide
    · exact digit_byte_ascii ch (Nat.isDigit_of_mem_toDigits (by decide) (by decide) hch)
    · subst hx; decide
  · have := (Nat.length_toDigits_le_iff (b := 10) (n := c) (k := 10) (by decide) (by decide)).2 (by omega)
    simp only [List.length_append, List.length_map, List.length_cons, List.length_nil]
    omega

theorem reasonPrefix_ascii (c : Nat) (hc : c < 2 ^ 32) : ∀ x ∈ reasonPrefix c, x.toNat < 0x80 := by
  intro x hx
  simp only [reasonPrefix, List.mem_append, List.mem_cons, List.mem_nil_iff, or_false] at hx
  rcases hx with (hx | hx) | hx
  · rcases hx with rfl | rfl | rfl | rfl | rfl <;> decide
  · exact (codeName_props c hc).1 x hx
  · rcases hx with rfl | rfl <;> decide

theorem reasonPrefix_len (c : Nat) (hc : c < 2 ^ 32) : (reasonPrefix c).length ≤ 25 := by
  have := (codeName_props c hc).2
  simp only [reasonPrefix, List.length_append, List.length_cons, List.length_nil]
  omega

end GB.C13

namespace GB.C13
open GB

/-! ### progress of the hand-off LTS -/

structure Inv2 (cfg : Cfg) (s : St) : Prop where
  exitC : s.reader = .exited → s.cancelled = true
  latchSet : cfg.cs = false → (s.reader = .closing ∨ ∃ f, s.reader = .offering f) → s.alreadyRead = true
  closedLatch : s.eventsClosed = true → cfg.cs = false ∧ s.alreadyRead = true ∧ ∀ f, s.reader ≠ .offering f

theorem inv2_init (cfg : Cfg) : Inv2 cfg init := by
  constructor <;> simp [init]

theorem inv2_step (cfg : Cfg) (s : St) (l : Lbl) (s' : St) (h : Inv2 cfg s) (hs : step cfg s l = some s') :
    Inv2 cfg s' := by
  obtain ⟨h1, h2, h3⟩ := h
  cases l <;> simp only [step] at hs
  all_goals (repeat' (split at hs))
  all_goals (first | (cases hs) | skip)
  all_goals (constructor <;> (try simp_all) <;> (try (intro hh; rcases hh with hh | hh; exact h3 hh; exact ⟨hh, h2 hh⟩)))

end GB.C13

namespace GB.C13
open GB

theorem inv2_reachable (cfg : Cfg) (s : St) (h : GB.LTS.Reachable (step cfg) init s) : Inv2 cfg s :=
  GB.LTS.invariant (step cfg) init (Inv2 cfg) (inv2_init cfg) (inv2_step cfg) s h

/-- every move that is not the environment's strictly decreases the variant -/
theorem rank_decreases (cfg : Cfg) (s : St) (l : Lbl) (s' : St) (hl : isEnv l = false)
    (hs : step cfg s l = some s') : rank s' < rank s := by
  cases l <;> simp only [step] at hs <;> simp only [isEnv] at hl
  all_goals (first | (exact absurd hl (by decide)) | skip)
  all_goals (repeat' (split at hs))
  all_goals (first | (cases hs) | skip)
  all_goals simp only [rank, readerRank, recvRank, List.length_cons, *]
  all_goals (repeat' split)
  all_goals (first | omega | simp_all)

/-- …so without the environment at most `rank s` moves are possible from `s` -/
theorem run_bounded (cfg : Cfg) (ls : List Lbl) (s s' : St) (h : GB.LTS.run (step cfg) s ls = some s')
    (hl : ∀ l ∈ ls, isEnv l = false) : ls.length + rank s' ≤ rank s := by
  induction ls generalizing s with
  | nil => simp [GB.LTS.run] at h; subst h; simp
  | cons l rest ih =>
    simp only [GB.LTS.run] at h
    cases hs : step cfg s l with
    | none => simp [hs] at h
    | some s1 =>
      rw [hs] at h
      have h1 := rank_decreases cfg s l s1 (hl l (by simp)) hs
      have h2 := ih s1 h (fun x hx => hl x (by simp [hx]))
      simp only [List.length_cons]
      omega

end GB.C13

namespace GB.C13
open GB

/-- no reachable state is stuck before `ServeHTTP` has returned, except waiting for the client -/
theorem no_deadlock (cfg : Cfg) (s : St) (h : GB.LTS.Reachable (step cfg) init s) (hr : returned s = false) :
    (∃ l, internalAt s l = true ∧ (step cfg s l).isSome = true) ∨ awaitingClient s = true := by
  have inv := inv_reachable cfg s h
  have inv2 := inv2_reachable cfg s h
  cases hd : s.done with
  | false =>
    cases hrecv : s.recv with
    | idle => exact Or.inl ⟨.closeDone, rfl, by simp [step, hrecv, hd]⟩
    | stopped => exact Or.inl ⟨.closeDone, rfl, by simp [step, hrecv, hd]⟩
    | waiting =>
      cases hrd : s.reader with
      | idle =>
        cases hp : s.pending with
        | cons f rest =>
          refine Or.inl ⟨.read, rfl, ?_⟩
          simp only [step, hrd, hp]
          repeat' split
          all_goals rfl
        | nil =>
          by_cases hec : s.eventsClosed = true
          · exact Or.inl ⟨.recvClosed, rfl, by simp [step, hrecv, hec]⟩
          · by_cases hc : s.cancelled = true
            · exact Or.inl ⟨.recvCtx, rfl, by simp [step, hrecv, hc]⟩
            · right
              simp only [Bool.not_eq_true] at hec hc
              simp [awaitingClient, hd, hrecv, hrd, hp, hec, hc]
      | offering f =>
        have hec : s.eventsClosed = false := by
          cases hec : s.eventsClosed with
          | false => rfl
          | true => exact absurd hrd ((inv2.closedLatch hec).2.2 f)
        refine Or.inl ⟨.handoff, rfl, ?_⟩
        simp only [step, hrd, hrecv, hec]
        repeat' split
        all_goals first | rfl | simp_all
      | closing => exact Or.inl ⟨.finishOnMessage, rfl, by simp [step, hrd]⟩
      | exited => exact Or.inl ⟨.recvCtx, rfl, by simp [step, hrecv, inv2.exitC hrd]⟩
  | true =>
    cases hrd : s.reader with
    | idle => exact Or.inl ⟨.readerExit, by simp [internalAt, hd], by simp [step, hrd]⟩
    | offering f => exact Or.inl ⟨.onDone, rfl, by simp [step, hrd, hd]⟩
    | closing => exact Or.inl ⟨.finishOnMessage, rfl, by simp [step, hrd]⟩
    | exited => simp [returned, hd, hrd] at hr

end GB.C13

namespace GB.C13
open GB

/-! ### flush per message -/

theorem streamTraceFrom_append (send : Bytes → List WEv) (i : Nat) (a b : List Bytes) :
    streamTraceFrom send i (a ++ b) = streamTraceFrom send i a ++ streamTraceFrom send (i + a.length) b := by
  induction a generalizing i with
  | nil => simp [streamTraceFrom]
  | cons p rest ih =>
    simp only [List.cons_append, streamTraceFrom, List.length_cons, ih, List.append_assoc]
    have : i + 1 + rest.length = i + (rest.length + 1) := by omega
    rw [this]

theorem wire_streamTraceFrom (sse : Bool) (i : Nat) (ps : List Bytes) (v : Bytes) :
    (streamTraceFrom (sendEvents sse) i ps).foldl wireStep { buffered := [], visible := v } =
      { buffered := [], visible := v ++ streamBody sse ps } := by
  induction ps generalizing i v with
  | nil => simp [streamTraceFrom, streamBody]
  | cons p rest ih =>
    simp only [streamTraceFrom, sendEvents, List.cons_append, List.nil_append, List.foldl_cons, wireStep]
    rw [ih]
    simp [streamBody, List.flatMap_cons]

theorem flushed_streamTraceFrom (sse : Bool) (i : Nat) (ps : List Bytes) :
    flushedBeforeRecv false (streamTraceFrom (sendEvents sse) i ps) = true := by
  induction ps generalizing i with
  | nil => rfl
  | cons p rest ih =>
    simp only [streamTraceFrom, sendEvents, List.cons_append, List.nil_append, flushedBeforeRecv]
    simpa using ih (i + 1)

end GB.C13

namespace GB.C13
open GB

/-! ### `ToValidUTF8` is the identity on valid UTF-8 -/

/-- from a state inside a rune, a suffix that ends between runes completes the rune after exactly `depth`
    bytes and not earlier -/
theorem complete_rune (s : Bytes) (q : U8) (hq : q ≠ .bad) (h : s.foldl utf8Step q = .start) :
    q.depth ≤ s.length ∧ (s.take q.depth).foldl utf8Step q = .start ∧
    ∀ k, k < q.depth → (s.take k).foldl utf8Step q ≠ .start := by
  induction s generalizing q with
  | nil =>
    simp only [List.foldl_nil] at h
    subst h
    simp [U8.depth]
  | cons b t ih =>
    by_cases hs : q = .start
    · subst hs; simp [U8.depth]
    · simp only [List.foldl_cons] at h
      have hq' : utf8Step q b ≠ .bad := by
        intro hb; rw [hb, fold_bad] at h; cases h
      have hc : isContByte b := by
        apply Classical.not_not.1
        intro hn
        exact hq' (step_nonstart_runeStart q b hs hn)
      rcases step_cont q b hc with hb | ⟨hd, _⟩
      · exact absurd hb hq'
      · obtain ⟨i1, i2, i3⟩ := ih (utf8Step q b) hq' h
        have hdq : q.depth = (utf8Step q b).depth + 1 := hd.symm
        refine ⟨by simp only [List.length_cons]; omega, ?_, ?_⟩
        · rw [hdq]; simpa using i2
        · intro k hk
          cases k with
          | zero => simpa using hs
          | succ k => simpa using i3 k (by omega)

/-- a non-empty valid string starts with a well-formed rune, and the rest is valid -/
theorem valid_head_rune (c : UInt8) (rest : Bytes) (h : ValidUTF8 (c :: rest) = true) :
    ∃ n, runeLen (c :: rest) = some n ∧ 1 ≤ n ∧ n ≤ (c :: rest).length ∧ ValidUTF8 ((c :: rest).drop n) = true := by
  unfold ValidUTF8 at h
  simp only [List.foldl_cons, beq_iff_eq] at h
  have hq : utf8Step .start c ≠ .bad := by
    intro hb; rw [hb, fold_bad] at h; cases h
  obtain ⟨h1, h2, h3⟩ := complete_rune rest _ hq h
  have hd3 := depth_le (utf8Step .start c)
  have hok : ∀ k, okPrefix (c :: rest) (k + 1) = (decide (k ≤ rest.length) && ((rest.take k).foldl utf8Step (utf8Step .start c) == .start)) := by
    intro k; simp [okPrefix]
  have hrest : (rest.drop (utf8Step .start c).depth).foldl utf8Step .start = .start := by
    have := h
    rw [← List.take_append_drop (utf8Step .start c).depth rest, List.foldl_append, h2] at this
    exact this
  refine ⟨(utf8Step .start c).depth + 1, ?_, by omega, by simp only [List.length_cons]; omega, ?_⟩
  · generalize hdv : (utf8Step .start c).depth = d at *
    have hno : ∀ k, k < d → okPrefix (c :: rest) (k + 1) = false := by
      intro k hk
      rw [hok]
      have := h3 k hk
      simp [this]
    have hyes : okPrefix (c :: rest) (d + 1) = true := by
      rw [hok]; simp [h1, h2]
    unfold runeLen
    match d, hd3, hno, hyes with
    | 0, _, _, hyes => simp [hyes]
    | 1, _, hno, hyes => simp [hno 0 (by omega), hyes]
    | 2, _, hno, hyes => simp [hno 0 (by omega), hno 1 (by omega), hyes]
    | 3, _, hno, hyes => simp [hno 0 (by omega), hno 1 (by omega), hno 2 (by omega), hyes]
  · unfold ValidUTF8
    simp only [List.drop_succ_cons, hrest, beq_self_eq_true]

theorem toValidAux_id (fuel : Nat) (inv : Bool) (s : Bytes) (hf : s.length ≤ fuel) (h : ValidUTF8 s = true) :
    toValidAux fuel inv s = s := by
  induction fuel generalizing inv s with
  | zero =>
    have : s = [] := List.eq_nil_of_length_eq_zero (by omega)
    subst this; simp [toValidAux]
  | succ fuel ih =>
    cases s with
    | nil => simp [toValidAux]
    | cons c rest =>
      obtain ⟨n, hn, h1, h2, hv⟩ := valid_head_rune c rest h
      simp only [toValidAux, hn]
      rw [ih false _ (by simp only [List.length_drop, List.length_cons] at hf ⊢; omega) hv]
      exact List.take_append_drop n (c :: rest)

/-- `strings.ToValidUTF8` leaves valid UTF-8 untouched -/
theorem toValidUTF8_id (s : Bytes) (h : ValidUTF8 s = true) : toValidUTF8 s = s :=
  toValidAux_id s.length false s (Nat.le_refl _) h

end GB.C13
