import GB.C16.Race
namespace GB.C16.Race
open GB GB.C16

set_option linter.unusedSimpArgs false
set_option linter.unusedVariables false

def insideA : APc → Bool
  | .idle => false
  | .done _ => false
  | _ => true

def insideR : RPc → Bool
  | .idle => false
  | .done _ => false
  | _ => true

abbrev Tup := Bool × Bool × Bool × Bool × Nat × Nat × Nat × Nat

def T (s : AState) : Tup := (s.inMap, s.poolSlot, s.pSlot, s.sSlot, s.conns, s.pws, s.sws, s.pollers)
def consT (p : Bool) : Tup := (p, p, p, p, b2n p, b2n p, b2n p, b2n p)
/-- present set according to the completed operations -/
def C (s : AState) : Option Bool := seqRun false s.log

def shapeA (pc : APc) (s : AState) : Prop :=
  match pc with
  | .check => ∃ p, T s = consT p ∧ C s = some p
  | .poolNew => T s = consT false ∧ C s = some false
  | .watchP => T s = (false, true, false, false, 1, 0, 0, 0) ∧ C s = some false
  | .watchS => T s = (false, true, true, false, 1, 1, 0, 0) ∧ C s = some false
  | .build => T s = (false, true, true, true, 1, 1, 1, 0) ∧ C s = some false
  | .insert => T s = (false, true, true, true, 1, 1, 1, 1) ∧ C s = some false
  | .unlock .ok => T s = consT true ∧ C s = some false
  | .unlock .dup => T s = consT true ∧ C s = some true
  | .unlock _ => False
  | .idle => True
  | .done _ => True

def shapeR (pc : RPc) (s : AState) : Prop :=
  match pc with
  | .lookup => ∃ p, T s = consT p ∧ C s = some p
  | .closePW => T s = consT true ∧ C s = some true
  | .closeSW => T s = (true, true, false, true, 1, 0, 1, 1) ∧ C s = some true
  | .closeResolver => T s = (true, true, false, false, 1, 0, 0, 1) ∧ C s = some true
  | .closeCtrl => T s = (true, true, false, false, 1, 0, 0, 0) ∧ C s = some true
  | .delete => T s = (true, false, false, false, 0, 0, 0, 0) ∧ C s = some true
  | .unlock true => T s = consT false ∧ C s = some true
  | .unlock false => T s = consT false ∧ C s = some false
  | .idle => True
  | .done _ => True
  | _ => False

structure AInv (s : AState) : Prop where
  holderA : ∀ i, s.lock = some (.add i) ↔ insideA (s.apc i) = true
  holderR : ∀ j, s.lock = some (.rem j) ↔ insideR (s.rpc j) = true
  free : s.lock = none → ∃ p, T s = consT p ∧ C s = some p
  shA : ∀ i, s.lock = some (.add i) → shapeA (s.apc i) s
  shR : ∀ j, s.lock = some (.rem j) → shapeR (s.rpc j) s
  resA : ∀ i r, s.apc i = .done r → r = .ok ∨ r = .dup

theorem ainv_init : AInv ainit := by
  constructor <;> simp [ainit, insideA, insideR, T, consT, C, seqRun, b2n]

theorem seqRun_append (p : Bool) (l : List (Bool × Bool)) (e : Bool × Bool) :
    seqRun p (l ++ [e]) = (seqRun p l).bind (fun q => seqRun q [e]) := by
  induction l generalizing p with
  | nil => simp [seqRun]
  | cons x xs ih =>
    obtain ⟨a, ok⟩ := x
    cases a
    · simp only [List.cons_append, seqRun]
      split
      · exact ih _
      · rfl
    · simp only [List.cons_append, seqRun]
      split
      · exact ih _
      · rfl

/-- a step of the lock holder (an Add goroutine) that keeps the lock -/
theorem ainv_holderA_step {s s' : AState} (h : AInv s) (i : Nat) (pc' : APc)
    (hl : s.lock = some (.add i)) (hl' : s'.lock = s.lock) (hr : s'.rpc = s.rpc) (ha : s'.apc = upd s.apc i pc')
    (hin : insideA pc' = true) (hsh : shapeA pc' s') : AInv s' := by
  constructor
  · intro k
    by_cases e : k = i
    · subst e; simp [hl', hl, ha, hin]
    · rw [hl', ha]; simp [e]; exact h.holderA k
  · intro j; rw [hl', hr]; exact h.holderR j
  · intro hn; rw [hl', hl] at hn; cases hn
  · intro k hk
    rw [hl', hl] at hk; cases hk
    rw [ha]; simp; exact hsh
  · intro j hj; rw [hl', hl] at hj; cases hj
  · intro k r hk
    rw [ha] at hk
    by_cases e : k = i
    · subst e; simp at hk; subst hk; simp [insideA] at hin
    · simp [e] at hk; exact h.resA k r hk

/-- a step of the lock holder (a Remove goroutine) that keeps the lock -/
theorem ainv_holderR_step {s s' : AState} (h : AInv s) (j : Nat) (pc' : RPc)
    (hl : s.lock = some (.rem j)) (hl' : s'.lock = s.lock) (ha : s'.apc = s.apc) (hr : s'.rpc = upd s.rpc j pc')
    (hin : insideR pc' = true) (hsh : shapeR pc' s') : AInv s' := by
  constructor
  · intro i; rw [hl', ha]; exact h.holderA i
  · intro k
    by_cases e : k = j
    · subst e; simp [hl', hl, hr, hin]
    · rw [hl', hr]; simp [e]; exact h.holderR k
  · intro hn; rw [hl', hl] at hn; cases hn
  · intro i hi; rw [hl', hl] at hi; cases hi
  · intro k hk
    rw [hl', hl] at hk; cases hk
    rw [hr]; simp; exact hsh
  · intro i r hi; rw [ha] at hi; exact h.resA i r hi

theorem shapeA_congr {s s' : AState} (hT : T s' = T s) (hC : C s' = C s) (pc : APc) (h : shapeA pc s) : shapeA pc s' := by
  unfold shapeA at *; rw [hT, hC]; exact h

theorem shapeR_congr {s s' : AState} (hT : T s' = T s) (hC : C s' = C s) (pc : RPc) (h : shapeR pc s) : shapeR pc s' := by
  unfold shapeR at *; rw [hT, hC]; exact h

theorem ainv_congr {s s' : AState} (h : AInv s) (hl : s'.lock = s.lock) (ha : s'.apc = s.apc) (hr : s'.rpc = s.rpc)
    (hT : T s' = T s) (hC : C s' = C s) : AInv s' := by
  constructor
  · intro i; rw [hl, ha]; exact h.holderA i
  · intro j; rw [hl, hr]; exact h.holderR j
  · intro hn; rw [hl] at hn; rw [hT, hC]; exact h.free hn
  · intro i hi; rw [hl] at hi; rw [ha]; exact shapeA_congr hT hC _ (h.shA i hi)
  · intro j hj; rw [hl] at hj; rw [hr]; exact shapeR_congr hT hC _ (h.shR j hj)
  · intro i r hi; rw [ha] at hi; exact h.resA i r hi

theorem C_append (s : AState) (e : Bool × Bool) (p : Bool) (h : C s = some p) :
    seqRun false (s.log ++ [e]) = seqRun p [e] := by
  rw [seqRun_append]; unfold C at h; rw [h]; rfl

/-- releasing the lock: nobody is inside afterwards -/
theorem ainv_unlock {s s' : AState} (h : AInv s) (hl' : s'.lock = none)
    (hA : ∀ i, insideA (s'.apc i) = false) (hR : ∀ j, insideR (s'.rpc j) = false)
    (hfree : ∃ p, T s' = consT p ∧ C s' = some p)
    (hres : ∀ i r, s'.apc i = .done r → r = .ok ∨ r = .dup) : AInv s' := by
  constructor
  · intro i; simp [hl', hA i]
  · intro j; simp [hl', hR j]
  · intro _; exact hfree
  · intro i hi; rw [hl'] at hi; cases hi
  · intro j hj; rw [hl'] at hj; cases hj
  · exact hres

theorem ainv_step (s : AState) (l : ALabel) (s' : AState) (h : AInv s) (hs : astep .real s l = some s') : AInv s' := by
  cases l with
  | pollerBusy =>
    simp only [astep] at hs
    split at hs
    · cases hs; exact ainv_congr h rfl rfl rfl rfl rfl
    · cases hs
  | pollerIdle =>
    simp only [astep] at hs
    cases hs; exact ainv_congr h rfl rfl rfl rfl rfl
  | add i =>
    simp only [astep, stepAdd] at hs
    cases hp : s.apc i with
    | idle =>
      simp only [hp] at hs
      cases hlk : s.lock with
      | some x => simp [hlk] at hs
      | none =>
        simp [hlk] at hs; subst hs
        have notA : ∀ k, insideA (s.apc k) = false := by
          intro k; cases e : insideA (s.apc k) with
          | false => rfl
          | true => have := (h.holderA k).2 e; rw [hlk] at this; cases this
        have notR : ∀ k, insideR (s.rpc k) = false := by
          intro k; cases e : insideR (s.rpc k) with
          | false => rfl
          | true => have := (h.holderR k).2 e; rw [hlk] at this; cases this
        constructor
        · intro k
          by_cases e : k = i
          · subst e; simp [insideA]
          · simp [e, notA k]; intro x; exact e x.symm
        · intro j; simp [notR j]
        · intro hn; cases hn
        · intro k hk
          simp at hk; subst hk
          show shapeA (upd s.apc i APc.check i) _
          rw [upd_same]
          exact shapeA_congr (s := s) rfl rfl APc.check (h.free hlk)
        · intro j hj; cases hj
        · intro k r hk
          by_cases e : k = i
          · subst e; simp at hk
          · simp [e] at hk; exact h.resA k r hk
    | check =>
      have hl : s.lock = some (.add i) := (h.holderA i).2 (by simp [hp, insideA])
      have sh := h.shA i hl; rw [hp] at sh
      obtain ⟨p, hT, hC⟩ := sh
      simp only [hp] at hs
      by_cases hm : s.inMap = true
      · rw [if_pos hm] at hs; cases hs
        have : p = true := by
          have := congrArg (·.1) hT; simp [T, consT, hm] at this; exact this
        subst this
        exact ainv_holderA_step h i (.unlock .dup) hl rfl rfl rfl rfl ⟨hT, hC⟩
      · rw [if_neg hm] at hs; cases hs
        have : p = false := by
          have := congrArg (·.1) hT; simp [T, consT, hm] at this; exact this
        subst this
        exact ainv_holderA_step h i .poolNew hl rfl rfl rfl rfl ⟨hT, hC⟩
    | poolNew =>
      have hl : s.lock = some (.add i) := (h.holderA i).2 (by simp [hp, insideA])
      have sh := h.shA i hl; rw [hp] at sh
      obtain ⟨hT, hC⟩ := sh
      simp [T, consT, b2n] at hT
      simp only [hp] at hs
      simp [hT] at hs; subst hs
      exact ainv_holderA_step h i .watchP hl rfl rfl rfl rfl ⟨by simp [T, hT], hC⟩
    | watchP =>
      have hl : s.lock = some (.add i) := (h.holderA i).2 (by simp [hp, insideA])
      have sh := h.shA i hl; rw [hp] at sh
      obtain ⟨hT, hC⟩ := sh
      simp [T] at hT
      simp only [hp] at hs
      simp [hT] at hs; subst hs
      exact ainv_holderA_step h i .watchS hl rfl rfl rfl rfl ⟨by simp [T, hT], hC⟩
    | watchS =>
      have hl : s.lock = some (.add i) := (h.holderA i).2 (by simp [hp, insideA])
      have sh := h.shA i hl; rw [hp] at sh
      obtain ⟨hT, hC⟩ := sh
      simp [T] at hT
      simp only [hp] at hs
      simp [hT] at hs; subst hs
      exact ainv_holderA_step h i .build hl rfl rfl rfl rfl ⟨by simp [T, hT], hC⟩
    | build =>
      have hl : s.lock = some (.add i) := (h.holderA i).2 (by simp [hp, insideA])
      have sh := h.shA i hl; rw [hp] at sh
      obtain ⟨hT, hC⟩ := sh
      simp [T] at hT
      simp only [hp] at hs
      cases hs
      exact ainv_holderA_step h i .insert hl rfl rfl rfl rfl ⟨by simp [T, hT], hC⟩
    | insert =>
      have hl : s.lock = some (.add i) := (h.holderA i).2 (by simp [hp, insideA])
      have sh := h.shA i hl; rw [hp] at sh
      obtain ⟨hT, hC⟩ := sh
      simp [T] at hT
      simp only [hp] at hs
      cases hs
      exact ainv_holderA_step h i (.unlock .ok) hl rfl rfl rfl rfl ⟨by simp [T, hT, consT, b2n], hC⟩
    | unlock r =>
      have hl : s.lock = some (.add i) := (h.holderA i).2 (by simp [hp, insideA])
      have sh := h.shA i hl; rw [hp] at sh
      simp only [hp] at hs
      cases hs
      have notA : ∀ k, k ≠ i → insideA (s.apc k) = false := by
        intro k hk; cases e : insideA (s.apc k) with
        | false => rfl
        | true => have := (h.holderA k).2 e; rw [hl] at this; cases this; exact absurd rfl hk
      have notR : ∀ k, insideR (s.rpc k) = false := by
        intro k; cases e : insideR (s.rpc k) with
        | false => rfl
        | true => have := (h.holderR k).2 e; rw [hl] at this; cases this
      apply ainv_unlock h rfl
      · intro k
        by_cases e : k = i
        · subst e; simp [insideA]
        · simp [e]; exact notA k e
      · exact notR
      · cases r with
        | ok =>
          obtain ⟨hT, hC⟩ := sh
          exact ⟨true, hT, by simp only [C]; rw [C_append s _ false hC]; simp [seqRun, addOk]⟩
        | dup =>
          obtain ⟨hT, hC⟩ := sh
          exact ⟨true, hT, by simp only [C]; rw [C_append s _ true hC]; simp [seqRun, addOk]⟩
        | dialed => exact absurd sh (by simp [shapeA])
        | watchP => exact absurd sh (by simp [shapeA])
        | watchS => exact absurd sh (by simp [shapeA])
      · intro k r' hk
        by_cases e : k = i
        · subst e
          simp at hk; subst hk
          cases r with
          | ok => exact Or.inl rfl
          | dup => exact Or.inr rfl
          | dialed => exact absurd sh (by simp [shapeA])
          | watchP => exact absurd sh (by simp [shapeA])
          | watchS => exact absurd sh (by simp [shapeA])
        · simp [e] at hk; exact h.resA k r' hk
    | done r => simp [hp] at hs
  | rem j =>
    simp only [astep, stepRem] at hs
    cases hp : s.rpc j with
    | idle =>
      simp only [hp] at hs
      cases hlk : s.lock with
      | some x => simp [hlk] at hs
      | none =>
        simp [hlk] at hs; subst hs
        have notA : ∀ k, insideA (s.apc k) = false := by
          intro k; cases e : insideA (s.apc k) with
          | false => rfl
          | true => have := (h.holderA k).2 e; rw [hlk] at this; cases this
        have notR : ∀ k, insideR (s.rpc k) = false := by
          intro k; cases e : insideR (s.rpc k) with
          | false => rfl
          | true => have := (h.holderR k).2 e; rw [hlk] at this; cases this
        constructor
        · intro i; simp [notA i]
        · intro k
          by_cases e : k = j
          · subst e; simp [insideR]
          · simp [e, notR k]; intro x; exact e x.symm
        · intro hn; cases hn
        · intro i hi; cases hi
        · intro k hk
          simp at hk; subst hk
          show shapeR (upd s.rpc j RPc.lookup j) _
          rw [upd_same]
          exact shapeR_congr (s := s) rfl rfl RPc.lookup (h.free hlk)
        · intro i r hi; exact h.resA i r hi
    | lookup =>
      have hl : s.lock = some (.rem j) := (h.holderR j).2 (by simp [hp, insideR])
      have sh := h.shR j hl; rw [hp] at sh
      obtain ⟨p, hT, hC⟩ := sh
      simp only [hp] at hs
      by_cases hm : s.inMap = true
      · simp only [if_pos hm] at hs; cases hs
        have : p = true := by
          have := congrArg (·.1) hT; simp [T, consT, hm] at this; exact this
        subst this
        exact ainv_holderR_step h j .closePW hl rfl rfl rfl rfl ⟨hT, hC⟩
      · simp only [if_neg hm] at hs; cases hs
        have : p = false := by
          have := congrArg (·.1) hT; simp [T, consT, hm] at this; exact this
        subst this
        exact ainv_holderR_step h j (.unlock false) hl rfl rfl rfl rfl ⟨hT, hC⟩
    | closePW =>
      have hl : s.lock = some (.rem j) := (h.holderR j).2 (by simp [hp, insideR])
      have sh := h.shR j hl; rw [hp] at sh
      obtain ⟨hT, hC⟩ := sh
      simp [T, consT, b2n] at hT
      simp only [hp] at hs
      cases hs
      exact ainv_holderR_step h j .closeSW hl rfl rfl rfl rfl ⟨by simp [T, hT], hC⟩
    | closeSW =>
      have hl : s.lock = some (.rem j) := (h.holderR j).2 (by simp [hp, insideR])
      have sh := h.shR j hl; rw [hp] at sh
      obtain ⟨hT, hC⟩ := sh
      simp [T] at hT
      simp only [hp] at hs
      cases hs
      exact ainv_holderR_step h j .closeResolver hl rfl rfl rfl rfl ⟨by simp [T, hT], hC⟩
    | closeResolver =>
      have hl : s.lock = some (.rem j) := (h.holderR j).2 (by simp [hp, insideR])
      have sh := h.shR j hl; rw [hp] at sh
      obtain ⟨hT, hC⟩ := sh
      simp [T] at hT
      simp only [hp] at hs
      split at hs
      · cases hs
      · cases hs
        exact ainv_holderR_step h j .closeCtrl hl rfl rfl rfl rfl ⟨by simp [T, hT], hC⟩
    | closeCtrl =>
      have hl : s.lock = some (.rem j) := (h.holderR j).2 (by simp [hp, insideR])
      have sh := h.shR j hl; rw [hp] at sh
      obtain ⟨hT, hC⟩ := sh
      simp [T] at hT
      simp only [hp] at hs
      cases hs
      exact ainv_holderR_step h j .delete hl rfl rfl rfl rfl ⟨by simp [T, hT], hC⟩
    | delete =>
      have hl : s.lock = some (.rem j) := (h.holderR j).2 (by simp [hp, insideR])
      have sh := h.shR j hl; rw [hp] at sh
      obtain ⟨hT, hC⟩ := sh
      simp [T] at hT
      simp only [hp] at hs
      cases hs
      exact ainv_holderR_step h j (.unlock true) hl rfl rfl rfl rfl ⟨by simp [T, hT, consT, b2n], hC⟩
    | unlock ok =>
      have hl : s.lock = some (.rem j) := (h.holderR j).2 (by simp [hp, insideR])
      have sh := h.shR j hl; rw [hp] at sh
      simp only [hp] at hs
      cases hs
      have notA : ∀ k, insideA (s.apc k) = false := by
        intro k; cases e : insideA (s.apc k) with
        | false => rfl
        | true => have := (h.holderA k).2 e; rw [hl] at this; cases this
      have notR : ∀ k, k ≠ j → insideR (s.rpc k) = false := by
        intro k hk; cases e : insideR (s.rpc k) with
        | false => rfl
        | true => have := (h.holderR k).2 e; rw [hl] at this; cases this; exact absurd rfl hk
      apply ainv_unlock h rfl
      · exact notA
      · intro k
        by_cases e : k = j
        · subst e; simp [insideR]
        · simp [e]; exact notR k e
      · cases ok with
        | true =>
          obtain ⟨hT, hC⟩ := sh
          exact ⟨false, hT, by simp only [C]; rw [C_append s _ true hC]; simp [seqRun]⟩
        | false =>
          obtain ⟨hT, hC⟩ := sh
          exact ⟨false, hT, by simp only [C]; rw [C_append s _ false hC]; simp [seqRun]⟩
      · intro i r hi; exact h.resA i r hi
    | done ok => simp [hp] at hs
    | xCloseCtrl =>
      have hl : s.lock = some (.rem j) := (h.holderR j).2 (by simp [hp, insideR])
      have sh := h.shR j hl; rw [hp] at sh; exact absurd sh (by simp [shapeR])
    | xCloseResolver =>
      have hl : s.lock = some (.rem j) := (h.holderR j).2 (by simp [hp, insideR])
      have sh := h.shR j hl; rw [hp] at sh; exact absurd sh (by simp [shapeR])
    | xClosePW =>
      have hl : s.lock = some (.rem j) := (h.holderR j).2 (by simp [hp, insideR])
      have sh := h.shR j hl; rw [hp] at sh; exact absurd sh (by simp [shapeR])
    | xCloseSW =>
      have hl : s.lock = some (.rem j) := (h.holderR j).2 (by simp [hp, insideR])
      have sh := h.shR j hl; rw [hp] at sh; exact absurd sh (by simp [shapeR])

theorem ainv_reachable (s : AState) (h : GB.LTS.Reachable (astep .real) ainit s) : AInv s :=
  GB.LTS.invariant (astep .real) ainit AInv ainv_init ainv_step s h

end GB.C16.Race
