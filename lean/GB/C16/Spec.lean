import GB.C16.Model
/-
  C16 — specification.

  (1) The abstract machine the property is stated against: a set `present` of names.
      Add of a name that is not present succeeds exactly when the construction succeeds; every
      other Add fails and changes nothing; Remove answers whether the name was present and makes
      it absent.  Nothing else changes the set.  No operation panics or hangs.
  (2) The judge used by the driver: it reads the outputs of the REAL code against this abstract
      machine (plus "which incarnation of a name does a kept connection belong to") and names the
      clause of the property that an output violates.  It never looks at the model.
-/
namespace GB.C16

abbrev Present := Name → Bool

/-- specification-level result of one operation -/
inductive SRes | added | addFailed | removed | notPresent | other | fault
  deriving DecidableEq, Repr

def specStepR (p : Present) : ROp → Present × SRes
  | .add n o =>
    if p n then (p, .addFailed)
    else if o = .ok then (upd p n true, .added)
    else (p, .addFailed)
  | .remove n => if p n then (upd p n false, .removed) else (p, .notPresent)
  | _ => (p, .other)

def specRunR : Present → List ROp → Present × List SRes
  | p, [] => (p, [])
  | p, o :: os =>
    let (p1, r) := specStepR p o
    let (p2, rs) := specRunR p1 os
    (p2, r :: rs)

/-- what the specification sees of a model/implementation result -/
def classify : Res → SRes
  | .add .ok _ => .added
  | .add _ _ => .addFailed
  | .removed => .removed
  | .notPresent => .notPresent
  | .panic => .fault
  | .hang => .fault
  | _ => .other

/-! ### the judge (outputs of the real code vs the property text) -/

structure J where
  present : Name → Bool := fun _ => false
  /-- number of successful additions of the name so far (its current incarnation) -/
  inc : Name → Nat := fun _ => 0
  /-- incarnation the caller's kept connection belongs to -/
  held : Name → Option Nat := fun _ => none
  /-- direct pool use: controller k ↦ name -/
  issued : List Name := []
  kClosed : Nat → Bool := fun _ => false
  -- bookkeeping for the non-triviality tag / branch histogram only
  failedBefore : Name → Bool := fun _ => false
  removedBefore : Name → Bool := fun _ => false
  liveCalls : Name → Bool := fun _ => false
  readdFail : Bool := false
  readdRemove : Bool := false
  staleStream : Bool := false
  inflightRemove : Bool := false

def tokBase (t : String) : String :=
  match t.splitOn "~" with
  | b :: _ => (match b.splitOn ":" with | c :: _ => c | [] => b)
  | [] => t

def tokProbe (t : String) : String :=
  match t.splitOn "~" with
  | [_, p] => p
  | _ => ""

def stale (j : J) (n : Name) : Option Bool :=
  match j.held n with
  | none => none
  | some k => some (!j.present n || j.inc n != k)

/-- an addition (router Add or pool New): `ok` = the injected construction succeeds -/
def judgeAdd (j : J) (n : Name) (ok : Bool) (tok : String) : Option String × J :=
  let b := tokBase tok
  if tokProbe tok = "n" then (some "pool-lookup-present-but-missing-during-construction", j)
  else if j.present n then
    (if b = "ok" then some "add-of-present-name-succeeded" else none, j)
  else if ok then
    let j' := { j with present := upd j.present n true, inc := upd j.inc n (j.inc n + 1),
                       readdFail := j.readdFail || j.failedBefore n,
                       readdRemove := j.readdRemove || j.removedBefore n }
    (if b = "ok" then none else some s!"name-not-present-but-not-addable:{b}", j')
  else
    (if b = "ok" then some "add-succeeded-although-construction-failed" else none,
     { j with failedBefore := upd j.failedBefore n true })

def judgeLookup (j : J) (n : Name) (tok : String) : Option String × J :=
  if tok = "nil" then (some "pool-lookup-present-but-missing", j)
  else if tok = "usable" then (none, { j with held := upd j.held n (some (j.inc n)) })
  else (none, j)

def judgeStream (j : J) (n : Name) (isCall : Bool) (tok : String) : Option String × J :=
  match stale j n with
  | some true =>
    (if tok = "unavail" then none else some s!"stream-after-remove-not-unavailable:{tok}", { j with staleStream := true })
  | some false => (none, if isCall && tok = "ok" then { j with liveCalls := upd j.liveCalls n true } else j)
  | none => (none, j)

def judgeR (j : J) (op : ROp) (tok : String) : Option String × J :=
  if tok = "panic" then (some "panic", j)
  else if tok = "hang" then (some "operation-hangs", j)
  else match op with
  | .add n o => judgeAdd j n (o = .ok) tok
  | .remove n =>
    if j.present n then
      let j' := { j with present := upd j.present n false, removedBefore := upd j.removedBefore n true,
                         inflightRemove := j.inflightRemove || j.liveCalls n,
                         liveCalls := upd j.liveCalls n false }
      (if tok = "t:0" then none
       else if tokBase tok = "t" then some s!"in-flight-calls-did-not-end-after-remove:{tok}"
       else some s!"remove-of-present-name-returned:{tok}", j')
    else (if tok = "f" then none else some s!"remove-of-absent-name-returned:{tok}", j)
  | .get n => judgeLookup j n tok
  | .stream n => judgeStream j n false tok
  | .call n => judgeStream j n true tok

def judgeP (j : J) (op : POp) (tok : String) : Option String × J :=
  if tok = "hang" then (some "operation-hangs", j)
  else match op with
  | .new n ok =>
    if tok = "panic" then (some "panic", j) else
    let (v, j') := judgeAdd j n ok tok
    (v, if ok && !j.present n then { j' with issued := j'.issued ++ [n] } else j')
  | .close k =>
    match j.issued[k]? with
    | none => (if tok = "panic" then some "panic" else none, j)
    | some n =>
      if j.kClosed k then (none, j)   -- closing twice panics by documented intent; not a property matter
      else
        let j' := { j with kClosed := upd j.kClosed k true, present := upd j.present n false,
                           removedBefore := upd j.removedBefore n true,
                           inflightRemove := j.inflightRemove || j.liveCalls n,
                           liveCalls := upd j.liveCalls n false }
        (if tok = "closed:0" then none
         else if tokBase tok = "closed" then some s!"in-flight-calls-did-not-end-after-close:{tok}"
         else some s!"close-of-live-controller-returned:{tok}", j')
  | .get n => if tok = "panic" then (some "panic", j) else judgeLookup j n tok
  | .stream n => if tok = "panic" then (some "panic", j) else judgeStream j n false tok
  | .call n => if tok = "panic" then (some "panic", j) else judgeStream j n true tok

def presentCount (j : J) (names : Nat) : Nat := ((List.range names).filter (fun n => j.present n)).length

/-- the observations after the history: `w=` poller goroutines, `leak=` goroutines left after teardown -/
def judgeFinal (j : J) (names : Nat) (tok : String) : Option String :=
  match tok.splitOn "=" with
  | ["w", v] =>
    match v.toNat? with
    | some w => if w > presentCount j names then some s!"resolver-poller-left-behind:w={w}" else none
    | none => some "bad-w"
  | ["leak", v] => if v = "0" then none else some s!"goroutines-or-calls-left-after-removing-everything:{v}"
  | ["teardown", v] => some s!"teardown-{v}"
  | ["aborted"] => some "operation-hangs"
  | _ => none

/-! ### removal while a (slow) resolution is in flight

  The real outputs of a `slowrr` / `slowres` line are read against the property: once Remove (Resolver.Close)
  has returned, no poller goroutine of that name exists and the target is not polled any more; the name is
  addable again and then has exactly one poller, which polls once; nothing is left at the end. -/

def judgeSlowTok (tok : String) : Option String :=
  match tok.splitOn "=" with
  | ["add", v] => some s!"slow-target-not-added:{v}"
  | ["rm", v] => if v = "t" then none else if v = "hang" then some "remove-while-resolving-hangs" else some s!"remove-while-resolving-returned:{v}"
  | ["close", v] => if v = "ok" then none else if v = "hang" then some "close-while-resolving-hangs" else some s!"close-while-resolving-returned:{v}"
  | ["pollers", v] => if v = "0" then none else some s!"poller-left-after-removal-returned:pollers={v}"
  | ["late", v] => if v = "0" then none else some s!"target-polled-after-removal-returned:late={v}"
  | ["readd", v] => if v = "ok" then none else some s!"name-not-present-but-not-addable:{v}"
  | ["pollers2", v] =>
    match v.toNat? with
    | some n => if n > 1 then some s!"stale-poller-next-to-readded-target:pollers2={v}" else none
    | none => some "bad-pollers2"
  | ["streams2", v] =>
    match v.toNat? with
    | some n => if n > 1 then some s!"readded-target-polled-by-more-than-one-poller:streams2={v}" else none
    | none => some "bad-streams2"
  | ["rm2", v] => if v = "hang" || v = "panic" then some s!"second-remove-{v}" else none
  | ["close2", v] => if v = "hang" || v = "panic" then some s!"second-close-{v}" else none
  | ["leak", v] => if v = "0" then none else some s!"goroutines-left-after-removing-everything:{v}"
  | ["aborted"] => some "scenario-aborted"
  | _ => none

def judgeSlow : List String → Option String
  | [] => none
  | t :: ts => match judgeSlowTok t with
    | some v => some v
    | none => judgeSlow ts

end GB.C16
