import GB.C16.Proofs
import GB.C16.RaceProofs
import GB.C16.LtsProofs
import GB.Generated.Facts
import GB.Stack.Lifecycle   -- STACK block at the end of this file (area `stack`)
/-
  C16 — targets can be added, removed and re-added cleanly.  Property theorems only.

  `afterR true ops` is the state of the model of the (fixed) code after the router history `ops`
  (Add with an injected construction outcome / Remove / pool lookup / stream / in-flight call, over
  any names) from a fresh ReflectionRouter; every theorem below quantifies over ALL such histories.
  `fx = true` is the code after the D17 fix, `fx = false` the original code (negative witness only).
-/
open GB GB.C16

/-- Refinement: along every history the results of Add/Remove are exactly those of the abstract
    `present`-set machine (Add succeeds iff the name is not present and construction succeeds;
    Remove answers presence), no operation panics or hangs (`classify` maps those to `fault`, which
    the specification never produces), and the final `targets` map is the final `present` set. -/
theorem C16_refines_present (ops : List ROp) :
    (runR true init ops).2.map classify = (specRunR (fun _ => false) ops).2 ∧
    ∀ n, (specRunR (fun _ => false) ops).1 n = ((afterR true ops).targets n).isSome :=
  abs_runR inv_init (fun _ => rfl) ops

/-- A name that is not present is addable whenever construction succeeds — after ANY history,
    including failed Adds and removals of the same name. -/
theorem C16_addable (ops : List ROp) (n : Name) (h : (afterR true ops).targets n = none) :
    (add true (afterR true ops) n .ok).2 = .add .ok (some .absent) ∧
    ((add true (afterR true ops) n .ok).1.targets n).isSome = true := by
  rw [add_absent (inv_afterR ops) n .ok h]
  simp [addedState]

/-- Add of a present name fails and has no side effect at all (in any state). -/
theorem C16_add_present_no_effect (s : State) (n : Name) (o : Outcome) (g : Nat) (h : s.targets n = some g) :
    add true s n o = (s, .add .dup none) :=
  add_present s n o g h

/-- A failed Add (constructor error, or per-target options) leaves nothing behind: every map, set
    and object state is what it was (only the allocation counter may have moved), so by
    `C16_addable` the name stays addable. -/
theorem C16_add_failed_no_effect (ops : List ROp) (n : Name) (o : Outcome) (ho : o ≠ .ok)
    (h : (afterR true ops).targets n = none) :
    let s := afterR true ops
    let s' := (add true s n o).1
    (add true s n o).2 ≠ .add .ok (some .absent) ∧
    s'.targets = s.targets ∧ s'.conns = s.conns ∧ s'.patternSet = s.patternSet ∧ s'.serviceSet = s.serviceSet ∧
    s'.polling = s.polling ∧ s'.connOpen = s.connOpen ∧ s'.pwOpen = s.pwOpen ∧ s'.swOpen = s.swOpen ∧
    s'.clientSet = s.clientSet ∧ s'.ctrlClosed = s.ctrlClosed ∧ s'.handles = s.handles ∧ s'.calls = s.calls := by
  intro s s'
  have hi := inv_afterR ops
  have hc : s.conns n = none := by rw [hi.conns_eq]; exact h
  have e := add_absent hi n o h
  cases o with
  | ok => exact absurd rfl ho
  | fail =>
    simp only [s', s] at *
    rw [e]
    simp [failedState, upd_upd_none _ _ _ hc]
  | opts =>
    simp only [s', s] at *
    rw [e]
    simp

/-- Remove of a present name: it answers true, and afterwards the resolver's poller is stopped, both
    router watchers are closed and unregistered, the pool entry is gone (lookup answers absent), the
    connection is closed, no call is in flight on it any more, every caller that kept the connection
    gets Unavailable from Stream, and the name is no longer present. -/
theorem C16_remove (ops : List ROp) (n : Name) (g : Nat) (h : (afterR true ops).targets n = some g) :
    let s := afterR true ops
    let s' := (remove s n).1
    (remove s n).2 = .removed ∧
    s'.polling g = false ∧ s'.pwOpen g = false ∧ s'.swOpen g = false ∧
    s'.patternSet n = false ∧ s'.serviceSet n = false ∧
    s'.conns n = none ∧ poolGet true s' n = .absent ∧
    s'.connOpen g = false ∧ (∀ c, s'.calls c ≠ some g) ∧
    (∀ m, s.handles m = some g → stream s' m = .unavailable) ∧
    s'.targets n = none := by
  intro s s'
  have hi := inv_afterR ops
  simp only [s', s]
  rw [remove_present hi n g h]
  refine ⟨rfl, by simp [removedState], by simp [removedState], by simp [removedState], by simp [removedState],
    by simp [removedState], by simp [removedState], by simp [removedState, poolGet], by simp [removedState], ?_, ?_,
    by simp [removedState]⟩
  · intro c hc
    simp [removedState] at hc
  · intro m hm
    simp [stream, removedState, hm]

/-- Remove of a name that is not present answers false and changes nothing. -/
theorem C16_remove_absent (s : State) (n : Name) (h : s.targets n = none) : remove s n = (s, .notPresent) :=
  remove_absent s n h

/-- Later stream attempts fail with Unavailable: a caller that kept the connection of a target, after that
    target was removed, gets Unavailable from every stream attempt during ANY further history (including
    re-adding the same name), as long as it does not fetch a new connection from the pool. -/
theorem C16_stream_after_remove (ops more : List ROp) (n : Name) (g : Nat)
    (ht : (afterR true ops).targets n = some g) (hh : (afterR true ops).handles n = some g)
    (hno : ∀ op ∈ more, op ≠ .get n) :
    stream (runR true (remove (afterR true ops) n).1 more).1 n = .unavailable := by
  have hi := inv_afterR ops
  have l := hi.live n g ht
  rw [remove_present hi n g ht]
  apply stale_runR (inv_removed hi n g ht) (g := g)
  · simp [removedState, hh]
  · exact ⟨by simp [removedState]; exact l.1, by simp [removedState]⟩
  · exact hno

/-- A pool lookup yields a usable (open) connection exactly for the present names and reports absence
    for all others — never a present-but-missing entry. -/
theorem C16_pool_get (ops : List ROp) (n : Name) :
    let s := afterR true ops
    (s.targets n = none ∧ poolGet true s n = .absent) ∨
    (∃ g, s.targets n = some g ∧ poolGet true s n = .usable g ∧ s.connOpen g = true) := by
  intro s
  have hi := inv_afterR ops
  cases hn : s.targets n with
  | none =>
    left
    have hc : s.conns n = none := by rw [hi.conns_eq]; exact hn
    simp [poolGet, hc]
  | some g =>
    right
    have hc : s.conns n = some g := by rw [hi.conns_eq]; exact hn
    have l := hi.live n g hn
    have hcs : s.clientSet g = true := l.2.2.1
    exact ⟨g, rfl, by simp [poolGet, hc, hcs], l.2.2.2.2.1⟩

/-- While the connection constructor of an Add runs, the half-built entry is invisible: a concurrent
    pool lookup of that name answers absent (this is the lookup the harness performs from inside the
    injected constructor). -/
theorem C16_pool_get_during_construction (ops : List ROp) (n : Name) (s1 : State)
    (h : poolReserve (afterR true ops) n = some s1) : poolGet true s1 n = .absent := by
  have hi := inv_afterR ops
  unfold poolReserve at h
  split at h
  · cases h
  · cases h
    simp [poolGet, hi.fresh.2.2.2.2.2]

/-- The watcher sets of both routers are exactly the present names, so the "should never happen"
    branches of Add (Watch failing, the pool reporting ErrAlreadyDialed) are dead code, and no
    operation of any history panics or blocks. -/
theorem C16_watch_never_fails (ops : List ROp) :
    (∀ n, (afterR true ops).patternSet n = ((afterR true ops).targets n).isSome) ∧
    (∀ n, (afterR true ops).serviceSet n = ((afterR true ops).targets n).isSome) ∧
    (∀ op p, (stepR true (afterR true ops) op).2 ≠ .add .watchP p ∧
             (stepR true (afterR true ops) op).2 ≠ .add .watchS p ∧
             (stepR true (afterR true ops) op).2 ≠ .add .dialed p ∧
             (stepR true (afterR true ops) op).2 ≠ .panic ∧
             (stepR true (afterR true ops) op).2 ≠ .hang) := by
  have hi := inv_afterR ops
  refine ⟨hi.pset, hi.sset, ?_⟩
  intro op p
  cases op with
  | add n o =>
    cases hn : (afterR true ops).targets n with
    | some g => simp [stepR, add_present _ n o g hn]
    | none =>
      simp only [stepR]
      rw [add_absent hi n o hn]
      cases o <;> simp
  | remove n =>
    cases hn : (afterR true ops).targets n with
    | some g => simp only [stepR]; rw [remove_present hi n g hn]; simp
    | none => simp only [stepR]; rw [remove_absent _ n hn]; simp
  | get n => simp only [stepR]; unfold GB.C16.get; split <;> simp
  | stream n => simp only [stepR]; unfold stream; split <;> (try split) <;> simp
  | call n =>
    simp only [stepR]; unfold call
    split
    · simp
    · split <;> simp

/-- No background goroutine or connection without an owner: in every reachable state, every running
    resolver poller, every open connection and every open watcher belongs to a present target, the
    owner is unique, and every call in flight runs on an open connection. -/
theorem C16_no_leak (ops : List ROp) (g : Nat) :
    let s := afterR true ops
    ((s.polling g = true ∨ s.connOpen g = true ∨ s.pwOpen g = true ∨ s.swOpen g = true) →
      ∃ n, s.targets n = some g ∧ ∀ m, s.targets m = some g → m = n) ∧
    (∀ c, s.calls c = some g → s.connOpen g = true) := by
  intro s
  have hi := inv_afterR ops
  refine ⟨?_, fun c hc => hi.calls_open c g hc⟩
  intro h
  obtain ⟨n, hn⟩ := hi.owned g h
  exact ⟨n, hn, fun m hm => hi.inj hm hn⟩

/-- Once every target has been removed nothing is left: no poller, no open connection, no watcher,
    no pool entry, no call in flight. -/
theorem C16_all_removed_nothing_left (ops : List ROp) (h : ∀ n, (afterR true ops).targets n = none) :
    let s := afterR true ops
    ∀ g, s.polling g = false ∧ s.connOpen g = false ∧ s.pwOpen g = false ∧ s.swOpen g = false ∧
      s.conns g = none ∧ s.calls g = none := by
  intro s g
  have hi := inv_afterR ops
  have key : ∀ (b : Bool), (b = true → ∃ n, s.targets n = some g) → b = false := by
    intro b hb
    cases b with
    | false => rfl
    | true =>
      obtain ⟨n, hn⟩ := hb rfl
      rw [h n] at hn; cases hn
  refine ⟨key _ (fun e => hi.owned _ (Or.inl e)), key _ (fun e => hi.owned _ (Or.inr (Or.inl e))),
    key _ (fun e => hi.owned _ (Or.inr (Or.inr (Or.inl e)))), key _ (fun e => hi.owned _ (Or.inr (Or.inr (Or.inr e)))),
    by rw [hi.conns_eq]; exact h g, ?_⟩
  cases hc : s.calls g with
  | none => rfl
  | some g' =>
    have ho := hi.calls_open g g' hc
    obtain ⟨n, hn⟩ := hi.owned g' (Or.inr (Or.inl ho))
    rw [h n] at hn; cases hn


/-- Direct pool use (New / Get / controller Close in any order, with failing constructions): a lookup
    yields an open, unclosed connection or reports absence — never a present-but-missing entry. -/
theorem C16_pool_direct_get (ops : List POp) (n : Name) :
    let s := afterP true ops
    poolGet true s n = .absent ∨
    ∃ g, poolGet true s n = .usable g ∧ s.connOpen g = true ∧ s.ctrlClosed g = false := by
  intro s
  have hi := pinv_afterP ops
  cases hn : s.conns n with
  | none => left; simp [poolGet, hn]
  | some g =>
    right
    have e := hi.entry n g hn
    have hcs : s.clientSet g = true := e.2.2.1
    exact ⟨g, by simp [poolGet, hn, hcs], e.2.2.2.2, e.2.2.2.1⟩

/-- … also while a constructor is running: the reserved entry is invisible to lookups. -/
theorem C16_pool_direct_get_during_construction (ops : List POp) (n : Name) (s1 : State)
    (h : poolReserve (afterP true ops) n = some s1) : poolGet true s1 n = .absent := by
  have hi := pinv_afterP ops
  have hcl : (afterP true ops).clientSet (afterP true ops).next = false := by
    cases hc : (afterP true ops).clientSet (afterP true ops).next with
    | false => rfl
    | true => have := hi.client_lt _ hc; omega
  unfold poolReserve at h
  split at h
  · cases h
  · cases h
    simp [poolGet, hcl]

/-- A name without pool entry can be dialed: New succeeds when the constructor does, and the entry is
    then usable; when the constructor fails New reports it and leaves the pool exactly as it was, so
    the name can be dialed again (this is what D17 broke). -/
theorem C16_pool_direct_new (ops : List POp) (n : Name) (h : (afterP true ops).conns n = none) :
    let s := afterP true ops
    (pnew true s n true).2 = .add .ok (some .absent) ∧
    poolGet true (pnew true s n true).1 n = .usable s.next ∧
    (pnew true s n false).2 = .add .conn (some .absent) ∧
    (pnew true s n false).1.conns = s.conns ∧
    (pnew true s n false).1.connOpen = s.connOpen := by
  intro s
  have hi := pinv_afterP ops
  simp only [s]
  rw [pnew_absent hi n true h, pnew_absent hi n false h]
  simp [pnewOkState, failedState, poolGet, upd_upd_none _ _ _ h]

/-- Closing a controller that has not been closed never panics; it deletes exactly its own pool entry,
    closes its connection, ends the calls in flight on it, makes kept handles answer Unavailable, and
    frees the name. -/
theorem C16_pool_direct_close (ops : List POp) (k g : Nat)
    (hk : (afterP true ops).issued[k]? = some g) (hc : (afterP true ops).ctrlClosed g = false) :
    let s := afterP true ops
    let s' := (pclose s k).1
    (pclose s k).2 = .closed ∧
    s.conns (s.ctrlTarget g) = some g ∧ s'.conns (s.ctrlTarget g) = none ∧
    (∀ m, m ≠ s.ctrlTarget g → s'.conns m = s.conns m) ∧
    s'.connOpen g = false ∧ (∀ c, s'.calls c ≠ some g) ∧
    (∀ m, s.handles m = some g → stream s' m = .unavailable) := by
  intro s s'
  have hi := pinv_afterP ops
  have i := hi.issuedOk g (List.mem_of_getElem? hk)
  have own : s.conns (s.ctrlTarget g) = some g := hi.openIn g (i.2.2 hc)
  simp only [s', s]
  rw [pclose_live hi k g hk hc]
  refine ⟨rfl, own, by simp [closedState], ?_, by simp [closedState], ?_, ?_⟩
  · intro m hm; simp [closedState, hm]
  · intro c hcc; simp [closedState] at hcc
  · intro m hm; simp [stream, closedState, hm]


/-- Concurrent use of the pool: in every state reachable by ANY interleaving of the atomic steps of
    New (LoadOrStore … constructor running … completion), Get, Close and calls by any number of
    goroutines, a lookup yields an open, unclosed connection or reports absence — a reservation whose
    constructor is still running is never visible as a present-but-missing entry. -/
theorem C16_pool_concurrent_get (c : CState) (h : GB.LTS.Reachable cstep cinit c) (n : Name) :
    poolGet true c.s n = .absent ∨
    ∃ g, poolGet true c.s n = .usable g ∧ c.s.connOpen g = true ∧ c.s.ctrlClosed g = false := by
  have hi := cinv_reachable c h
  cases hn : c.s.conns n with
  | none => left; simp [poolGet, hn]
  | some g =>
    have e := hi.entry n g hn
    cases e.2.2.2 with
    | inl x => right; exact ⟨g, by simp [poolGet, hn, x.1], x.2.1, e.2.2.1⟩
    | inr x => left; simp [poolGet, hn, x.1]

/-- Every construction in progress completes cleanly whatever happened concurrently: if the
    constructor succeeds the entry becomes usable, if it fails the reservation is released (the name
    is free again) and no other entry is touched. -/
theorem C16_pool_concurrent_finish (c : CState) (h : GB.LTS.Reachable cstep cinit c) (n : Name) (g : Nat)
    (hp : (n, g) ∈ c.pending) :
    (∃ c1, cstep c (.finish n g true) = some c1 ∧ poolGet true c1.s n = .usable g) ∧
    (∃ c0, cstep c (.finish n g false) = some c0 ∧ c0.s.conns n = none ∧
       ∀ m, m ≠ n → c0.s.conns m = c.s.conns m) := by
  have hi := cinv_reachable c h
  have hc := hi.pend n g hp
  constructor
  · refine ⟨_, by simp [cstep, hp]; rfl, ?_⟩
    simp [poolFinish, poolGet, hc]
  · refine ⟨_, by simp [cstep, hp]; rfl, ?_, ?_⟩
    · simp [poolFinish, hc]
    · intro m hm; simp [poolFinish, hc, hm]

/-- Close of a handed-out controller that has not been closed is never a panic and deletes exactly its
    own entry, under every interleaving (the entry under its name is always the controller itself). -/
theorem C16_pool_concurrent_close (c : CState) (h : GB.LTS.Reachable cstep cinit c) (g : Nat)
    (hi : g ∈ c.s.issued) (hc : c.s.ctrlClosed g = false) :
    c.s.conns (c.s.ctrlTarget g) = some g ∧
    ∃ s', ctrlClose c.s g = some s' ∧ cstep c (.close g) = some { c with s := s' } ∧
      s'.conns (c.s.ctrlTarget g) = none ∧ s'.connOpen g = false ∧
      ∀ m, m ≠ c.s.ctrlTarget g → s'.conns m = c.s.conns m := by
  have hinv := cinv_reachable c h
  have i := hinv.issuedOk g hi
  have own := hinv.openIn g (i.2.2 hc)
  refine ⟨own, ?_⟩
  simp [cstep, hi, ctrlClose, hc, i.2.1]
  intro m hm; simp [hm]

/-- D17 on the ORIGINAL pool code (negative witness): a failed New poisons the name. -/
theorem C16_D17_original_pool_fails :
    (runP false init [.new 0 false, .new 0 true, .get 0]).2 =
      [.add .conn (some .nilPresent), .add .dialed none, .get .nilPresent] := by
  decide

/-- D17, negative witness on the ORIGINAL code (`fx = false`): after one failed Add the name can never be
    added again (the pool answers ErrAlreadyDialed) and the pool lookup is present-but-missing — during
    the construction and forever after. -/
theorem C16_D17_original_code_fails :
    (runR false init [.add 0 .fail, .add 0 .ok, .get 0]).2 =
      [.add .conn (some .nilPresent), .add .dialed none, .get .nilPresent] := by
  decide

/-- The same history on the fixed code: the failed Add leaves nothing behind. -/
theorem C16_D17_fixed_witness :
    (runR true init [.add 0 .fail, .add 0 .ok, .get 0]).2 =
      [.add .conn (some .absent), .add .ok (some .absent), .get (.usable 1)] := by
  decide

/- The hypotheses above are satisfiable / the statements are not vacuous: -/
example : (afterR true [.add 0 .ok, .get 0, .call 0]).targets 0 = some 0 := by decide
example : (afterR true [.add 0 .ok, .get 0, .call 0]).handles 0 = some 0 := by decide
example : (afterR true [.add 0 .ok, .get 0, .call 0]).calls 0 = some 0 := by decide
example : (afterR true [.add 0 .ok, .remove 0]).targets 0 = none := by decide
example : (runR true init [.add 0 .ok, .get 0, .remove 0, .add 0 .ok, .stream 0, .get 0, .stream 0]).2 =
    [.add .ok (some .absent), .get (.usable 0), .removed, .add .ok (some .absent), .unavailable, .get (.usable 1), .streamOk] := by
  decide
example : (afterP true [.new 0 true, .get 0, .call 0]).issued[0]? = some 0 := by decide
example : (afterP true [.new 0 true, .get 0, .call 0]).ctrlClosed 0 = false := by decide
example : (runP true init [.new 0 false, .new 0 true, .get 0, .call 0, .close 0, .stream 0, .close 0, .new 0 true]).2 =
    [.add .conn (some .absent), .add .ok (some .absent), .get (.usable 1), .streamOk, .closed, .unavailable, .panic,
     .add .ok (some .absent)] := by decide
example : GB.LTS.run cstep cinit [.reserve 0, .get 0, .reserve 0, .finish 0 0 false, .reserve 0, .finish 0 1 true, .get 0, .close 1]
    ≠ none := by decide

/-! ═══════════════════════════════════════════════════════════════════════════════════════════════
    STACK composition block (area `stack`, docs/notes/STACK.md) — BEGIN.
    The lifecycle model of this file (names are numbers) composed with the combined model `GB.Stack.run`
    (names are byte strings; C16 present set ∘ aggregateWatcher fan-out ∘ C06 tables) through any injective
    numbering `enc` of the names.  Kept separate from the C16 theorems above; do not interleave.
    ═══════════════════════════════════════════════════════════════════════════════════════════════ -/
section StackBlock

/-- **The lifecycle model and the routing tables agree on who is there**: along ANY ReflectionRouter history
    (Adds that succeed, fail, are rejected or duplicate; Removes of present and absent names; polls), a name is in
    the `targets` map of the C16 lifecycle model (⇒ by the C16 theorems: exactly one poller, open watchers, an open
    pooled connection) iff it is present in the combined model, iff it is watched on BOTH routers of the C06 models.
    From `C16_refines_present` and `Stack_latest`. -/
theorem C16_stack_present (valid : Bytes → Bool) (enc : GB.C06.Name → Nat) (hinj : ∀ a b, enc a = enc b → a = b)
    (h : List GB.Stack.Op) (n : GB.C06.Name) :
    ((afterR true (stackToC16 enc h)).targets (enc n)).isSome = (GB.Stack.run valid GB.Stack.St.init h).present n ∧
    (GB.Stack.run valid GB.Stack.St.init h).present n = (GB.C06.latestOf (GB.Stack.toC06 h)).watched n := by
  have h1 := (C16_refines_present (stackToC16 enc h)).2 (enc n)
  have h2 := stack_present_agree enc hinj h (fun _ => false) (fun _ => false) (fun _ => rfl) n
  have h3 := (Stack_run_eq_compile valid h).2.2
  have h4 := (Stack_latest h).2 n
  refine ⟨?_, ?_⟩
  · rw [← h1, h2, h3]; rfl
  · rw [h3]; exact h4

/-- **Remove, end to end**: when `Remove(T)` of a present name has returned, the lifecycle model has no entry for it
    (`C16_remove`: poller stopped, watchers closed, connection closed) AND no lookup on either routing table answers
    with `T` (`Stack_removed_unroutable`), while every other present name is still present on both sides. -/
theorem C16_stack_remove (valid : Bytes → Bool) (eval : Bytes → GB.C06.Route → GB.C06.Outcome)
    (enc : GB.C06.Name → Nat) (hinj : ∀ a b, enc a = enc b → a = b) (h : List GB.Stack.Op) (T : GB.C06.Name) :
    let h' := h ++ [GB.Stack.Op.remove T]
    let st := GB.Stack.run valid GB.Stack.St.init h'
    (afterR true (stackToC16 enc h')).targets (enc T) = none ∧
    (∀ S r, st.svc.routes S = some r → r.target ≠ T) ∧
    (∀ m path v r, GB.C06.routeHTTP st.present eval st.pat.static m path ≠ .found T v r) := by
  intro h' st
  obtain ⟨hp, hs, hh, _⟩ := Stack_removed_unroutable valid eval h T
  refine ⟨?_, hs, hh⟩
  have := (C16_stack_present valid enc hinj h' T).1
  rw [hp] at this
  cases hx : (afterR true (stackToC16 enc h')).targets (enc T) with
  | none => rfl
  | some g => rw [hx] at this; simp at this

section Restated
open GB.C06 GB.Stack

/-- `Stack_run_eq_compile` (GB/Stack/Props.lean), restated here so that `./check C16` audits it. -/
theorem C16_stack_run_eq_compile (valid : Bytes → Bool) (h : List GB.Stack.Op) :
    (run valid St.init h).pat = PatState.init.run valid (toC06 h) ∧
    (run valid St.init h).svc = SvcState.init.run (toC06 h) ∧
    (run valid St.init h).present = presentOf h :=
  Stack_run_eq_compile valid h

/-- `Stack_latest` (GB/Stack/Props.lean), restated here so that `./check C16` audits it. -/
theorem C16_stack_latest (h : List GB.Stack.Op) :
    latestOf (toC06 h) = specLatest h ∧ ∀ n, presentOf h n = (latestOf (toC06 h)).watched n :=
  Stack_latest h

/-- `Stack_failed_add_no_trace` (GB/Stack/Props.lean), restated here so that `./check C16` audits it. -/
theorem C16_stack_failed_add_no_trace (valid : Bytes → Bool) (h : List GB.Stack.Op) (n : GB.C06.Name) (d : Option Desc) :
    run valid St.init (h ++ [.addFail n]) = run valid St.init h ∧
    (presentOf h n = true → run valid St.init (h ++ [.add n d]) = run valid St.init h) ∧
    (presentOf h n = false → run valid St.init (h ++ [.remove n]) = run valid St.init h) :=
  Stack_failed_add_no_trace valid h n d

/-- `Stack_readd_new_contract` (GB/Stack/Props.lean), restated here so that `./check C16` audits it. -/
theorem C16_stack_readd_new_contract (valid : Bytes → Bool) (eval : Bytes → Route → GB.C06.Outcome) (h : List GB.Stack.Op) (T : GB.C06.Name)
    (d' : Desc) (habs : presentOf h T = false) :
    let h' := h ++ [.add T (some d')]
    let st := run valid St.init h'
    (specLatest h').desc T = some (named T d') ∧
    (∀ S r, st.svc.routes S = some r → r.target = T → listed (named T d').services S ∧ r.ver = d'.ver) ∧
    (∀ m path v r, routeHTTP st.present eval st.pat.static m path = .found T v r →
        v = d'.ver ∧ ∃ rs, built valid (named T d') m = some rs ∧ r ∈ rs) :=
  Stack_readd_new_contract valid eval h T d' habs

/-- `Stack_removed_unroutable` (GB/Stack/Props.lean), restated here so that `./check C16` audits it. -/
theorem C16_stack_removed_unroutable (valid : Bytes → Bool) (eval : Bytes → Route → GB.C06.Outcome) (h : List GB.Stack.Op) (T : GB.C06.Name) :
    let st := run valid St.init (h ++ [.remove T])
    st.present T = false ∧
    (∀ S r, st.svc.routes S = some r → r.target ≠ T) ∧
    (∀ m path v r, routeHTTP st.present eval st.pat.static m path ≠ .found T v r) ∧
    (∀ S r, (run valid St.init h).svc.routes S = some r → r.target ≠ T → st.svc.routes S = some r) :=
  Stack_removed_unroutable valid eval h T

/-- `Stack_swap` (GB/Stack/Props.lean), restated here so that `./check C16` audits it: Remove and Add of one name started
    together settle in the same state whichever takes effect first — present in front of the new description. -/
theorem C16_stack_swap (valid : Bytes → Bool) (eval : Bytes → Route → GB.C06.Outcome) (h : List GB.Stack.Op) (T : GB.C06.Name) (d : Desc)
    (hpres : presentOf h T = true) :
    run valid St.init (h ++ [.add T (some d), .remove T, .add T (some d)]) =
      run valid St.init (h ++ [.remove T, .add T (some d)]) ∧
    (run valid St.init (h ++ [.remove T, .add T (some d)])).present T = true ∧
    (specLatest (h ++ [.remove T, .add T (some d)])).desc T = some (named T d) :=
  Stack_swap valid eval h T d hpres

/-- `Stack_update_replaces_data` (GB/Stack/Props.lean), restated here so that `./check C16` audits it. -/
theorem C16_stack_update_replaces_data (valid : Bytes → Bool) (eval : Bytes → Route → GB.C06.Outcome) (h : List GB.Stack.Op) (T : GB.C06.Name)
    (d : Desc) (hpres : presentOf h T = true) :
    let h' := h ++ [.update T d]
    let st := run valid St.init h'
    (specLatest h').desc T = some (named T d) ∧
    (∀ S r, st.svc.routes S = some r → r.target = T → listed (named T d).services S ∧ r.ver = d.ver) ∧
    (∀ m path v r, routeHTTP st.present eval st.pat.static m path = .found T v r →
        v = d.ver ∧ ∃ rs, built valid (named T d) m = some rs ∧ r ∈ rs) :=
  Stack_update_replaces_data valid eval h T d hpres

end Restated

example : ((afterR true (stackToC16 stackEnc [.add [97] none, .addFail [98], .remove [97], .add [97] none])).targets
    (stackEnc [97])).isSome = true := by
  rw [(C16_stack_present (fun _ => true) stackEnc stackEnc_injective _ [97]).1]; decide

end StackBlock
/-! STACK composition block — END -/
/-! ## deepening: counting, exclusive New, AdaptedClientConn in detail -/


/-- Counting: after any history whose names are below `N`, the number of live resolver pollers, of open
    connections, of open pattern watchers and of open service watchers each equals the cardinality of `present`
    (`targetCount`), and no name outside the bound is present. -/
theorem C16_pollers_eq_present (ops : List ROp) (N : Nat) (hN : ∀ op ∈ ops, opName op < N) :
    let s := afterR true ops
    pollers s = targetCount s N ∧
    ((List.range s.next).filter s.connOpen).length = targetCount s N ∧
    ((List.range s.next).filter s.pwOpen).length = targetCount s N ∧
    ((List.range s.next).filter s.swOpen).length = targetCount s N ∧
    (∀ g, s.next ≤ g → s.polling g = false ∧ s.connOpen g = false ∧ s.pwOpen g = false ∧ s.swOpen g = false) ∧
    (∀ n, N ≤ n → s.targets n = none) := by
  intro s
  have hi : C16.Inv s := inv_afterR ops
  have hc : Counts s N := counts_runR inv_init (counts_init N) ops hN
  have tc : targetCount s N = cnt (presentB s) N := filter_range_length _ _
  refine ⟨?_, ?_, ?_, ?_, ?_, ?_⟩
  · rw [tc, ← hc.polling]; exact filter_range_length _ _
  · rw [tc, ← hc.conn]; exact filter_range_length _ _
  · rw [tc, ← hc.pw]; exact filter_range_length _ _
  · rw [tc, ← hc.sw]; exact filter_range_length _ _
  · intro g hg
    have key : ∀ (b : Bool), (b = true → ∃ n, s.targets n = some g) → b = false := by
      intro b hb
      cases b with
      | false => rfl
      | true =>
        obtain ⟨n, hn⟩ := hb rfl
        have := (hi.live n g hn).1
        omega
    exact ⟨key _ (fun e => hi.owned _ (Or.inl e)), key _ (fun e => hi.owned _ (Or.inr (Or.inl e))),
      key _ (fun e => hi.owned _ (Or.inr (Or.inr (Or.inl e)))), key _ (fun e => hi.owned _ (Or.inr (Or.inr (Or.inr e))))⟩
  · intro n hn
    exact absent_runR inv_init ops n (fun op ho e => Nat.lt_irrefl n (Nat.lt_of_lt_of_le (e ▸ hN op ho) hn)) rfl

/-- Two concurrent `New(name)` never both succeed (atomic-step LTS, every interleaving): (a) two calls for one
    name are never both past their LoadOrStore; (b) every live controller of the name — under construction, or
    handed out and not closed — IS the map entry, so there is at most one; (c) while the name has an entry every
    other `New(name)` loses with ErrAlreadyDialed and changes nothing; (d) when the name is free, the first
    LoadOrStore wins and the next one loses. -/
theorem C16_pool_new_exclusive (c : CState) (h : GB.LTS.Reachable cstep cinit c) (n : Name) :
    (∀ g g', (n, g) ∈ c.pending → (n, g') ∈ c.pending → g = g') ∧
    (∀ g, ((n, g) ∈ c.pending ∨ (g ∈ c.s.issued ∧ c.s.ctrlClosed g = false ∧ c.s.ctrlTarget g = n)) →
      c.s.conns n = some g) ∧
    (∀ g, c.s.conns n = some g → poolReserve c.s n = none ∧ cstep c (.reserve n) = some c) ∧
    (c.s.conns n = none → ∃ c1, cstep c (.reserve n) = some c1 ∧ (n, c.s.next) ∈ c1.pending ∧
      c1.s.conns n = some c.s.next ∧ cstep c1 (.reserve n) = some c1) := by
  have hi := cinv_reachable c h
  have live : ∀ g, ((n, g) ∈ c.pending ∨ (g ∈ c.s.issued ∧ c.s.ctrlClosed g = false ∧ c.s.ctrlTarget g = n)) →
      c.s.conns n = some g := by
    intro g hg
    cases hg with
    | inl hp => exact hi.pend n g hp
    | inr hg =>
      have i := hi.issuedOk g hg.1
      have o := hi.openIn g (i.2.2 hg.2.1)
      rw [hg.2.2] at o; exact o
  refine ⟨?_, live, ?_, ?_⟩
  · intro g g' hg hg'
    have a := hi.pend n g hg
    have b := hi.pend n g' hg'
    rw [a] at b; cases b; rfl
  · intro g hg
    simp [cstep, poolReserve, hg]
  · intro hn
    refine ⟨_, by simp [cstep, poolReserve, hn]; rfl, by simp, by simp, ?_⟩
    simp [cstep, poolReserve]

example : GB.LTS.run cstep cinit [.reserve 0, .reserve 0, .finish 0 0 true, .reserve 0, .get 0] ≠ none := by decide
/-- the second `New(0)` never got a controller of its own: there is nothing for it to finish -/
example : GB.LTS.run cstep cinit [.reserve 0, .reserve 0, .finish 0 1 true] = none := by decide

open GB.C16.Conn

/-- `waitForReady` under the halved deadline: if the call context has a deadline `d` (not yet passed at `now`),
    the wait always returns, never before `now`, after at most HALF of the remaining time, so at least the other
    half (rounded up) is still left for the stream's own initialisation. -/
theorem C16_stream_wait_at_most_half (now d : Nat) (c : Ctx) (a : Avail) (hd : c.deadline = some d) (hnow : now ≤ d) :
    ∃ t1, waitReturn now c a = some t1 ∧ now ≤ t1 ∧ t1 - now ≤ (d - now) / 2 ∧
      (d - now) - (d - now) / 2 ≤ d - t1 := by
  cases a with
  | readyAt t =>
    by_cases h : t ≤ now
    · exact ⟨now, by simp [waitReturn, h], Nat.le_refl _, by omega, by omega⟩
    · refine ⟨min t (now + (d - now) / 2), by simp [waitReturn, h, halved, hd], ?_, ?_, ?_⟩ <;> omega
  | connecting => exact ⟨now + (d - now) / 2, by simp [waitReturn, halved, hd], by omega, by omega, by omega⟩
  | refusing => exact ⟨now + (d - now) / 2, by simp [waitReturn, halved, hd], by omega, by omega, by omega⟩

/-- … and that other half is really usable: a connection that becomes Ready at ANY time before the deadline — also
    in the second half, after `waitForReady` has given up — still yields a stream, no later than it became Ready;
    a target that refuses connections is reported Unavailable exactly at half time; one that never answers ends
    with DeadlineExceeded at the deadline (never later). -/
theorem C16_stream_init_has_other_half (now d t : Nat) (c : Ctx) (hd : c.deadline = some d) :
    (t < d → ∃ t', streamOpen now c (.readyAt t) = .ok t' (streamDeadline c) ∧ t' = max now t) ∧
    streamOpen now c .refusing = .unavailable (now + (d - now) / 2) ∧
    streamOpen now c .connecting = .deadlineExceeded d := by
  refine ⟨?_, by simp [streamOpen, waitReturn, halved, hd], by simp [streamOpen, waitReturn, halved, hd]⟩
  intro ht
  by_cases h : t ≤ now
  · exact ⟨now, by simp [streamOpen, waitReturn, h], by omega⟩
  · by_cases h2 : t ≤ now + (d - now) / 2
    · refine ⟨t, ?_, by omega⟩
      have : min t (now + (d - now) / 2) = t := by omega
      simp [streamOpen, waitReturn, h, halved, hd, this]
    · refine ⟨t, ?_, by omega⟩
      have : min t (now + (d - now) / 2) = now + (d - now) / 2 := by omega
      have h3 : ¬ t ≤ now + (d - now) / 2 := h2
      simp [streamOpen, waitReturn, h, halved, hd, this, h3, ht]

/-- The stream context: it carries the call context's deadline iff the call context carries outgoing metadata;
    otherwise it has NO deadline, whatever the call context's deadline is. Every established stream has it. -/
theorem C16_stream_ctx_deadline (now : Nat) (c : Ctx) (a : Avail) :
    (c.outMD = true → streamDeadline c = c.deadline) ∧ (c.outMD = false → streamDeadline c = none) ∧
    (∀ t sd, streamOpen now c a = .ok t sd → sd = streamDeadline c) := by
  refine ⟨fun h => by simp [streamDeadline, h], fun h => by simp [streamDeadline, h], ?_⟩
  intro t sd h
  unfold streamOpen at h
  split at h
  · cases h
  · split at h
    · split at h
      · cases h; rfl
      · split at h
        · cases h; rfl
        · split at h
          · cases h; rfl
          · cases h
    · split at h <;> cases h
    · cases h

/-- Composed with `ProxyForwarder.baseContext`: through Forward the call context ALWAYS carries outgoing metadata, so
    the stream context is derived from it and inherits its deadline; with a decodable grpc-timeout `d` (C12: the
    first value, = the gRPC-spec reading) that deadline is at most `now + d`, and never later than a deadline the
    incoming context already had: the target is never told a later deadline than the client asked for. -/
theorem C16_forward_stream_deadline (now : Nat) (incoming : Ctx) (vals : List Bytes) :
    let b := baseContext now incoming vals
    b.outMD = true ∧ streamDeadline b = b.deadline ∧
    (∀ d, GB.C12.callDeadline vals = some d → ∃ x, streamDeadline b = some x ∧ x ≤ now + d.toNat) ∧
    (∀ p, incoming.deadline = some p → ∃ x, streamDeadline b = some x ∧ x ≤ p) ∧
    (GB.C12.callDeadline vals = none → streamDeadline b = incoming.deadline) := by
  intro b
  have hmd : b.outMD = true := by
    simp only [b, baseContext]; split <;> rfl
  refine ⟨hmd, by simp [streamDeadline, hmd], ?_, ?_, ?_⟩
  · intro d hd
    simp only [b, baseContext, hd, streamDeadline]
    cases incoming.deadline with
    | none => exact ⟨_, rfl, Nat.le_refl _⟩
    | some p => exact ⟨_, rfl, Nat.min_le_right _ _⟩
  · intro p hp
    simp only [b, baseContext, streamDeadline]
    split
    · simp [hp]; exact Nat.min_le_left _ _
    · simp [hp]
  · intro hn
    simp only [b, baseContext, hn, streamDeadline]; simp

/-- OBSERVATION (not a C16 violation; recorded against C12's "the target never observes a later deadline than the
    client asked for"): a direct user of `AdaptedClientConn.Stream` whose context has a deadline but no outgoing
    metadata gets a stream WITHOUT any deadline — the call deadline only bounds the initialisation. Witness. -/
theorem C16_obs_direct_stream_without_md_has_no_deadline :
    ∃ c : Ctx, c.deadline = some 4 ∧ c.outMD = false ∧ streamOpen 0 c (.readyAt 1) = .ok 1 none :=
  ⟨{ deadline := some 4, outMD := false }, rfl, rfl, by decide⟩

/-- Close racing Stream, every interleaving of any number of Stream and Close goroutines over the atomic steps
    (state.Load / conn.Close / state.Store): no Stream ever dereferences a nil connection — each gets a working
    stream, gRPC's own "connection is closing" error, or Unavailable; the state pointer is always one of the two
    well-formed values, and `closed` implies the gRPC connection has been closed. -/
theorem C16_conn_close_stream_safe (s : RState) (h : GB.LTS.Reachable rstep rinit s) :
    (∀ i r, s.spc i = .done r → r = .stream ∨ r = .closingErr ∨ r = .unavailable) ∧
    (s.ptr = PState.live ∨ s.ptr = PState.closed) ∧
    (s.ptr = PState.closed → s.grpcClosed = true) := by
  have hi := rinv_reachable s h
  refine ⟨?_, hi.ptr_wf, hi.closed_grpc⟩
  intro i r hr
  have := hi.no_nil i r hr
  cases r <;> simp at this ⊢

/-- Closed is final: once `Close` has stored the closed state no step changes it, and every Stream that starts
    afterwards answers Unavailable (running its three steps, whatever else is interleaved before them is covered by
    the first clause). -/
theorem C16_conn_closed_is_final (s : RState) (hc : s.ptr = PState.closed) :
    (∀ l s', rstep s l = some s' → s'.ptr = PState.closed) ∧
    (∀ i, s.spc i = .idle →
      ∃ s3, GB.LTS.run rstep s [.stream i, .stream i, .stream i] = some s3 ∧ s3.spc i = .done .unavailable) := by
  constructor
  · intro l s' hs
    cases l with
    | stream i =>
      simp only [rstep] at hs
      split at hs <;> first | (cases hs; exact hc) | cases hs
    | close j =>
      simp only [rstep] at hs
      split at hs
      · cases hs; exact hc
      · split at hs <;> (cases hs; exact hc)
      · cases hs; rfl
      · cases hs
  · intro i hi
    refine ⟨{ s with spc := upd (upd (upd s.spc i (.loaded s.ptr)) i (.waited s.ptr)) i (.done .unavailable) }, ?_, ?_⟩
    · simp [GB.LTS.run, rstep, hi, hc, PState.closed]
    · simp

example : GB.LTS.run rstep rinit [.stream 0, .close 0, .close 0, .stream 0, .close 0, .stream 0, .stream 1, .stream 1, .stream 1]
    ≠ none := by decide

/-- A Stream attempt racing Close always ENDS (fixed code): `waitForReady` on the closed connection returns at once,
    and in EVERY state of the race LTS every Stream goroutine that has not returned yet has an enabled
    step — none is blocked by anything a Close goroutine does. -/
theorem C16_conn_stream_racing_close_ends (s : RState) (dl : Bool) :
    waitOnClosed true dl = .atOnce ∧
    (∀ i, (∀ r, s.spc i ≠ .done r) → (rstep s (.stream i)).isSome = true) := by
  refine ⟨rfl, ?_⟩
  intro i hnd
  simp only [rstep]
  cases hp : s.spc i with
  | idle => rfl
  | loaded p => rfl
  | waited p => rfl
  | done r => exact absurd hp (hnd r)

/-- Negative witness on the ORIGINAL `waitForReady`: a Stream whose context has no deadline and which loaded the
    connection state just before Close closed the connection waits for ever (with a deadline: half of it). -/
theorem C16_conn_original_wait_on_closed_conn_never_returns :
    waitOnClosed false false = .never ∧ waitOnClosed false true = .atHalfDeadline := ⟨rfl, rfl⟩

/-! ## Add ‖ Remove on the same name: lock scope and teardown order (GB/C16/Race.lean) -/
open GB.C16.Race

/-- Facts tie (regenerated from reflection.go by go/ast on every run): `Remove` holds `r.mu` by a DEFERRED unlock and
    tears down in the order watchers → resolver → pool connection → delete; `Add` goes pool.New → Watch → Watch →
    Build → insert under the same deferred lock and none of its error branches makes a cleanup call;
    `aggregateWatcher` closes pattern then service. A change of scope or order breaks these by `decide` even when
    no race is hit. -/
theorem C16_facts_remove_scope_and_order : GB.Generated.c16RemoveTrace = expectedRemoveTrace := by decide
theorem C16_facts_add_order_and_cleanup : GB.Generated.c16AddTrace = expectedAddTrace := by decide
theorem C16_facts_watcher_order : GB.Generated.c16WatcherOrder = expectedWatcherOrder := by decide

/-- Add(name) ‖ Remove(name), any number of goroutines, every interleaving of the atomic steps under the REAL lock
    scope and teardown order: an Add only ever answers ok or "already added" (never ErrAlreadyDialed, never a Watch
    failure); at most one goroutine is past `Lock`; and whenever the lock is free nothing is half-built or left
    behind (pool slot, both watch slots and the census of connections / watchers / pollers all agree with the map)
    and the completed operations, in unlock order, are a sequential history of the `present`-set specification
    that ends in the current map — every interleaving ends in a sequential outcome. -/
theorem C16_add_remove_same_name_atomic (s : AState) (h : GB.LTS.Reachable (astep .real) ainit s) :
    (∀ i r, s.apc i = .done r → r = .ok ∨ r = .dup) ∧
    (∀ i, insideA (s.apc i) = true → s.lock = some (.add i)) ∧
    (∀ j, insideR (s.rpc j) = true → s.lock = some (.rem j)) ∧
    (s.lock = none → Consistent s ∧ seqRun false s.log = some s.inMap) := by
  have hi := ainv_reachable s h
  refine ⟨hi.resA, fun i => (hi.holderA i).2, fun j => (hi.holderR j).2, ?_⟩
  intro hl
  obtain ⟨p, hT, hC⟩ := hi.free hl
  simp [T, consT] at hT
  obtain ⟨h1, h2, h3, h4, h5, h6, h7, h8⟩ := hT
  refine ⟨?_, by rw [h1]; exact hC⟩
  simp [Consistent, h1, h2, h3, h4, h5, h6, h7, h8]

/-- Why Add's Watch (and pool.New) cannot fail on the real code: an Add that found the name absent from the map
    finds the pool slot and both watch slots free — in EVERY reachable state, including all intermediate states of
    concurrent Removes, because under the real lock scope no Remove is between its steps while an Add is (and vice
    versa): the half-torn-down states of Remove are never visible to Add's checks. Hence the error branches after
    `pool.New` (which close nothing: facts) are dead code, concurrently as well as sequentially. -/
theorem C16_add_watch_cannot_fail (s : AState) (h : GB.LTS.Reachable (astep .real) ainit s) (i : Nat) :
    (s.apc i = .poolNew → s.inMap = false ∧ s.poolSlot = false ∧ s.pSlot = false ∧ s.sSlot = false) ∧
    (s.apc i = .watchP → s.pSlot = false ∧ s.sSlot = false) ∧
    (s.apc i = .watchS → s.sSlot = false) ∧
    (∀ r, s.apc i = .unlock r → r = .ok ∨ r = .dup) ∧
    (insideA (s.apc i) = true → ∀ j, insideR (s.rpc j) = false) := by
  have hi := ainv_reachable s h
  have holder : insideA (s.apc i) = true → s.lock = some (.add i) := (hi.holderA i).2
  refine ⟨?_, ?_, ?_, ?_, ?_⟩
  · intro hp
    have sh := hi.shA i (holder (by simp [hp, insideA])); rw [hp] at sh
    have hT := sh.1; simp [T, consT] at hT
    exact ⟨hT.1, hT.2.1, hT.2.2.1, hT.2.2.2.1⟩
  · intro hp
    have sh := hi.shA i (holder (by simp [hp, insideA])); rw [hp] at sh
    have hT := sh.1; simp [T] at hT
    exact ⟨hT.2.2.1, hT.2.2.2.1⟩
  · intro hp
    have sh := hi.shA i (holder (by simp [hp, insideA])); rw [hp] at sh
    have hT := sh.1; simp [T] at hT
    exact hT.2.2.2.1
  · intro r hp
    have sh := hi.shA i (holder (by simp [hp, insideA])); rw [hp] at sh
    cases r with
    | ok => exact Or.inl rfl
    | dup => exact Or.inr rfl
    | dialed => exact absurd sh (by simp [shapeA])
    | watchP => exact absurd sh (by simp [shapeA])
    | watchS => exact absurd sh (by simp [shapeA])
  · intro hin j
    have hl := holder hin
    cases e : insideR (s.rpc j) with
    | false => rfl
    | true => have := (hi.holderR j).2 e; rw [hl] at this; cases this

/-- Negative witness for the seeded variant C16-m6 (lock held only for lookup + delete; teardown connection →
    resolver → watchers): the schedule `m6Schedule` is executable and ends with the lock free, the name NOT in the
    map, yet its pool slot taken and one connection open that nobody owns; the concurrent Add answered with the Watch
    failure, the later Add answers ErrAlreadyDialed (the name is not present and not addable), Remove returned true. -/
theorem C16_m6_early_unlock_leaks :
    (GB.LTS.run (astep .earlyUnlock) ainit m6Schedule).map summary =
      some { lockFree := true, inMap := false, poolSlot := true, conns := 1,
             add1 := .done .watchP, add2 := .done .dialed, rem0 := .done true } := by
  decide

/-- … and the very same schedule is NOT executable on the real code: the concurrent Add cannot take the lock. -/
theorem C16_m6_schedule_impossible_on_real_code :
    GB.LTS.run (astep .real) ainit (m6Schedule.take 13) = none := by
  decide

/-! ## the wait loop of waitForReady, state by state (seeded C16-m7 / C02-m8) -/

theorem waitFrom_shutdown (dl : Bool) (l : List CS) (m : Nat) : waitFrom .inLoop dl l .shutdown m = .returned m := by
  cases l <;> simp [waitFrom]

theorem waitFrom_ends_on_close (dl : Bool) (pre rest : List CS) (cur : CS) (n : Nat)
    (hcur : cur ≠ .ready ∧ cur ≠ .shutdown) (hpre : ∀ x ∈ pre, x ≠ .ready ∧ x ≠ .shutdown) :
    waitFrom .inLoop dl (pre ++ .shutdown :: rest) cur n = .returned (n + pre.length + 1) := by
  induction pre generalizing cur n with
  | nil => simp [waitFrom, hcur.1, hcur.2, waitFrom_shutdown]
  | cons x xs ih =>
    simp only [List.cons_append, waitFrom, hcur.1, hcur.2, if_false, and_false]
    rw [ih x (n + 1) (hpre x (by simp)) (fun y hy => hpre y (by simp [hy]))]
    simp only [List.length_cons]; congr 1; omega

/-- Once the connection is Shutdown the waiting Stream returns within one loop iteration — whatever state it was
    waiting in (Idle / Connecting / TransientFailure, through any sequence `pre` of such states), with or without a
    deadline, and whatever would have come afterwards: it returns exactly at the iteration that observes Shutdown
    (`pre.length + 1` reported changes), and at once if the first GetState already answers Shutdown. -/
theorem C16_stream_wait_ends_on_close (dl : Bool) (cur : CS) (pre rest : List CS)
    (hcur : cur ≠ .ready ∧ cur ≠ .shutdown) (hpre : ∀ x ∈ pre, x ≠ .ready ∧ x ≠ .shutdown) :
    waitLoop .inLoop dl cur (pre ++ .shutdown :: rest) = .returned (pre.length + 1) ∧
    waitLoop .inLoop dl .shutdown rest = .returned 0 := by
  constructor
  · simp only [waitLoop]
    rw [if_neg (by simp), waitFrom_ends_on_close dl pre rest cur 0 hcur hpre]; congr 1; omega
  · simp [waitLoop, waitFrom_shutdown]

/-- Negative witness for the hoisted check (C16-m7 / C02-m8): the documented race still works (Shutdown at the first
    GetState), but a connection closed WHILE the Stream waits on a not-ready connection (Connecting → Shutdown,
    TransientFailure → Connecting → Shutdown) makes a call without a deadline wait for ever, one with a deadline
    until the halved deadline. Last clause: the code before fix D17c (no check at all). -/
theorem C16_hoisted_shutdown_check_waits_forever :
    waitLoop .hoisted false .shutdown [] = .returned 0 ∧
    waitLoop .hoisted false .connecting [.shutdown] = .never ∧
    waitLoop .hoisted true .connecting [.shutdown] = .ctxDone ∧
    waitLoop .hoisted false .transientFailure [.connecting, .shutdown] = .never ∧
    waitLoop .inLoop false .transientFailure [.connecting, .shutdown] = .returned 2 ∧
    waitLoop .absent false .shutdown [] = .never := by
  decide

/-- Facts tie (regenerated from grpcadapter/conn.go): the Shutdown comparison (and its return) is INSIDE the `for`
    statement of waitForReady, before WaitForStateChange; before the loop there is only GetState / the Idle check /
    Connect. -/
theorem C16_facts_wait_loop :
    GB.Generated.c16WaitBeforeLoop = expectedWaitBeforeLoop ∧ GB.Generated.c16WaitInLoop = expectedWaitInLoop := by
  decide


/-! ## round 5: Add ‖ Remove over ALL names on the full concrete state — bijection in quiescent states, exactly the
    in-flight operation's partial work otherwise (lean/GB/C16/Lts.lean) -/

open GB.C16.Lts in
/-- Linearisation by the router mutex, on the full state: in every reachable state of the atomic-statement LTS `mstep`
    (any number of goroutines in Add / Remove of any names, constructions succeeding / failing / rejected, pollers busy
    or idle, every interleaving) the results returned so far are exactly those of the sequential history of the
    completed calls in unlock order, and whenever the mutex is free the WHOLE concrete state (targets, pool map,
    controllers, connections, watcher sets and objects, pollers) IS the sequential state `afterR` of that history —
    so every sequential theorem of this file holds in every quiescent state of every concurrent execution. -/
theorem C16_lts_quiescent_is_sequential (m : MState) (h : GB.LTS.Reachable mstep minit m) :
    m.results = (runR true init (m.log.map Op.toROp)).2 ∧
    (m.hold = none → m.st = afterR true (m.log.map Op.toROp)) := by
  have hi := minv_reachable m h
  exact ⟨hi.res, hi.quiet⟩

open GB.C16.Lts in
/-- Bijection in every quiescent state: with the mutex free, the pool entries, the open connections, both watcher
    sets, the open watcher objects and the running pollers are each in one-to-one correspondence with the present
    names — every present name owns exactly the objects of its generation (no orphan target), everything alive has
    exactly one owner (no leak, no duplicate), an absent name has no pool entry and no watch slot, and the four
    censuses over the allocated ids all equal |present|. -/
theorem C16_lts_quiescent_bijection (m : MState) (h : GB.LTS.Reachable mstep minit m) (hq : m.hold = none)
    (N : Nat) (hN : ∀ op ∈ m.log, opName op.toROp < N) :
    let s := m.st
    (∀ n g, s.targets n = some g → s.conns n = some g ∧ s.ctrlTarget g = n ∧ s.connOpen g = true ∧
      s.patternSet n = true ∧ s.pwOpen g = true ∧ s.serviceSet n = true ∧ s.swOpen g = true ∧ s.polling g = true) ∧
    (∀ n, s.targets n = none → s.conns n = none ∧ s.patternSet n = false ∧ s.serviceSet n = false) ∧
    (∀ g, (s.polling g = true ∨ s.connOpen g = true ∨ s.pwOpen g = true ∨ s.swOpen g = true) →
      ∃ n, s.targets n = some g ∧ ∀ n', s.targets n' = some g → n' = n) ∧
    census s = (targetCount s N, targetCount s N, targetCount s N, targetCount s N) := by
  intro s
  have e : s = afterR true (m.log.map Op.toROp) := (C16_lts_quiescent_is_sequential m h).2 hq
  have hi : C16.Inv s := e ▸ inv_afterR _
  refine ⟨?_, ?_, ?_, ?_⟩
  · intro n g hn
    have l := hi.live n g hn
    exact ⟨by rw [hi.conns_eq]; exact hn, l.2.1, l.2.2.2.2.1, by rw [hi.pset, hn]; rfl, l.2.2.2.2.2.1,
      by rw [hi.sset, hn]; rfl, l.2.2.2.2.2.2.1, l.2.2.2.2.2.2.2⟩
  · intro n hn
    exact ⟨by rw [hi.conns_eq]; exact hn, by rw [hi.pset, hn]; rfl, by rw [hi.sset, hn]; rfl⟩
  · intro g hg
    obtain ⟨n, hn⟩ := hi.owned g hg
    exact ⟨n, hn, fun n' hn' => hi.inj hn' hn⟩
  · have c := C16_pollers_eq_present (m.log.map Op.toROp) N (by
      intro op ho
      obtain ⟨o, ho', rfl⟩ := List.mem_map.1 ho
      exact hN o ho')
    simp only [← e] at c
    obtain ⟨c1, c2, c3, c4, _⟩ := c
    simp only [census, c2, c3, c4]
    simp only [pollers] at c1
    rw [c1]

open GB.C16.Lts in
/-- Non-quiescent states: while goroutine `i` holds the mutex inside `op` at statement `pc`, the concrete state is the
    sequential state of the completed calls plus EXACTLY the first `k ≤ 7` statements of `op` — nothing else differs
    (no other goroutine has touched anything). -/
theorem C16_lts_inflight_is_prefix (m : MState) (h : GB.LTS.Reachable mstep minit m) (i : Nat) (op : Op) (pc : Pc)
    (hh : m.hold = some (i, op, pc)) :
    ∃ k, k ≤ 7 ∧ (m.st, pc) = iter k (afterR true (m.log.map Op.toROp), startPc op) :=
  (minv_reachable m h).held i op pc hh

open GB.C16.Lts in
/-- … written out for a successful `Add(n)`: the name is absent in the sequential state `b` of the completed calls, and
    the state is `b` plus the first `j` statements' work (`partialAdd`: 2 = pool reservation, 3 = client stored and
    connection open, 4 = pattern watcher registered, 5 = service watcher, 6 = poller started, 7 = in `targets`), at the
    matching program counter; the census of live objects exceeds |present-before| by exactly that work: connections
    by 1 from statement 3 on, pattern watchers from 4, service watchers from 5, pollers from 6. -/
theorem C16_lts_inflight_add_partial_work (m : MState) (h : GB.LTS.Reachable mstep minit m) (i : Nat) (n : Name) (pc : Pc)
    (hh : m.hold = some (i, .add n .ok, pc))
    (habs : (afterR true (m.log.map Op.toROp)).targets n = none)
    (N : Nat) (hN : ∀ op ∈ m.log, opName op.toROp < N) :
    let b := afterR true (m.log.map Op.toROp)
    ∃ j, j ≤ 7 ∧ m.st = partialAdd b n j ∧ pc = pcAdd b n j ∧
      census m.st = (targetCount b N + ge 3 j, targetCount b N + ge 4 j, targetCount b N + ge 5 j, targetCount b N + ge 6 j) := by
  intro b
  obtain ⟨k, hk, e⟩ := C16_lts_inflight_is_prefix m h i _ pc hh
  have hi : C16.Inv b := inv_afterR _
  simp only [startPc] at e
  rw [iter_add_ok_absent hi n habs k hk] at e
  injection e with e1 e2
  refine ⟨k, hk, e1, e2, ?_⟩
  rw [e1, census_partialAdd hi n k hk]
  have c := C16_pollers_eq_present (m.log.map Op.toROp) N (by
    intro op ho
    obtain ⟨o, ho', rfl⟩ := List.mem_map.1 ho
    exact hN o ho')
  obtain ⟨c1, c2, c3, c4, _⟩ := c
  simp only [pollers] at c1
  simp only [census]
  rw [c1, c2, c3, c4]

open GB.C16.Lts in
/-- … and for `Remove(n)` of a present name (generation `g`): the state is the sequential state plus the first `j`
    statements of the teardown (`partialRemove`: 2 = pattern watcher closed + unregistered, 3 = service watcher,
    4 = poller stopped, 5 = pool entry deleted and connection closed, 6 = out of `targets`); the census is below
    |present-before| by exactly that work. `Resolver.Close` (statement 4) is the only one that can block. -/
theorem C16_lts_inflight_remove_partial_work (m : MState) (h : GB.LTS.Reachable mstep minit m) (i : Nat) (n : Name) (g : Nat)
    (pc : Pc) (hh : m.hold = some (i, .remove n, pc))
    (hpres : (afterR true (m.log.map Op.toROp)).targets n = some g)
    (N : Nat) (hN : ∀ op ∈ m.log, opName op.toROp < N) :
    let b := afterR true (m.log.map Op.toROp)
    ∃ j, j ≤ 6 ∧ m.st = partialRemove b n g j ∧ pc = pcRemove n g j ∧
      (let c := census m.st
       (c.1 + ge 5 j, c.2.1 + ge 2 j, c.2.2.1 + ge 3 j, c.2.2.2 + ge 4 j) =
         (targetCount b N, targetCount b N, targetCount b N, targetCount b N)) ∧
      (blocked m pc = true → j = 6 ∨ (j = 3 ∧ m.busy g = true)) := by
  intro b
  obtain ⟨k, hk, e⟩ := C16_lts_inflight_is_prefix m h i _ pc hh
  have hi : C16.Inv b := inv_afterR _
  simp only [startPc] at e
  have hk6 : ∃ j, j ≤ 6 ∧ iter k (b, Pc.rLookup n) = iter j (b, Pc.rLookup n) := by
    by_cases h6 : k ≤ 6
    · exact ⟨k, h6, rfl⟩
    · refine ⟨6, by omega, ?_⟩
      have : k = 6 + 1 := by omega
      subst this
      rw [iter_add, iter_remove_present hi n g hpres 6 (by omega)]
      simp [iter, micro, pcRemove]
  obtain ⟨j, hj, ej⟩ := hk6
  rw [ej, iter_remove_present hi n g hpres j hj] at e
  injection e with e1 e2
  refine ⟨j, hj, e1, e2, ?_, ?_⟩
  · rw [e1]
    have cp := census_partialRemove hi n g hpres j hj
    intro c
    refine cp.trans ?_
    have c := C16_pollers_eq_present (m.log.map Op.toROp) N (by
      intro op ho
      obtain ⟨o, ho', rfl⟩ := List.mem_map.1 ho
      exact hN o ho')
    obtain ⟨c1, c2, c3, c4, _⟩ := c
    simp only [pollers] at c1
    simp only [census]
    rw [c1, c2, c3, c4]
  · intro hb
    rw [e2] at hb
    match j, hj with
    | 0, _ => simp [pcRemove, blocked] at hb
    | 1, _ => simp [pcRemove, blocked] at hb
    | 2, _ => simp [pcRemove, blocked] at hb
    | 3, _ => simp [pcRemove, blocked] at hb; exact Or.inr ⟨rfl, hb⟩
    | 4, _ => simp [pcRemove, blocked] at hb
    | 5, _ => simp [pcRemove, blocked] at hb
    | 6, _ => exact Or.inl rfl

open GB.C16.Lts in
/-- the LTS is not vacuous: Add(0) completes, a Remove(0) tears down to the blocked Resolver.Close while a second
    goroutine cannot take the mutex, the poller becomes idle, Remove completes and Add(0) by the second goroutine
    starts over with a fresh generation -/
example : (GB.LTS.run mstep minit
    ([.lock 0 (.add 0 .ok)] ++ List.replicate 7 (.step 0) ++ [.unlock 0, .pollerBusy 0, .lock 1 (.remove 0), .step 1, .step 1, .step 1])).map
      (fun m => (m.hold.map (·.2.2), [m.st.pwOpen 0, m.st.swOpen 0, m.st.polling 0, m.st.connOpen 0], m.st.targets 0)) =
    some (some (.rCloseRes 0 0), [false, false, true, true], some 0) := by decide
open GB.C16.Lts in
example : (GB.LTS.run mstep minit
    ([.lock 0 (.add 0 .ok)] ++ List.replicate 7 (.step 0) ++ [.unlock 0, .pollerBusy 0, .lock 1 (.remove 0), .step 1, .step 1, .step 1,
      .step 1])).isNone = true := by decide
open GB.C16.Lts in
example : (GB.LTS.run mstep minit
    ([.lock 0 (.add 0 .ok)] ++ List.replicate 7 (.step 0) ++ [.unlock 0, .pollerBusy 0, .lock 1 (.remove 0), .step 1, .step 1, .step 1,
      .lock 2 (.add 0 .ok)])).isNone = true := by decide
open GB.C16.Lts in
example : (GB.LTS.run mstep minit
    ([.lock 0 (.add 0 .ok)] ++ List.replicate 7 (.step 0) ++ [.unlock 0, .pollerBusy 0, .lock 1 (.remove 0), .step 1, .step 1, .step 1,
      .pollerIdle 0, .step 1, .step 1, .step 1, .unlock 1, .lock 2 (.add 0 .ok)] ++ List.replicate 7 (.step 2) ++ [.unlock 2])).map
      (fun m => (m.results, m.st.targets 0, m.st.connOpen 0, m.st.connOpen 1)) =
    some ([.add .ok (some .absent), .removed, .add .ok (some .absent)], some 1, false, true) := by decide

open GB.C16.Lts in
/-- Lock-free `pool.Get` against Add ‖ Remove (label `get i n` of `mstep`: enabled in EVERY state, reads the pool's
    sync.Map at that instant).  Over all runs (any goroutines, names, outcomes, poller states, interleavings):
    (1) no answer ever recorded, and no answer a `get` would receive now, is present-but-nil (D17 fix), and a returned
        connection is exactly a pool entry whose client has been stored (fully built controller);
    (2) with the mutex free the answer is the sequential one: usable g iff the name is a present target of generation g;
    (3) while a successful `Add(n)` of an absent name is in flight at its j-th statement, `get n` answers the NEW
        connection iff the Add has passed the pool-store statement (3 ≤ j: client stored) — before that: absent, the
        bare reservation (j = 2) included — and every other name answers as in the sequential state;
    (4) while `Remove(n)` of a present name (generation g) is in flight at its j-th statement, `get n` answers g iff
        the Remove has NOT passed the pool-delete statement (j < 5), absent afterwards; other names are unaffected;
        and the connection g is open exactly while j < 5. -/
theorem C16_lts_get_never_half_built (m : MState) (h : GB.LTS.Reachable mstep minit m) :
    let b := afterR true (m.log.map Op.toROp)
    ((∀ x ∈ m.got, x.2.2 ≠ GetRes.nilPresent) ∧ (∀ n, getRet m n ≠ .nilPresent) ∧
      (∀ n g, getRet m n = .usable g ↔ m.st.conns n = some g ∧ m.st.clientSet g = true)) ∧
    (m.hold = none → ∀ n, getRet m n = (match b.targets n with | some g => .usable g | none => .absent)) ∧
    (∀ i n pc, m.hold = some (i, .add n .ok, pc) → b.targets n = none →
      ∃ j, j ≤ 7 ∧ pc = pcAdd b n j ∧ getRet m n = (if 3 ≤ j then .usable b.next else .absent) ∧
        (∀ n', n' ≠ n → getRet m n' = poolGet true b n')) ∧
    (∀ i n g pc, m.hold = some (i, .remove n, pc) → b.targets n = some g →
      ∃ j, j ≤ 6 ∧ pc = pcRemove n g j ∧ getRet m n = (if 5 ≤ j then .absent else .usable g) ∧
        (∀ n', n' ≠ n → getRet m n' = poolGet true b n') ∧ m.st.connOpen g = decide (j < 5)) := by
  intro b
  have hi : C16.Inv b := inv_afterR _
  refine ⟨⟨gotinv_reachable m h, fun n => poolGet_fixed_ne_nil _ _, fun n g => poolGet_usable_iff _ _ _⟩, ?_, ?_, ?_⟩
  · intro hq n
    have e : m.st = b := (C16_lts_quiescent_is_sequential m h).2 hq
    simp only [getRet, e]
    cases ht : b.targets n with
    | none =>
      have : b.conns n = none := by rw [hi.conns_eq]; exact ht
      simp [poolGet, this]
    | some g =>
      have hc : b.conns n = some g := by rw [hi.conns_eq]; exact ht
      have := (hi.live n g ht).2.2.1
      simp [poolGet, hc, this]
  · intro i n pc hh habs
    obtain ⟨k, hk, e⟩ := C16_lts_inflight_is_prefix m h i _ pc hh
    simp only [startPc] at e
    rw [iter_add_ok_absent hi n habs k hk] at e
    injection e with e1 e2
    obtain ⟨p1, p2, _⟩ := poolGet_partialAdd hi n habs k hk
    exact ⟨k, hk, e2, by simp only [getRet, e1]; exact p1, fun n' hne => by simp only [getRet, e1]; exact p2 n' hne⟩
  · intro i n g pc hh hpres
    obtain ⟨j, hj, e1, e2, _⟩ := C16_lts_inflight_remove_partial_work m h i n g pc hh hpres
      ((m.log.map (fun op => opName op.toROp)).foldr max 0 + 1) (by
        intro op ho
        have : ∀ (l : List Nat) (x : Nat), x ∈ l → x < l.foldr max 0 + 1 := by
          intro l
          induction l with
          | nil => intro x hx; cases hx
          | cons a l ih =>
            intro x hx
            simp only [List.foldr]
            rcases List.mem_cons.1 hx with rfl | hx
            · omega
            · have := ih x hx; omega
        exact this _ _ (List.mem_map.2 ⟨op, ho, rfl⟩))
    obtain ⟨p1, p2, p3⟩ := poolGet_partialRemove hi n g hpres j hj
    exact ⟨j, hj, e2, by simp only [getRet, e1]; exact p1, fun n' hne => by simp only [getRet, e1]; exact p2 n' hne,
      by rw [e1]; exact p3⟩

open GB.C16.Lts in
/-- A connection obtained before a Remove completes is closed once that Remove has returned: when `Remove(n)` of a
    present name (generation g — the ONLY connection any `get n` answered since the previous call completed, by (2)
    and (4) above) reaches its return and unlocks, then in the state after the unlock the kept connection g is closed
    (`Stream` on the kept handle ⇒ Unavailable), `get n` answers absent, and the call returned `removed`. -/
theorem C16_lts_get_handle_closed_after_remove (m m' : MState) (h : GB.LTS.Reachable mstep minit m) (i : Nat) (n : Name)
    (g : Nat) (r : Res) (hh : m.hold = some (i, .remove n, .ret r))
    (hpres : (afterR true (m.log.map Op.toROp)).targets n = some g) (hu : mstep m (.unlock i) = some m') :
    r = .removed ∧ m'.hold = none ∧ m'.st.connOpen g = false ∧ getRet m' n = .absent ∧
    stream { m'.st with handles := upd m'.st.handles n (some g) } n = .unavailable := by
  obtain ⟨j, hj, e2, e3, _, e5⟩ := (C16_lts_get_never_half_built m h).2.2.2 i n g _ hh hpres
  have hj6 : j = 6 ∧ r = .removed := by
    match j, hj with
    | 0, _ | 1, _ | 2, _ | 3, _ | 4, _ | 5, _ => simp [pcRemove] at e2
    | 6, _ => simp [pcRemove] at e2; exact ⟨rfl, e2⟩
  obtain ⟨rfl, rfl⟩ := hj6
  simp only [mstep, hh, if_true] at hu
  cases hu
  simp at e3 e5
  refine ⟨rfl, rfl, e5, e3, ?_⟩
  simp [stream, e5]

open GB.C16.Lts in
/-- kernel-checked interleavings with lock-free gets by a third goroutine (9): Add(0) by goroutine 0, gets at the lookup,
    at the bare reservation (statement 2: absent — never nil-present), after the client store (usable 0), Remove(0) by
    goroutine 1 with gets before / after the pool delete, and after the unlock; the kept connection 0 is closed. -/
example : (GB.LTS.run mstep minit
    [.get 9 0, .lock 0 (.add 0 .ok), .step 0, .get 9 0, .step 0, .get 9 0, .step 0, .get 9 0, .step 0, .step 0, .step 0,
     .step 0, .get 9 0, .unlock 0, .get 9 0, .lock 1 (.remove 0), .step 1, .step 1, .step 1, .step 1, .get 9 0, .step 1,
     .get 9 0, .step 1, .unlock 1, .get 9 0]).map (fun m => (m.got.map (·.2.2), m.st.connOpen 0, m.results)) =
    some ([.absent, .absent, .absent, .usable 0, .usable 0, .usable 0, .usable 0, .absent, .absent], false,
          [.add .ok (some .absent), .removed]) := by decide
open GB.C16.Lts in
/-- a failing construction: the reservation is never visible to a get, before or after it is released; a get for
    another name during an in-flight Add sees that name's sequential answer; get is enabled while Remove is blocked -/
example : (GB.LTS.run mstep minit
    ([.lock 0 (.add 1 .ok)] ++ List.replicate 7 (.step 0) ++ [.unlock 0, .lock 2 (.add 0 .fail), .step 2, .step 2, .get 9 0, .get 9 1,
     .step 2, .get 9 0, .unlock 2, .pollerBusy 0, .lock 1 (.remove 1), .step 1, .step 1, .step 1, .get 9 1, .get 9 0])).map
      (fun m => (m.got.map (·.2.2), m.hold.map (·.2.2), m.results)) =
    some ([.absent, .usable 0, .absent, .usable 0, .absent], some (.rCloseRes 1 0),
          [.add .ok (some .absent), .add .conn (some .absent)]) := by decide

open GB.C16.Lts in
/-- Facts tie for the LTS: the statements of `micro` (Pc order) are the statements of the real `Add` / `Remove` bodies
    (go/ast trace, regenerated on every run), in the same order, under a lock taken first and released by `defer`. -/
theorem C16_facts_lts_statements :
    statementsOf GB.Generated.c16AddTrace = addStatements ∧
    statementsOf GB.Generated.c16RemoveTrace = removeStatements ∧
    GB.Generated.c16AddTrace.take 2 = ["lock", "defer-unlock"] ∧
    GB.Generated.c16RemoveTrace.take 2 = ["lock", "defer-unlock"] := by decide

/-! ## the connectivity state machine as environment of waitForReady (seeded C01-m10, C12-m9) -/

open GB.C16.Conn in
/-- Connect is requested whenever a wait observes IDLE: with the code's guard (`always`), a Stream on a non-closed
    connection to a reachable target reaches READY from EVERY channel state and every value of any once-flag — in
    particular after the channel fell back to IDLE any number of times. -/
theorem C16_wait_connects_whenever_idle (c : Chan) (dl tested : Bool) (h : c.st ≠ .shutdown) :
    (waitCall .always dl tested true c).1 = .ready ∧ (waitCall .always dl tested true c).2.st = .ready := by
  obtain ⟨st, rq⟩ := c
  cases st <;> simp_all [waitCall]

open GB.C16.Conn in
/-- … hence any sequence of calls interleaved with drops to IDLE always ends READY. -/
theorem C16_wait_idle_again_any_number_of_times (n : Nat) (c : Chan) (h : c.st ≠ .shutdown) :
    (Nat.rec (motive := fun _ => Chan) c (fun _ acc => (waitCall .always false true true (dropToIdle acc)).2) n).st ≠ .shutdown ∧
    (waitCall .always false true true (dropToIdle
      (Nat.rec (motive := fun _ => Chan) c (fun _ acc => (waitCall .always false true true (dropToIdle acc)).2) n))).1 = .ready := by
  constructor
  · induction n with
    | zero => exact h
    | succ n ih => simp [waitCall, dropToIdle]
  · simp [waitCall, dropToIdle]

open GB.C16.Conn in
/-- The wait returns when WaitForStateChange reports that the context is over: with a deadline and the result tested,
    no call waits for ever, whatever the channel does (reachable or not, any guard). -/
theorem C16_wait_returns_when_ctx_ends (g : ConnectGuard) (reachable : Bool) (c : Chan) :
    (waitCall g true true reachable c).1 ≠ .waitsForever := by
  obtain ⟨st, rq⟩ := c
  cases st <;> cases g <;> cases rq <;> cases reachable <;> simp [waitCall]

open GB.C16.Conn in
/-- Negative witnesses (kernel `decide`): the once-guard (C01-m10) leaves the second call after a drop to IDLE waiting
    for ever; ignoring WaitForStateChange's result (C12-m9) leaves a call with a deadline to an unreachable target
    without end. -/
theorem C16_once_guard_or_ignored_result_wait_forever :
    secondCall .once = .waitsForever ∧ secondCall .always = .ready ∧
    (waitCall .always true false false { st := .idle, requested := false }).1 = .waitsForever ∧
    (waitCall .always true true false { st := .idle, requested := false }).1 = .endsWithCtx := by decide

/-! ## Close stores the closed state whatever the underlying grpc.ClientConn.Close answers (seeded C16-m11) -/

open GB.C16.Conn in
/-- Whatever the underlying `grpc.ClientConn.Close()` returns (nil, or an error because the client was already closed —
    shared between two names, closed by its owner), after `AdaptedClientConn.Close` the pointer is `{nil, Unavailable}`
    and every later `Stream` answers Unavailable; this holds from both well-formed pointer values (so also for a second
    Close). -/
theorem C16_close_always_marks_closed (underlyingErr : Bool) (p : PState) (h : p = PState.live ∨ p = PState.closed) :
    closeRun .unconditional underlyingErr p = PState.closed ∧
    streamAfterClose (closeRun .unconditional underlyingErr p) = .unavailable := by
  rcases h with rfl | rfl <;> cases underlyingErr <;> decide

open GB.C16.Conn in
/-- negative witness (C16-m11): returning early on an error of the underlying Close leaves the adapter pointing at a
    shut-down client — later Streams answer gRPC's closing error (Canceled), not Unavailable -/
theorem C16_close_return_on_error_fails :
    streamAfterClose (closeRun .returnOnError true PState.live) = .closingErr ∧
    streamAfterClose (closeRun .returnOnError false PState.live) = .unavailable := by decide

/-- facts tie: the body of the real `AdaptedClientConn.Close` has no return between the underlying Close and the Store,
    and throws the result away -/
theorem C16_facts_close_trace : GB.Generated.c16CloseTrace = GB.C16.Conn.expectedCloseTrace := by decide
