import GB.C16.Lts
import GB.C16.Proofs
namespace GB.C16.Lts
open GB GB.C16

set_option linter.unusedSimpArgs false
set_option linter.unusedVariables false

theorem iter_ret (k : Nat) (s : State) (r : Res) : iter k (s, .ret r) = (s, .ret r) := by
  induction k with
  | zero => rfl
  | succ k ih => simp [iter, ih, micro]

theorem iter_add (a b : Nat) (x : State × Pc) : iter (a + b) x = iter b (iter a x) := by
  induction b with
  | zero => rfl
  | succ b ih => rw [← Nat.add_assoc]; simp only [iter]; rw [ih]

theorem iter_front (k : Nat) (s : State) (pc : Pc) : iter (k + 1) (s, pc) = iter k (micro s pc) := by
  rw [Nat.add_comm, iter_add]; rfl

/-- the seven statements of Add, run to completion, ARE `add` -/
theorem iter_add_total (s : State) (n : Name) (o : Outcome) :
    iter 7 (s, .aCheck n o) = ((add true s n o).1, .ret (add true s n o).2) := by
  rw [iter_front]
  cases ht : s.targets n with
  | some g => simp [micro, ht, iter_ret, add]
  | none =>
    cases o with
    | opts => simp [micro, ht, iter_ret, add]
    | fail =>
      rw [show micro s (.aCheck n .fail) = (s, .aReserve n false) by simp [micro, ht]]
      rw [iter_front]
      cases hc : s.conns n with
      | some g => simp [micro, poolReserve, hc, iter_ret, add, ht, poolNew]
      | none =>
        simp only [micro, poolReserve, hc]
        rw [iter_front]
        simp [micro, iter_ret, add, ht, poolNew, poolReserve, hc]
    | ok =>
      rw [show micro s (.aCheck n .ok) = (s, .aReserve n true) by simp [micro, ht]]
      rw [iter_front]
      cases hc : s.conns n with
      | some g => simp [micro, poolReserve, hc, iter_ret, add, ht, poolNew]
      | none =>
        simp only [micro, poolReserve, hc]
        rw [iter_front]
        simp only [micro, if_true]
        rw [iter_front]
        by_cases hp : s.patternSet n = true
        · simp [micro, poolFinish, hp, iter_ret, add, ht, poolNew, poolReserve, hc]
        · simp only [micro, poolFinish, if_true, hp]
          simp only [Bool.false_eq_true, if_false]
          rw [iter_front]
          by_cases hs : s.serviceSet n = true
          · simp [micro, hs, iter_ret, add, ht, poolNew, poolReserve, hc, poolFinish, hp]
          · simp only [micro, hs]
            simp [iter, micro, add, ht, poolNew, poolReserve, hc, poolFinish, hp, hs]

/-- the six statements of Remove, run to completion, ARE `remove` -/
theorem iter_remove_total (s : State) (n : Name) :
    iter 6 (s, .rLookup n) = ((remove s n).1, .ret (remove s n).2) := by
  rw [iter_front]
  cases ht : s.targets n with
  | none => simp [micro, ht, iter_ret, remove]
  | some g =>
    simp only [micro, ht]
    rw [iter_front]
    by_cases hp : s.pwOpen g = true
    · simp only [micro, hp, Bool.not_true, Bool.false_eq_true, if_false]
      rw [iter_front]
      by_cases hs : s.swOpen g = true
      · simp only [micro, hs, Bool.not_true, Bool.false_eq_true, if_false]
        rw [iter_front]
        by_cases hq : s.polling g = true
        · simp only [micro, hq, Bool.not_true, Bool.false_eq_true, if_false]
          rw [iter_front]
          simp only [micro, remove, ht, hp, hs, hq, Bool.not_true, Bool.false_eq_true, if_false]
          split <;> rename_i heq <;> simp [iter, micro, iter_ret, heq]
        · simp [micro, hq, iter_ret, remove, ht, hp, hs]
      · simp [micro, hs, iter_ret, remove, ht, hp]
    · simp [micro, hp, iter_ret, remove, ht]

theorem iter_total (s : State) (op : Op) :
    iter 7 (s, startPc op) = ((stepR true s op.toROp).1, .ret (stepR true s op.toROp).2) := by
  cases op with
  | add n o => exact iter_add_total s n o
  | remove n =>
    have := iter_remove_total s n
    show iter (6 + 1) _ = _
    rw [iter_add, startPc, this]; simp [iter, micro, stepR, Op.toROp]

/-- a call that has reached its return did all of the sequential operation, and returns its result -/
theorem iter_ret_is_total (s st : State) (op : Op) (k : Nat) (r : Res) (h : iter k (s, startPc op) = (st, .ret r)) :
    st = (stepR true s op.toROp).1 ∧ r = (stepR true s op.toROp).2 := by
  have a : iter (k + 7) (s, startPc op) = (st, .ret r) := by rw [iter_add, h, iter_ret]
  have b : iter (7 + k) (s, startPc op) = ((stepR true s op.toROp).1, .ret (stepR true s op.toROp).2) := by
    rw [iter_add, iter_total, iter_ret]
  rw [Nat.add_comm] at a; rw [a] at b
  injection b with b1 b2
  injection b2 with b2
  exact ⟨b1, b2⟩

theorem iter_ge7 (s : State) (op : Op) (k : Nat) (hk : 7 ≤ k) : iter k (s, startPc op) = iter 7 (s, startPc op) := by
  obtain ⟨j, rfl⟩ : ∃ j, k = 7 + j := ⟨k - 7, by omega⟩
  rw [iter_add, iter_total, iter_ret]

theorem iter_succ (k : Nat) (x : State × Pc) : iter (k + 1) x = micro (iter k x).1 (iter k x).2 := rfl

/-- the partial work of a successful Add of an absent name, statement by statement -/
theorem iter_add_ok_absent {s : State} (h : Inv s) (n : Name) (hn : s.targets n = none) (j : Nat) (hj : j ≤ 7) :
    iter j (s, .aCheck n .ok) = (partialAdd s n j, pcAdd s n j) := by
  have hc : s.conns n = none := by rw [h.conns_eq]; exact hn
  have hp : s.patternSet n = false := by rw [h.pset, hn]; rfl
  have hs : s.serviceSet n = false := by rw [h.sset, hn]; rfl
  have hcl : s.clientSet s.next = false := h.fresh.2.2.2.2.2
  have e0 : iter 0 (s, .aCheck n .ok) = (partialAdd s n 0, pcAdd s n 0) := by simp [iter, partialAdd, pcAdd]
  have e1 : iter 1 (s, .aCheck n .ok) = (partialAdd s n 1, pcAdd s n 1) := by
    rw [iter_succ, e0]; simp [micro, partialAdd, pcAdd, hn]
  have e2 : iter 2 (s, .aCheck n .ok) = (partialAdd s n 2, pcAdd s n 2) := by
    rw [iter_succ, e1]; simp [micro, partialAdd, pcAdd, poolReserve, hc]
  have e3 : iter 3 (s, .aCheck n .ok) = (partialAdd s n 3, pcAdd s n 3) := by
    rw [iter_succ, e2]; simp [micro, partialAdd, pcAdd, poolFinish, poolGet, hcl]
  have e4 : iter 4 (s, .aCheck n .ok) = (partialAdd s n 4, pcAdd s n 4) := by
    rw [iter_succ, e3]; simp [micro, partialAdd, pcAdd, hp]
  have e5 : iter 5 (s, .aCheck n .ok) = (partialAdd s n 5, pcAdd s n 5) := by
    rw [iter_succ, e4]; simp [micro, partialAdd, pcAdd, hs]
  have e6 : iter 6 (s, .aCheck n .ok) = (partialAdd s n 6, pcAdd s n 6) := by
    rw [iter_succ, e5]; simp [micro, partialAdd, pcAdd]
  have e7 : iter 7 (s, .aCheck n .ok) = (partialAdd s n 7, pcAdd s n 7) := by
    rw [iter_succ, e6]; simp [micro, partialAdd, pcAdd]
  match j, hj with
  | 0, _ => exact e0
  | 1, _ => exact e1
  | 2, _ => exact e2
  | 3, _ => exact e3
  | 4, _ => exact e4
  | 5, _ => exact e5
  | 6, _ => exact e6
  | 7, _ => exact e7

/-- the partial work of a Remove of a present name, statement by statement -/
theorem iter_remove_present {s : State} (h : Inv s) (n : Name) (g : Nat) (hn : s.targets n = some g) (j : Nat) (hj : j ≤ 6) :
    iter j (s, .rLookup n) = (partialRemove s n g j, pcRemove n g j) := by
  obtain ⟨l1, l2, l3, l4, l5, l6, l7, l8⟩ := h.live n g hn
  have e0 : iter 0 (s, .rLookup n) = (partialRemove s n g 0, pcRemove n g 0) := by simp [iter, partialRemove, pcRemove]
  have e1 : iter 1 (s, .rLookup n) = (partialRemove s n g 1, pcRemove n g 1) := by
    rw [iter_succ, e0]; simp [micro, partialRemove, pcRemove, hn]
  have e2 : iter 2 (s, .rLookup n) = (partialRemove s n g 2, pcRemove n g 2) := by
    rw [iter_succ, e1]; simp [micro, partialRemove, pcRemove, l6]
  have e3 : iter 3 (s, .rLookup n) = (partialRemove s n g 3, pcRemove n g 3) := by
    rw [iter_succ, e2]; simp [micro, partialRemove, pcRemove, l7]
  have e4 : iter 4 (s, .rLookup n) = (partialRemove s n g 4, pcRemove n g 4) := by
    rw [iter_succ, e3]; simp [micro, partialRemove, pcRemove, l8]
  have e5 : iter 5 (s, .rLookup n) = (partialRemove s n g 5, pcRemove n g 5) := by
    rw [iter_succ, e4]; simp [micro, partialRemove, pcRemove, ctrlClose, l3, l4]
  have e6 : iter 6 (s, .rLookup n) = (partialRemove s n g 6, pcRemove n g 6) := by
    rw [iter_succ, e5]; simp [micro, partialRemove, pcRemove]
  match j, hj with
  | 0, _ => exact e0
  | 1, _ => exact e1
  | 2, _ => exact e2
  | 3, _ => exact e3
  | 4, _ => exact e4
  | 5, _ => exact e5
  | 6, _ => exact e6

/-- census of the partial work of an Add: the connection counts from statement 3 on, the pattern watcher from 4, the
    service watcher from 5, the poller from 6 — and nothing else moves -/
theorem census_partialAdd {s : State} (h : Inv s) (n : Name) (j : Nat) (hj : j ≤ 7) :
    census (partialAdd s n j) =
      ((census s).1 + ge 3 j, (census s).2.1 + ge 4 j, (census s).2.2.1 + ge 5 j, (census s).2.2.2 + ge 6 j) := by
  obtain ⟨f1, f2, f3, f4, _, _⟩ := h.fresh
  have u : ∀ (f : Nat → Bool), f s.next = false → cnt (upd f s.next true) (s.next + 1) = cnt f s.next + 1 := by
    intro f hf; rw [cnt_upd_true f s.next (s.next + 1) (by omega) hf]; simp [cnt, hf]
  have v : ∀ (f : Nat → Bool), f s.next = false → cnt f (s.next + 1) = cnt f s.next := by
    intro f hf; simp [cnt, hf]
  match j, hj with
  | 0, _ => simp [partialAdd, census, ge]
  | 1, _ => simp [partialAdd, census, ge]
  | 2, _ => simp [partialAdd, census, ge, filter_range_length, v, f1, f2, f3, f4]
  | 3, _ => simp [partialAdd, census, ge, filter_range_length, u, v, f1, f2, f3, f4]
  | 4, _ => simp [partialAdd, census, ge, filter_range_length, u, v, f1, f2, f3, f4]
  | 5, _ => simp [partialAdd, census, ge, filter_range_length, u, v, f1, f2, f3, f4]
  | 6, _ => simp [partialAdd, census, ge, filter_range_length, u, v, f1, f2, f3, f4]
  | 7, _ => simp [partialAdd, census, ge, filter_range_length, u, v, f1, f2, f3, f4]

/-- census of the partial work of a Remove: pattern watcher gone from statement 2 on, service watcher from 3, poller
    from 4, connection from 5 -/
theorem census_partialRemove {s : State} (h : Inv s) (n : Name) (g : Nat) (hn : s.targets n = some g) (j : Nat) (hj : j ≤ 6) :
    let c := census (partialRemove s n g j)
    (c.1 + ge 5 j, c.2.1 + ge 2 j, c.2.2.1 + ge 3 j, c.2.2.2 + ge 4 j) = census s := by
  obtain ⟨l1, l2, l3, l4, l5, l6, l7, l8⟩ := h.live n g hn
  have u : ∀ (f : Nat → Bool), f g = true → cnt (upd f g false) s.next + 1 = cnt f s.next :=
    fun f hf => cnt_upd_false f g s.next l1 hf
  have u5 := u _ l5; have u6 := u _ l6; have u7 := u _ l7; have u8 := u _ l8
  match j, hj with
  | 0, _ => simp [partialRemove, census, ge]
  | 1, _ => simp [partialRemove, census, ge]
  | 2, _ => simp [partialRemove, census, ge, filter_range_length, u6]
  | 3, _ => simp [partialRemove, census, ge, filter_range_length, u6, u7]
  | 4, _ => simp [partialRemove, census, ge, filter_range_length, u6, u7, u8]
  | 5, _ => simp [partialRemove, census, ge, filter_range_length, u5, u6, u7, u8]
  | 6, _ => simp [partialRemove, census, ge, filter_range_length, u5, u6, u7, u8]

structure MInv (m : MState) : Prop where
  quiet : m.hold = none → m.st = base m
  held : ∀ i op pc, m.hold = some (i, op, pc) → ∃ k, k ≤ 7 ∧ (m.st, pc) = iter k (base m, startPc op)
  res : m.results = (runR true init (m.log.map Op.toROp)).2

theorem minv_init : MInv minit := by
  constructor <;> simp [minit, base, afterR, runR, runWith]

theorem afterR_snoc (ops : List ROp) (op : ROp) : afterR true (ops ++ [op]) = (stepR true (afterR true ops) op).1 := by
  simp [afterR, runR, runWith_append, runWith]

theorem results_snoc (ops : List ROp) (op : ROp) :
    (runR true init (ops ++ [op])).2 = (runR true init ops).2 ++ [(stepR true (afterR true ops) op).2] := by
  simp [afterR, runR, runWith_append, runWith]

theorem minv_step (m : MState) (l : Label) (m' : MState) (h : MInv m) (hs : mstep m l = some m') : MInv m' := by
  cases l with
  | lock i op =>
    simp only [mstep] at hs
    cases hh : m.hold with
    | some x => simp [hh] at hs
    | none =>
      simp [hh] at hs; subst hs
      refine ⟨by simp, ?_, h.res⟩
      intro i' op' pc' e
      simp at e
      obtain ⟨_, rfl, rfl⟩ := e
      exact ⟨0, by omega, by simp [iter, base, h.quiet hh]⟩
  | step i =>
    simp only [mstep] at hs
    cases hh : m.hold with
    | none => simp [hh] at hs
    | some x =>
      obtain ⟨j, op, pc⟩ := x
      simp only [hh] at hs
      split at hs
      · cases hs
        refine ⟨by simp, ?_, h.res⟩
        intro i' op' pc' e
        simp at e
        obtain ⟨_, rfl, rfl⟩ := e
        obtain ⟨k, hk, e⟩ := h.held j op pc hh
        by_cases h7 : k + 1 ≤ 7
        · refine ⟨k + 1, h7, ?_⟩
          simp only [iter, base] at e ⊢
          rw [← e]
        · refine ⟨7, by omega, ?_⟩
          have k7 : k = 7 := by omega
          subst k7
          simp only [base] at e ⊢
          rw [iter_total] at e ⊢
          injection e with e1 e2
          rw [e1, e2]; simp [micro]
      · cases hs
  | unlock i =>
    simp only [mstep] at hs
    cases hh : m.hold with
    | none => simp [hh] at hs
    | some x =>
      obtain ⟨j, op, pc⟩ := x
      cases pc with
      | ret r =>
        simp only [hh] at hs
        split at hs
        · cases hs
          obtain ⟨k, _, e⟩ := h.held j op (.ret r) hh
          obtain ⟨e1, e2⟩ := iter_ret_is_total _ _ _ _ _ e.symm
          refine ⟨?_, by simp, ?_⟩
          · intro _
            simp only [base, List.map_append, List.map_cons, List.map_nil]
            rw [afterR_snoc]; exact e1
          · simp only [List.map_append, List.map_cons, List.map_nil]
            rw [results_snoc, h.res, e2]; rfl
        · cases hs
      | _ => simp [hh] at hs
  | pollerBusy g =>
    simp only [mstep] at hs
    split at hs
    · cases hs; exact ⟨h.quiet, h.held, h.res⟩
    · cases hs
  | pollerIdle g =>
    simp only [mstep] at hs
    cases hs; exact ⟨h.quiet, h.held, h.res⟩
  | get i n =>
    simp only [mstep] at hs
    cases hs; exact ⟨h.quiet, h.held, h.res⟩

theorem minv_reachable (m : MState) (h : GB.LTS.Reachable mstep minit m) : MInv m :=
  GB.LTS.invariant mstep minit MInv minv_init minv_step m h

/-! ### lock-free `pool.Get` (label `get`) -/

theorem poolGet_fixed_ne_nil (s : State) (n : Name) : poolGet true s n ≠ .nilPresent := by
  unfold poolGet
  cases s.conns n with
  | none => simp
  | some g => by_cases hc : s.clientSet g = true <;> simp [hc]

theorem poolGet_usable_iff (s : State) (n : Name) (g : Nat) :
    poolGet true s n = .usable g ↔ s.conns n = some g ∧ s.clientSet g = true := by
  unfold poolGet
  cases hcn : s.conns n with
  | none => simp
  | some g' =>
    by_cases hc : s.clientSet g' = true
    · simp [hc]; intro e; subst e; exact hc
    · simp [hc]; intro e; subst e; simpa using hc

theorem poolGet_absent_iff (s : State) (n : Name) :
    poolGet true s n = .absent ↔ ∀ g, s.conns n = some g → s.clientSet g = false := by
  unfold poolGet
  cases hcn : s.conns n with
  | none => simp
  | some g' => by_cases hc : s.clientSet g' = true <;> simp [hc]

/-- a step leaves the recorded answers alone, or is a `get` that appends the pool lookup on the CURRENT state -/
theorem got_step (m : MState) (l : Label) (m' : MState) (hs : mstep m l = some m') :
    (m'.got = m.got ∧ ∀ i n, l ≠ .get i n) ∨
    ∃ i n, l = .get i n ∧ m'.got = m.got ++ [(i, n, poolGet true m.st n)] ∧ m'.st = m.st ∧ m'.hold = m.hold ∧ m'.log = m.log := by
  cases l with
  | lock i op =>
    simp only [mstep] at hs
    cases hh : m.hold with
    | some x => simp [hh] at hs
    | none => simp [hh] at hs; subst hs; exact Or.inl ⟨rfl, by intros; simp⟩
  | step i =>
    simp only [mstep] at hs
    cases hh : m.hold with
    | none => simp [hh] at hs
    | some x =>
      obtain ⟨j, op, pc⟩ := x
      simp only [hh] at hs
      split at hs
      · cases hs; exact Or.inl ⟨rfl, by intros; simp⟩
      · cases hs
  | unlock i =>
    simp only [mstep] at hs
    split at hs
    · split at hs
      · cases hs; exact Or.inl ⟨rfl, by intros; simp⟩
      · cases hs
    · cases hs
  | pollerBusy g =>
    simp only [mstep] at hs
    split at hs
    · cases hs; exact Or.inl ⟨rfl, by intros; simp⟩
    · cases hs
  | pollerIdle g =>
    simp only [mstep] at hs
    cases hs; exact Or.inl ⟨rfl, by intros; simp⟩
  | get i n =>
    simp only [mstep] at hs
    cases hs; exact Or.inr ⟨i, n, rfl, rfl, rfl, rfl, rfl⟩

/-- every answer ever recorded is absent or a fully built controller's connection — never present-but-nil -/
def GotInv (m : MState) : Prop := ∀ x ∈ m.got, x.2.2 ≠ GetRes.nilPresent

theorem gotinv_reachable (m : MState) (h : GB.LTS.Reachable mstep minit m) : GotInv m := by
  refine GB.LTS.invariant mstep minit GotInv (by intro x hx; simp [minit] at hx) ?_ m h
  intro s l s' hi hs x hx
  rcases got_step s l s' hs with ⟨e, _⟩ | ⟨i, n, _, e, _⟩
  · rw [e] at hx; exact hi x hx
  · rw [e] at hx
    rcases List.mem_append.1 hx with hx | hx
    · exact hi x hx
    · simp at hx; subst hx; exact poolGet_fixed_ne_nil _ _

/-- the pool lookup during a successful Add of an absent name: present from statement 3 (client stored) on -/
theorem poolGet_partialAdd {s : State} (h : Inv s) (n : Name) (hn : s.targets n = none) (j : Nat) (hj : j ≤ 7) :
    poolGet true (partialAdd s n j) n = (if 3 ≤ j then .usable s.next else .absent) ∧
    (∀ n', n' ≠ n → poolGet true (partialAdd s n j) n' = poolGet true s n') ∧
    (3 ≤ j → (partialAdd s n j).connOpen s.next = true) := by
  have hc : s.conns n = none := by rw [h.conns_eq]; exact hn
  have hcl : s.clientSet s.next = false := h.fresh.2.2.2.2.2
  have hlt : ∀ n' g, s.conns n' = some g → g ≠ s.next := by
    intro n' g hg e
    rw [h.conns_eq] at hg
    have := (h.live n' g hg).1
    omega
  refine ⟨?_, ?_, ?_⟩
  · match j, hj with
    | 0, _ => simp [partialAdd, poolGet, hc]
    | 1, _ => simp [partialAdd, poolGet, hc]
    | 2, _ => simp [partialAdd, poolGet, hc, hcl]
    | 3, _ => simp [partialAdd, poolGet, hc, hcl]
    | 4, _ => simp [partialAdd, poolGet, hc, hcl]
    | 5, _ => simp [partialAdd, poolGet, hc, hcl]
    | 6, _ => simp [partialAdd, poolGet, hc, hcl]
    | 7, _ => simp [partialAdd, poolGet, hc, hcl]
  · intro n' hne
    cases hcn : s.conns n' with
    | none =>
      match j, hj with
      | 0, _ => simp [partialAdd, poolGet, hcn, hne]
      | 1, _ => simp [partialAdd, poolGet, hcn, hne]
      | 2, _ => simp [partialAdd, poolGet, hcn, hne]
      | 3, _ => simp [partialAdd, poolGet, hcn, hne]
      | 4, _ => simp [partialAdd, poolGet, hcn, hne]
      | 5, _ => simp [partialAdd, poolGet, hcn, hne]
      | 6, _ => simp [partialAdd, poolGet, hcn, hne]
      | 7, _ => simp [partialAdd, poolGet, hcn, hne]
    | some g =>
      have hg := hlt n' g hcn
      match j, hj with
      | 0, _ => simp [partialAdd, poolGet, hcn, hne, hg]
      | 1, _ => simp [partialAdd, poolGet, hcn, hne, hg]
      | 2, _ => simp [partialAdd, poolGet, hcn, hne, hg]
      | 3, _ => simp [partialAdd, poolGet, hcn, hne, hg]
      | 4, _ => simp [partialAdd, poolGet, hcn, hne, hg]
      | 5, _ => simp [partialAdd, poolGet, hcn, hne, hg]
      | 6, _ => simp [partialAdd, poolGet, hcn, hne, hg]
      | 7, _ => simp [partialAdd, poolGet, hcn, hne, hg]
  · intro h3
    match j, hj with
    | 0, _ | 1, _ | 2, _ => omega
    | 3, _ => simp [partialAdd]
    | 4, _ => simp [partialAdd]
    | 5, _ => simp [partialAdd]
    | 6, _ => simp [partialAdd]
    | 7, _ => simp [partialAdd]

/-- the pool lookup during Remove of a present name: gone from statement 5 (poolController.Close) on, and from then
    on the connection is closed -/
theorem poolGet_partialRemove {s : State} (h : Inv s) (n : Name) (g : Nat) (hn : s.targets n = some g) (j : Nat) (hj : j ≤ 6) :
    poolGet true (partialRemove s n g j) n = (if 5 ≤ j then .absent else .usable g) ∧
    (∀ n', n' ≠ n → poolGet true (partialRemove s n g j) n' = poolGet true s n') ∧
    (partialRemove s n g j).connOpen g = decide (j < 5) := by
  obtain ⟨l1, l2, l3, l4, l5, l6, l7, l8⟩ := h.live n g hn
  have hc : s.conns n = some g := by rw [h.conns_eq]; exact hn
  refine ⟨?_, ?_, ?_⟩
  · match j, hj with
    | 0, _ => simp [partialRemove, poolGet, hc, l3]
    | 1, _ => simp [partialRemove, poolGet, hc, l3]
    | 2, _ => simp [partialRemove, poolGet, hc, l3]
    | 3, _ => simp [partialRemove, poolGet, hc, l3]
    | 4, _ => simp [partialRemove, poolGet, hc, l3]
    | 5, _ => simp [partialRemove, poolGet, hc, l3, l2]
    | 6, _ => simp [partialRemove, poolGet, hc, l3, l2]
  · intro n' hne
    match j, hj with
    | 0, _ => simp [partialRemove, poolGet]
    | 1, _ => simp [partialRemove, poolGet]
    | 2, _ => simp [partialRemove, poolGet]
    | 3, _ => simp [partialRemove, poolGet]
    | 4, _ => simp [partialRemove, poolGet]
    | 5, _ => simp [partialRemove, poolGet, l2, hne]
    | 6, _ => simp [partialRemove, poolGet, l2, hne]
  · match j, hj with
    | 0, _ => simp [partialRemove, l5]
    | 1, _ => simp [partialRemove, l5]
    | 2, _ => simp [partialRemove, l5]
    | 3, _ => simp [partialRemove, l5]
    | 4, _ => simp [partialRemove, l5]
    | 5, _ => simp [partialRemove]
    | 6, _ => simp [partialRemove]

end GB.C16.Lts
