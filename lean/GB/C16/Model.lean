import GB.Base.Proto
/-
  C16 — executable model of the target lifecycle:
    reflection.go        ReflectionRouter.Add / Remove
    grpcadapter/pool.go  AdaptedClientPool.New / Get, AdaptedClientPoolController.Close
    grpcadapter/conn.go  AdaptedClientConn.Close / Stream (getConn)
    routing/*_router.go  Watch / watcher Close (watcherSet membership)
    reflection/resolver.go  ResolverBuilder.Build (starts the poller goroutine) / Resolver.Close

  Go maps and sets are finite partial functions `Nat → Option _` / `Nat → Bool` (their iteration
  order is never used by this code).  Every object created while adding a target (pool controller,
  its connection, both router watchers, the resolver) gets the identity `g` of the `pool.New` call
  that started it (`next` is the allocation counter), so "the connection of generation g" etc. are
  distinct objects for distinct successful or failed constructions.

  The flag `fx` selects the code that is modelled: `true` = the tree after the D17 `fix:` commit
  (reservation released on failure, client published atomically, Get answers absent while the client
  is missing); `false` = the original code (kept only for the kernel-checked negative witness).
-/
namespace GB.C16

abbrev Name := Nat

/-- functional update of a map / set -/
def upd {α : Type} (f : Nat → α) (k : Nat) (v : α) : Nat → α := fun x => if x = k then v else f x

@[simp] theorem upd_same {α : Type} (f : Nat → α) (k : Nat) (v : α) : upd f k v k = v := by simp [upd]
@[simp] theorem upd_other {α : Type} (f : Nat → α) (k x : Nat) (v : α) (h : x ≠ k) : upd f k v x = f x := by
  simp [upd, h]
theorem upd_apply {α : Type} (f : Nat → α) (k x : Nat) (v : α) : upd f k v x = if x = k then v else f x := rfl

/-- What the (injected) construction does: the connection constructor succeeds, it fails, or Add is
    called with a per-target option (rejected before anything is constructed). -/
inductive Outcome | ok | fail | opts
  deriving DecidableEq, Repr

structure State where
  /-- allocation counter: identity of the next controller / connection / watchers / resolver -/
  next : Nat
  /-- `ReflectionRouter.targets`: name ↦ generation of its targetState -/
  targets : Name → Option Nat
  /-- `AdaptedClientPool.conns` (sync.Map): name ↦ controller -/
  conns : Name → Option Nat
  /-- controller.target -/
  ctrlTarget : Nat → Name
  /-- controller.client has been stored -/
  clientSet : Nat → Bool
  /-- controller.closed -/
  ctrlClosed : Nat → Bool
  /-- `AdaptedClientConn.state.conn != nil` (the gRPC connection exists and is not closed) -/
  connOpen : Nat → Bool
  /-- `PatternRouter.watcherSet` / `ServiceRouter.watcherSet` -/
  patternSet : Name → Bool
  serviceSet : Name → Bool
  /-- watcher objects that are not closed -/
  pwOpen : Nat → Bool
  swOpen : Nat → Bool
  /-- resolvers whose poller goroutine is running -/
  polling : Nat → Bool
  /-- the caller side: connection last obtained through `pool.Get name` and kept -/
  handles : Name → Option Nat
  /-- calls in flight: call id ↦ connection it runs on -/
  calls : Nat → Option Nat
  nextCall : Nat
  /-- pool controllers handed out by direct `pool.New` calls, in order -/
  issued : List Nat

def init : State :=
  { next := 0, targets := fun _ => none, conns := fun _ => none, ctrlTarget := fun _ => 0,
    clientSet := fun _ => false, ctrlClosed := fun _ => false, connOpen := fun _ => false,
    patternSet := fun _ => false, serviceSet := fun _ => false, pwOpen := fun _ => false,
    swOpen := fun _ => false, polling := fun _ => false, handles := fun _ => none,
    calls := fun _ => none, nextCall := 0, issued := [] }

inductive GetRes | absent | usable (g : Nat) | nilPresent
  deriving DecidableEq, Repr

inductive AddRes | ok | dup | opts | conn | dialed | watchP | watchS
  deriving DecidableEq, Repr

inductive Res
  /-- result of Add / pool.New and the pool lookup observed while the constructor ran (if it ran) -/
  | add (r : AddRes) (probe : Option GetRes)
  | removed | notPresent
  | closed | noSuch
  | panic | hang
  | get (r : GetRes)
  | noHandle | streamOk | unavailable
  deriving DecidableEq, Repr

/-! ### grpcadapter/pool.go -/

/-- `AdaptedClientPool.Get` -/
def poolGet (fx : Bool) (s : State) (n : Name) : GetRes :=
  match s.conns n with
  | none => .absent                                   -- !ok
  | some g =>
    if s.clientSet g then .usable g
    else if fx then .absent                           -- fixed: client == nil ⇒ (nil, false)
    else .nilPresent                                  -- original: (nil-client, true)

/-- `New`, first half: `conns.LoadOrStore(targetName, controller)`; `none` = loaded (ErrAlreadyDialed). -/
def poolReserve (s : State) (n : Name) : Option State :=
  match s.conns n with
  | some _ => none
  | none => some { s with next := s.next + 1, conns := upd s.conns n (some s.next),
                          ctrlTarget := upd s.ctrlTarget s.next n }

/-- `New`, second half, for the controller `g` reserved under `n`: the constructor returned. -/
def poolFinish (fx : Bool) (s : State) (n : Name) (g : Nat) (ok : Bool) : State :=
  if ok then
    { s with clientSet := upd s.clientSet g true, connOpen := upd s.connOpen g true }
  else if fx then
    -- fixed: conns.CompareAndDelete(targetName, controller)
    if s.conns n = some g then { s with conns := upd s.conns n none } else s
  else s                                              -- original: the reservation stays

structure NewOut where
  st : State
  /-- controller returned (`none` = error) -/
  ctrl : Option Nat
  res : AddRes
  probe : Option GetRes

/-- `AdaptedClientPool.New` run to completion; `probe` = what a pool lookup answers while the
    constructor runs (the harness performs it from inside the injected constructor). -/
def poolNew (fx : Bool) (s : State) (n : Name) (ok : Bool) : NewOut :=
  match poolReserve s n with
  | none => { st := s, ctrl := none, res := .dialed, probe := none }
  | some s1 =>
    let g := s.next
    { st := poolFinish fx s1 n g ok, ctrl := if ok then some g else none,
      res := if ok then .ok else .conn, probe := some (poolGet fx s1 n) }

/-- `AdaptedClientPoolController.Close` followed by `AdaptedClientConn.Close`; `none` = panic. -/
def ctrlClose (s : State) (g : Nat) : Option State :=
  if s.ctrlClosed g then none                         -- "pooled client conn closed multiple times"
  else if !s.clientSet g then none                    -- nil client: cannot happen for a returned controller
  else
    some { s with
      ctrlClosed := upd s.ctrlClosed g true,
      conns := upd s.conns (s.ctrlTarget g) none,     -- pool.conns.Delete(pw.target)
      connOpen := upd s.connOpen g false,             -- client.Close(): grpc conn closed, state := Unavailable
      calls := fun c => if s.calls c = some g then none else s.calls c }  -- ClientConn.Close ends its streams

/-! ### reflection.go -/

/-- `ReflectionRouter.Add` -/
def add (fx : Bool) (s : State) (n : Name) (o : Outcome) : State × Res :=
  match s.targets n with
  | some _ => (s, .add .dup none)
  | none =>
    if o = .opts then (s, .add .opts none) else
    let r := poolNew fx s n (o = .ok)
    match r.ctrl with
    | none => (r.st, .add r.res r.probe)
    | some g =>
      let s1 := r.st
      -- patternRouter.Watch(name)
      if s1.patternSet n then (s1, .add .watchP r.probe) else
      let s2 := { s1 with patternSet := upd s1.patternSet n true, pwOpen := upd s1.pwOpen g true }
      -- serviceRouter.Watch(name)
      if s2.serviceSet n then (s2, .add .watchS r.probe) else
      let s3 := { s2 with serviceSet := upd s2.serviceSet n true, swOpen := upd s2.swOpen g true }
      -- resolverBuilder.Build(name, watcher): go r.watch()
      let s4 := { s3 with polling := upd s3.polling g true }
      ({ s4 with targets := upd s4.targets n (some g) }, .add .ok r.probe)

/-- `ReflectionRouter.Remove` -/
def remove (s : State) (n : Name) : State × Res :=
  match s.targets n with
  | none => (s, .notPresent)
  | some g =>
    -- target.watcher.Close(): PatternRouterWatcher.Close then ServiceRouterWatcher.Close
    if !s.pwOpen g then (s, .panic) else
    let s1 := { s with pwOpen := upd s.pwOpen g false, patternSet := upd s.patternSet n false }
    if !s1.swOpen g then (s1, .panic) else
    let s2 := { s1 with swOpen := upd s1.swOpen g false, serviceSet := upd s1.serviceSet n false }
    -- target.resolver.Close(): hand-shake with the poller goroutine (send on a closed channel otherwise)
    if !s2.polling g then (s2, .panic) else
    let s3 := { s2 with polling := upd s2.polling g false }
    -- target.poolController.Close()
    match ctrlClose s3 g with
    | none => (s3, .panic)
    | some s4 => ({ s4 with targets := upd s4.targets n none }, .removed)

/-! ### the caller side: lookups, streams, calls in flight -/

/-- `pool.Get name`; a usable connection is kept by the caller -/
def get (fx : Bool) (s : State) (n : Name) : State × Res :=
  match poolGet fx s n with
  | .usable g => ({ s with handles := upd s.handles n (some g) }, .get (.usable g))
  | r => (s, .get r)

/-- `AdaptedClientConn.Stream` on the kept connection (`getConn`: closed ⇒ Unavailable) -/
def stream (s : State) (n : Name) : Res :=
  match s.handles n with
  | none => .noHandle
  | some g => if s.connOpen g then .streamOk else .unavailable

/-- open a call that stays in flight -/
def call (s : State) (n : Name) : State × Res :=
  match s.handles n with
  | none => (s, .noHandle)
  | some g =>
    if s.connOpen g then
      ({ s with calls := upd s.calls s.nextCall (some g), nextCall := s.nextCall + 1 }, .streamOk)
    else (s, .unavailable)

/-! ### histories -/

inductive ROp
  | add (n : Name) (o : Outcome) | remove (n : Name) | get (n : Name) | stream (n : Name) | call (n : Name)
  deriving DecidableEq, Repr

inductive POp
  | new (n : Name) (ok : Bool) | close (k : Nat) | get (n : Name) | stream (n : Name) | call (n : Name)
  deriving DecidableEq, Repr

def stepR (fx : Bool) (s : State) : ROp → State × Res
  | .add n o => add fx s n o
  | .remove n => remove s n
  | .get n => get fx s n
  | .stream n => (s, stream s n)
  | .call n => call s n

def pnew (fx : Bool) (s : State) (n : Name) (ok : Bool) : State × Res :=
  let r := poolNew fx s n ok
  match r.ctrl with
  | some g => ({ r.st with issued := r.st.issued ++ [g] }, .add r.res r.probe)
  | none => (r.st, .add r.res r.probe)

def pclose (s : State) (k : Nat) : State × Res :=
  match s.issued[k]? with
  | none => (s, .noSuch)
  | some g =>
    match ctrlClose s g with
    | none => (s, .panic)
    | some s' => (s', .closed)

def stepP (fx : Bool) (s : State) : POp → State × Res
  | .new n ok => pnew fx s n ok
  | .close k => pclose s k
  | .get n => get fx s n
  | .stream n => (s, stream s n)
  | .call n => call s n

def runWith {op : Type} (step : State → op → State × Res) : State → List op → State × List Res
  | s, [] => (s, [])
  | s, o :: os =>
    let (s1, r) := step s o
    let (s2, rs) := runWith step s1 os
    (s2, r :: rs)

def runR (fx : Bool) := runWith (stepR fx)
def runP (fx : Bool) := runWith (stepP fx)

/-- state after a router history from the initial state -/
def afterR (fx : Bool) (ops : List ROp) : State := (runR fx init ops).1
def afterP (fx : Bool) (ops : List POp) : State := (runP fx init ops).1

/-! ### observations after a history -/

/-- number of resolver poller goroutines -/
def pollers (s : State) : Nat := ((List.range s.next).filter (fun g => s.polling g)).length

/-- `len(targets)` over the names the harness uses -/
def targetCount (s : State) (names : Nat) : Nat := ((List.range names).filter (fun n => (s.targets n).isSome)).length

def aliveCalls (s : State) : List Nat := (List.range s.nextCall).filter (fun c => (s.calls c).isSome)

end GB.C16
