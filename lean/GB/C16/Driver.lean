import GB.Base.Proto
namespace GB.C16
open GB GB.Proto

/-- stub: replaced when the C16 slice is built -/
def handle : Handler := fun _ _ => "BAD c16 unimplemented"

end GB.C16
