import GB.Base.Proto
import GB.C16.Spec
import GB.C16.Conn
namespace GB.C16
open GB GB.Proto

/-- number of names the harness uses -/
def nNames : Nat := 4

def parseIdx (s : String) : Option Nat :=
  match s.toNat? with
  | some n => some n
  | none => none

def parseROp (t : String) : Option ROp :=
  match t.toList with
  | 'A' :: rest =>
    match rest.reverse with
    | m :: ds =>
      match parseIdx (String.ofList ds.reverse), m with
      | some n, 'o' => if n < nNames then some (.add n .ok) else none
      | some n, 'f' => if n < nNames then some (.add n .fail) else none
      | some n, 'p' => if n < nNames then some (.add n .opts) else none
      | _, _ => none
    | [] => none
  | 'R' :: ds => (parseIdx (String.ofList ds)).bind fun n => if n < nNames then some (.remove n) else none
  | 'G' :: ds => (parseIdx (String.ofList ds)).bind fun n => if n < nNames then some (.get n) else none
  | 'S' :: ds => (parseIdx (String.ofList ds)).bind fun n => if n < nNames then some (.stream n) else none
  | 'C' :: ds => (parseIdx (String.ofList ds)).bind fun n => if n < nNames then some (.call n) else none
  | _ => none

def parsePOp (t : String) : Option POp :=
  match t.toList with
  | 'N' :: rest =>
    match rest.reverse with
    | m :: ds =>
      match parseIdx (String.ofList ds.reverse), m with
      | some n, 'o' => if n < nNames then some (.new n true) else none
      | some n, 'f' => if n < nNames then some (.new n false) else none
      | _, _ => none
    | [] => none
  | 'K' :: ds => (parseIdx (String.ofList ds)).map .close
  | 'G' :: ds => (parseIdx (String.ofList ds)).bind fun n => if n < nNames then some (.get n) else none
  | 'S' :: ds => (parseIdx (String.ofList ds)).bind fun n => if n < nNames then some (.stream n) else none
  | 'C' :: ds => (parseIdx (String.ofList ds)).bind fun n => if n < nNames then some (.call n) else none
  | _ => none

def parseAll {α : Type} (f : String → Option α) : List String → Option (List α)
  | [] => some []
  | t :: ts => match f t, parseAll f ts with
    | some a, some as => some (a :: as)
    | _, _ => none

def showAddRes : AddRes → String
  | .ok => "ok" | .dup => "dup" | .opts => "opts" | .conn => "conn" | .dialed => "dialed"
  | .watchP => "watch" | .watchS => "watch"

def showProbe : Option GetRes → String
  | none => ""
  | some .absent => "~a"
  | some (.usable _) => "~u"
  | some .nilPresent => "~n"

def showRes : Res → String
  | .add r p => showAddRes r ++ showProbe p
  | .removed => "t:0"
  | .notPresent => "f"
  | .closed => "closed:0"
  | .noSuch => "nosuch"
  | .panic => "panic"
  | .hang => "hang"
  | .get .absent => "absent"
  | .get (.usable _) => "usable"
  | .get .nilPresent => "nil"
  | .noHandle => "nohandle"
  | .streamOk => "ok"
  | .unavailable => "unavail"

def showAlive (l : List Nat) : String :=
  if l.isEmpty then "-" else ",".intercalate (l.map toString)

/-- first violation found by the judge along the tokens of the real code -/
def judgeAll {op : Type} (jf : J → op → String → Option String × J) : J → List op → List String → Nat → Option String × J
  | j, o :: os, t :: ts, i =>
    match jf j o t with
    | (some v, j') => (some s!"op{i}:{v}", j')
    | (none, j') => judgeAll jf j' os ts (i + 1)
  | j, _, _, _ => (none, j)

def judgeFinals (j : J) : List String → Option String
  | [] => none
  | t :: ts => match judgeFinal j nNames t with
    | some v => some v
    | none => judgeFinals j ts

def tags (j : J) : String :=
  let nt := j.readdFail || j.readdRemove || j.staleStream || j.inflightRemove
  let b := if j.readdFail then "readd-after-failed-add"
    else if j.readdRemove then "readd-after-remove"
    else if j.inflightRemove then "remove-with-calls-in-flight"
    else if j.staleStream then "stream-after-remove"
    else "plain"
  (if nt then " nt" else "") ++ " b=" ++ b

def verdict (viol : Option String) (modelOut implOut : List String) (j : J) : String :=
  match viol with
  | some v => s!"VIOL {v} model={" ".intercalate modelOut}"
  | none =>
    if modelOut = implOut then "OK" ++ tags j
    else "DIFF model=" ++ ",".intercalate modelOut

/-- Removal while a slow resolution is in flight. The model's Remove is atomic and stops the poller whatever the
    resolver is doing, so the expected observations do not depend on the timing parameters: they are those of the
    model history `[add, remove, add, remove]` (pollers after the first removal, after re-adding), plus the
    specification's "not polled any more" (`late=0`) and "one poller polls once" (`streams2=1`). -/
def slowVerdict (rmTok rm2Tok : String) (out : List String) : String :=
  let s1 := afterR true [.add 0 .ok, .remove 0]
  let r2 := runR true s1 [.add 0 .ok]
  let r3 := runR true r2.1 [.remove 0]
  let showRm (r : List Res) : String :=
    match r with
    | [.removed] => if rmTok = "rm" then "t" else "ok"
    | _ => "?"
  let modelOut := [s!"{rmTok}={showRm (runR true (afterR true [.add 0 .ok]) [.remove 0]).2}",
    s!"pollers={pollers s1}", "late=0",
    s!"readd={match r2.2 with | [.add .ok _] => "ok" | _ => "?"}", s!"pollers2={pollers r2.1}", "streams2=1",
    s!"{rm2Tok}={showRm r3.2}", "leak=0"]
  match judgeSlow out with
  | some v => s!"VIOL {v} model={" ".intercalate modelOut}"
  | none =>
    if out = modelOut then "OK nt b=remove-while-resolving"
    else "DIFF model=" ++ ",".intercalate modelOut

/-- `dial <mode> <poll> <atMs>`: unreachable / dying targets through the REAL constructor. grpc.NewClient is lazy, so an
    unreachable address is the model's `Outcome.ok` (the failure shows in the poller and in Streams, which the lifecycle
    does not depend on); a construction that fails inside grpc.NewClient is `Outcome.fail`. Expected observations are
    those of the model histories; every token is a clause of the property (addable / not addable twice, lookup,
    Remove stops the poller, closes the connection, kept connection Unavailable, re-addable, nothing left). -/
def dialVerdict (mode : String) (out : List String) : String :=
  let addTok : Res → String
    | .add .ok _ => "ok" | .add .conn _ => "conn" | .add .dialed _ => "dialed" | .add .dup _ => "dup"
    | .add .watchP _ => "watch" | .add .watchS _ => "watch" | _ => "?"
  let getTok : Res → String
    | .get .absent => "absent" | .get (.usable _) => "usable" | .get .nilPresent => "nil" | _ => "?"
  let rmTok : Res → String
    | .removed => "t" | .notPresent => "f" | _ => "?"
  let stTok : Res → String
    | .unavailable => "unavail" | .streamOk => "ok" | .noHandle => "nohandle" | _ => "?"
  let failing := mode = "nocreds" || mode = "badcfg"
  let modelOut : List String :=
    if failing then
      match runR true init [.add 0 .fail, .get 0, .add 0 .fail, .remove 0] with
      | (s, [a, g, a2, r]) =>
        [s!"add={addTok a}", s!"get={getTok g}", s!"n={targetCount (afterR true [.add 0 .fail, .get 0]) nNames}",
         s!"readd={addTok a2}", s!"rm={rmTok r}", s!"pollers={pollers s}", "leak=0"]
      | _ => ["?"]
    else
      match runR true init [.add 0 .ok, .get 0, .remove 0] with
      | (s1, [a, g, r]) =>
        match runR true s1 [.get 0, .stream 0, .add 0 .ok] with
        | (s2, [g2, st, a2]) =>
          match runR true s2 [.remove 0] with
          | (_, [r2]) =>
            [s!"add={addTok a}", s!"get={getTok g}", s!"rm={rmTok r}", s!"pollers={pollers s1}", "open=0",
             s!"get2={getTok g2}", s!"stream={stTok st}", s!"readd={addTok a2}", s!"pollers2={pollers s2}",
             s!"rm2={rmTok r2}", "leak=0"]
          | _ => ["?"]
        | _ => ["?"]
      | _ => ["?"]
  if out = modelOut then s!"OK nt b=dial-{mode}"
  else
    let bad := out.filter (fun t => !modelOut.contains t)
    s!"VIOL unreachable-target-lifecycle:{",".intercalate bad} model={" ".intercalate modelOut}"

/-- `cstream <Dms> <mode> <md>`: the model's clock unit is one quarter of the deadline (D = 4; 0 = no deadline). -/
def cstreamVerdict (d mode md : String) (out : List String) : String :=
  let avail : Option Conn.Avail :=
    if mode = "ready" then some (.readyAt 0)
    else if mode = "hang" then some .connecting
    else if mode = "refuse" then some .refusing
    else if mode.startsWith "hold" then (mode.drop 4).toString.toNat?.map .readyAt
    else none
  match avail, d.toNat? with
  | some a, some dn =>
    let c : Conn.Ctx := { deadline := if dn = 0 then none else some 4, outMD := md = "1" }
    let showSd : Option Nat → String
      | none => "none"
      | some _ => "le"
    let modelOut : List String := match Conn.streamOpen 0 c a with
      | .ok t sd => ["ok", s!"q={t}", s!"sdl={showSd sd}"]
      | .unavailable t => ["unavail", s!"q={t}", "sdl=-"]
      | .deadlineExceeded t => ["code4", s!"q={t}", "sdl=-"]
      | .never => ["never"]
    if out.contains "panic" then s!"VIOL stream-panics model={" ".intercalate modelOut}"
    else if out = ["hang"] then s!"VIOL hang stream-attempt-never-returns model={" ".intercalate modelOut}"
    else if out = modelOut then s!"OK nt b=stream-{mode}"
    else "DIFF model=" ++ ",".intercalate modelOut
  | _, _ => "BAD c16 cstream"

/-- `rr <cfg> <op>… => <tok>… w=<n> n=<n> alive=<ids> leak=<n>`  and
    `pool <cfg> <op>… => <tok>… alive=<ids> leak=<n>` -/
def handle : Handler
  | "rr" :: _cfg :: opToks, out =>
    match parseAll parseROp opToks with
    | none => "BAD c16 router op"
    | some ops =>
      let (s, rs) := runR true init ops
      let modelOut := rs.map showRes ++
        [s!"w={pollers s}", s!"n={targetCount s nNames}", s!"alive={showAlive (aliveCalls s)}", "leak=0"]
      let opOut := out.take ops.length
      let finals := out.drop ops.length
      let (v, j) := judgeAll judgeR {} ops opOut 0
      let v := match v with
        | some x => some x
        | none => if opOut.length < ops.length then some "history-not-completed" else judgeFinals j finals
      verdict v modelOut out j
  | "pool" :: _cfg :: opToks, out =>
    match parseAll parsePOp opToks with
    | none => "BAD c16 pool op"
    | some ops =>
      let (s, rs) := runP true init ops
      let modelOut := rs.map showRes ++ [s!"alive={showAlive (aliveCalls s)}", "leak=0"]
      let opOut := out.take ops.length
      let finals := out.drop ops.length
      let (v, j) := judgeAll judgeP {} ops opOut 0
      let v := match v with
        | some x => some x
        | none => if opOut.length < ops.length then some "history-not-completed" else judgeFinals j finals
      verdict v modelOut out j
  | ["conc", _seed, _g, _n], out =>
    -- concurrent use of one real pool: whatever the schedule, every count must be zero
    -- (C16_pool_concurrent_get / _finish / _close); nothing else is compared
    let expect := ["nil=0", "panic=0", "incons=0", "stuck=0", "leak=0"]
    if out = expect then "OK nt b=concurrent-pool"
    else
      let bad := out.filter (fun t => !expect.contains t)
      s!"VIOL concurrent-pool:{",".intercalate bad} model={" ".intercalate expect}"
  | ["addrm", _seed, _rounds, _hold, _poll], out =>
    -- Add(name) ‖ Remove(name) on a real router while the poller is busy: C16_add_remove_same_name_atomic says every
    -- interleaving ends in a sequential outcome with everything consistent, whatever the timing
    let expect := ["bad=0", "incons=0", "stuck=0", "first=-", "leak=0"]
    if out = expect then "OK nt b=add-vs-remove-same-name"
    else
      let bad := out.filter (fun t => !expect.contains t)
      s!"VIOL add-vs-remove-same-name:{",".intercalate bad} model={" ".intercalate expect}"
  | ["dial", mode, _poll, _at], out => dialVerdict mode out
  | [kind, _d, mode, _n], out =>
    if kind = "cclose" || kind = "rclose" then
      -- Close / Remove while Streams wait on a not-ready connection (C16_stream_wait_ends_on_close): the model's wait
      -- returns at the iteration that observes Shutdown from Connecting and from TransientFailure alike, with or
      -- without a deadline, so every Stream returns at once with the closing error
      let ends := Conn.waitLoop .inLoop false .connecting [.shutdown] = .returned 1 &&
                  Conn.waitLoop .inLoop true .transientFailure [.connecting, .shutdown] = .returned 2
      let expect := ["close=t", "bad=0", s!"slow={if ends then 0 else 1}", "early=0", "panic=0", "after=unavail"]
      if out = expect then s!"OK nt b=close-while-waiting-{mode}"
      else
        let bad := out.filter (fun t => !expect.contains t)
        s!"VIOL close-while-stream-waits-on-not-ready-connection:{",".intercalate bad} model={" ".intercalate expect}"
    else if kind = "cstream" then cstreamVerdict _d mode _n out
    else "BAD c16 line"
  | ["shareconn", mode, _poll], out =>
    -- two names (model names 0, 1) whose underlying client is already closed at removal time: the lifecycle is the model's
    match runR true init [.add 0 .ok, .add 1 .ok, .get 0, .get 1, .remove 0, .stream 0, .remove 1, .stream 1, .get 0, .get 1] with
    | (_, [a0, a1, g0, g1, r0, s0, r1, s1, h0, h1]) =>
      let addTok : Res → String | .add .ok _ => "ok" | _ => "?"
      let getTok : Res → String | .get .absent => "absent" | .get (.usable _) => "usable" | _ => "?"
      let rmTok : Res → String | .removed => "t" | .notPresent => "f" | _ => "?"
      let stTok : Res → String | .unavailable => "unavail" | .streamOk => "ok" | _ => "?"
      let closes := Conn.streamAfterClose (Conn.closeRun .unconditional true Conn.PState.live) = .unavailable
      let modelOut := [s!"addA={addTok a0}", s!"addB={addTok a1}", s!"getA={getTok g0}", s!"getB={getTok g1}",
        s!"rmA={rmTok r0}", s!"sA={stTok s0}", s!"rmB={rmTok r1}", s!"sB={if closes then stTok s1 else "?"}",
        s!"getA2={getTok h0}", s!"getB2={getTok h1}", "leak=0"]
      if out = modelOut then s!"OK nt b=underlying-client-already-closed-{mode}"
      else
        let bad := out.filter (fun t => !modelOut.contains t)
        s!"VIOL stream-after-remove-not-unavailable:{",".intercalate bad} model={" ".intercalate modelOut}"
    | _ => "BAD c16 shareconn model"
  | ["cidle", mode, _d], out =>
    -- the channel fell back to IDLE between two calls (C16_wait_connects_whenever_idle): the second call is established
    -- at once, with or without a deadline
    let expect := ["first=ok", "idle=t", "second=ok", "slow=0"]
    if out = expect && Conn.secondCall .always = .ready then s!"OK nt b=idle-again-{mode}"
    else s!"VIOL stream-on-idle-again-connection:{",".intercalate (out.filter (fun t => !expect.contains t))} model={" ".intercalate expect}"
  | ["cunreach", mode, _d], out =>
    -- unreachable target, call with a deadline: the call ends (C16_wait_returns_when_ctx_ends)
    match out with
    | ["ended=t", c] =>
      if c = "code=code14" || c = "code=code4" then s!"OK nt b=unreachable-{mode}" else s!"DIFF model=ended=t,code=code14|code4"
    | _ => s!"VIOL call-with-deadline-to-unreachable-target-never-ends:{",".intercalate out} model=ended=t"
  | ["connrace", _seed, _n], out =>
    -- Close racing Stream on one real AdaptedClientConn (C16_conn_close_stream_safe / _closed_is_final)
    let expect := ["bad=0", "panic=0", "slow=0", "after=unavail"]
    if out = expect then "OK nt b=close-vs-stream"
    else s!"VIOL close-vs-stream:{",".intercalate (out.filter (fun t => !expect.contains t))} model={" ".intercalate expect}"
  | ["newrace", _seed, _k], out =>
    -- New racing New on one real pool (C16_pool_new_exclusive)
    if out = ["bad=0"] then "OK nt b=new-vs-new"
    else s!"VIOL concurrent-new-not-exclusive:{",".intercalate out} model=bad=0"
  | "slowrr" :: _params, out => slowVerdict "rm" "rm2" out
  | "slowres" :: _params, out => slowVerdict "close" "close2" out
  | _, _ => "BAD c16 line"

end GB.C16
