import GB.Base.LTS
import GB.C16.Model
/-
  C16 — Add ‖ Remove on the SAME name: lock scope and teardown order as part of the model.

  Atomic-step LTS of any number of goroutines inside `ReflectionRouter.Add(name)` / `Remove(name)` for one name,
  plus the environment (the target's poller becomes busy / idle; `Resolver.Close` blocks while it is busy).
  Steps, as coded in reflection.go:

    Add:    r.mu.Lock · targets[name]? · connpool.New · patternRouter.Watch · serviceRouter.Watch ·
            resolverBuilder.Build · targets[name] = … · (deferred) r.mu.Unlock
            — each error branch returns at once: NO cleanup call on any of them (facts `addErrorCleanup`)
    Remove: r.mu.Lock · targets[name]? · watcher.Close (pattern, then service) · resolver.Close (blocking) ·
            poolController.Close · delete(targets, name) · (deferred) r.mu.Unlock

  `Variant.real` is this code; `Variant.earlyUnlock` is the seeded variant C16-m6 (lock held only for lookup + delete,
  teardown order connection → resolver → watchers), kept for the kernel-checked negative witness.
  The objects of the name are counted (`conns`, `pws`, `sws`, `pollers`) and the three registries other than the
  map are slots (`poolSlot`, `pSlot`, `sSlot`).
-/
namespace GB.C16.Race
open GB GB.C16

inductive Variant | real | earlyUnlock
  deriving DecidableEq, Repr

/-- result of an Add -/
inductive ARes | ok | dup | dialed | watchP | watchS
  deriving DecidableEq, Repr

/-- program counter of a goroutine in Add (the step it executes NEXT) -/
inductive APc
  | idle                 -- r.mu.Lock()
  | check                -- if _, ok := r.targets[name]; ok
  | poolNew              -- r.connpool.New(name, target)
  | watchP               -- r.patternRouter.Watch(name)
  | watchS               -- r.serviceRouter.Watch(name)
  | build                -- r.resolverBuilder.Build(name, watcher)
  | insert               -- r.targets[name] = targetState{…}
  | unlock (r : ARes)    -- deferred r.mu.Unlock(), then return
  | done (r : ARes)
  deriving DecidableEq, Repr

/-- program counter of a goroutine in Remove -/
inductive RPc
  | idle                 -- r.mu.Lock()
  | lookup               -- _, ok := r.targets[name]  (earlyUnlock: lookup + delete)
  | closePW              -- PatternRouterWatcher.Close()
  | closeSW              -- ServiceRouterWatcher.Close()
  | closeResolver        -- Resolver.Close(): blocks while the poller is busy
  | closeCtrl            -- poolController.Close()
  | delete               -- delete(r.targets, name)
  | unlock (ok : Bool)   -- r.mu.Unlock()
  | done (ok : Bool)
  /- earlyUnlock only: teardown after the lock has been released -/
  | xCloseCtrl | xCloseResolver | xClosePW | xCloseSW
  deriving DecidableEq, Repr

/-- who holds `r.mu`: an Add goroutine or a Remove goroutine -/
inductive Holder | add (i : Nat) | rem (j : Nat)
  deriving DecidableEq, Repr

structure AState where
  lock : Option Holder
  /-- `name ∈ r.targets` -/
  inMap : Bool
  /-- `name ∈ connpool.conns`, `∈ patternRouter.watcherSet`, `∈ serviceRouter.watcherSet` -/
  poolSlot : Bool
  pSlot : Bool
  sSlot : Bool
  /-- live objects of the name: open connections, open watchers, running pollers -/
  conns : Nat
  pws : Nat
  sws : Nat
  pollers : Nat
  /-- a poller is in the middle of something (resolution, watcher update, logging) -/
  busy : Bool
  apc : Nat → APc
  rpc : Nat → RPc
  /-- completed operations in the order of their unlock: (isAdd, succeeded) -/
  log : List (Bool × Bool)

def ainit : AState :=
  { lock := none, inMap := false, poolSlot := false, pSlot := false, sSlot := false,
    conns := 0, pws := 0, sws := 0, pollers := 0, busy := false,
    apc := fun _ => .idle, rpc := fun _ => .idle, log := [] }

inductive ALabel
  | add (i : Nat)        -- the next atomic step of Add goroutine i
  | rem (j : Nat)        -- the next atomic step of Remove goroutine j
  | pollerBusy | pollerIdle
  deriving DecidableEq, Repr

def addOk : ARes → Bool
  | .ok => true
  | _ => false

def stepAdd (s : AState) (i : Nat) : Option AState :=
  match s.apc i with
  | .idle => if s.lock.isSome then none else some { s with lock := some (.add i), apc := upd s.apc i .check }
  | .check =>
    if s.inMap then some { s with apc := upd s.apc i (.unlock .dup) }
    else some { s with apc := upd s.apc i .poolNew }
  | .poolNew =>
    if s.poolSlot then some { s with apc := upd s.apc i (.unlock .dialed) }           -- ErrAlreadyDialed: return
    else some { s with poolSlot := true, conns := s.conns + 1, apc := upd s.apc i .watchP }
  | .watchP =>
    if s.pSlot then some { s with apc := upd s.apc i (.unlock .watchP) }              -- "should never happen": return, nothing closed
    else some { s with pSlot := true, pws := s.pws + 1, apc := upd s.apc i .watchS }
  | .watchS =>
    if s.sSlot then some { s with apc := upd s.apc i (.unlock .watchS) }              -- "should never happen": return, nothing closed
    else some { s with sSlot := true, sws := s.sws + 1, apc := upd s.apc i .build }
  | .build => some { s with pollers := s.pollers + 1, busy := true, apc := upd s.apc i .insert }
  | .insert => some { s with inMap := true, apc := upd s.apc i (.unlock .ok) }
  | .unlock r => some { s with lock := none, apc := upd s.apc i (.done r), log := s.log ++ [(true, addOk r)] }
  | .done _ => none

def stepRem (v : Variant) (s : AState) (j : Nat) : Option AState :=
  match s.rpc j with
  | .idle => if s.lock.isSome then none else some { s with lock := some (.rem j), rpc := upd s.rpc j .lookup }
  | .lookup =>
    match v with
    | .real =>
      if s.inMap then some { s with rpc := upd s.rpc j .closePW }
      else some { s with rpc := upd s.rpc j (.unlock false) }
    | .earlyUnlock =>
      -- target, ok := r.targets[name]; delete(r.targets, name); r.mu.Unlock()
      some { s with inMap := false, rpc := upd s.rpc j (.unlock s.inMap) }
  | .closePW => some { s with pSlot := false, pws := s.pws - 1, rpc := upd s.rpc j .closeSW }
  | .closeSW => some { s with sSlot := false, sws := s.sws - 1, rpc := upd s.rpc j .closeResolver }
  | .closeResolver =>
    if s.busy then none                                                               -- blocked in `r.done <- struct{}{}`
    else some { s with pollers := s.pollers - 1, rpc := upd s.rpc j .closeCtrl }
  | .closeCtrl => some { s with poolSlot := false, conns := s.conns - 1, rpc := upd s.rpc j .delete }
  | .delete => some { s with inMap := false, rpc := upd s.rpc j (.unlock true) }
  | .unlock ok =>
    match v with
    | .real => some { s with lock := none, rpc := upd s.rpc j (.done ok), log := s.log ++ [(false, ok)] }
    | .earlyUnlock =>
      some { s with lock := none, log := s.log ++ [(false, ok)],
                    rpc := upd s.rpc j (if ok then .xCloseCtrl else .done false) }
  | .xCloseCtrl => some { s with poolSlot := false, conns := s.conns - 1, rpc := upd s.rpc j .xCloseResolver }
  | .xCloseResolver =>
    if s.busy then none
    else some { s with pollers := s.pollers - 1, rpc := upd s.rpc j .xClosePW }
  | .xClosePW => some { s with pSlot := false, pws := s.pws - 1, rpc := upd s.rpc j .xCloseSW }
  | .xCloseSW => some { s with sSlot := false, sws := s.sws - 1, rpc := upd s.rpc j (.done true) }
  | .done _ => none

def astep (v : Variant) (s : AState) : ALabel → Option AState
  | .add i => stepAdd s i
  | .rem j => stepRem v s j
  | .pollerBusy => if s.pollers > 0 then some { s with busy := true } else none
  | .pollerIdle => some { s with busy := false }

/-- the sequential specification: replay a log of (isAdd, succeeded) from `present`; `none` = not a sequential history -/
def seqRun : Bool → List (Bool × Bool) → Option Bool
  | p, [] => some p
  | p, (true, ok) :: l => if ok = !p then seqRun (p || ok) l else none       -- Add succeeds iff not present
  | p, (false, ok) :: l => if ok = p then seqRun false l else none           -- Remove answers presence

def b2n (b : Bool) : Nat := if b then 1 else 0

/-- nothing is half-built or left behind: every registry and every object census agrees with the map -/
def Consistent (s : AState) : Prop :=
  s.poolSlot = s.inMap ∧ s.pSlot = s.inMap ∧ s.sSlot = s.inMap ∧
  s.conns = b2n s.inMap ∧ s.pws = b2n s.inMap ∧ s.sws = b2n s.inMap ∧ s.pollers = b2n s.inMap

/-! ### what the regenerated facts (extract/c16.go, go/ast over reflection.go) must say for this model to be the code -/

/-- `Remove`: statement trace. Lock, DEFERRED unlock (held to the end), lookup, early `return false`, then the
    teardown calls in the order watchers → resolver → pool connection, delete, `return true`. -/
def expectedRemoveTrace : List String :=
  ["lock", "defer-unlock", "lookup", "return:false", "lookup",
   "close:watcher", "close:resolver", "close:poolController", "delete", "return:true"]

/-- `Add`: statement trace. Lock, deferred unlock, lookup, the two early error returns (duplicate, options), then
    pool.New → Watch → Watch → Build → insert; after each fallible call an error return with NO cleanup call
    (no `close:*` entry anywhere). -/
def expectedAddTrace : List String :=
  ["lock", "defer-unlock", "lookup", "return:err", "return:err",
   "call:connpool.New", "return:err", "call:patternRouter.Watch", "return:err",
   "call:serviceRouter.Watch", "return:err", "call:resolverBuilder.Build", "insert", "return:ok"]

/-- `aggregateWatcher.Close` closes in slice order: pattern watcher, then service watcher -/
def expectedWatcherOrder : List String := ["patternWatcher", "serviceWatcher"]

/-- the schedule that breaks the early-unlock variant (C16-m6): the name is present and its poller busy; Remove
    unlocks after lookup+delete and closes the connection, then blocks in Resolver.Close; a second goroutine's Add
    finds the map and the pool slot free, dials, fails in patternRouter.Watch (slot still taken) and returns without
    closing anything; the poller becomes idle and Remove finishes; a third Add then fails in pool.New. -/
def m6Schedule : List ALabel :=
  [.add 0, .add 0, .add 0, .add 0, .add 0, .add 0, .add 0, .add 0,     -- Add: name present, poller busy
   .rem 0, .rem 0, .rem 0, .rem 0,                                     -- Remove: lock, lookup+delete, unlock, close conn
   .add 1, .add 1, .add 1, .add 1, .add 1,                             -- Add ‖: lock, absent, New ok, Watch FAILS, unlock
   .pollerIdle, .rem 0, .rem 0, .rem 0,                                -- Remove finishes: resolver, watchers
   .add 2, .add 2, .add 2, .add 2]                                     -- later Add: lock, absent, New → ErrAlreadyDialed

/-- observable summary of a final state -/
structure Summary where
  lockFree : Bool
  inMap : Bool
  poolSlot : Bool
  conns : Nat
  add1 : APc
  add2 : APc
  rem0 : RPc
  deriving DecidableEq, Repr

def summary (s : AState) : Summary :=
  { lockFree := s.lock.isNone, inMap := s.inMap, poolSlot := s.poolSlot, conns := s.conns,
    add1 := s.apc 1, add2 := s.apc 2, rem0 := s.rpc 0 }

end GB.C16.Race
