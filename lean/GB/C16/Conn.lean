import GB.Base.LTS
import GB.C12.Model
import GB.C16.Model
/-
  C16 — AdaptedClientConn in detail (grpcadapter/conn.go, rpc_util.go, and baseContext of forwarder.go).

  (A) `Stream`: getConn (state load, waitForReady under the HALVED deadline), then NewStream under the call context;
      time is an abstract Nat clock (any unit).  What gRPC does with a fail-fast RPC on a connection that is
      Ready / Connecting / in TransientFailure is part of the model (`Avail`) and is tied by the harness.
  (B) the stream context: derived from the CALL context iff it carries outgoing metadata, else from Background.
      Composed with `ProxyForwarder.baseContext` (which always installs outgoing metadata and the decoded
      grpc-timeout, C12).
  (C) `Close` racing `Stream`: LTS over the atomic steps (state.Load / conn.Close / state.Store).
-/
namespace GB.C16.Conn
open GB GB.C16

/-! ### (A)+(B) contexts, the halved wait, stream opening -/

/-- a context as far as `Stream` looks at it -/
structure Ctx where
  /-- absolute deadline -/
  deadline : Option Nat
  /-- `metadata.FromOutgoingContext(ctx)` answers ok -/
  outMD : Bool
  deriving DecidableEq, Repr

/-- `ctxWithHalvedDeadline` evaluated at time `now`: `WithTimeout(ctx, time.Until(deadline)/2)`
    (an expired deadline gives a context that is expired at once; no deadline gives the context itself). -/
def halved (now : Nat) (c : Ctx) : Option Nat :=
  match c.deadline with
  | none => none
  | some d => some (now + (d - now) / 2)

/-- how the target behaves: the connection is/gets Ready at time `t`; it stays Connecting for ever
    (the dialer hangs); every connection attempt fails at once (TransientFailure between attempts) -/
inductive Avail | readyAt (t : Nat) | connecting | refusing
  deriving DecidableEq, Repr

/-- time at which `waitForReady` returns (`none` = never: no deadline and the connection never becomes Ready):
    `for connState != Ready { if !conn.WaitForStateChange(ctx, connState) { return } }` -/
def waitReturn (now : Nat) (c : Ctx) (a : Avail) : Option Nat :=
  match a with
  | .readyAt t =>
    if t ≤ now then some now
    else match halved now c with
      | none => some t
      | some h => some (min t h)
  | _ => halved now c

/-- `streamCtx`: `Background` unless the call context carries outgoing metadata, then derived from the call context -/
def streamDeadline (c : Ctx) : Option Nat := if c.outMD then c.deadline else none

inductive SRes
  /-- stream established at time `t`; `sd` = deadline of the STREAM's context (what the target is told) -/
  | ok (t : Nat) (sd : Option Nat)
  | unavailable (t : Nat)
  | deadlineExceeded (t : Nat)
  | never
  deriving DecidableEq, Repr

/-- `AdaptedClientConn.Stream` on an open connection, called at `now` -/
def streamOpen (now : Nat) (c : Ctx) (a : Avail) : SRes :=
  match waitReturn now c a with
  | none => .never
  | some t1 =>
    -- wrapped.withCtx(ctx, conn.NewStream(streamCtx, …)): a fail-fast RPC bounded by the CALL context
    match a with
    | .readyAt t =>
      if t ≤ t1 then .ok t1 (streamDeadline c)
      else match c.deadline with          -- still Connecting: the RPC waits for the connection
        | none => .ok t (streamDeadline c)
        | some d => if t < d then .ok t (streamDeadline c) else .deadlineExceeded d
    | .connecting =>
      match c.deadline with
      | none => .never
      | some d => .deadlineExceeded d
    | .refusing => .unavailable t1

/-- `ProxyForwarder.baseContext(ctx, md)` at time `now`: outgoing metadata is installed in every branch;
    a decodable grpc-timeout (first value decides, C12) adds `WithTimeout(ctx, d)` -/
def baseContext (now : Nat) (incoming : Ctx) (timeoutVals : List Bytes) : Ctx :=
  match GB.C12.callDeadline timeoutVals with
  | some d =>
    let own := now + d.toNat
    { deadline := some (match incoming.deadline with | none => own | some p => min p own), outMD := true }
  | none => { deadline := incoming.deadline, outMD := true }

/-! ### (C) Close racing Stream -/

/-- how `waitForReady` ends on a connection that has been closed in the meantime (state Shutdown, which never
    changes again). `fx = true`: the code after the fix (returns when it sees Shutdown); `fx = false`: the original
    code (`WaitForStateChange(ctx, Shutdown)` only ends with the halved context — never, without a deadline). -/
inductive WaitOut | atOnce | atHalfDeadline | never
  deriving DecidableEq, Repr

def waitOnClosed (fx : Bool) (hasDeadline : Bool) : WaitOut :=
  if fx then .atOnce else if hasDeadline then .atHalfDeadline else .never

/-- value behind `cc.state` (atomic pointer): which of the two fields is non-nil -/
structure PState where
  conn : Bool
  err : Bool
  deriving DecidableEq, Repr

def PState.live : PState := { conn := true, err := false }      -- AdaptClient: {conn, nil}
def PState.closed : PState := { conn := false, err := true }    -- Close: {nil, Unavailable}

inductive SOut | stream | closingErr | unavailable | nilDeref
  deriving DecidableEq, Repr

/-- program counter of a goroutine inside `Stream` -/
inductive SPc | idle | loaded (p : PState) | waited (p : PState) | done (r : SOut)
  deriving DecidableEq, Repr

/-- program counter of a goroutine inside `Close` -/
inductive CPc | idle | loaded (p : PState) | closedGrpc | done
  deriving DecidableEq, Repr

/-! #### the wait loop of `waitForReady`, state by state

    connState := conn.GetState()
    if connState == Idle { conn.Connect() }
    for connState != Ready {
        if connState == Shutdown { return }                       -- the check, INSIDE the loop (fact c16WaitLoop)
        if !conn.WaitForStateChange(ctx, connState) { return }    -- false = ctx done
        connState = conn.GetState()
    }
-/

/-- connectivity.State -/
inductive CS | idle | connecting | transientFailure | ready | shutdown
  deriving DecidableEq, Repr

/-- where the Shutdown check stands: inside the loop (the code), once before the loop (seeded C16-m7 / C02-m8),
    nowhere (the code before fix D17c) -/
inductive Check | inLoop | hoisted | absent
  deriving DecidableEq, Repr

/-- how the wait ends: it returns after `iters` calls of WaitForStateChange that reported a change; it returns
    because the (halved) context ended; it never returns -/
inductive WaitEnd | returned (iters : Nat) | ctxDone | never
  deriving DecidableEq, Repr

/-- the loop from state `cur`; `fut` = the states the connection goes through from now on, in order (what GetState
    answers after each reported change); when `fut` is exhausted nothing changes any more. A connection in Shutdown
    never changes again, whatever `fut` says. `dl` = the context has a deadline. `n` = changes seen so far. -/
def waitFrom (chk : Check) (dl : Bool) : List CS → CS → Nat → WaitEnd
  | [], cur, n =>
    if cur = .ready then .returned n
    else if chk = .inLoop ∧ cur = .shutdown then .returned n
    else if dl then .ctxDone else .never                          -- WaitForStateChange blocks until ctx is done
  | nxt :: rest, cur, n =>
    if cur = .ready then .returned n
    else if chk = .inLoop ∧ cur = .shutdown then .returned n
    else if cur = .shutdown then (if dl then .ctxDone else .never) -- WaitForStateChange(ctx, Shutdown): no change ever
    else waitFrom chk dl rest nxt (n + 1)

/-- `waitForReady`: first GetState answers `cur` -/
def waitLoop (chk : Check) (dl : Bool) (cur : CS) (fut : List CS) : WaitEnd :=
  if chk = .hoisted ∧ cur = .shutdown then .returned 0 else waitFrom chk dl fut cur 0

structure RState where
  /-- `cc.state` -/
  ptr : PState
  /-- `conn.Close()` has been called on the gRPC connection -/
  grpcClosed : Bool
  spc : Nat → SPc
  cpc : Nat → CPc

def rinit : RState := { ptr := PState.live, grpcClosed := false, spc := fun _ => .idle, cpc := fun _ => .idle }

/-- one atomic step of Stream goroutine `i` / Close goroutine `j` -/
inductive RLabel | stream (i : Nat) | close (j : Nat)

def rstep (s : RState) : RLabel → Option RState
  | .stream i =>
    match s.spc i with
    | .idle => some { s with spc := upd s.spc i (.loaded s.ptr) }            -- state := cc.state.Load()
    | .loaded p => some { s with spc := upd s.spc i (.waited p) }            -- if state.conn != nil { waitForReady(state.conn) }: always returns (bounded by the halved deadline; at once on a closed conn, `waitOnClosed true`)
    | .waited p =>                                                           -- return state.conn, state.err
      let r := if p.err then SOut.unavailable                                -- if err != nil { return nil, err }
        else if !p.conn then SOut.nilDeref                                   -- conn.NewStream on a nil conn
        else if s.grpcClosed then SOut.closingErr                            -- "grpc: the client connection is closing"
        else SOut.stream
      some { s with spc := upd s.spc i (.done r) }
    | .done _ => none
  | .close j =>
    match s.cpc j with
    | .idle => some { s with cpc := upd s.cpc j (.loaded s.ptr) }            -- state := cc.state.Load()
    | .loaded p =>
      if !p.conn then some { s with cpc := upd s.cpc j .done }              -- if state.conn == nil { return }
      else some { s with grpcClosed := true, cpc := upd s.cpc j .closedGrpc } -- _ = state.conn.Close()
    | .closedGrpc => some { s with ptr := PState.closed, cpc := upd s.cpc j .done }  -- cc.state.Store({nil, Unavailable})
    | .done => none

/-! ### `AdaptedClientConn.Close` and the answer of the underlying `grpc.ClientConn.Close()` -/

/-- the code stores the closed state whatever the underlying Close answers; the seeded variant C16-m11 returns early
    when it reports an error (client already closed: shared between two names, or closed by its owner) -/
inductive CloseVariant | unconditional | returnOnError
  deriving DecidableEq, Repr

/-- `Close()` run to completion on pointer value `p`; `underlyingErr` = grpc.ClientConn.Close() returned an error -/
def closeRun (v : CloseVariant) (underlyingErr : Bool) (p : PState) : PState :=
  if !p.conn then p                                             -- if state.conn == nil { return }
  else if v = .returnOnError ∧ underlyingErr then p             -- (m11) if err := conn.Close(); err != nil { return }
  else PState.closed                                            -- cc.state.Store({nil, Unavailable})

/-- a later `Stream()` (the underlying client is closed by now in every case) -/
def streamAfterClose (p : PState) : SOut :=
  if p.err then .unavailable else if !p.conn then .nilDeref else .closingErr

/-- what the regenerated fact `c16CloseTrace` must say: Load, the nil-check return, the underlying Close with its result
    thrown away, the Store — no return in between -/
def expectedCloseTrace : List String := ["Load", "return", "ignored-result", "grpcClose", "Store"]

/-! ### the connectivity state machine as environment: Connect() is the only way out of IDLE -/

/-- who calls `conn.Connect()`: the code (every waitForReady whose first GetState answers Idle) or the seeded variant
    C01-m10 (only the first one per connection, `connectRequested.CompareAndSwap`) -/
inductive ConnectGuard | always | once
  deriving DecidableEq, Repr

structure Chan where
  st : CS
  /-- the once-guard's flag -/
  requested : Bool
  deriving DecidableEq, Repr

inductive CallEnd | ready | waitsForever | endsWithCtx
  deriving DecidableEq, Repr

/-- one Stream()'s waitForReady on a reachable target: gRPC leaves IDLE only when asked to connect; once asked it goes
    CONNECTING → READY; `dl` = the call has a deadline, `tested` = the result of WaitForStateChange is looked at
    (the seeded variant C12-m9 ignores it) -/
def waitCall (g : ConnectGuard) (dl tested reachable : Bool) (c : Chan) : CallEnd × Chan :=
  match c.st with
  | .ready => (.ready, c)
  | .shutdown => (.endsWithCtx, c)
  | .idle =>
    let asks := g = .always || !c.requested
    if asks then
      if reachable then (.ready, { st := .ready, requested := true })
      else (if dl && tested then .endsWithCtx else .waitsForever, { st := .transientFailure, requested := true })
    else (if dl && tested then .endsWithCtx else .waitsForever, c)          -- WaitForStateChange(ctx, Idle): nothing will change it
  | _ =>
    if reachable then (.ready, { c with st := .ready })
    else (if dl && tested then .endsWithCtx else .waitsForever, c)

/-- READY → IDLE: target restart, GOAWAY, idle timeout -/
def dropToIdle (c : Chan) : Chan := { c with st := .idle }

/-- first call on a fresh channel, the channel falls back to IDLE, second call (no deadline) -/
def secondCall (g : ConnectGuard) : CallEnd :=
  let c1 := (waitCall g false true true { st := .idle, requested := false }).2
  (waitCall g false true true (dropToIdle c1)).1

/-- what the regenerated facts (extract/c16.go over grpcadapter/conn.go) must say: statements of `waitForReady`
    before the `for`, and inside its body, in source order -/
def expectedWaitBeforeLoop : List String := ["GetState", "check:Idle", "Connect"]
def expectedWaitInLoop : List String := ["check:Shutdown", "return", "WaitForStateChange", "return", "GetState"]

end GB.C16.Conn
