import GB.Base.LTS
import GB.C16.Spec
import GB.C16.Conn
/-
  C16 — helper lemmas: the router invariant `Inv` (the whole concrete state is determined by the
  `targets` map) and its preservation by every operation of a router history.
-/
namespace GB.C16

set_option linter.unusedSimpArgs false
set_option linter.unusedVariables false

/-- Invariant of every state a router history can reach (fixed code). -/
structure Inv (s : State) : Prop where
  /-- the pool has an entry exactly for the targets, and it is the target's controller -/
  conns_eq : ∀ n, s.conns n = s.targets n
  pset : ∀ n, s.patternSet n = (s.targets n).isSome
  sset : ∀ n, s.serviceSet n = (s.targets n).isSome
  /-- everything a present target owns is alive -/
  live : ∀ n g, s.targets n = some g →
    g < s.next ∧ s.ctrlTarget g = n ∧ s.clientSet g = true ∧ s.ctrlClosed g = false ∧ s.connOpen g = true ∧
    s.pwOpen g = true ∧ s.swOpen g = true ∧ s.polling g = true
  /-- nothing is alive that no present target owns (no leak) -/
  owned : ∀ g, (s.polling g = true ∨ s.connOpen g = true ∨ s.pwOpen g = true ∨ s.swOpen g = true) →
    ∃ n, s.targets n = some g
  closed_lt : ∀ g, s.ctrlClosed g = true → g < s.next
  client_lt : ∀ g, s.clientSet g = true → g < s.next
  /-- calls in flight run on open connections -/
  calls_open : ∀ c g, s.calls c = some g → s.connOpen g = true
  calls_lt : ∀ c g, s.calls c = some g → c < s.nextCall

theorem inv_init : Inv init := by
  constructor <;> simp [init]

theorem Inv.inj {s : State} (h : Inv s) {n m g : Nat} (hn : s.targets n = some g) (hm : s.targets m = some g) : n = m := by
  exact ((h.live n g hn).2.1).symm.trans (h.live m g hm).2.1

theorem Inv.fresh {s : State} (h : Inv s) :
    s.polling s.next = false ∧ s.connOpen s.next = false ∧ s.pwOpen s.next = false ∧ s.swOpen s.next = false ∧
    s.ctrlClosed s.next = false ∧ s.clientSet s.next = false := by
  have key : ∀ (b : Bool), (b = true → ∃ n, s.targets n = some s.next) → b = false := by
    intro b hb
    cases b with
    | false => rfl
    | true =>
      obtain ⟨n, hn⟩ := hb rfl
      have := (h.live n _ hn).1
      omega
  refine ⟨key _ (fun e => h.owned _ (Or.inl e)), key _ (fun e => h.owned _ (Or.inr (Or.inl e))),
    key _ (fun e => h.owned _ (Or.inr (Or.inr (Or.inl e)))), key _ (fun e => h.owned _ (Or.inr (Or.inr (Or.inr e)))), ?_, ?_⟩
  · cases hc : s.ctrlClosed s.next with
    | false => rfl
    | true => have := h.closed_lt _ hc; omega
  · cases hc : s.clientSet s.next with
    | false => rfl
    | true => have := h.client_lt _ hc; omega

/-- The state after a successful `add` of an absent name, written out. -/
def addedState (s : State) (n : Name) : State :=
  { s with next := s.next + 1, conns := upd s.conns n (some s.next), ctrlTarget := upd s.ctrlTarget s.next n,
           clientSet := upd s.clientSet s.next true, connOpen := upd s.connOpen s.next true,
           patternSet := upd s.patternSet n true, pwOpen := upd s.pwOpen s.next true,
           serviceSet := upd s.serviceSet n true, swOpen := upd s.swOpen s.next true,
           polling := upd s.polling s.next true, targets := upd s.targets n (some s.next) }

/-- The state after an `add` whose construction failed (fixed code): only the allocation counter and the
    never-published controller's target field moved. -/
def failedState (s : State) (n : Name) : State :=
  { s with next := s.next + 1, conns := upd (upd s.conns n (some s.next)) n none,
           ctrlTarget := upd s.ctrlTarget s.next n }

theorem upd_upd_none (f : Nat → Option Nat) (n : Nat) (v : Option Nat) (h : f n = none) :
    upd (upd f n v) n none = f := by
  funext x
  by_cases hx : x = n
  · subst hx; simp [h]
  · simp [hx]

/-- `add` of an absent name, by cases on the outcome. -/
theorem add_absent {s : State} (h : Inv s) (n : Name) (o : Outcome) (hn : s.targets n = none) :
    add true s n o =
      match o with
      | .ok => (addedState s n, .add .ok (some .absent))
      | .fail => (failedState s n, .add .conn (some .absent))
      | .opts => (s, .add .opts none) := by
  have hc : s.conns n = none := by rw [h.conns_eq]; exact hn
  have hp : s.patternSet n = false := by rw [h.pset, hn]; rfl
  have hs : s.serviceSet n = false := by rw [h.sset, hn]; rfl
  have hcl : s.clientSet s.next = false := h.fresh.2.2.2.2.2
  cases o with
  | opts => simp [add, hn]
  | fail =>
    simp [add, hn, poolNew, poolReserve, hc, poolFinish, poolGet, failedState, hcl]
  | ok =>
    simp [add, hn, poolNew, poolReserve, hc, poolFinish, poolGet, hp, hs, addedState, hcl]


theorem inv_added {s : State} (h : Inv s) (n : Name) (hn : s.targets n = none) : Inv (addedState s n) := by
  have hf := h.fresh
  constructor
  · intro m; by_cases hm : m = n <;> simp [addedState, hm, h.conns_eq]
  · intro m; by_cases hm : m = n <;> simp [addedState, hm, h.pset]
  · intro m; by_cases hm : m = n <;> simp [addedState, hm, h.sset]
  · intro m g hg
    by_cases hm : m = n
    · subst hm
      simp [addedState] at hg
      subst hg
      simp [addedState, hf.2.2.2.2.1]
    · simp [addedState, hm] at hg
      have l := h.live m g hg
      have hne : g ≠ s.next := by omega
      simp [addedState, hne, l]
      omega
  · intro g hg
    by_cases hgn : g = s.next
    · exact ⟨n, by simp [addedState, hgn]⟩
    · simp [addedState, hgn] at hg
      obtain ⟨m, hm⟩ := h.owned g hg
      have : m ≠ n := by intro e; subst e; rw [hn] at hm; cases hm
      exact ⟨m, by simp [addedState, this, hm]⟩
  · intro g hg
    simp [addedState] at hg ⊢
    have := h.closed_lt g hg; omega
  · intro g hg
    by_cases hgn : g = s.next
    · simp [addedState, hgn]
    · simp [addedState, hgn] at hg ⊢
      have := h.client_lt g hg; omega
  · intro c g hg
    simp [addedState] at hg ⊢
    have := h.calls_open c g hg
    by_cases hgn : g = s.next <;> simp [hgn, this]
  · intro c g hg
    simp [addedState] at hg ⊢
    exact h.calls_lt c g hg

theorem inv_failed {s : State} (h : Inv s) (n : Name) (hn : s.targets n = none) : Inv (failedState s n) := by
  have hc : s.conns n = none := by rw [h.conns_eq]; exact hn
  have e : failedState s n = { s with next := s.next + 1, ctrlTarget := upd s.ctrlTarget s.next n } := by
    simp [failedState, upd_upd_none _ _ _ hc]
  rw [e]
  constructor
  · exact h.conns_eq
  · exact h.pset
  · exact h.sset
  · intro m g hg
    have l := h.live m g hg
    have hne : g ≠ s.next := by omega
    simp [hne, l]; omega
  · exact h.owned
  · intro g hg; have := h.closed_lt g hg; simp; omega
  · intro g hg; have := h.client_lt g hg; simp; omega
  · exact h.calls_open
  · exact h.calls_lt

/-- The state after `remove` of a present name whose targetState has generation `g`, written out. -/
def removedState (s : State) (n : Name) (g : Nat) : State :=
  { s with pwOpen := upd s.pwOpen g false, patternSet := upd s.patternSet n false,
           swOpen := upd s.swOpen g false, serviceSet := upd s.serviceSet n false,
           polling := upd s.polling g false, ctrlClosed := upd s.ctrlClosed g true,
           conns := upd s.conns n none, connOpen := upd s.connOpen g false,
           calls := fun c => if s.calls c = some g then none else s.calls c,
           targets := upd s.targets n none }

theorem remove_present {s : State} (h : Inv s) (n : Name) (g : Nat) (hn : s.targets n = some g) :
    remove s n = (removedState s n g, .removed) := by
  have l := h.live n g hn
  simp [remove, hn, l, ctrlClose, removedState]

theorem remove_absent (s : State) (n : Name) (hn : s.targets n = none) : remove s n = (s, .notPresent) := by
  simp [remove, hn]

theorem inv_removed {s : State} (h : Inv s) (n : Name) (g : Nat) (hn : s.targets n = some g) :
    Inv (removedState s n g) := by
  have l := h.live n g hn
  have other : ∀ m g', m ≠ n → s.targets m = some g' → g' ≠ g := by
    intro m g' hm hg' e; subst e; exact hm (h.inj hg' hn)
  constructor
  · intro m; by_cases hm : m = n <;> simp [removedState, hm, h.conns_eq]
  · intro m; by_cases hm : m = n <;> simp [removedState, hm, h.pset]
  · intro m; by_cases hm : m = n <;> simp [removedState, hm, h.sset]
  · intro m g' hg'
    by_cases hm : m = n
    · simp [removedState, hm] at hg'
    · simp [removedState, hm] at hg'
      have hne := other m g' hm hg'
      have l' := h.live m g' hg'
      simp [removedState, hne, l']
  · intro g' hg'
    by_cases hgg : g' = g
    · simp [removedState, hgg] at hg'
    · simp [removedState, hgg] at hg'
      obtain ⟨m, hm⟩ := h.owned g' hg'
      have : m ≠ n := by intro e; subst e; rw [hn] at hm; cases hm; exact hgg rfl
      exact ⟨m, by simp [removedState, this, hm]⟩
  · intro g' hg'
    by_cases hgg : g' = g
    · simp [removedState, hgg]; exact l.1
    · simp [removedState, hgg] at hg' ⊢; exact h.closed_lt g' hg'
  · intro g' hg'; simp [removedState] at hg' ⊢; exact h.client_lt g' hg'
  · intro c g' hg'
    simp [removedState] at hg' ⊢
    have hne : g' ≠ g := by intro e; subst e; exact hg'.1 hg'.2
    simp [hne]; exact h.calls_open c g' hg'.2
  · intro c g' hg'
    simp [removedState] at hg' ⊢
    exact h.calls_lt c g' hg'.2

theorem inv_handles {s : State} (h : Inv s) (f : Name → Option Nat) : Inv { s with handles := f } :=
  ⟨h.conns_eq, h.pset, h.sset, h.live, h.owned, h.closed_lt, h.client_lt, h.calls_open, h.calls_lt⟩

theorem inv_get {s : State} (h : Inv s) (n : Name) : Inv (get true s n).1 := by
  unfold get
  split
  · exact inv_handles h _
  · exact h

theorem inv_call {s : State} (h : Inv s) (n : Name) : Inv (call s n).1 := by
  unfold call
  split
  · exact h
  · rename_i g hg
    split
    · rename_i ho
      constructor
      · exact h.conns_eq
      · exact h.pset
      · exact h.sset
      · exact h.live
      · exact h.owned
      · exact h.closed_lt
      · exact h.client_lt
      · intro c g' hc
        by_cases hcc : c = s.nextCall
        · simp [hcc] at hc; subst hc; exact ho
        · simp [hcc] at hc; exact h.calls_open c g' hc
      · intro c g' hc
        by_cases hcc : c = s.nextCall
        · simp [hcc]
        · simp [hcc] at hc ⊢; have := h.calls_lt c g' hc; omega
    · exact h

/-- `add` on a present name changes nothing. -/
theorem add_present (s : State) (n : Name) (o : Outcome) (g : Nat) (hn : s.targets n = some g) :
    add true s n o = (s, .add .dup none) := by
  simp [add, hn]

/-- Every operation of a router history preserves the invariant. -/
theorem inv_stepR {s : State} (h : Inv s) (op : ROp) : Inv (stepR true s op).1 := by
  cases op with
  | add n o =>
    cases hn : s.targets n with
    | some g => simp [stepR, add_present s n o g hn]; exact h
    | none =>
      simp only [stepR]
      rw [add_absent h n o hn]
      cases o with
      | ok => exact inv_added h n hn
      | fail => exact inv_failed h n hn
      | opts => exact h
  | remove n =>
    cases hn : s.targets n with
    | some g => simp only [stepR]; rw [remove_present h n g hn]; exact inv_removed h n g hn
    | none => simp only [stepR]; rw [remove_absent s n hn]; exact h
  | get n => exact inv_get h n
  | stream n => exact h
  | call n => exact inv_call h n

theorem runWith_append {op : Type} (step : State → op → State × Res) (s : State) (xs ys : List op) :
    runWith step s (xs ++ ys) =
      ((runWith step (runWith step s xs).1 ys).1, (runWith step s xs).2 ++ (runWith step (runWith step s xs).1 ys).2) := by
  induction xs generalizing s with
  | nil => simp [runWith]
  | cons x xs ih => simp [runWith, ih]

theorem inv_runR {s : State} (h : Inv s) (ops : List ROp) : Inv (runR true s ops).1 := by
  induction ops generalizing s with
  | nil => exact h
  | cons o os ih =>
    simp only [runR, runWith]
    exact ih (inv_stepR h o)

/-- Every state reached by a router history from the initial state satisfies the invariant. -/
theorem inv_afterR (ops : List ROp) : Inv (afterR true ops) := inv_runR inv_init ops

/-! ### refinement to the `present` set -/

/-- abstraction relation: the specification's set is the domain of `targets` -/
def Abs (p : Present) (s : State) : Prop := ∀ n, p n = (s.targets n).isSome

theorem abs_stepR {s : State} {p : Present} (h : Inv s) (ha : Abs p s) (op : ROp) :
    classify (stepR true s op).2 = (specStepR p op).2 ∧ Abs (specStepR p op).1 (stepR true s op).1 := by
  cases op with
  | add n o =>
    cases hn : s.targets n with
    | some g =>
      have hp : p n = true := by rw [ha n, hn]; rfl
      simp [stepR, add_present s n o g hn, specStepR, hp, classify]; exact ha
    | none =>
      have hp : p n = false := by rw [ha n, hn]; rfl
      simp only [stepR]
      rw [add_absent h n o hn]
      cases o with
      | ok =>
        simp [specStepR, hp, classify]
        intro m; by_cases hm : m = n <;> simp [addedState, hm, ha m]
      | fail =>
        simp [specStepR, hp, classify]
        intro m; simp [failedState, ha m]
      | opts => simp [specStepR, hp, classify]; exact ha
  | remove n =>
    cases hn : s.targets n with
    | some g =>
      have hp : p n = true := by rw [ha n, hn]; rfl
      simp only [stepR]; rw [remove_present h n g hn]
      simp [specStepR, hp, classify]
      intro m; by_cases hm : m = n <;> simp [removedState, hm, ha m]
    | none =>
      have hp : p n = false := by rw [ha n, hn]; rfl
      simp only [stepR]; rw [remove_absent s n hn]
      simp [specStepR, hp, classify]; exact ha
  | get n =>
    simp only [stepR, specStepR]
    unfold get
    split <;> simp [classify] <;> exact ha
  | stream n =>
    simp only [stepR, specStepR]
    refine ⟨?_, ha⟩
    unfold stream; split <;> (try split) <;> simp [classify]
  | call n =>
    simp only [stepR, specStepR]
    unfold call
    split
    · simp [classify]; exact ha
    · split <;> simp [classify] <;> exact ha

theorem abs_runR {s : State} {p : Present} (h : Inv s) (ha : Abs p s) (ops : List ROp) :
    (runR true s ops).2.map classify = (specRunR p ops).2 ∧ Abs (specRunR p ops).1 (runR true s ops).1 := by
  induction ops generalizing s p with
  | nil => simp [runR, runWith, specRunR]; exact ha
  | cons o os ih =>
    have st := abs_stepR h ha o
    have := ih (inv_stepR h o) st.2
    simp only [runR, runWith, specRunR, List.map_cons] at this ⊢
    exact ⟨by rw [st.1, this.1], this.2⟩

/-! ### kept connections -/

/-- a kept connection belongs to the name it was looked up under -/
def HInv (s : State) : Prop := ∀ n g, s.handles n = some g → g < s.next ∧ s.ctrlTarget g = n

theorem hinv_stepR {s : State} (h : Inv s) (hh : HInv s) (op : ROp) : HInv (stepR true s op).1 := by
  cases op with
  | add n o =>
    cases hn : s.targets n with
    | some g => simp [stepR, add_present s n o g hn]; exact hh
    | none =>
      simp only [stepR]
      rw [add_absent h n o hn]
      cases o with
      | ok =>
        intro m g hg
        have := hh m g hg
        have hne : g ≠ s.next := by omega
        simp [addedState, hne, this]; omega
      | fail =>
        intro m g hg
        have := hh m g hg
        have hne : g ≠ s.next := by omega
        simp [failedState, hne, this]; omega
      | opts => exact hh
  | remove n =>
    cases hn : s.targets n with
    | some g => simp only [stepR]; rw [remove_present h n g hn]; exact hh
    | none => simp only [stepR]; rw [remove_absent s n hn]; exact hh
  | get n =>
    simp only [stepR]
    unfold get
    split
    · rename_i g hg
      intro m g' hm
      by_cases hmn : m = n
      · subst hmn
        simp at hm; subst hm
        -- the lookup found the controller stored under the name
        have hc : s.conns m = some g := by
          unfold poolGet at hg
          split at hg
          · cases hg
          · rename_i g0 hg0
            split at hg
            · cases hg; exact hg0
            · simp at hg
        rw [h.conns_eq] at hc
        have l := h.live m g hc
        exact ⟨l.1, l.2.1⟩
      · simp [hmn] at hm; exact hh m g' hm
    · exact hh
  | stream n => exact hh
  | call n =>
    simp only [stepR]
    unfold call
    split
    · exact hh
    · split
      · exact hh
      · exact hh

theorem hinv_runR {s : State} (h : Inv s) (hh : HInv s) (ops : List ROp) : HInv (runR true s ops).1 := by
  induction ops generalizing s with
  | nil => exact hh
  | cons o os ih => simp only [runR, runWith]; exact ih (inv_stepR h o) (hinv_stepR h hh o)

/-- a connection that has been closed (or whose construction failed) is never open again -/
def Dead (s : State) (g : Nat) : Prop := g < s.next ∧ s.connOpen g = false

theorem dead_stepR {s : State} (h : Inv s) {g : Nat} (hd : Dead s g) (op : ROp) : Dead (stepR true s op).1 g := by
  obtain ⟨hlt, hcl⟩ := hd
  cases op with
  | add n o =>
    cases hn : s.targets n with
    | some g' => simp [stepR, add_present s n o g' hn]; exact ⟨hlt, hcl⟩
    | none =>
      simp only [stepR]
      rw [add_absent h n o hn]
      have hne : g ≠ s.next := by omega
      cases o with
      | ok => exact ⟨by simp [addedState]; omega, by simp [addedState, hne, hcl]⟩
      | fail => exact ⟨by simp [failedState]; omega, by simp [failedState, hcl]⟩
      | opts => exact ⟨hlt, hcl⟩
  | remove n =>
    cases hn : s.targets n with
    | some g' =>
      simp only [stepR]; rw [remove_present h n g' hn]
      refine ⟨hlt, ?_⟩
      by_cases e : g = g' <;> simp [removedState, e, hcl]
    | none => simp only [stepR]; rw [remove_absent s n hn]; exact ⟨hlt, hcl⟩
  | get n => simp only [stepR]; unfold get; split <;> exact ⟨hlt, hcl⟩
  | stream n => exact ⟨hlt, hcl⟩
  | call n =>
    simp only [stepR]; unfold call
    split
    · exact ⟨hlt, hcl⟩
    · split <;> exact ⟨hlt, hcl⟩

theorem handles_stepR {s : State} (h : Inv s) (op : ROp) (n : Name) (hop : op ≠ .get n) :
    (stepR true s op).1.handles n = s.handles n := by
  cases op with
  | add m o =>
    cases hn : s.targets m with
    | some g' => simp [stepR, add_present s m o g' hn]
    | none =>
      simp only [stepR]
      rw [add_absent h m o hn]
      cases o <;> rfl
  | remove m =>
    cases hn : s.targets m with
    | some g' => simp only [stepR]; rw [remove_present h m g' hn]; rfl
    | none => simp only [stepR]; rw [remove_absent s m hn]
  | get m =>
    have hmn : n ≠ m := by intro e; subst e; exact hop rfl
    simp only [stepR]; unfold get; split
    · simp [hmn]
    · rfl
  | stream m => rfl
  | call m =>
    simp only [stepR]; unfold call
    split
    · rfl
    · split <;> rfl

/-- after a closed connection is kept under `n`, and as long as the caller does not look `n` up again,
    every stream attempt on it answers Unavailable -/
theorem stale_runR {s : State} (h : Inv s) {n : Name} {g : Nat} (hh : s.handles n = some g) (hd : Dead s g)
    (more : List ROp) (hno : ∀ op ∈ more, op ≠ .get n) :
    stream (runR true s more).1 n = .unavailable := by
  induction more generalizing s with
  | nil => simp [runR, runWith, stream, hh, hd.2]
  | cons o os ih =>
    simp only [runR, runWith]
    have ho : o ≠ .get n := hno o (by simp)
    exact ih (inv_stepR h o) (by rw [handles_stepR h o n ho]; exact hh) (dead_stepR h hd o)
      (fun op hop => hno op (by simp [hop]))


/-! ### direct use of the pool (New / Get / controller Close in any order) -/

/-- Invariant of every state a direct pool history can reach (fixed code). -/
structure PInv (s : State) : Prop where
  /-- a pool entry is a fully constructed, open, unclosed controller stored under its own name -/
  entry : ∀ n g, s.conns n = some g →
    g < s.next ∧ s.ctrlTarget g = n ∧ s.clientSet g = true ∧ s.ctrlClosed g = false ∧ s.connOpen g = true
  /-- every open connection is the pool entry of its name (none is lost) -/
  openIn : ∀ g, s.connOpen g = true → s.conns (s.ctrlTarget g) = some g
  /-- controllers handed out are constructed, and open until they are closed -/
  issuedOk : ∀ g, g ∈ s.issued → g < s.next ∧ s.clientSet g = true ∧ (s.ctrlClosed g = false → s.connOpen g = true)
  closed_lt : ∀ g, s.ctrlClosed g = true → g < s.next
  client_lt : ∀ g, s.clientSet g = true → g < s.next
  calls_open : ∀ c g, s.calls c = some g → s.connOpen g = true
  calls_lt : ∀ c g, s.calls c = some g → c < s.nextCall

theorem pinv_init : PInv init := by
  constructor <;> simp [init]

theorem PInv.open_lt {s : State} (h : PInv s) {g : Nat} (ho : s.connOpen g = true) : g < s.next :=
  (h.entry _ g (h.openIn g ho)).1

/-- state after a successful `pool.New` of a name without entry -/
def pnewOkState (s : State) (n : Name) : State :=
  { s with next := s.next + 1, conns := upd s.conns n (some s.next), ctrlTarget := upd s.ctrlTarget s.next n,
           clientSet := upd s.clientSet s.next true, connOpen := upd s.connOpen s.next true,
           issued := s.issued ++ [s.next] }

theorem pnew_absent {s : State} (h : PInv s) (n : Name) (ok : Bool) (hn : s.conns n = none) :
    pnew true s n ok =
      if ok then (pnewOkState s n, .add .ok (some .absent))
      else (failedState s n, .add .conn (some .absent)) := by
  have hcl : s.clientSet s.next = false := by
    cases hc : s.clientSet s.next with
    | false => rfl
    | true => have := h.client_lt _ hc; omega
  cases ok with
  | true => simp [pnew, poolNew, poolReserve, hn, poolFinish, poolGet, pnewOkState, hcl]
  | false => simp [pnew, poolNew, poolReserve, hn, poolFinish, poolGet, failedState, hcl]

theorem pnew_present (s : State) (n : Name) (ok : Bool) (g : Nat) (hn : s.conns n = some g) :
    pnew true s n ok = (s, .add .dialed none) := by
  simp [pnew, poolNew, poolReserve, hn]

theorem pinv_pnewOk {s : State} (h : PInv s) (n : Name) (hn : s.conns n = none) : PInv (pnewOkState s n) := by
  have hclosed : s.ctrlClosed s.next = false := by
    cases hc : s.ctrlClosed s.next with
    | false => rfl
    | true => have := h.closed_lt _ hc; omega
  constructor
  · intro m g hg
    by_cases hm : m = n
    · subst hm
      simp [pnewOkState] at hg; subst hg
      simp [pnewOkState, hclosed]
    · simp [pnewOkState, hm] at hg
      have e := h.entry m g hg
      have hne : g ≠ s.next := by omega
      simp [pnewOkState, hne, e]; omega
  · intro g hg
    by_cases hgn : g = s.next
    · subst hgn; simp [pnewOkState]
    · simp [pnewOkState, hgn] at hg
      have o := h.openIn g hg
      have hne : s.ctrlTarget g ≠ n := by intro e; rw [e, hn] at o; cases o
      simp [pnewOkState, hgn, hne, o]
  · intro g hg
    simp [pnewOkState] at hg
    cases hg with
    | inl hg =>
      have i := h.issuedOk g hg
      have hne : g ≠ s.next := by omega
      simp [pnewOkState, hne, i.2.1]
      exact ⟨by omega, i.2.2⟩
    | inr hg => subst hg; simp [pnewOkState]
  · intro g hg; simp [pnewOkState] at hg ⊢; have := h.closed_lt g hg; omega
  · intro g hg
    by_cases hgn : g = s.next
    · simp [pnewOkState, hgn]
    · simp [pnewOkState, hgn] at hg ⊢; have := h.client_lt g hg; omega
  · intro c g hg
    simp [pnewOkState] at hg ⊢
    have := h.calls_open c g hg
    by_cases hgn : g = s.next <;> simp [hgn, this]
  · intro c g hg; simp [pnewOkState] at hg ⊢; exact h.calls_lt c g hg

theorem pinv_failed {s : State} (h : PInv s) (n : Name) (hn : s.conns n = none) : PInv (failedState s n) := by
  have e : failedState s n = { s with next := s.next + 1, ctrlTarget := upd s.ctrlTarget s.next n } := by
    simp [failedState, upd_upd_none _ _ _ hn]
  rw [e]
  constructor
  · intro m g hg
    have x := h.entry m g hg
    have hne : g ≠ s.next := by omega
    simp [hne, x]; omega
  · intro g hg
    have hlt := h.open_lt hg
    have hne : g ≠ s.next := by omega
    simp [hne]; exact h.openIn g hg
  · intro g hg
    have i := h.issuedOk g hg
    exact ⟨by simp; omega, i.2.1, i.2.2⟩
  · intro g hg; have := h.closed_lt g hg; simp; omega
  · intro g hg; have := h.client_lt g hg; simp; omega
  · exact h.calls_open
  · exact h.calls_lt

/-- state after closing the controller `g` -/
def closedState (s : State) (g : Nat) : State :=
  { s with ctrlClosed := upd s.ctrlClosed g true, conns := upd s.conns (s.ctrlTarget g) none,
           connOpen := upd s.connOpen g false,
           calls := fun c => if s.calls c = some g then none else s.calls c }

theorem pclose_live {s : State} (h : PInv s) (k g : Nat) (hk : s.issued[k]? = some g) (hc : s.ctrlClosed g = false) :
    pclose s k = (closedState s g, .closed) := by
  have i := h.issuedOk g (List.mem_of_getElem? hk)
  simp [pclose, hk, ctrlClose, hc, i.2.1, closedState]

theorem pclose_twice (s : State) (k g : Nat) (hk : s.issued[k]? = some g) (hc : s.ctrlClosed g = true) :
    pclose s k = (s, .panic) := by
  simp [pclose, hk, ctrlClose, hc]

theorem pclose_nosuch (s : State) (k : Nat) (hk : s.issued[k]? = none) : pclose s k = (s, .noSuch) := by
  simp [pclose, hk]

theorem pinv_closed {s : State} (h : PInv s) (g : Nat) (hi : g ∈ s.issued) (hc : s.ctrlClosed g = false) :
    PInv (closedState s g) := by
  have i := h.issuedOk g hi
  have ho : s.connOpen g = true := i.2.2 hc
  have own : s.conns (s.ctrlTarget g) = some g := h.openIn g ho
  constructor
  · intro m g' hg'
    by_cases hm : m = s.ctrlTarget g
    · simp [closedState, hm] at hg'
    · simp [closedState, hm] at hg'
      have e := h.entry m g' hg'
      have hne : g' ≠ g := by intro x; subst x; exact hm e.2.1.symm
      simp [closedState, hne, e]
  · intro g' hg'
    by_cases hgg : g' = g
    · simp [closedState, hgg] at hg'
    · simp [closedState, hgg] at hg'
      have o := h.openIn g' hg'
      have hne : s.ctrlTarget g' ≠ s.ctrlTarget g := by
        intro x; rw [x, own] at o; cases o; exact hgg rfl
      simp [closedState, hne, o]
  · intro g' hg'
    simp [closedState] at hg'
    have i' := h.issuedOk g' hg'
    refine ⟨by simp [closedState]; exact i'.1, by simp [closedState]; exact i'.2.1, ?_⟩
    by_cases hgg : g' = g
    · simp [closedState, hgg]
    · simp [closedState, hgg]; exact i'.2.2
  · intro g' hg'
    by_cases hgg : g' = g
    · simp [closedState, hgg]; exact i.1
    · simp [closedState, hgg] at hg' ⊢; exact h.closed_lt g' hg'
  · intro g' hg'; simp [closedState] at hg' ⊢; exact h.client_lt g' hg'
  · intro c g' hg'
    simp [closedState] at hg' ⊢
    have hne : g' ≠ g := by intro e; subst e; exact hg'.1 hg'.2
    simp [hne]; exact h.calls_open c g' hg'.2
  · intro c g' hg'
    simp [closedState] at hg' ⊢
    exact h.calls_lt c g' hg'.2

theorem pinv_handles {s : State} (h : PInv s) (f : Name → Option Nat) : PInv { s with handles := f } :=
  ⟨h.entry, h.openIn, h.issuedOk, h.closed_lt, h.client_lt, h.calls_open, h.calls_lt⟩

theorem pinv_call {s : State} (h : PInv s) (n : Name) : PInv (call s n).1 := by
  unfold call
  split
  · exact h
  · rename_i g hg
    split
    · rename_i ho
      refine ⟨h.entry, h.openIn, h.issuedOk, h.closed_lt, h.client_lt, ?_, ?_⟩
      · intro c g' hc
        by_cases hcc : c = s.nextCall
        · simp [hcc] at hc; subst hc; exact ho
        · simp [hcc] at hc; exact h.calls_open c g' hc
      · intro c g' hc
        by_cases hcc : c = s.nextCall
        · simp [hcc]
        · simp [hcc] at hc ⊢; have := h.calls_lt c g' hc; omega
    · exact h

theorem pinv_stepP {s : State} (h : PInv s) (op : POp) : PInv (stepP true s op).1 := by
  cases op with
  | new n ok =>
    simp only [stepP]
    cases hn : s.conns n with
    | some g => rw [pnew_present s n ok g hn]; exact h
    | none =>
      rw [pnew_absent h n ok hn]
      cases ok with
      | true => exact pinv_pnewOk h n hn
      | false => exact pinv_failed h n hn
  | close k =>
    simp only [stepP]
    cases hk : s.issued[k]? with
    | none => rw [pclose_nosuch s k hk]; exact h
    | some g =>
      cases hc : s.ctrlClosed g with
      | true => rw [pclose_twice s k g hk hc]; exact h
      | false => rw [pclose_live h k g hk hc]; exact pinv_closed h g (List.mem_of_getElem? hk) hc
  | get n =>
    simp only [stepP]; unfold GB.C16.get
    split
    · exact pinv_handles h _
    · exact h
  | stream n => exact h
  | call n => exact pinv_call h n

theorem pinv_runP {s : State} (h : PInv s) (ops : List POp) : PInv (runP true s ops).1 := by
  induction ops generalizing s with
  | nil => exact h
  | cons o os ih => simp only [runP, runWith]; exact ih (pinv_stepP h o)

theorem pinv_afterP (ops : List POp) : PInv (afterP true ops) := pinv_runP pinv_init ops


/-! ### the pool under concurrent use: every interleaving of the atomic steps of New / Get / Close -/

/-- pool state plus the `New` calls that are between their LoadOrStore and the return of the constructor -/
structure CState where
  s : State
  pending : List (Name × Nat)

/-- one atomic step of some goroutine -/
inductive CLabel
  /-- `New`: `conns.LoadOrStore(name, controller)` (stores a fresh controller, or finds one: ErrAlreadyDialed) -/
  | reserve (n : Name)
  /-- the constructor of the pending `New` of controller `g` returns (ok / error) and `New` completes -/
  | finish (n : Name) (g : Nat) (ok : Bool)
  /-- `Get` by any goroutine (a usable result is kept) -/
  | get (n : Name)
  /-- `Close` on a controller that was handed out (first or repeated call) -/
  | close (g : Nat)
  /-- a caller opens a call on a kept connection -/
  | call (n : Name)

/-- the pending list without the completed construction -/
def dropPending (l : List (Name × Nat)) (n : Name) (g : Nat) : List (Name × Nat) := l.filter (fun p => p ≠ (n, g))

theorem mem_dropPending (l : List (Name × Nat)) (n m : Name) (g g' : Nat) :
    (m, g') ∈ dropPending l n g ↔ (m, g') ∈ l ∧ ¬ (m = n ∧ g' = g) := by
  simp only [dropPending, List.mem_filter, decide_eq_true_eq, ne_eq, Prod.mk.injEq]

def cinit : CState := { s := init, pending := [] }

def cstep (c : CState) : CLabel → Option CState
  | .reserve n =>
    match poolReserve c.s n with
    | none => some c
    | some s1 => some { s := s1, pending := (n, c.s.next) :: c.pending }
  | .finish n g ok =>
    if (n, g) ∈ c.pending then
      let s1 := poolFinish true c.s n g ok
      some { s := if ok then { s1 with issued := s1.issued ++ [g] } else s1,
             pending := dropPending c.pending n g }
    else none
  | .get n => some { c with s := (get true c.s n).1 }
  | .close g =>
    if g ∈ c.s.issued then
      match ctrlClose c.s g with
      | none => some c            -- panics in the calling goroutine; the pool is untouched
      | some s' => some { c with s := s' }
    else none
  | .call n => some { c with s := (call c.s n).1 }

structure CInv (c : CState) : Prop where
  /-- a pool entry is an unclosed controller under its own name: either complete (client stored,
      connection open) or a reservation whose constructor is still running -/
  entry : ∀ n g, c.s.conns n = some g →
    g < c.s.next ∧ c.s.ctrlTarget g = n ∧ c.s.ctrlClosed g = false ∧
    ((c.s.clientSet g = true ∧ c.s.connOpen g = true ∧ (n, g) ∉ c.pending) ∨
     (c.s.clientSet g = false ∧ c.s.connOpen g = false ∧ (n, g) ∈ c.pending))
  /-- a running construction still holds its reservation -/
  pend : ∀ n g, (n, g) ∈ c.pending → c.s.conns n = some g
  openIn : ∀ g, c.s.connOpen g = true → c.s.conns (c.s.ctrlTarget g) = some g
  issuedOk : ∀ g, g ∈ c.s.issued →
    g < c.s.next ∧ c.s.clientSet g = true ∧ (c.s.ctrlClosed g = false → c.s.connOpen g = true)
  closed_lt : ∀ g, c.s.ctrlClosed g = true → g < c.s.next
  client_lt : ∀ g, c.s.clientSet g = true → g < c.s.next

theorem cinv_init : CInv cinit := by
  constructor <;> simp [cinit, init]

theorem cinv_step (c : CState) (l : CLabel) (c' : CState) (h : CInv c) (hs : cstep c l = some c') : CInv c' := by
  cases l with
  | reserve n =>
    simp only [cstep, poolReserve] at hs
    cases hn : c.s.conns n with
    | some g => simp [hn] at hs; subst hs; exact h
    | none =>
      simp [hn] at hs; subst hs
      have hcl : c.s.clientSet c.s.next = false := by
        cases hc : c.s.clientSet c.s.next with
        | false => rfl
        | true => have := h.client_lt _ hc; omega
      have hclosed : c.s.ctrlClosed c.s.next = false := by
        cases hc : c.s.ctrlClosed c.s.next with
        | false => rfl
        | true => have := h.closed_lt _ hc; omega
      have hopen : c.s.connOpen c.s.next = false := by
        cases hc : c.s.connOpen c.s.next with
        | false => rfl
        | true => have := (h.entry _ _ (h.openIn _ hc)).1; omega
      constructor
      · intro m g hg
        by_cases hm : m = n
        · subst hm
          simp at hg; subst hg
          simp [hcl, hclosed, hopen]
        · simp [hm] at hg
          have e := h.entry m g hg
          have hne : g ≠ c.s.next := by omega
          simp [hne, hm, e.2.1, e.2.2.1]
          refine ⟨by omega, ?_⟩
          exact e.2.2.2
      · intro m g hg
        simp at hg
        cases hg with
        | inl hg => obtain ⟨a, b⟩ := hg; subst a; subst b; simp
        | inr hg =>
          have p := h.pend m g hg
          have hm : m ≠ n := by intro e; subst e; rw [hn] at p; cases p
          simp [hm, p]
      · intro g hg
        simp at hg
        have hlt := (h.entry _ _ (h.openIn _ hg)).1
        have hne : g ≠ c.s.next := by omega
        have o := h.openIn g hg
        have hne2 : c.s.ctrlTarget g ≠ n := by intro e; rw [e, hn] at o; cases o
        simp [hne, hne2, o]
      · intro g hg
        simp at hg
        have i := h.issuedOk g hg
        exact ⟨by simp; omega, by simpa using i.2.1, by simpa using i.2.2⟩
      · intro g hg; simp at hg ⊢; have := h.closed_lt g hg; omega
      · intro g hg; simp at hg ⊢; have := h.client_lt g hg; omega
  | finish n g ok =>
    simp only [cstep] at hs
    by_cases hp : (n, g) ∈ c.pending
    · simp [hp] at hs; subst hs
      have hc := h.pend n g hp
      have e := h.entry n g hc
      have hpend : c.s.clientSet g = false ∧ c.s.connOpen g = false := by
        cases e.2.2.2 with
        | inl x => exact absurd hp x.2.2
        | inr x => exact ⟨x.1, x.2.1⟩
      cases ok with
      | true =>
        simp [poolFinish]
        constructor
        · intro m g' hg'
          simp at hg'
          have e' := h.entry m g' hg'
          by_cases hgg : g' = g
          · subst hgg
            have hm : m = n := by rw [← e'.2.1, e.2.1]
            subst hm
            simp [e'.1, e'.2.1, e'.2.2.1]
            exact fun hx => ((mem_dropPending _ _ _ _ _).mp hx).2 ⟨rfl, rfl⟩
          · simp [hgg, e'.1, e'.2.1, e'.2.2.1]
            cases e'.2.2.2 with
            | inl x => left; exact ⟨x.1, x.2.1, fun hx => x.2.2 ((mem_dropPending _ _ _ _ _).mp hx).1⟩
            | inr x => right; exact ⟨x.1, x.2.1, (mem_dropPending _ _ _ _ _).mpr ⟨x.2.2, fun hx => hgg hx.2⟩⟩
        · intro m g' hg'
          simp at hg' ⊢
          exact h.pend m g' ((mem_dropPending _ _ _ _ _).mp hg').1
        · intro g' hg'
          by_cases hgg : g' = g
          · subst hgg; simp; rw [e.2.1]; exact hc
          · simp [hgg] at hg'; simp; exact h.openIn g' hg'
        · intro g' hg'
          simp at hg'
          cases hg' with
          | inl hg' =>
            have i := h.issuedOk g' hg'
            have hgg : g' ≠ g := by intro x; subst x; rw [hpend.1] at i; cases i.2.1
            simp [hgg]; exact i
          | inr hg' => subst hg'; simp; exact e.1
        · intro g' hg'; simp at hg' ⊢; exact h.closed_lt g' hg'
        · intro g' hg'
          by_cases hgg : g' = g
          · subst hgg; simp; exact e.1
          · simp [hgg] at hg' ⊢; exact h.client_lt g' hg'
      | false =>
        simp [poolFinish, hc]
        constructor
        · intro m g' hg'
          by_cases hm : m = n
          · simp [hm] at hg'
          · simp [hm] at hg'
            have e' := h.entry m g' hg'
            refine ⟨e'.1, e'.2.1, e'.2.2.1, ?_⟩
            cases e'.2.2.2 with
            | inl x => left; exact ⟨x.1, x.2.1, fun hx => x.2.2 ((mem_dropPending _ _ _ _ _).mp hx).1⟩
            | inr x => right; exact ⟨x.1, x.2.1, (mem_dropPending _ _ _ _ _).mpr ⟨x.2.2, fun hx => hm hx.1⟩⟩
        · intro m g' hg'
          have hg2 := (mem_dropPending _ _ _ _ _).mp hg'
          have p := h.pend m g' hg2.1
          have hm : m ≠ n := by
            intro x; subst x
            rw [hc] at p; cases p
            exact hg2.2 ⟨rfl, rfl⟩
          simp [hm, p]
        · intro g' hg'
          have o := h.openIn g' hg'
          have hne : c.s.ctrlTarget g' ≠ n := by
            intro x; rw [x, hc] at o; cases o
            rw [hpend.2] at hg'; cases hg'
          simp [hne, o]
        · exact h.issuedOk
        · exact h.closed_lt
        · exact h.client_lt
    · simp [hp] at hs
  | get n =>
    simp only [cstep] at hs
    cases hs
    unfold GB.C16.get
    split
    · exact ⟨h.entry, h.pend, h.openIn, h.issuedOk, h.closed_lt, h.client_lt⟩
    · exact h
  | close g =>
    simp only [cstep] at hs
    by_cases hi : g ∈ c.s.issued
    · simp [hi] at hs
      have i := h.issuedOk g hi
      cases hcl : c.s.ctrlClosed g with
      | true => simp [ctrlClose, hcl] at hs; subst hs; exact h
      | false =>
        simp [ctrlClose, hcl, i.2.1] at hs; subst hs
        have ho : c.s.connOpen g = true := i.2.2 hcl
        have own : c.s.conns (c.s.ctrlTarget g) = some g := h.openIn g ho
        constructor
        · intro m g' hg'
          by_cases hm : m = c.s.ctrlTarget g
          · simp [hm] at hg'
          · simp [hm] at hg'
            have e := h.entry m g' hg'
            have hne : g' ≠ g := by intro x; subst x; exact hm e.2.1.symm
            simp [hne]
            exact e
        · intro m g' hg'
          have p := h.pend m g' hg'
          have hm : m ≠ c.s.ctrlTarget g := by
            intro x; subst x
            rw [own] at p; cases p
            have e := h.entry _ _ own
            cases e.2.2.2 with
            | inl x => exact x.2.2 hg'
            | inr x => rw [x.1] at i; cases i.2.1
          simp [hm, p]
        · intro g' hg'
          by_cases hgg : g' = g
          · simp [hgg] at hg'
          · simp [hgg] at hg'
            have o := h.openIn g' hg'
            have hne : c.s.ctrlTarget g' ≠ c.s.ctrlTarget g := by
              intro x; rw [x, own] at o; cases o; exact hgg rfl
            simp [hne, o]
        · intro g' hg'
          have i' := h.issuedOk g' hg'
          refine ⟨i'.1, i'.2.1, ?_⟩
          by_cases hgg : g' = g
          · simp [hgg]
          · simp [hgg]; exact i'.2.2
        · intro g' hg'
          by_cases hgg : g' = g
          · subst hgg; exact i.1
          · simp [hgg] at hg'; exact h.closed_lt g' hg'
        · exact h.client_lt
    · simp [hi] at hs
  | call n =>
    simp only [cstep] at hs
    cases hs
    unfold GB.C16.call
    split
    · exact h
    · split
      · exact ⟨h.entry, h.pend, h.openIn, h.issuedOk, h.closed_lt, h.client_lt⟩
      · exact h

theorem cinv_reachable (c : CState) (h : GB.LTS.Reachable cstep cinit c) : CInv c :=
  GB.LTS.invariant cstep cinit CInv cinv_init cinv_step c h


/-! ### counting: number of live objects = cardinality of `present` -/

/-- number of k < N with f k -/
def cnt (f : Nat → Bool) : Nat → Nat
  | 0 => 0
  | N + 1 => cnt f N + (if f N then 1 else 0)

theorem filter_range_length (f : Nat → Bool) (N : Nat) : ((List.range N).filter f).length = cnt f N := by
  induction N with
  | zero => rfl
  | succ N ih =>
    rw [List.range_succ, List.filter_append, List.length_append, ih]
    cases h : f N <;> simp [cnt, h]

theorem cnt_congr (f g : Nat → Bool) (N : Nat) (h : ∀ k, k < N → f k = g k) : cnt f N = cnt g N := by
  induction N with
  | zero => rfl
  | succ N ih =>
    simp only [cnt]
    rw [ih (fun k hk => h k (by omega)), h N (by omega)]

theorem cnt_upd_ge (f : Nat → Bool) (k N : Nat) (b : Bool) (h : N ≤ k) : cnt (upd f k b) N = cnt f N :=
  cnt_congr _ _ _ (fun x hx => by simp [upd]; intro e; omega)

theorem cnt_upd_true (f : Nat → Bool) (k N : Nat) (hk : k < N) (hf : f k = false) :
    cnt (upd f k true) N = cnt f N + 1 := by
  induction N with
  | zero => omega
  | succ N ih =>
    simp only [cnt]
    by_cases e : k = N
    · subst e
      rw [cnt_upd_ge f k k true (Nat.le_refl _)]
      simp [hf]
    · have : k < N := by omega
      rw [ih this]
      have : upd f k true N = f N := by simp [upd]; intro x; omega
      rw [this]; omega

theorem cnt_upd_false (f : Nat → Bool) (k N : Nat) (hk : k < N) (hf : f k = true) :
    cnt (upd f k false) N + 1 = cnt f N := by
  induction N with
  | zero => omega
  | succ N ih =>
    simp only [cnt]
    by_cases e : k = N
    · subst e
      rw [cnt_upd_ge f k k false (Nat.le_refl _)]
      simp [hf]
    · have : k < N := by omega
      have h2 : upd f k false N = f N := by simp [upd]; intro x; omega
      rw [h2]
      have := ih this
      omega

/-- the `present` indicator of a state -/
def presentB (s : State) : Nat → Bool := fun n => (s.targets n).isSome

/-- every live-object census equals the number of present names below `N` -/
structure Counts (s : State) (N : Nat) : Prop where
  polling : cnt s.polling s.next = cnt (presentB s) N
  conn : cnt s.connOpen s.next = cnt (presentB s) N
  pw : cnt s.pwOpen s.next = cnt (presentB s) N
  sw : cnt s.swOpen s.next = cnt (presentB s) N

def opName : ROp → Name
  | .add n _ => n | .remove n => n | .get n => n | .stream n => n | .call n => n

theorem presentB_upd_some (s s' : State) (n g : Nat) (e : s'.targets = upd s.targets n (some g)) :
    presentB s' = upd (presentB s) n true := by
  funext m; by_cases h : m = n <;> simp [upd, presentB, h, e]

theorem presentB_upd_none (s s' : State) (n : Nat) (e : s'.targets = upd s.targets n none) :
    presentB s' = upd (presentB s) n false := by
  funext m; by_cases h : m = n <;> simp [upd, presentB, h, e]

theorem counts_stepR {s : State} {N : Nat} (h : Inv s) (hc : Counts s N) (op : ROp) (hn : opName op < N) :
    Counts (stepR true s op).1 N := by
  have hf := h.fresh
  cases op with
  | add n o =>
    simp only [opName] at hn
    cases ht : s.targets n with
    | some g => simp [stepR, add_present s n o g ht]; exact hc
    | none =>
      simp only [stepR]
      rw [add_absent h n o ht]
      have hp : presentB s n = false := by simp [presentB, ht]
      cases o with
      | ok =>
        have key : ∀ f : Nat → Bool, f s.next = false → cnt f s.next = cnt (presentB s) N →
            cnt (upd f s.next true) (s.next + 1) = cnt (upd (presentB s) n true) N := by
          intro f hfn e
          rw [cnt_upd_true f s.next (s.next + 1) (by omega) hfn, cnt_upd_true (presentB s) n N hn hp]
          simp [cnt, hfn, e]
        constructor
        · rw [presentB_upd_some s (addedState s n) n s.next rfl]; exact key _ hf.1 hc.polling
        · rw [presentB_upd_some s (addedState s n) n s.next rfl]; exact key _ hf.2.1 hc.conn
        · rw [presentB_upd_some s (addedState s n) n s.next rfl]; exact key _ hf.2.2.1 hc.pw
        · rw [presentB_upd_some s (addedState s n) n s.next rfl]; exact key _ hf.2.2.2.1 hc.sw
      | fail =>
        have key : ∀ f : Nat → Bool, f s.next = false → cnt f s.next = cnt (presentB s) N →
            cnt f (s.next + 1) = cnt (presentB s) N := by
          intro f hfn e; simp [cnt, hfn, e]
        constructor
        · exact key _ hf.1 hc.polling
        · exact key _ hf.2.1 hc.conn
        · exact key _ hf.2.2.1 hc.pw
        · exact key _ hf.2.2.2.1 hc.sw
      | opts => exact hc
  | remove n =>
    simp only [opName] at hn
    cases ht : s.targets n with
    | some g =>
      simp only [stepR]; rw [remove_present h n g ht]
      have l := h.live n g ht
      have hp : presentB s n = true := by simp [presentB, ht]
      have key : ∀ f : Nat → Bool, f g = true → cnt f s.next = cnt (presentB s) N →
          cnt (upd f g false) s.next = cnt (upd (presentB s) n false) N := by
        intro f hfg e
        have a := cnt_upd_false f g s.next l.1 hfg
        have b := cnt_upd_false (presentB s) n N hn hp
        omega
      constructor
      · rw [presentB_upd_none s (removedState s n g) n rfl]; exact key _ l.2.2.2.2.2.2.2 hc.polling
      · rw [presentB_upd_none s (removedState s n g) n rfl]; exact key _ l.2.2.2.2.1 hc.conn
      · rw [presentB_upd_none s (removedState s n g) n rfl]; exact key _ l.2.2.2.2.2.1 hc.pw
      · rw [presentB_upd_none s (removedState s n g) n rfl]; exact key _ l.2.2.2.2.2.2.1 hc.sw
    | none => simp only [stepR]; rw [remove_absent s n ht]; exact hc
  | get n =>
    simp only [stepR]; unfold GB.C16.get
    split
    · exact ⟨hc.polling, hc.conn, hc.pw, hc.sw⟩
    · exact hc
  | stream n => exact hc
  | call n =>
    simp only [stepR]; unfold GB.C16.call
    split
    · exact hc
    · split
      · exact ⟨hc.polling, hc.conn, hc.pw, hc.sw⟩
      · exact hc

theorem counts_init (N : Nat) : Counts init N := by
  have : ∀ N, cnt (fun _ => false) N = 0 := by
    intro N; induction N with
    | zero => rfl
    | succ N ih => simp [cnt, ih]
  have hp : presentB init = fun _ => false := by funext m; simp [presentB, init]
  constructor <;> (rw [hp, this]; simp [init, cnt])

theorem counts_runR {s : State} {N : Nat} (h : Inv s) (hc : Counts s N) (ops : List ROp)
    (hn : ∀ op ∈ ops, opName op < N) : Counts (runR true s ops).1 N := by
  induction ops generalizing s with
  | nil => exact hc
  | cons o os ih =>
    simp only [runR, runWith]
    exact ih (inv_stepR h o) (counts_stepR h hc o (hn o (by simp))) (fun op hop => hn op (by simp [hop]))


theorem absent_stepR {s : State} (h : Inv s) (op : ROp) (n : Name) (hop : opName op ≠ n) (hn : s.targets n = none) :
    (stepR true s op).1.targets n = none := by
  cases op with
  | add m o =>
    simp only [opName] at hop
    have hnm : n ≠ m := fun e => hop e.symm
    cases ht : s.targets m with
    | some g => simp [stepR, add_present s m o g ht, hn]
    | none =>
      simp only [stepR]; rw [add_absent h m o ht]
      cases o <;> simp [addedState, failedState, hnm, hn]
  | remove m =>
    simp only [opName] at hop
    have hnm : n ≠ m := fun e => hop e.symm
    cases ht : s.targets m with
    | some g => simp only [stepR]; rw [remove_present h m g ht]; simp [removedState, hnm, hn]
    | none => simp only [stepR]; rw [remove_absent s m ht]; exact hn
  | get m => simp only [stepR]; unfold GB.C16.get; split <;> exact hn
  | stream m => exact hn
  | call m =>
    simp only [stepR]; unfold GB.C16.call
    split
    · exact hn
    · split <;> exact hn

theorem absent_runR {s : State} (h : Inv s) (ops : List ROp) (n : Name) (hop : ∀ op ∈ ops, opName op ≠ n)
    (hn : s.targets n = none) : (runR true s ops).1.targets n = none := by
  induction ops generalizing s with
  | nil => exact hn
  | cons o os ih =>
    simp only [runR, runWith]
    exact ih (inv_stepR h o) (fun op ho => hop op (by simp [ho])) (absent_stepR h o n (hop o (by simp)) hn)

end GB.C16

namespace GB.C16.Conn
open GB GB.C16

/-! ### Close racing Stream: invariant -/

def WF (p : PState) : Prop := p = PState.live ∨ p = PState.closed

structure RInv (s : RState) : Prop where
  ptr_wf : WF s.ptr
  closed_grpc : s.ptr = PState.closed → s.grpcClosed = true
  snap_wf : ∀ i p, (s.spc i = .loaded p ∨ s.spc i = .waited p) → WF p
  csnap_wf : ∀ j p, s.cpc j = .loaded p → WF p
  no_nil : ∀ i r, s.spc i = .done r → r ≠ .nilDeref
  /-- a Close goroutine that is past conn.Close() has closed the gRPC connection -/
  past_close : ∀ j, s.cpc j = .closedGrpc → s.grpcClosed = true

theorem rinv_init : RInv rinit := by
  constructor <;> simp [rinit, WF, PState.live, PState.closed]

theorem rinv_step (s : RState) (l : RLabel) (s' : RState) (h : RInv s) (hs : rstep s l = some s') : RInv s' := by
  cases l with
  | stream i =>
    simp only [rstep] at hs
    cases hp : s.spc i with
    | idle =>
      simp [hp] at hs; subst hs
      refine ⟨h.ptr_wf, h.closed_grpc, ?_, h.csnap_wf, ?_, h.past_close⟩
      · intro k p hk
        by_cases e : k = i
        · subst e; simp at hk; subst hk; exact h.ptr_wf
        · simp [e] at hk; exact h.snap_wf k p hk
      · intro k r hk
        by_cases e : k = i
        · subst e; simp at hk
        · simp [e] at hk; exact h.no_nil k r hk
    | loaded p =>
      simp [hp] at hs; subst hs
      refine ⟨h.ptr_wf, h.closed_grpc, ?_, h.csnap_wf, ?_, h.past_close⟩
      · intro k q hk
        by_cases e : k = i
        · subst e; simp at hk; subst hk; exact h.snap_wf k p (Or.inl hp)
        · simp [e] at hk; exact h.snap_wf k q hk
      · intro k r hk
        by_cases e : k = i
        · subst e; simp at hk
        · simp [e] at hk; exact h.no_nil k r hk
    | waited p =>
      simp [hp] at hs; subst hs
      have wf := h.snap_wf i p (Or.inr hp)
      refine ⟨h.ptr_wf, h.closed_grpc, ?_, h.csnap_wf, ?_, h.past_close⟩
      · intro k q hk
        by_cases e : k = i
        · subst e; simp at hk
        · simp [e] at hk; exact h.snap_wf k q hk
      · intro k r hk
        by_cases e : k = i
        · subst e
          simp at hk; subst hk
          cases wf with
          | inl w => subst w; simp [PState.live]; split <;> simp
          | inr w => subst w; simp [PState.closed]
        · simp [e] at hk; exact h.no_nil k r hk
    | done r => simp [hp] at hs
  | close j =>
    simp only [rstep] at hs
    cases hp : s.cpc j with
    | idle =>
      simp [hp] at hs; subst hs
      refine ⟨h.ptr_wf, h.closed_grpc, h.snap_wf, ?_, h.no_nil, ?_⟩
      · intro k p hk
        by_cases e : k = j
        · subst e; simp at hk; subst hk; exact h.ptr_wf
        · simp [e] at hk; exact h.csnap_wf k p hk
      · intro k hk
        by_cases e : k = j
        · subst e; simp at hk
        · simp [e] at hk; exact h.past_close k hk
    | loaded p =>
      simp [hp] at hs
      by_cases hc : p.conn = true
      · simp [hc] at hs; subst hs
        refine ⟨h.ptr_wf, fun _ => rfl, h.snap_wf, ?_, h.no_nil, fun _ _ => rfl⟩
        intro k q hk
        by_cases e : k = j
        · subst e; simp at hk
        · simp [e] at hk; exact h.csnap_wf k q hk
      · simp [hc] at hs; subst hs
        refine ⟨h.ptr_wf, h.closed_grpc, h.snap_wf, ?_, h.no_nil, ?_⟩
        · intro k q hk
          by_cases e : k = j
          · subst e; simp at hk
          · simp [e] at hk; exact h.csnap_wf k q hk
        · intro k hk
          by_cases e : k = j
          · subst e; simp at hk
          · simp [e] at hk; exact h.past_close k hk
    | closedGrpc =>
      simp [hp] at hs; subst hs
      refine ⟨Or.inr rfl, fun _ => h.past_close j hp, h.snap_wf, ?_, h.no_nil, ?_⟩
      · intro k q hk
        by_cases e : k = j
        · subst e; simp at hk
        · simp [e] at hk; exact h.csnap_wf k q hk
      · intro k hk
        by_cases e : k = j
        · subst e; simp at hk
        · simp [e] at hk; exact h.past_close k hk
    | done => simp [hp] at hs

theorem rinv_reachable (s : RState) (h : GB.LTS.Reachable rstep rinit s) : RInv s :=
  GB.LTS.invariant rstep rinit RInv rinv_init rinv_step s h

end GB.C16.Conn
