import GB.Base.LTS
import GB.C16.Model
/-
  C16 — Add ‖ Remove over ANY names on the full concrete state (`GB.C16.State`: targets map, pool map, controller
  fields, connection objects, both watcher sets + watcher objects, pollers — every object with its allocation id).

  `micro` is `ReflectionRouter.Add` / `Remove` cut into their atomic statements (program counter `Pc` = the
  statement executed NEXT, with the local variables it has bound so far):

    Add(n, o):  targets[n]? / option check · conns.LoadOrStore · constructor returns (client stored | reservation
                released) · patternRouter.Watch · serviceRouter.Watch · resolverBuilder.Build · targets[n] = … · return
    Remove(n):  targets[n]? · PatternRouterWatcher.Close · ServiceRouterWatcher.Close · Resolver.Close (blocks while
                the poller is busy) · poolController.Close · delete(targets, n) · return

  `mstep` is the LTS of any number of goroutines calling Add / Remove of any names: `lock i op` (r.mu.Lock() taken by
  goroutine i, enabled only while the mutex is free), `step i` (the holder's next statement), `unlock i` (deferred
  r.mu.Unlock() + return), and the environment `pollerBusy g / pollerIdle g`.  The lock scope is the one the
  regenerated facts `c16AddTrace` / `c16RemoveTrace` pin (lock first, deferred unlock).
-/
namespace GB.C16.Lts
open GB GB.C16

inductive Op | add (n : Name) (o : Outcome) | remove (n : Name)
  deriving DecidableEq, Repr

def Op.toROp : Op → ROp
  | .add n o => .add n o
  | .remove n => .remove n

inductive Pc
  | aCheck (n : Name) (o : Outcome)                     -- if _, ok := r.targets[name]; len(opts) > 0
  | aReserve (n : Name) (ok : Bool)                     -- conns.LoadOrStore(name, controller)
  | aFinish (n : Name) (g : Nat) (ok : Bool)            -- NewClientFunc returned: client.Store | CompareAndDelete
  | aWatchP (n : Name) (g : Nat) (pr : Option GetRes)   -- patternRouter.Watch(name)
  | aWatchS (n : Name) (g : Nat) (pr : Option GetRes)   -- serviceRouter.Watch(name)
  | aBuild (n : Name) (g : Nat) (pr : Option GetRes)    -- resolverBuilder.Build: go r.watch()
  | aInsert (n : Name) (g : Nat) (pr : Option GetRes)   -- r.targets[name] = targetState{…}
  | rLookup (n : Name)                                  -- target, ok := r.targets[name]
  | rClosePW (n : Name) (g : Nat)                       -- PatternRouterWatcher.Close()
  | rCloseSW (n : Name) (g : Nat)                       -- ServiceRouterWatcher.Close()
  | rCloseRes (n : Name) (g : Nat)                      -- Resolver.Close()
  | rCloseCtrl (n : Name) (g : Nat)                     -- poolController.Close()
  | rDelete (n : Name) (g : Nat)                        -- delete(r.targets, name)
  | ret (r : Res)                                       -- deferred Unlock, return r
  deriving DecidableEq, Repr

def startPc : Op → Pc
  | .add n o => .aCheck n o
  | .remove n => .rLookup n

/-- one atomic statement of the lock holder -/
def micro (s : State) : Pc → State × Pc
  | .aCheck n o =>
    match s.targets n with
    | some _ => (s, .ret (.add .dup none))
    | none => if o = .opts then (s, .ret (.add .opts none)) else (s, .aReserve n (o = .ok))
  | .aReserve n ok =>
    match poolReserve s n with
    | none => (s, .ret (.add .dialed none))
    | some s1 => (s1, .aFinish n s.next ok)
  | .aFinish n g ok =>
    if ok then (poolFinish true s n g ok, .aWatchP n g (some (poolGet true s n)))
    else (poolFinish true s n g ok, .ret (.add .conn (some (poolGet true s n))))
  | .aWatchP n g pr =>
    if s.patternSet n then (s, .ret (.add .watchP pr))
    else ({ s with patternSet := upd s.patternSet n true, pwOpen := upd s.pwOpen g true }, .aWatchS n g pr)
  | .aWatchS n g pr =>
    if s.serviceSet n then (s, .ret (.add .watchS pr))
    else ({ s with serviceSet := upd s.serviceSet n true, swOpen := upd s.swOpen g true }, .aBuild n g pr)
  | .aBuild n g pr => ({ s with polling := upd s.polling g true }, .aInsert n g pr)
  | .aInsert n g pr => ({ s with targets := upd s.targets n (some g) }, .ret (.add .ok pr))
  | .rLookup n =>
    match s.targets n with
    | none => (s, .ret .notPresent)
    | some g => (s, .rClosePW n g)
  | .rClosePW n g =>
    if !s.pwOpen g then (s, .ret .panic)
    else ({ s with pwOpen := upd s.pwOpen g false, patternSet := upd s.patternSet n false }, .rCloseSW n g)
  | .rCloseSW n g =>
    if !s.swOpen g then (s, .ret .panic)
    else ({ s with swOpen := upd s.swOpen g false, serviceSet := upd s.serviceSet n false }, .rCloseRes n g)
  | .rCloseRes n g =>
    if !s.polling g then (s, .ret .panic)
    else ({ s with polling := upd s.polling g false }, .rCloseCtrl n g)
  | .rCloseCtrl n g =>
    match ctrlClose s g with
    | none => (s, .ret .panic)
    | some s4 => (s4, .rDelete n g)
  | .rDelete n _ => ({ s with targets := upd s.targets n none }, .ret .removed)
  | .ret r => (s, .ret r)

/-- the first `k` statements of an operation -/
def iter : Nat → State × Pc → State × Pc
  | 0, x => x
  | k + 1, x => micro (iter k x).1 (iter k x).2

structure MState where
  st : State
  /-- who holds `r.mu`, which call it is in, and where -/
  hold : Option (Nat × Op × Pc)
  /-- the poller of generation g is in the middle of something (resolution, watcher update, logging) -/
  busy : Nat → Bool
  /-- completed calls in unlock order, and what they returned -/
  log : List Op
  results : List Res
  /-- answers of the lock-free `pool.Get` calls made so far by any goroutine: (caller, name, answer), in order -/
  got : List (Nat × Name × GetRes) := []

def minit : MState := { st := init, hold := none, busy := fun _ => false, log := [], results := [], got := [] }

/-- what `AdaptedClientPool.Get(n)` answers at this instant: a `sync.Map.Load` on `conns` + the client check of the
    fixed code (D17); it takes no lock, so it reads the CURRENT concrete state, mid-Add / mid-Remove included -/
def getRet (m : MState) (n : Name) : GetRes := poolGet true m.st n

inductive Label
  | lock (i : Nat) (op : Op)
  | step (i : Nat)
  | unlock (i : Nat)
  | pollerBusy (g : Nat) | pollerIdle (g : Nat)
  /-- lock-free `pool.Get n` by goroutine `i` (may be the lock holder's sibling, a request handler, …) -/
  | get (i : Nat) (n : Name)
  deriving DecidableEq, Repr

/-- `Resolver.Close` blocks in `r.done <- struct{}{}` while the poller is busy; a returned call has no next statement -/
def blocked (m : MState) : Pc → Bool
  | .rCloseRes _ g => m.busy g
  | .ret _ => true
  | _ => false

def mstep (m : MState) : Label → Option MState
  | .lock i op =>
    match m.hold with
    | some _ => none
    | none => some { m with hold := some (i, op, startPc op) }
  | .step i =>
    match m.hold with
    | none => none
    | some (j, op, pc) =>
      if j = i ∧ blocked m pc = false then
        some { m with st := (micro m.st pc).1, hold := some (j, op, (micro m.st pc).2) }
      else none
  | .unlock i =>
    match m.hold with
    | some (j, op, .ret r) =>
      if j = i then some { m with hold := none, log := m.log ++ [op], results := m.results ++ [r] } else none
    | _ => none
  | .pollerBusy g => if m.st.polling g then some { m with busy := upd m.busy g true } else none
  | .pollerIdle g => some { m with busy := upd m.busy g false }
  -- enabled in EVERY state (no lock, no blocking); the concrete state is untouched, the answer is recorded
  | .get i n => some { m with got := m.got ++ [(i, n, getRet m n)] }

/-- the sequential state after the completed calls -/
def base (m : MState) : State := afterR true (m.log.map Op.toROp)

/-! ### the in-flight operation's partial work, written out -/

/-- state after the first `j` statements of a successful `Add(n)` of an absent name (`g = s.next`):
    1 = lookup, 2 = reservation stored, 3 = client stored + connection open, 4 = pattern watcher, 5 = service watcher,
    6 = poller started, 7 = inserted into `targets` -/
def partialAdd (s : State) (n : Name) (j : Nat) : State :=
  let g := s.next
  let s2 : State := if 2 ≤ j then { s with next := s.next + 1, conns := upd s.conns n (some g), ctrlTarget := upd s.ctrlTarget g n } else s
  let s3 : State := if 3 ≤ j then { s2 with clientSet := upd s2.clientSet g true, connOpen := upd s2.connOpen g true } else s2
  let s4 : State := if 4 ≤ j then { s3 with patternSet := upd s3.patternSet n true, pwOpen := upd s3.pwOpen g true } else s3
  let s5 : State := if 5 ≤ j then { s4 with serviceSet := upd s4.serviceSet n true, swOpen := upd s4.swOpen g true } else s4
  let s6 : State := if 6 ≤ j then { s5 with polling := upd s5.polling g true } else s5
  if 7 ≤ j then { s6 with targets := upd s6.targets n (some g) } else s6

def pcAdd (s : State) (n : Name) (j : Nat) : Pc :=
  match j with
  | 0 => .aCheck n .ok
  | 1 => .aReserve n true
  | 2 => .aFinish n s.next true
  | 3 => .aWatchP n s.next (some .absent)
  | 4 => .aWatchS n s.next (some .absent)
  | 5 => .aBuild n s.next (some .absent)
  | 6 => .aInsert n s.next (some .absent)
  | _ => .ret (.add .ok (some .absent))

/-- state after the first `j` statements of `Remove(n)` of a present name with generation `g`:
    1 = lookup, 2 = pattern watcher closed, 3 = service watcher closed, 4 = poller stopped, 5 = pool entry deleted +
    connection closed (its calls ended), 6 = deleted from `targets` -/
def partialRemove (s : State) (n : Name) (g : Nat) (j : Nat) : State :=
  let s2 : State := if 2 ≤ j then { s with pwOpen := upd s.pwOpen g false, patternSet := upd s.patternSet n false } else s
  let s3 : State := if 3 ≤ j then { s2 with swOpen := upd s2.swOpen g false, serviceSet := upd s2.serviceSet n false } else s2
  let s4 : State := if 4 ≤ j then { s3 with polling := upd s3.polling g false } else s3
  let s5 : State := if 5 ≤ j then
      { s4 with ctrlClosed := upd s4.ctrlClosed g true, conns := upd s4.conns (s4.ctrlTarget g) none,
                connOpen := upd s4.connOpen g false,
                calls := fun c => if s4.calls c = some g then none else s4.calls c } else s4
  if 6 ≤ j then { s5 with targets := upd s5.targets n none } else s5

def pcRemove (n : Name) (g : Nat) (j : Nat) : Pc :=
  match j with
  | 0 => .rLookup n
  | 1 => .rClosePW n g
  | 2 => .rCloseSW n g
  | 3 => .rCloseRes n g
  | 4 => .rCloseCtrl n g
  | 5 => .rDelete n g
  | _ => .ret .removed

/-- census of the live objects among the allocated ids: (open connections, open pattern watchers, open service
    watchers, running pollers) -/
def census (s : State) : Nat × Nat × Nat × Nat :=
  (((List.range s.next).filter s.connOpen).length, ((List.range s.next).filter s.pwOpen).length,
   ((List.range s.next).filter s.swOpen).length, ((List.range s.next).filter s.polling).length)

def ge (a b : Nat) : Nat := if a ≤ b then 1 else 0

/-- the statements `micro` executes for Add / Remove, in order, in the vocabulary of the regenerated facts -/
def addStatements : List String :=
  ["lock", "lookup", "call:connpool.New", "call:patternRouter.Watch", "call:serviceRouter.Watch",
   "call:resolverBuilder.Build", "insert"]
def removeStatements : List String :=
  ["lock", "lookup", "close:watcher", "close:resolver", "close:poolController", "delete"]

/-- drop returns, the deferred unlock and repeated lookups from a statement trace -/
def statementsOf (trace : List String) : List String :=
  (trace.filter (fun x => decide (x ∈ addStatements ++ removeStatements))).eraseDups

end GB.C16.Lts
