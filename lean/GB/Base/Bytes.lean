/-
  Core-only helpers shared by every model: Go `string`/`[]byte` are `Bytes`,
  the line protocol of the driver carries them hex-encoded with an `x` prefix
  (so the empty string is the single character `x`).
-/
namespace GB

abbrev Bytes := List UInt8

def hexDigitVal (c : Char) : Option Nat :=
  if '0' ≤ c ∧ c ≤ '9' then some (c.toNat - '0'.toNat)
  else if 'a' ≤ c ∧ c ≤ 'f' then some (c.toNat - 'a'.toNat + 10)
  else if 'A' ≤ c ∧ c ≤ 'F' then some (c.toNat - 'A'.toNat + 10)
  else none

def hexDecodeChars : List Char → Option Bytes
  | [] => some []
  | [_] => none
  | a :: b :: rest =>
    match hexDigitVal a, hexDigitVal b, hexDecodeChars rest with
    | some x, some y, some r => some (UInt8.ofNat (x * 16 + y) :: r)
    | _, _, _ => none

/-- `x68656c6c6f` ↦ bytes of "hello"; `x` ↦ []. -/
def parseHex (s : String) : Option Bytes :=
  match s.toList with
  | 'x' :: rest => hexDecodeChars rest
  | _ => none

def hexNibble (n : Nat) : Char :=
  if n < 10 then Char.ofNat ('0'.toNat + n) else Char.ofNat ('a'.toNat + n - 10)

def toHex (b : Bytes) : String :=
  String.ofList ('x' :: b.flatMap (fun u => [hexNibble (u.toNat / 16), hexNibble (u.toNat % 16)]))

/-- ASCII bytes of a Lean string literal whose characters are all < 128 (model constants). -/
def ascii (s : String) : Bytes := s.toList.map (fun c => UInt8.ofNat c.toNat)

def bytesToString (b : Bytes) : String :=
  String.ofList (b.map (fun u => Char.ofNat u.toNat))

end GB
