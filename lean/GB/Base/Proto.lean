import GB.Base.Bytes
/-
  Line protocol between the Go harness and the model driver.
  A case line is  `<input fields> => <implementation output fields>`, fields separated by one
  space, byte strings hex-encoded (`x…`).  The driver answers one verdict line per case:
    OK [tags…]            implementation output = model output and satisfies the specification
    DIFF model=<…> […]    implementation and model disagree, the specification is not violated
                          (correspondence break: the check then searches for a failing input)
    VIOL <reason> […]     the implementation's output violates the property's specification
    BAD <why>             the line could not be parsed (harness/driver bug, never ignored)
  The tag `nt` marks a case that is non-trivial by the area's stated rule; `b=<branch>` names
  the model branch taken (used for the input-distribution histogram in the evidence).
-/
namespace GB.Proto

def splitCase (line : String) : Option (List String × List String) :=
  match line.splitOn " => " with
  | [i, o] => some ((i.splitOn " ").filter (· ≠ ""), (o.splitOn " ").filter (· ≠ ""))
  | [i] => some ((i.splitOn " ").filter (· ≠ ""), [])
  | _ => none

def showOptInt : Option Int → String
  | none => "none"
  | some n => s!"some:{n}"

def parseInt? (s : String) : Option Int := s.toInt?
def parseNat? (s : String) : Option Nat := s.toNat?

abbrev Handler := List String → List String → String

end GB.Proto
