import GB.Base.Bytes
/-
  Run-time library of the source-to-Lean translator `extract/trans` (docs/notes/TRANS.md).
  `lean/GB/Generated/Trans.lean` (regenerated from the Go sources on every run) refers only to the
  definitions of this file.  HAND-WRITTEN and TRUSTED: each definition is the stated meaning of one Go
  construct or of one standard-library function the translator accepts.  Core-only Lean.

  Conventions
    * Go `string` / `[]byte` = `GB.Bytes`; `byte`/`uint8` = `UInt8` (wraps like Go); `int`, `int64`, `rune`,
      `time.Duration` = `Int` (NO wrap-around: the translation is exact as long as the Go computation does not
      overflow; say so where it matters); `bool` = `Bool`; `error` results of library calls = `Bool`
      (`true` = non-nil).
    * Go run-time panics are NOT modelled: the translation is a proof-free TOTAL form.  An out-of-range
      index reads 0 (`idx`), slice bounds clamp (`slice`), integer division by zero gives 0.  The tie
      theorems therefore speak about the panic-free behaviour only.
    * Loops (`for i := a; i < b; i++`, `for i := range n`, `for _, x := range xs`) are `loop` over the list
      of iteration values with an explicit loop state (the outer variables the body assigns) and the three
      exits of a Go loop body: next iteration / `break` / `return`.
-/
namespace GB.Trans
open GB

/-- `len(x)` as a Go `int` -/
def len {α : Type} (x : List α) : Int := Int.ofNat x.length

/-- `s[i]` (total form: out of range reads 0; Go panics there) -/
def idx (s : Bytes) (i : Int) : UInt8 := if i < 0 then 0 else s.getD i.toNat 0

/-- `s[lo:hi]` (total form: bounds clamp; Go panics when they are out of range) -/
def slice (s : Bytes) (lo hi : Int) : Bytes := (s.take hi.toNat).drop lo.toNat

/-- `byte(x)` for an integer `x`: two's-complement truncation -/
def toByte (x : Int) : UInt8 := UInt8.ofNat (x.emod 256).toNat

/-- `int(b)` for a byte -/
def ofByte (b : UInt8) : Int := Int.ofNat b.toNat

/-- `xs[i]` for a `[]string` (total form: out of range reads "") -/
def idxS (xs : List Bytes) (i : Int) : Bytes := if i < 0 then [] else xs.getD i.toNat []

/-- `binary.BigEndian.Uint32(b)` as a value (total form: missing bytes read 0; Go panics when `len(b) < 4`) -/
def beUint32 (b : Bytes) : Int :=
  Int.ofNat ((((idx b 0).toNat * 256 + (idx b 1).toNat) * 256 + (idx b 2).toNat) * 256 + (idx b 3).toNat)

/-- result of a FRAGMENT (statement range of a function): either one of the `return` statements inside the range
    was executed (`ret n`: the n-th `return` of the range in source order, counted from 0; the returned VALUES
    are not modelled), or control reached the end of the range with the listed output variables holding `a`. -/
inductive Frag (α : Type) where
  | ret (n : Nat)
  | done (a : α)
  deriving DecidableEq

/-- what one execution of a loop body does -/
inductive Ctl (ρ σ : Type) where
  | next (s : σ)   -- fell off the end of the body, or `continue`
  | brk (s : σ)    -- `break`
  | ret (r : ρ)    -- `return r`
  deriving DecidableEq

/-- how the whole loop ended -/
inductive Out (ρ σ : Type) where
  | done (s : σ)   -- ran to completion or `break`: execution continues after the loop
  | ret (r : ρ)    -- the enclosing function returned `r` from inside the loop
  deriving DecidableEq

/-- a Go `for` over the iteration values `xs` with loop state `σ` -/
def loop {α ρ σ : Type} : List α → σ → (α → σ → Ctl ρ σ) → Out ρ σ
  | [], s, _ => .done s
  | x :: xs, s, f =>
    match f x s with
    | .next s' => loop xs s' f
    | .brk s' => .done s'
    | .ret r => .ret r

/-- a Go `for cond { body }` that the translator has shown to stop within `fuel` iterations (countdown form
    `for n > 0 && … { …; n--; … }`, fuel = the value of `n` before the loop): when the fuel is used up the
    condition is false, so `.done s` is what Go computes there as well -/
def whileLoop {ρ σ : Type} : Nat → σ → (σ → Bool) → (σ → Ctl ρ σ) → Out ρ σ
  | 0, s, _, _ => .done s
  | fuel + 1, s, c, f =>
    if c s then
      match f s with
      | .next s' => whileLoop fuel s' c f
      | .brk s' => .done s'
      | .ret r => .ret r
    else .done s

/-- `lo, lo+1, …` (`n` values) -/
def rangeFrom (lo : Int) : Nat → List Int
  | 0 => []
  | n + 1 => lo :: rangeFrom (lo + 1) n

/-- the values of `i` in `for i := lo; i < hi; i++` (bounds not assigned by the body — the translator checks) -/
def rangeInt (lo hi : Int) : List Int := rangeFrom lo (hi - lo).toNat

/-! ### `for i, r := range s` over a STRING: UTF-8 decoding (trusted) -/

/-- first rune of a string and its width in bytes — `utf8.DecodeRuneInString`: an invalid or truncated
    encoding yields (U+FFFD, 1).  Arithmetic form of the bit operations (the ranges make them equal). -/
def decodeRune : Bytes → Int × Nat
  | [] => (65533, 1)
  | b0 :: rest =>
    let n0 := b0.toNat
    if n0 < 0x80 then (Int.ofNat n0, 1)
    else if n0 < 0xC2 then (65533, 1)
    else if n0 < 0xE0 then
      match rest with
      | b1 :: _ =>
        if 0x80 ≤ b1.toNat ∧ b1.toNat ≤ 0xBF then (Int.ofNat ((n0 - 0xC0) * 64 + (b1.toNat - 0x80)), 2) else (65533, 1)
      | [] => (65533, 1)
    else if n0 < 0xF0 then
      match rest with
      | b1 :: b2 :: _ =>
        -- second byte: 80…BF, but A0…BF after E0 (no overlong forms) and 80…9F after ED (no surrogates)
        if 0x80 ≤ b1.toNat ∧ b1.toNat ≤ 0xBF ∧ (n0 ≠ 0xE0 ∨ 0xA0 ≤ b1.toNat) ∧ (n0 ≠ 0xED ∨ b1.toNat ≤ 0x9F) ∧
            0x80 ≤ b2.toNat ∧ b2.toNat ≤ 0xBF then
          (Int.ofNat ((n0 - 0xE0) * 4096 + (b1.toNat - 0x80) * 64 + (b2.toNat - 0x80)), 3)
        else (65533, 1)
      | _ => (65533, 1)
    else if n0 < 0xF5 then
      match rest with
      | b1 :: b2 :: b3 :: _ =>
        -- second byte: 80…BF, but 90…BF after F0 (no overlong forms) and 80…8F after F4 (≤ U+10FFFF)
        if 0x80 ≤ b1.toNat ∧ b1.toNat ≤ 0xBF ∧ (n0 ≠ 0xF0 ∨ 0x90 ≤ b1.toNat) ∧ (n0 ≠ 0xF4 ∨ b1.toNat ≤ 0x8F) ∧
            0x80 ≤ b2.toNat ∧ b2.toNat ≤ 0xBF ∧ 0x80 ≤ b3.toNat ∧ b3.toNat ≤ 0xBF then
          (Int.ofNat ((n0 - 0xF0) * 262144 + (b1.toNat - 0x80) * 4096 + (b2.toNat - 0x80) * 64 + (b3.toNat - 0x80)), 4)
        else (65533, 1)
      | _ => (65533, 1)
    else (65533, 1)

/-- the (byte offset, rune) pairs of `for i, r := range s`, starting at offset `off` (fuel ≥ length) -/
def runesFrom : Nat → Int → Bytes → List (Int × Int)
  | 0, _, _ => []
  | _ + 1, _, [] => []
  | fuel + 1, off, b :: rest =>
    let d := decodeRune (b :: rest)
    (off, d.1) :: runesFrom fuel (off + Int.ofNat d.2) ((b :: rest).drop d.2)

/-- `for i, r := range s` -/
def runes (s : Bytes) : List (Int × Int) := runesFrom s.length 0 s

/-- (offset, byte) pairs from offset `off` -/
def enumFrom (off : Int) : Bytes → List (Int × UInt8)
  | [] => []
  | b :: rest => (off, b) :: enumFrom (off + 1) rest

/-! ### modelled standard-library functions (trusted) -/

/-- `strings.HasPrefix(s, p)` / `bytes.HasPrefix` -/
def hasPrefix (s p : Bytes) : Bool := s.take p.length == p

/-- `strings.HasSuffix(s, p)` / `bytes.HasSuffix` -/
def hasSuffix (s p : Bytes) : Bool := decide (p.length ≤ s.length) && s.drop (s.length - p.length) == p

/-- `strings.Split(s, sep)` for a ONE-BYTE separator (the translator rejects any other) -/
def splitByte (sep : UInt8) : Bytes → List Bytes
  | [] => [[]]
  | c :: r =>
    if c == sep then [] :: splitByte sep r
    else match splitByte sep r with
      | [] => [[c]]
      | e :: es => (c :: e) :: es

def trimLeftSet (cut : Bytes) : Bytes → Bytes
  | [] => []
  | c :: r => if cut.contains c then trimLeftSet cut r else c :: r

/-- `strings.Trim(s, cutset)` for an all-ASCII constant cutset (the translator rejects any other: Go's
    cutset is a set of runes, for ASCII runes it is the set of bytes) -/
def trimSet (s cut : Bytes) : Bytes := (trimLeftSet cut (trimLeftSet cut s).reverse).reverse

/-- `strings.Cut(s, sep)` for a ONE-BYTE separator: (before, after, found) -/
def cutByte (sep : UInt8) : Bytes → Bytes × Bytes × Bool
  | [] => ([], [], false)
  | c :: r =>
    if c == sep then ([], r, true)
    else match cutByte sep r with
      | (b, a, f) => (c :: b, a, f)

/-- ASCII lower-casing of one byte (used by `asciiToLower`) -/
def lowerByte (b : UInt8) : UInt8 := if 65 ≤ b ∧ b ≤ 90 then b + 32 else b

/-- `strings.ToLower(s)` restricted to ALL-ASCII `s` (for other inputs Go maps runes; not modelled) -/
def asciiToLower (s : Bytes) : Bytes := s.map lowerByte

/-- `strings.EqualFold(s, t)` restricted to all-ASCII arguments -/
def asciiEqualFold (s t : Bytes) : Bool := asciiToLower s == asciiToLower t

def isDigit (b : UInt8) : Bool := decide (48 ≤ b) && decide (b ≤ 57)

def digitsValue (ds : Bytes) : Nat := ds.foldl (fun acc b => acc * 10 + (b.toNat - 48)) 0

/-- `strconv.ParseUint(s, 10, 64)`: non-empty, digits only (base 10 has no `_`), value < 2^64 -/
def parseUint10 (s : Bytes) : Option Nat :=
  if s.isEmpty then none
  else if !s.all isDigit then none
  else if digitsValue s < 2 ^ 64 then some (digitsValue s) else none

/-- `strconv.ParseInt(s, 10, 64)` as (value, err != nil); on error the value the caller may not use is 0
    (Go returns 0 for syntax errors and the clamped bound for range errors — callers in the translated
    subset only use the value when `err == nil`; the tie theorems never depend on it) -/
def parseInt10 (s : Bytes) : Int × Bool :=
  match s with
  | [] => (0, true)
  | c :: rest =>
    let neg := c == 45
    let body := if c == 43 || c == 45 then rest else s
    match parseUint10 body with
    | none => (0, true)
    | some un =>
      if !neg && un ≥ 2 ^ 63 then (0, true)
      else if neg && un > 2 ^ 63 then (0, true)
      else (if neg then -(un : Int) else (un : Int), false)

/-- `h.Get(name)` of a header modelled by its `Values` function: first line or "" -/
def first (vs : List Bytes) : Bytes := match vs with | [] => [] | v :: _ => v

/-- `utf8.RuneStart(b)` -/
def runeStart (b : UInt8) : Bool := (b &&& 0xC0) != 0x80

end GB.Trans
