import GB.Base.TransLib
/-
  Proved facts about the run-time library of the translator (GB.Base.TransLib): how the generic `loop`
  of a translated Go `for` relates to the list functions the hand-written models use.  Used by the
  `lean/GB/Cxx/TransTie.lean` files.  Core-only.
-/
namespace GB.Trans
open GB

theorem loop_congr {α ρ σ : Type} (xs : List α) (s : σ) (f g : α → σ → Ctl ρ σ)
    (h : ∀ x ∈ xs, ∀ s, f x s = g x s) : loop xs s f = loop xs s g := by
  induction xs generalizing s with
  | nil => rfl
  | cons x xs ih =>
    simp only [loop]
    rw [h x (by simp) s]
    cases g x s with
    | next s' => exact ih s' (fun y hy => h y (by simp [hy]))
    | brk s' => rfl
    | ret r => rfl

theorem loop_cons_next {α ρ σ : Type} (x : α) (xs : List α) (s s' : σ) (f : α → σ → Ctl ρ σ)
    (h : f x s = Ctl.next s') : loop (x :: xs) s f = loop xs s' f := by simp [loop, h]

theorem loop_cons_brk {α ρ σ : Type} (x : α) (xs : List α) (s s' : σ) (f : α → σ → Ctl ρ σ)
    (h : f x s = Ctl.brk s') : loop (x :: xs) s f = Out.done s' := by simp [loop, h]

theorem loop_cons_ret {α ρ σ : Type} (x : α) (xs : List α) (s : σ) (r : ρ) (f : α → σ → Ctl ρ σ)
    (h : f x s = Ctl.ret r) : loop (x :: xs) s f = Out.ret r := by simp [loop, h]

/-- a stateless search loop: `for … { if p x { return r } }` -/
theorem loop_unit_any {α ρ : Type} (xs : List α) (p : α → Bool) (r : ρ) :
    loop xs () (fun x _ => if p x then Ctl.ret r else Ctl.next ()) = if xs.any p then Out.ret r else Out.done () := by
  induction xs with
  | nil => rfl
  | cons x xs ih =>
    by_cases h : p x = true
    · simp [loop, h]
    · have h' : p x = false := by simpa using h
      simp [loop, h', ih]

theorem len_nonneg {α : Type} (x : List α) : 0 ≤ len x := by simp [len]

theorem len_append_singleton (pre : Bytes) (x : UInt8) : len (pre ++ [x]) = len pre + 1 := by
  simp [len]

theorem idx_at_len (pre rest : Bytes) (x : UInt8) : idx (pre ++ x :: rest) (len pre) = x := by
  have h : ¬ ((pre.length : Int) < 0) := by omega
  simp [idx, len, h, List.getD_eq_getElem?_getD]

theorem rangeInt_zero_len {α : Type} (v : List α) : rangeInt 0 (len v) = rangeFrom 0 v.length := by
  simp [rangeInt, len]

/-- index loop over a segment `s` of `pre ++ s ++ post` = element loop over `s` -/
theorem loop_rangeFrom_idx {ρ σ : Type} (g : UInt8 → σ → Ctl ρ σ) (f : Int → σ → Ctl ρ σ) (post : Bytes) :
    ∀ (s pre : Bytes) (st : σ), (∀ i st, f i st = g (idx (pre ++ s ++ post) i) st) →
      loop (rangeFrom (len pre) s.length) st f = loop s st g := by
  intro s
  induction s with
  | nil => intro pre st _; rfl
  | cons x xs ih =>
    intro pre st h
    simp only [List.length_cons, rangeFrom, loop]
    have h0 : f (len pre) st = g x st := by
      rw [h]; congr 1
      have : pre ++ x :: xs ++ post = pre ++ x :: (xs ++ post) := by simp
      rw [this]; exact idx_at_len pre (xs ++ post) x
    rw [h0]
    cases g x st with
    | next s' =>
      have := ih (pre ++ [x]) s' (by intro i st; rw [h]; simp)
      rw [len_append_singleton] at this
      exact this
    | brk s' => rfl
    | ret r => rfl

/-- `for i := range len(v) { … v[i] … }` = loop over the elements of `v` -/
theorem loop_range_idx {ρ σ : Type} (v : Bytes) (st : σ) (f : Int → σ → Ctl ρ σ) (g : UInt8 → σ → Ctl ρ σ)
    (h : ∀ i st, f i st = g (idx v i) st) : loop (rangeInt 0 (len v)) st f = loop v st g := by
  rw [rangeInt_zero_len]
  have := loop_rangeFrom_idx g f [] v [] st (by intro i st; simpa using h i st)
  simpa [len] using this

/-- `for i := 0; i < n; i++ { … v[i] … }` with `n ≤ len(v)` = loop over the first `n` elements -/
theorem loop_range_idx_take {ρ σ : Type} (v : Bytes) (n : Nat) (hn : n ≤ v.length) (st : σ)
    (f : Int → σ → Ctl ρ σ) (g : UInt8 → σ → Ctl ρ σ)
    (h : ∀ i st, f i st = g (idx v i) st) : loop (rangeFrom 0 n) st f = loop (v.take n) st g := by
  have := loop_rangeFrom_idx g f (v.drop n) (v.take n) [] st (by intro i st; simpa using h i st)
  simpa [len, List.length_take, Nat.min_eq_left hn] using this

/-- two strings of equal length indexed by the same loop variable -/
theorem loop_rangeFrom_idx2 {ρ σ : Type} (g : UInt8 → UInt8 → σ → Ctl ρ σ) (f : Int → σ → Ctl ρ σ) :
    ∀ (s t pre pre' : Bytes) (st : σ), pre.length = pre'.length → s.length = t.length →
      (∀ i st, f i st = g (idx (pre ++ s) i) (idx (pre' ++ t) i) st) →
      loop (rangeFrom (len pre) s.length) st f = loop (s.zip t) st (fun p st => g p.1 p.2 st) := by
  intro s
  induction s with
  | nil => intro t pre pre' st _ _ _; rfl
  | cons x xs ih =>
    intro t pre pre' st hp hl h
    cases t with
    | nil => simp at hl
    | cons y ys =>
      simp only [List.length_cons, rangeFrom, loop, List.zip_cons_cons]
      have hlen : len pre = len pre' := by simp [len, hp]
      have h0 : f (len pre) st = g x y st := by
        rw [h]
        have a := idx_at_len pre xs x
        have b := idx_at_len pre' ys y
        rw [← hlen] at b
        rw [a, b]
      rw [h0]
      cases g x y st with
      | next s' =>
        have := ih ys (pre ++ [x]) (pre' ++ [y]) s' (by simp [hp]) (by simpa using hl) (by intro i st; rw [h]; simp)
        rw [len_append_singleton] at this
        exact this
      | brk s' => rfl
      | ret r => rfl

theorem loop_range_idx2 {ρ σ : Type} (s t : Bytes) (hl : s.length = t.length) (st : σ) (f : Int → σ → Ctl ρ σ)
    (g : UInt8 → UInt8 → σ → Ctl ρ σ) (h : ∀ i st, f i st = g (idx s i) (idx t i) st) :
    loop (rangeInt 0 (len s)) st f = loop (s.zip t) st (fun p st => g p.1 p.2 st) := by
  rw [rangeInt_zero_len]
  have := loop_rangeFrom_idx2 g f s t [] [] st rfl hl (by intro i st; simpa using h i st)
  simpa [len] using this

theorem len_eq_iff {α : Type} (a b : List α) : len a = len b ↔ a.length = b.length := by
  unfold len; exact Int.ofNat_inj

/-- a Boolean statement about every byte, by enumeration of the 256 values (kernel `decide`) -/
theorem byte_forall (P : UInt8 → Bool) (h : ∀ n : Fin 256, P (UInt8.ofNat n.val) = true) (c : UInt8) : P c = true := by
  have := h ⟨c.toNat, UInt8.toNat_lt c⟩
  simpa using this

/-! ### rune iteration over a string whose loop body stops at the first non-ASCII rune -/

theorem decodeRune_ascii (b : UInt8) (rest : Bytes) (h : b.toNat < 128) :
    decodeRune (b :: rest) = (Int.ofNat b.toNat, 1) := by
  simp [decodeRune, h]

/-- a byte ≥ 0x80 never starts an ASCII rune: the decoded rune (a multi-byte one or U+FFFD) is ≥ 0x80 -/
theorem decodeRune_nonascii (b : UInt8) (rest : Bytes) (h : 128 ≤ b.toNat) :
    128 ≤ (decodeRune (b :: rest)).1 := by
  have hb : b.toNat < 256 := UInt8.toNat_lt b
  unfold decodeRune
  simp only []
  repeat' split
  all_goals first
    | (simp only [Int.ofNat_eq_natCast] at *; omega)
    | omega
    | decide

/-- `for i, r := range s` whose body returns the same `x` for every rune ≥ 0x80 = the same body run over the
    BYTES of `s` (each byte taken as a rune): both stop at the first byte ≥ 0x80 -/
theorem loop_runesFrom_bytes {ρ σ : Type} (body : Int × Int → σ → Ctl ρ σ) (x : ρ)
    (hstop : ∀ off r st, 128 ≤ r → body (off, r) st = Ctl.ret x) :
    ∀ (fuel : Nat) (s : Bytes) (off : Int) (st : σ), s.length ≤ fuel →
      loop (runesFrom fuel off s) st body = loop (enumFrom off s) st (fun p st => body (p.1, Int.ofNat p.2.toNat) st) := by
  intro fuel
  induction fuel with
  | zero =>
    intro s off st h
    have : s = [] := List.length_eq_zero_iff.mp (Nat.le_zero.mp h)
    subst this; rfl
  | succ fuel ih =>
    intro s off st h
    cases s with
    | nil => rfl
    | cons b rest =>
      by_cases hb : b.toNat < 128
      · simp only [runesFrom, enumFrom, loop, decodeRune_ascii b rest hb, List.drop_succ_cons, List.drop_zero]
        cases body (off, Int.ofNat b.toNat) st with
        | next s' =>
          have := ih rest (off + 1) s' (by simpa using h)
          simpa using this
        | brk s' => rfl
        | ret r => rfl
      · have hb' : 128 ≤ b.toNat := by omega
        have h1 := hstop off (decodeRune (b :: rest)).1 st (decodeRune_nonascii b rest hb')
        have h2 := hstop off (Int.ofNat b.toNat) st (by simp only [Int.ofNat_eq_natCast]; omega)
        simp only [runesFrom, enumFrom, loop, h1, h2]

theorem loop_runes_bytes {ρ σ : Type} (body : Int × Int → σ → Ctl ρ σ) (x : ρ)
    (hstop : ∀ off r st, 128 ≤ r → body (off, r) st = Ctl.ret x) (s : Bytes) (st : σ) :
    loop (runes s) st body = loop (enumFrom 0 s) st (fun p st => body (p.1, Int.ofNat p.2.toNat) st) :=
  loop_runesFrom_bytes body x hstop s.length s 0 st (Nat.le_refl _)

end GB.Trans
