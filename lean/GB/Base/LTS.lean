/-
  Generic labelled-transition-system lemmas: an invariant that holds initially and
  is preserved by every step holds in every reachable state / along every run.
-/
namespace GB.LTS

variable {σ : Type} {ℓ : Type}

/-- Deterministic-per-label step function; nondeterminism is the choice of label. -/
abbrev Step (σ ℓ : Type) := σ → ℓ → Option σ

/-- `run step s ls = some s'` iff the label sequence `ls` is executable from `s` ending in `s'`. -/
def run (step : Step σ ℓ) : σ → List ℓ → Option σ
  | s, [] => some s
  | s, l :: ls => match step s l with
    | some s' => run step s' ls
    | none => none

inductive Reachable (step : Step σ ℓ) (init : σ) : σ → Prop
  | init : Reachable step init init
  | step {s s' : σ} {l : ℓ} : Reachable step init s → step s l = some s' → Reachable step init s'

theorem run_reachable (step : Step σ ℓ) (init s : σ) (ls : List ℓ)
    (h0 : Reachable step init s) {s' : σ} (h : run step s ls = some s') : Reachable step init s' := by
  induction ls generalizing s with
  | nil => simp [run] at h; exact h ▸ h0
  | cons l ls ih =>
    simp only [run] at h
    cases hs : step s l with
    | none => simp [hs] at h
    | some s1 => rw [hs] at h; exact ih s1 (Reachable.step h0 hs) h

theorem reachable_exists_run (step : Step σ ℓ) (init s : σ) (h : Reachable step init s) :
    ∃ ls, run step init ls = some s := by
  induction h with
  | init => exact ⟨[], rfl⟩
  | @step s s' l _ hs ih =>
    obtain ⟨ls, hr⟩ := ih
    refine ⟨ls ++ [l], ?_⟩
    have : ∀ (a : σ) (xs : List ℓ), run step a xs = some s → run step a (xs ++ [l]) = some s' := by
      intro a xs
      induction xs generalizing a with
      | nil => intro h; simp [run] at h; subst h; simp [run, hs]
      | cons x xs ihx =>
        intro h; simp only [run, List.cons_append] at h ⊢
        cases hx : step a x with
        | none => simp [hx] at h
        | some a' => rw [hx] at h; simp only; exact ihx a' h
    exact this init ls hr

/-- The invariant rule, stated once. -/
theorem invariant (step : Step σ ℓ) (init : σ) (Inv : σ → Prop)
    (h0 : Inv init) (hstep : ∀ s l s', Inv s → step s l = some s' → Inv s') :
    ∀ s, Reachable step init s → Inv s := by
  intro s h
  induction h with
  | init => exact h0
  | step _ hs ih => exact hstep _ _ _ ih hs

theorem invariant_run (step : Step σ ℓ) (init : σ) (Inv : σ → Prop)
    (h0 : Inv init) (hstep : ∀ s l s', Inv s → step s l = some s' → Inv s')
    (ls : List ℓ) (s : σ) (h : run step init ls = some s) : Inv s :=
  invariant step init Inv h0 hstep s (run_reachable step init init ls Reachable.init h)

end GB.LTS
