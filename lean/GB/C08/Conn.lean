import GB.C08.Model
import GB.Base.LTS
/-
  C08 — the end of a gRPC-WebSocket call at connection level: who has written what, what is still in the server's
  send queue, what the client has sent that the server has not read, and when the TCP connection is closed.

  Two orders are modelled:
    * `hard`     (the original code): sendTrailer = write the trailer, then gws `WriteClose` = write the close frame and
                 IMMEDIATELY close the TCP connection; `close(stream.done)` only afterwards;
    * `graceful` (fix D32): sendTrailer = set a deadline (wsCloseTimeout), write the trailer and the close frame, do NOT
                 close; then `close(stream.done)` releases the read loop, which discards whatever else the client sent,
                 and the connection is closed when the client's close frame has been read (gws answers and closes) or the
                 deadline expires.

  Environment rule (assumption about the OS, see trusted base): closing a TCP connection whose receive queue still holds
  unread input is abortive (RST): what sits in the send queue, not yet delivered to the peer, is dropped. A close with
  nothing unread is orderly: the send queue is still delivered.
-/
namespace GB.C08.Conn
open GB GB.C08

/-- what travels server → client, one WebSocket message each -/
inductive Item
  | frame (b : Bytes)   -- a binary message: header frame, data frame or the trailer frame
  | close               -- the close frame (1000)
deriving DecidableEq, Repr

inductive Mode | graceful | hard
deriving DecidableEq, Repr

structure St where
  /-- what the bridge still has to write -/
  towrite : List Item
  /-- written by the server, not yet delivered to the client's host -/
  sq : List Item
  /-- delivered, not yet read by the client -/
  cq : List Item
  /-- read by the client -/
  got : List Item
  /-- client → server messages not yet read by the server -/
  unread : Nat
  /-- the read loop is parked inside OnMessage (nobody receives, `done` not closed) -/
  parked : Bool
  closeSent : Bool
  doneClosed : Bool
  /-- the client answered the close frame -/
  cliReplied : Bool
  /-- the server read the client's close frame (gws then answers and closes) -/
  replyRead : Bool
  /-- wsCloseTimeout expired -/
  deadline : Bool
  tcpClosed : Bool
  /-- an abortive close dropped a part of the response -/
  lost : Bool
deriving DecidableEq, Repr

/-- the complete response: `[header] data* trailer` as messages, then the close frame -/
def script (frames : List Bytes) : List Item := frames.map Item.frame ++ [Item.close]

def init (frames : List Bytes) : St :=
  { towrite := script frames, sq := [], cq := [], got := [], unread := 0, parked := false, closeSent := false,
    doneClosed := false, cliReplied := false, replyRead := false, deadline := false, tcpClosed := false, lost := false }

inductive Lbl
  | cliWrite       -- the client writes a message
  | srvRead        -- the read loop takes a message off the socket
  | park           -- … and parks in OnMessage's select
  | srvWrite       -- the bridge writes the next message of the response
  | srvCloseFrame  -- the bridge writes the close frame (hard: and closes the connection at once)
  | closeDone      -- ServeHTTP: close(stream.done)
  | deliver        -- the network delivers the next message to the client's host
  | cliRead        -- the client reads the next message
  | cliReply       -- the client answers the close frame it has read
  | srvReadReply   -- the read loop reads the client's close frame
  | timeout        -- the deadline set by the closing bridge expires
  | srvTcpClose    -- graceful: gws closes the connection (close frame read / deadline)
deriving DecidableEq, Repr

/-- `conn.Close()`: abortive if input is unread -/
def tcpClose (s : St) : St :=
  { s with tcpClosed := true,
           sq := if s.unread > 0 then [] else s.sq,
           lost := s.lost || (decide (s.unread > 0) && !s.sq.isEmpty) }

def step (m : Mode) (s : St) : Lbl → Option St
  | .cliWrite => if !s.cliReplied && !s.tcpClosed then some { s with unread := s.unread + 1 } else none
  | .srvRead => if s.unread > 0 && !s.parked && !s.tcpClosed then some { s with unread := s.unread - 1 } else none
  | .park => if !s.doneClosed && !s.tcpClosed then some { s with parked := true } else none
  | .srvWrite =>
    match s.towrite with
    | .frame b :: rest => if !s.tcpClosed then some { s with towrite := rest, sq := s.sq ++ [.frame b] } else none
    | _ => none
  | .srvCloseFrame =>
    match s.towrite with
    | [.close] =>
      if s.tcpClosed then none else
      let s1 := { s with towrite := [], sq := s.sq ++ [.close], closeSent := true }
      match m with
      | .graceful => some s1
      | .hard => some (tcpClose s1)        -- gws WriteClose: write the close frame, conn.Close()
    | _ => none
  | .closeDone =>
    match m with
    | .graceful => if s.closeSent && !s.doneClosed then some { s with doneClosed := true, parked := false } else none
    | .hard => if s.tcpClosed && !s.doneClosed then some { s with doneClosed := true, parked := false } else none
  | .deliver =>
    match s.sq with
    | x :: rest => some { s with sq := rest, cq := s.cq ++ [x] }
    | [] => none
  | .cliRead =>
    match s.cq with
    | x :: rest => some { s with cq := rest, got := s.got ++ [x] }
    | [] => none
  | .cliReply => if Item.close ∈ s.got ∧ s.cliReplied = false then some { s with cliReplied := true } else none
  | .srvReadReply =>
    if s.cliReplied && s.unread == 0 && !s.parked && !s.tcpClosed && !s.replyRead then some { s with replyRead := true } else none
  | .timeout => if s.closeSent && m == .graceful then some { s with deadline := true } else none
  | .srvTcpClose =>
    if m == .graceful && !s.tcpClosed && (s.replyRead || s.deadline) then some (tcpClose s) else none

end GB.C08.Conn
