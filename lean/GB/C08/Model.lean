import GB.Base.Bytes
/-
  C08 — executable model of webbridge/grpcweb.go (core-only Lean).

  Request side   gRPCWebStream.recv            → `recvL` / `recvTrace` (over the body as one byte stream)
                 io.ReadFull over a chunked body → `readFull` / `recvChunksL` (the body as the reader hands it out)
  Response side  lpmMessage, lpmTrailer, trailerWithStatus, url.PathEscape, writeTrailerWithStatus
                 GRPCWebBridge.ServeHTTP        → `respondHTTP`
  WebSocket      gwsGRPCWebHandler.OnMessage / readMD → `onMessage`, gRPCWebSocketStream.Recv → `wsRecvTrace`,
                 send / sendTrailer             → `wsSend`, `wsRespond`

  The message codec (proto.Marshal / proto.Unmarshal on the route's message type) is the identity on the
  payload bytes: the bridge forwards `emptypb.Empty` messages whose unknown fields keep the wire bytes
  verbatim (bridgedesc.DummyMethod); the harness uses exactly that type (valid wire payloads) and a raw
  legacy-codec type (arbitrary payloads).

  The model is of the code AFTER the three `fix:` commits of this slice (oversize rejected; empty WebSocket
  message and WebSocket framing errors delivered; nothing accepted after a rejected header message); `recvPreFixL` / `onMessagePreFix` keep the old
  behaviour for the kernel-checked negative witnesses.
-/
namespace GB.C08
open GB

/-! ### framing constants (tied to the sources by regenerated facts, see Props.lean) -/

/-- `make([]byte, 5)` in recv, `[]byte{f,0,0,0,0}` in lpmMessage/lpmTrailer -/
def hdrLen : Nat := 5
/-- `maxRecvMessageSize = 1 << 22` -/
def maxMsg : Nat := 4194304
/-- first header byte written by lpmMessage -/
def dataFlag : UInt8 := 0
/-- first header byte written by lpmTrailer (0x80) -/
def trailerFlag : UInt8 := 128
/-- `data[6:]`, `len(data) >= 6` in OnMessage: flow-control byte + 5-byte header -/
def wsOff : Nat := 6

/-- binary.BigEndian.Uint32 -/
def be32 (a b c d : UInt8) : Nat := ((a.toNat * 256 + b.toNat) * 256 + c.toNat) * 256 + d.toNat

/-- binary.BigEndian.PutUint32(_, uint32(n)) — `UInt8.ofNat` wraps, so this is the uint32 truncation too -/
def putBe32 (n : Nat) : Bytes :=
  [UInt8.ofNat (n / 16777216), UInt8.ofNat (n / 65536), UInt8.ofNat (n / 256), UInt8.ofNat n]

/-! ### request side: gRPCWebStream.recv -/

/-- the status errors recv / OnMessage build -/
inductive RecvErr where
  | header    -- Unavailable: "failed to read length-prefixed message header" (1..4 bytes, then EOF)
  | body      -- Unavailable: "failed to read length-prefixed message body" (body shorter than declared)
  | oversize  -- ResourceExhausted: declared length above the limit (after fix D7)
  | flow      -- InvalidArgument: "expected flow control byte" (empty WebSocket message)
  | wsHeader  -- InvalidArgument: "expected length-prefixed message header" (2..5 byte WebSocket message)
deriving DecidableEq, Repr

def RecvErr.code : RecvErr → Nat
  | .header => 14 | .body => 14 | .oversize => 8 | .flow => 3 | .wsHeader => 3

/-- what one `Recv` call returns: io.EOF, a message (its wire payload), or a status error -/
inductive RecvRes where
  | eof
  | msg (m : Bytes)
  | err (e : RecvErr)
deriving DecidableEq, Repr

/-- One `recv` on the remaining body `s` with message limit `L`; returns the result and the unread rest.
    `io.ReadFull` returns io.EOF only if nothing at all was read. The flag byte is not looked at. -/
def recvL (L : Nat) : Bytes → RecvRes × Bytes
  | [] => (.eof, [])
  | _ :: a :: b :: c :: d :: rest =>
    let len := be32 a b c d
    if len < 1 then (.msg [], rest)                       -- empty message, no body read
    else if len > L then (.err .oversize, rest)           -- fix D7
    else if rest.length < len then (.err .body, [])       -- ReadFull: (unexpected) EOF
    else (.msg (rest.take len), rest.drop len)
  | _ => (.err .header, [])                               -- 1..4 bytes: ErrUnexpectedEOF

def recv : Bytes → RecvRes × Bytes := recvL maxMsg

/-- the code before fix D7: `make([]byte, min(length, 1<<22))` — reads at most `L` bytes of the body and
    hands them out as the message; the remainder is taken for the next header -/
def recvPreFixL (L : Nat) : Bytes → RecvRes × Bytes
  | [] => (.eof, [])
  | _ :: a :: b :: c :: d :: rest =>
    let len := be32 a b c d
    if len < 1 then (.msg [], rest)
    else
      let n := min len L
      if rest.length < n then (.err .body, [])
      else (.msg (rest.take n), rest.drop n)
  | _ => (.err .header, [])

/-- The results of up to `n` successive Recv calls (the forwarder stops at the first non-message). -/
def recvTraceL (L : Nat) : Nat → Bytes → List RecvRes
  | 0, _ => []
  | n + 1, s =>
    match recvL L s with
    | (.msg m, rest) => .msg m :: recvTraceL L n rest
    | (r, _) => [r]

def recvTrace : Nat → Bytes → List RecvRes := recvTraceL maxMsg

def recvTracePreFixL (L : Nat) : Nat → Bytes → List RecvRes
  | 0, _ => []
  | n + 1, s =>
    match recvPreFixL L s with
    | (.msg m, rest) => .msg m :: recvTracePreFixL L n rest
    | (r, _) => [r]

/-! ### the body as a chunked reader (io.ReadFull loops over short reads) -/

/-- `io.ReadFull(body, buf[:n])` when the body hands out the chunks `cs` one Read at a time:
    the bytes obtained (fewer than `n` only at end of stream) and the chunks left. -/
def readFull : Nat → List Bytes → Bytes × List Bytes
  | _, [] => ([], [])
  | n, c :: cs =>
    if n = 0 then ([], c :: cs)
    else if c.length ≤ n then
      let r := readFull (n - c.length) cs
      (c ++ r.1, r.2)
    else (c.take n, c.drop n :: cs)

/-- recv as the code runs it: two ReadFull calls against the chunked body -/
def recvChunksL (L : Nat) (cs : List Bytes) : RecvRes × List Bytes :=
  let h := readFull hdrLen cs
  match h.1 with
  | [] => (.eof, h.2)
  | [_, a, b, c, d] =>
    let len := be32 a b c d
    if len < 1 then (.msg [], h.2)
    else if len > L then (.err .oversize, h.2)
    else
      let bd := readFull len h.2
      if bd.1.length < len then (.err .body, bd.2) else (.msg bd.1, bd.2)
  | _ => (.err .header, h.2)

def recvChunksTraceL (L : Nat) : Nat → List Bytes → List RecvRes
  | 0, _ => []
  | n + 1, cs =>
    match recvChunksL L cs with
    | (.msg m, rest) => .msg m :: recvChunksTraceL L n rest
    | (r, _) => [r]

/-! ### response side -/

/-- lpmMessage: `{0,0,0,0,0}` with the big-endian length, then the marshalled message -/
def lpmMessage (m : Bytes) : Bytes := dataFlag :: (putBe32 m.length ++ m)

/-- metadata.MD flattened in map-iteration order: one (key, value) pair per output line -/
abbrev MD := List (Bytes × Bytes)

/-- `fmt.Sprintf("%s: %s\r\n", k, v)` -/
def trailerLine (kv : Bytes × Bytes) : Bytes := kv.1 ++ [58, 32] ++ kv.2 ++ [13, 10]

def trailerBlock (md : MD) : Bytes := md.flatMap trailerLine

/-- lpmTrailer: 0x80 header with the big-endian block length, then the block -/
def lpmTrailer (md : MD) : Bytes :=
  let b := trailerBlock md
  trailerFlag :: (putBe32 b.length ++ b)

/-- strconv.Itoa of a non-negative int -/
def itoaF : Nat → Nat → Bytes
  | 0, _ => []
  | f + 1, n => if n < 10 then [UInt8.ofNat (48 + n)] else itoaF f (n / 10) ++ [UInt8.ofNat (48 + n % 10)]

def itoa (n : Nat) : Bytes := itoaF (n + 1) n

def isAlnum (c : UInt8) : Bool :=
  (97 ≤ c && c ≤ 122) || (65 ≤ c && c ≤ 90) || (48 ≤ c && c ≤ 57)

/-- net/url shouldEscape(c, encodePathSegment): unreserved marks `-_.~` and the reserved `$&+:=@`
    stay; `/ ; , ?` and everything else is escaped -/
def shouldEscape (c : UInt8) : Bool :=
  if isAlnum c then false
  else if c = 45 || c = 95 || c = 46 || c = 126 then false                       -- - _ . ~
  else if c = 36 || c = 38 || c = 43 || c = 58 || c = 61 || c = 64 then false    -- $ & + : = @
  else true

/-- "0123456789ABCDEF"[n] -/
def upperHex (n : Nat) : UInt8 := if n < 10 then UInt8.ofNat (48 + n) else UInt8.ofNat (55 + n)

def escapeByte (c : UInt8) : Bytes :=
  if shouldEscape c then [37, upperHex (c.toNat / 16), upperHex (c.toNat % 16)] else [c]

/-- url.PathEscape -/
def pathEscape (s : Bytes) : Bytes := s.flatMap escapeByte

def kStatus : Bytes := [103, 114, 112, 99, 45, 115, 116, 97, 116, 117, 115]           -- "grpc-status"
def kMessage : Bytes := [103, 114, 112, 99, 45, 109, 101, 115, 115, 97, 103, 101]     -- "grpc-message"

/-- metadata.MD.Set on the flattened form (replaces every value of the key; position = map order, arbitrary) -/
def mdSet (md : MD) (k v : Bytes) : MD := md.filter (fun kv => kv.1 != k) ++ [(k, v)]

/-- trailerWithStatus -/
def trailerWithStatus (md : MD) (code : Nat) (msg : Bytes) : MD :=
  mdSet (mdSet md kStatus (itoa code)) kMessage (pathEscape msg)

/-- The HTTP response body of GRPCWebBridge.ServeHTTP: every message the forwarder passed to Send as one
    data frame, then writeTrailerWithStatus (also on the routing-failure path, with `ms = []`, `md = []`).
    `tr` is the trailer metadata in the order the map iteration produced it. The HTTP status is never set,
    so it is 200. -/
def respondHTTPWith (ms : List Bytes) (tr : MD) : Bytes := ms.flatMap lpmMessage ++ lpmTrailer tr

def respondHTTP (ms : List Bytes) (md : MD) (code : Nat) (msg : Bytes) : Bytes :=
  respondHTTPWith ms (trailerWithStatus md code msg)

def httpStatus : Nat := 200

/-- Per-message flushing, modelled honestly: gRPCWebStream.send only calls `rw.Write`; GRPCWebBridge never calls
    `http.Flusher.Flush` (TranscodedHTTPBridge does, after every message). A written frame therefore sits in net/http's
    buffers (bufio before chunking, then the connection's) until they fill up or ServeHTTP returns. What the client
    can have seen: while the handler runs, any prefix of what was written — possibly nothing; once it returned, all. -/
def VisibleOK (finished : Bool) (written visible : Bytes) : Prop :=
  if finished then visible = written else visible <+: written

/-! ### WebSocket sub-protocol (grpc-websockets) -/

structure WS where
  receivedMD : Bool := false
  closed : Bool := false
deriving DecidableEq, Repr

/-- what one OnMessage call produces -/
inductive WSEv where
  | md (h : Bytes)       -- metadata handed to ServeHTTP (metadataCh)
  | badMD                -- readMD failed: sendTrailer(InvalidArgument) + close, connection ends
  | msg (m : Bytes)      -- events <- {data}
  | err (e : RecvErr)    -- events <- {err}      (delivered since fix D8)
  | eof                  -- close(events)
deriving DecidableEq, Repr

/-- gwsGRPCWebHandler.OnMessage; `mdOk` abstracts textproto.ReadMIMEHeader succeeding on the first message -/
def onMessage (mdOk : Bytes → Bool) (st : WS) (data : Bytes) : WS × List WSEv :=
  if st.closed then (st, [])                                   -- ignored after the finish marker
  else if !st.receivedMD then
    if mdOk data then ({ st with receivedMD := true }, [.md data])
    else ({ st with closed := true }, [.badMD])                -- fix D8b: nothing after a rejected header counts
  else
    -- flow control byte
    let closed : Bool := match data with | [] => false | b :: _ => b == 1
    let err0 : Option RecvErr := match data with | [] => some .flow | _ :: _ => none
    let evs : List WSEv :=
      if wsOff ≤ data.length then [.msg (data.drop wsOff)]     -- fix D8: `>=`, the length bytes are ignored
      else if err0.isNone && data.length != 1 then [.err .wsHeader]
      else match err0 with
        | some e => [.err e]                                   -- fix D8: errors are delivered
        | none => []                                           -- a bare flow-control byte
    ({ st with closed := closed }, evs ++ (if closed then [.eof] else []))

/-- the code before fixes D8/D8b: `len(data) > 6`, an event carrying only an error is never sent, and a
    rejected header message leaves the stream open for the next message to be taken as the header -/
def onMessagePreFix (mdOk : Bytes → Bool) (st : WS) (data : Bytes) : WS × List WSEv :=
  if st.closed then (st, [])
  else if !st.receivedMD then
    if mdOk data then ({ st with receivedMD := true }, [.md data]) else (st, [.badMD])
  else
    let closed : Bool := match data with | [] => false | b :: _ => b == 1
    let evs : List WSEv := if wsOff < data.length then [.msg (data.drop wsOff)] else []
    ({ st with closed := closed }, evs ++ (if closed then [.eof] else []))

/-- all events of a sequence of client messages dispatched to OnMessage (gws keeps dispatching what it has
    already buffered even after the server side closed the socket) -/
def wsEventsWith (om : WS → Bytes → WS × List WSEv) : WS → List Bytes → List WSEv
  | _, [] => []
  | st, d :: ds => (om st d).2 ++ wsEventsWith om (om st d).1 ds

def wsEvents (mdOk : Bytes → Bool) : WS → List Bytes → List WSEv := wsEventsWith (onMessage mdOk)

/-- gRPCWebSocketStream.Recv called up to `n` times on the event channel (events before the metadata
    never reach it; a closed channel is io.EOF; the forwarder stops at the first non-message) -/
def wsRecvTrace : Nat → List WSEv → List RecvRes
  | 0, _ => []
  | _, [] => []                       -- no more events: the next Recv blocks
  | n + 1, .msg m :: evs => .msg m :: wsRecvTrace n evs
  | _ + 1, .err e :: _ => [.err e]
  | _ + 1, .eof :: _ => [.eof]
  | n + 1, _ :: evs => wsRecvTrace (n + 1) evs

/-- gRPCWebSocketStream.send: the first send is preceded by the header frame -/
def wsSend (header : MD) (sentMD : Bool) (m : Bytes) : Bool × List Bytes :=
  (true, (if sentMD then [] else [lpmTrailer header]) ++ [lpmMessage m])

def wsSendAll (header : MD) : Bool → List Bytes → List Bytes
  | _, [] => []
  | s, m :: ms => (wsSend header s m).2 ++ wsSendAll header (wsSend header s m).1 ms

/-- the WebSocket messages of one call: sends, then sendTrailer (one message), then close 1000 -/
def wsRespondWith (header : MD) (ms : List Bytes) (tr : MD) : List Bytes :=
  wsSendAll header false ms ++ [lpmTrailer tr]

def wsRespond (header : MD) (ms : List Bytes) (md : MD) (code : Nat) (msg : Bytes) : List Bytes :=
  wsRespondWith header ms (trailerWithStatus md code msg)

def wsCloseCode : Nat := 1000

end GB.C08
