import GB.C08.Model
import GB.Base.LTS
/-
  C08 — the gRPC-WebSocket request hand-off as an LTS over the interleavings of

    * the gws ReadLoop goroutine: takes the next client message off the socket and runs
      gwsGRPCWebHandler.OnMessage: (ignored if `stream.closed`) flow-control byte ⇒ `stream.closed`, build the event,
      `select { events <- event; <-done }` on the UNBUFFERED channel, then `close(events)` if `stream.closed`;
    * the forwarder's request pump: gRPCWebSocketStream.Recv = `select { <-events; <-ctx.Done() }`, in a loop for
      client-streaming methods, once otherwise; it stops at the first error / io.EOF;
    * ServeHTTP: `close(stream.done)` after Forward returned (no Recv in progress then: Forward waits for its pumps);
    * the client writing messages, the call's context being cancelled, the socket being closed.

  The LTS starts after the header message was accepted (`receivedMD = true`). What OnMessage computes for one message
  is the sequential model `onMessage` (Model.lean): its event list is `[msg|err]? ++ [eof]?`; the reader works it off
  front to back (`todo`). A send on the closed channel or a second close would panic: they are labels that set
  `panicked`, shown unreachable.
-/
namespace GB.C08.Handoff
open GB GB.C08

inductive Reader
  | idle                      -- in ReadLoop, between two messages
  | busy (todo : List WSEv)   -- inside OnMessage: head msg/err = in the select; head eof = before close(events)
  | exited                    -- ReadLoop returned
deriving DecidableEq, Repr

inductive RecvSt
  | idle      -- not inside Recv
  | waiting   -- Recv in `select { <-events; <-ctx.Done() }`
  | stopped   -- a Recv returned an error / io.EOF: the pump does not call it again
deriving DecidableEq, Repr

structure St where
  /-- client messages written, not yet taken by the read loop -/
  pending : List Bytes
  reader : Reader
  /-- `stream.closed` -/
  closedFlag : Bool
  eventsClosed : Bool
  done : Bool
  cancelled : Bool
  recv : RecvSt
  calls : Nat
  /-- a `Recv` already returned io.EOF -/
  eofTaken : Bool
  /-- a `Recv` returned the context error -/
  ctxStopped : Bool
  panicked : Bool
  /-- history: every message the client wrote / the read loop took -/
  sent : List Bytes
  consumed : List Bytes
  /-- history: what the Recv calls returned, in order (`msg`, `err`, `eof`; the context error is `ctxStopped`) -/
  results : List WSEv
deriving DecidableEq, Repr

def init : St :=
  { pending := [], reader := .idle, closedFlag := false, eventsClosed := false, done := false, cancelled := false,
    recv := .idle, calls := 0, eofTaken := false, ctxStopped := false, panicked := false,
    sent := [], consumed := [], results := [] }

inductive Lbl
  | clientSend (d : Bytes)  -- the client writes a message
  | read                    -- ReadLoop takes the next message; OnMessage runs up to its select / close / return
  | handoff                 -- rendezvous `events <- event` / `<-events`
  | onDone                  -- OnMessage's select takes `<-done`
  | closeEvents             -- `close(stream.events)`
  | sendOnClosed            -- the select is entered with `events` already closed (would panic)
  | recvCall                -- the pump calls Recv
  | recvClosed              -- Recv sees `events` closed: io.EOF
  | recvCtx                 -- Recv's select takes `<-ctx.Done()`
  | cancel                  -- the call's context ends
  | closeDone               -- ServeHTTP: close(stream.done)
  | readerExit              -- socket closed, ReadLoop returns
deriving DecidableEq, Repr

def isData : WSEv → Bool
  | .msg _ => true
  | .err _ => true
  | _ => false

def afterTodo : List WSEv → Reader
  | [] => .idle
  | t => .busy t

/-- the state OnMessage sees: header accepted, `closed` as it stands -/
def wsOf (closed : Bool) : WS := { receivedMD := true, closed := closed }

/-- `cs` = Method.ClientStreaming (the pump loops) -/
def step (cs : Bool) (s : St) : Lbl → Option St
  | .clientSend d => some { s with pending := s.pending ++ [d], sent := s.sent ++ [d] }
  | .read =>
    match s.reader, s.pending with
    | .idle, d :: rest =>
      let r := onMessage (fun _ => true) (wsOf s.closedFlag) d
      some { s with pending := rest, consumed := s.consumed ++ [d], closedFlag := r.1.closed, reader := afterTodo r.2 }
    | _, _ => none
  | .handoff =>
    match s.reader, s.recv with
    | .busy (e :: rest), .waiting =>
      if isData e && !s.eventsClosed then
        some { s with reader := afterTodo rest, results := s.results ++ [e],
                      recv := (match e with | .msg _ => .idle | _ => .stopped) }
      else none
    | _, _ => none
  | .onDone =>
    match s.reader with
    | .busy (e :: rest) => if isData e && s.done && !s.eventsClosed then some { s with reader := afterTodo rest } else none
    | _ => none
  | .closeEvents =>
    match s.reader with
    | .busy (.eof :: rest) =>
      if s.eventsClosed then some { s with panicked := true }        -- close of a closed channel
      else some { s with eventsClosed := true, reader := afterTodo rest }
    | _ => none
  | .sendOnClosed =>
    match s.reader with
    | .busy (e :: _) => if isData e && s.eventsClosed then some { s with panicked := true } else none
    | _ => none
  | .recvCall =>
    if s.recv = .idle ∧ s.done = false ∧ (cs = true ∨ s.calls = 0) then some { s with recv := .waiting, calls := s.calls + 1 }
    else none
  | .recvClosed =>
    if s.recv = .waiting ∧ s.eventsClosed = true then
      some { s with recv := .stopped, eofTaken := true, results := s.results ++ [.eof] }
    else none
  | .recvCtx =>
    if s.recv = .waiting ∧ s.cancelled = true then some { s with recv := .stopped, ctxStopped := true } else none
  | .cancel => some { s with cancelled := true }
  | .closeDone => if s.recv ≠ .waiting then some { s with done := true } else none
  | .readerExit =>
    match s.reader with
    | .idle => some { s with reader := .exited }
    | _ => none

/-! ### the sequential reading -/

/-- `stream.closed` after the read loop worked off `ds` -/
def closedAfter : Bool → List Bytes → Bool
  | c, [] => c
  | c, d :: ds => closedAfter (onMessage (fun _ => true) (wsOf c) d).1.closed ds

/-- all events of `ds`, in order: what a pump that is always ready receives (`eof` = the channel closed) -/
def eventsOf (c : Bool) (ds : List Bytes) : List WSEv := wsEvents (fun _ => true) (wsOf c) ds

def todoOf : Reader → List WSEv
  | .busy t => t
  | _ => []

/-- events produced but not yet seen by the pump -/
def flight (s : St) : List WSEv :=
  todoOf s.reader ++ (if s.eventsClosed && !s.eofTaken then [.eof] else [])

/-- shape of what one OnMessage call emits: data events, then at most one `eof`, last -/
def okTodo : List WSEv → Bool
  | [] => true
  | [.eof] => true
  | .msg _ :: r => okTodo r
  | .err _ :: r => okTodo r
  | _ => false

/-- reader-side progress measure (used for `C08_ws_readloop_released`) -/
def measure (s : St) : Nat := 3 * s.pending.length + (todoOf s.reader).length

end GB.C08.Handoff
