import GB.C08.Proofs
import GB.C08.MimeProofs
import GB.C08.HandoffProofs
import GB.C08.ConnProofs
import GB.C08.StallProofs
import GB.C08.FenceProofs
import GB.C08.FenceWSProofs
import GB.C08.TrailerProofs
import GB.Generated.Facts
/-
  C08 — gRPC-Web framing is lossless and always ends with exactly one status trailer.
  Property theorems only; helper lemmas live in Proofs.lean.

  Model (GB/C08/Model.lean) = webbridge/grpcweb.go after the two `fix:` commits of this slice;
  Spec (GB/C08/Spec.lean) = what a gRPC-Web client does: frame encoder, an independent strict response
  decoder, trailer parsing, percent-decoding. The message codec is the identity on payload bytes (see Model).
-/
open GB GB.C08

/-! ### facts ties: the constants and guards the model hard-codes are the ones in the source now -/

/-- header size 5, limit 1<<22, data flag 0, trailer flag 0x80, both headers are 5 bytes, the guards of
    recv are `length < 1` (empty message) and `length > maxRecvMessageSize` (reject), the body buffer
    holds the whole declared length (no `min`) -/
theorem C08_facts_framing :
    GB.Generated.grpcwebHeaderLen = hdrLen ∧ GB.Generated.grpcwebMaxMsg = maxMsg ∧
    GB.Generated.grpcwebDataHeader = [dataFlag.toNat, 0, 0, 0, 0] ∧
    GB.Generated.grpcwebTrailerHeader = [trailerFlag.toNat, 0, 0, 0, 0] ∧
    GB.Generated.grpcwebRecvGuards = ["length < 1", "length > maxRecvMessageSize"] ∧
    GB.Generated.grpcwebRecvAlloc = "length" := by
  decide

/-- OnMessage: flow-control byte test, payload at offset 6 from `>= 6` bytes on, a bare byte is not an error -/
theorem C08_facts_websocket :
    GB.Generated.grpcwebWSGuards = ["len(data) > 0", "len(data) >= 6", "len(data) != 1", "len(data) >= 6"] ∧
    GB.Generated.grpcwebWSSlices = ["stream.closed = data[0] == 1", "data[6:]"] ∧ wsOff = 6 := by
  decide

/-- trailer lines are `"%s: %s\r\n"`, the two keys are set from strconv.Itoa(code) and url.PathEscape(message);
    no WriteHeader call on the gRPC-Web HTTP path, so the status is always 200 -/
theorem C08_facts_trailer_and_status :
    GB.Generated.grpcwebTrailerFormat = ["%s: %s\r\n"] ∧
    GB.Generated.grpcwebTrailerSets =
      ["md.Set(\"grpc-status\", strconv.Itoa(int(st.Code())))", "md.Set(\"grpc-message\", url.PathEscape(st.Message()))"] ∧
    GB.Generated.grpcwebWriteHeaderCalls = 0 ∧ httpStatus = 200 := by
  decide

/-! ### request side (HTTP body) -/

/-- Lossless, in order, for any number of messages of any size 0..limit: the Recv calls return exactly the
    client's messages and then io.EOF. (`k` extra calls are never made: the trace stops at EOF.) -/
theorem C08_req_roundtrip (ms : List Bytes) (h : ∀ m ∈ ms, m.length ≤ maxMsg) (k : Nat) :
    recvTrace (ms.length + (k + 1)) (frames ms) = ms.map RecvRes.msg ++ [RecvRes.eof] := by
  have h32 : ∀ m ∈ ms, m.length < 4294967296 := fun m hm => by have := h m hm; simp only [maxMsg] at this; omega
  have := recvTraceL_frames maxMsg ms [] (k + 1) h32 h
  simp only [List.append_nil] at this
  unfold recvTrace
  rw [this]
  simp [recvTraceL, recvL]

/-- Independent of chunking: however the body reader hands out the byte stream (`cs` = the successive
    Read results), the two `io.ReadFull` calls per message see the same thing as on the whole stream. -/
theorem C08_req_chunking (L n : Nat) (cs : List Bytes) :
    recvChunksTraceL L n cs = recvTraceL L n cs.flatten :=
  recvChunksTraceL_eq L n cs

/-- … hence any chunking of a well-formed request delivers exactly the client's messages. -/
theorem C08_req_roundtrip_chunked (ms : List Bytes) (h : ∀ m ∈ ms, m.length ≤ maxMsg) (k : Nat)
    (cs : List Bytes) (hcs : cs.flatten = frames ms) :
    recvChunksTraceL maxMsg (ms.length + (k + 1)) cs = ms.map RecvRes.msg ++ [RecvRes.eof] := by
  rw [C08_req_chunking, hcs]
  exact C08_req_roundtrip ms h k

/-- Oversize frames are rejected with an error (ResourceExhausted), after the well-formed messages before
    it were delivered intact; nothing of the oversize frame is delivered. -/
theorem C08_oversize_rejected (ms : List Bytes) (h : ∀ m ∈ ms, m.length ≤ maxMsg) (big rest : Bytes)
    (hbig : maxMsg < big.length) (h32 : big.length < 4294967296) (k : Nat) :
    recvTrace (ms.length + (k + 1)) (frames ms ++ (frame big ++ rest)) =
      ms.map RecvRes.msg ++ [RecvRes.err RecvErr.oversize] ∧ RecvErr.oversize.code = 8 := by
  have h32' : ∀ m ∈ ms, m.length < 4294967296 := fun m hm => by have := h m hm; simp only [maxMsg] at this; omega
  have := recvTraceL_frames maxMsg ms (frame big ++ rest) (k + 1) h32' h
  unfold recvTrace
  rw [this]
  simp [recvTraceL, recvL_oversize maxMsg big rest h32 hbig, RecvErr.code]

/-- Never truncated, for *every* byte stream (malformed ones included): whatever recv hands out as a message
    is one complete frame — the 5-byte header, exactly the declared number of bytes, within the limit —
    and the next recv continues right behind it. -/
theorem C08_recv_never_truncates (s m r : Bytes) (h : recv s = (RecvRes.msg m, r)) :
    ∃ f a b c d, s = f :: a :: b :: c :: d :: (m ++ r) ∧ be32 a b c d = m.length ∧ m.length ≤ maxMsg :=
  recvL_sound maxMsg s m r h

/-- … and for whole traces: for every byte stream (well-formed or not) and any number of Recv calls, the
    messages handed to the forwarder are, in order, the payloads of complete consecutive frames at the start
    of the stream (any flag bytes `fl`), each within the limit — nothing altered, invented, merged or cut. -/
theorem C08_recv_trace_sound (n : Nat) (s : Bytes) :
    ∃ fl : List UInt8, fl.length = (msgsOf (recvTrace n s)).length ∧
      ∃ rest, s = (List.zipWith frameF fl (msgsOf (recvTrace n s))).flatten ++ rest ∧
      ∀ m ∈ msgsOf (recvTrace n s), m.length ≤ maxMsg :=
  recvTraceL_sound maxMsg n s

/-- What fix D7 removed (shown with limit 2 so the kernel can evaluate it): the old code delivered the first
    `limit` bytes of an oversize frame as the message and took the remainder for the next header; the
    fixed model rejects the frame. -/
theorem C08_prefix_truncated_oversize :
    recvTracePreFixL 2 3 (frame [1, 2, 3] ++ frame [9]) =
      [RecvRes.msg [1, 2], RecvRes.msg [], RecvRes.err RecvErr.header] ∧
    recvTraceL 2 3 (frame [1, 2, 3] ++ frame [9]) = [RecvRes.err RecvErr.oversize] := by
  decide

/-! ### request side (grpc-websockets) -/

/-- Lossless, in order, any sizes (0 included; the length bytes are not even looked at), io.EOF after the
    finish marker, whatever the client sends after it. -/
theorem C08_ws_roundtrip (mdOk : Bytes → Bool) (hdr : Bytes) (hok : mdOk hdr = true)
    (ms : List Bytes) (junk : List Bytes) (k : Nat) :
    wsRecvTrace (ms.length + (k + 1)) (wsEvents mdOk {} (hdr :: (ms.map wsFrame ++ wsFinish :: junk))) =
      ms.map RecvRes.msg ++ [RecvRes.eof] :=
  ws_roundtrip mdOk hdr hok ms junk k

/-- After the finish marker every further client message is ignored. -/
theorem C08_ws_ignored_after_finish (mdOk : Bytes → Bool) (st : WS) (hc : st.closed = true) (ds : List Bytes) :
    wsEvents mdOk st ds = [] :=
  wsEvents_closed mdOk st hc ds

/-- A WebSocket message of at least 6 bytes always delivers exactly its bytes from offset 6 (no limit, no
    truncation); shorter ones deliver an error unless it is a bare flow-control byte. -/
theorem C08_ws_onMessage_cases (mdOk : Bytes → Bool) (data : Bytes) :
    let evs := (onMessage mdOk { receivedMD := true, closed := false } data).2
    (6 ≤ data.length → evs.head? = some (WSEv.msg (data.drop 6))) ∧
    (data.length = 0 → evs = [WSEv.err RecvErr.flow]) ∧
    (2 ≤ data.length → data.length ≤ 5 → evs.head? = some (WSEv.err RecvErr.wsHeader)) := by
  refine ⟨fun h => ?_, fun h => ?_, fun h2 h5 => ?_⟩
  · simp [onMessage, wsOff, h]
  · have : data = [] := List.eq_nil_of_length_eq_zero h
    subst this; simp [onMessage, wsOff]
  · cases data with
    | nil => simp at h2
    | cons b bs =>
      simp only [List.length_cons] at h2 h5
      have h6 : ¬ 6 ≤ bs.length + 1 := by omega
      have h1 : ¬ bs.length = 0 := by omega
      simp [onMessage, wsOff, h6, h1]

/-- What fix D8 removed: the old code dropped the empty message (exactly 6 bytes) and never delivered the
    framing errors it built (the call then hung until the client gave up). -/
theorem C08_prefix_ws_dropped_empty_and_errors :
    wsRecvTrace 3 (wsEventsWith (onMessagePreFix (fun _ => true)) {} [[], wsFrame [7], wsFrame [], wsFinish]) =
      [RecvRes.msg [7], RecvRes.eof] ∧
    wsRecvTrace 3 (wsEvents (fun _ => true) {} [[], wsFrame [7], wsFrame [], wsFinish]) =
      [RecvRes.msg [7], RecvRes.msg [], RecvRes.eof] ∧
    wsRecvTrace 1 (wsEventsWith (onMessagePreFix (fun _ => true)) {} [[], [0, 0]]) = [] ∧
    wsRecvTrace 1 (wsEvents (fun _ => true) {} [[], [0, 0]]) = [RecvRes.err RecvErr.wsHeader] := by
  decide

/-- A rejected header message ends the call: whatever else the client has sent (and the reader has already
    buffered) produces no event — no metadata is accepted later, nothing reaches the forwarder. -/
theorem C08_ws_bad_header_ends_call (mdOk : Bytes → Bool) (h : Bytes) (hbad : mdOk h = false) (ds : List Bytes) :
    wsEvents mdOk {} (h :: ds) = [WSEv.badMD] := by
  have e : onMessage mdOk {} h = ({ receivedMD := false, closed := true }, [WSEv.badMD]) := by
    simp [onMessage, hbad]
  have := wsEvents_closed mdOk { receivedMD := false, closed := true } rfl ds
  unfold wsEvents at this ⊢
  simp [wsEventsWith, e, this]

/-- What fix D8b removed: after the InvalidArgument trailer for a bad header, a buffered empty message was
    accepted as (empty) metadata and the call was routed and forwarded all the same. -/
theorem C08_prefix_ws_call_started_after_rejection :
    wsEventsWith (onMessagePreFix (fun d => d.isEmpty)) {} [[120], [], wsFrame [7]] =
      [WSEv.badMD, WSEv.md [], WSEv.msg [7]] ∧
    wsEvents (fun d => d.isEmpty) {} [[120], [], wsFrame [7]] = [WSEv.badMD] := by
  decide

/-! ### response side -/

/-- `pctDecode ∘ url.PathEscape = id` on every byte string (non-ASCII, control bytes, `%`, CR LF …). -/
theorem C08_pct (b : Bytes) : pctDecode (pathEscape b) = some b :=
  pct_roundtrip b

/-- url.PathEscape emits printable non-space ASCII only, so no status message can break the trailer's line
    structure or smuggle in another `grpc-status` line. -/
theorem C08_escape_is_printable (b : Bytes) : ∀ c ∈ pathEscape b, 33 ≤ c ∧ c ≤ 126 :=
  pathEscape_printable b

/-- The HTTP response: for every list of messages, every final status (any code, any message bytes), every
    (line-clean) trailer metadata of the target and every map iteration order `tr` of the trailer metadata,
    the independent decoder reads back exactly the messages followed by exactly one trailer frame, last,
    which states exactly the call's outcome. -/
theorem C08_resp_shape (ms : List Bytes) (md tr : MD) (code : Nat) (msg : Bytes)
    (hms : ∀ m ∈ ms, m.length < 4294967296) (hclean : ∀ kv ∈ md, CleanKV kv)
    (hperm : tr.Perm (trailerWithStatus md code msg)) (hsize : (trailerBlock tr).length < 4294967296) :
    decodeBody (respondHTTPWith ms tr) = some (ms, trailerBlock tr) ∧
    TrailerSays (trailerBlock tr) code msg ∧ httpStatus = 200 :=
  ⟨decodeBody_respond ms tr hms hsize, trailerOutcome_trailerWithStatus md tr code msg hclean hperm, rfl⟩

/-- The routing-failure path (`writeTrailerWithStatus(rw, metadata.MD{}, status.Convert(err))`): no data
    frame, one trailer frame stating the routing error; still HTTP 200. -/
theorem C08_resp_routing_failure (code : Nat) (msg : Bytes)
    (hsize : (trailerBlock (trailerWithStatus [] code msg)).length < 4294967296) :
    ∃ block, decodeBody (respondHTTP [] [] code msg) = some ([], block) ∧ TrailerSays block code msg ∧ httpStatus = 200 :=
  ⟨_, (C08_resp_shape [] [] _ code msg (by simp) (by simp) (List.Perm.refl _) hsize).1,
      (C08_resp_shape [] [] _ code msg (by simp) (by simp) (List.Perm.refl _) hsize).2⟩

/-- The WebSocket response: one message per frame; a header frame first iff there is at least one message,
    then the messages, then exactly one trailer message, last, stating the outcome (then close 1000). -/
theorem C08_ws_resp_shape (header : MD) (ms : List Bytes) (md tr : MD) (code : Nat) (msg : Bytes)
    (hh : (trailerBlock header).length < 4294967296)
    (hms : ∀ m ∈ ms, m.length < 4294967296) (hclean : ∀ kv ∈ md, CleanKV kv)
    (hperm : tr.Perm (trailerWithStatus md code msg)) (hsize : (trailerBlock tr).length < 4294967296) :
    decodeWS (wsRespondWith header ms tr) =
      some (if ms = [] then none else some (trailerBlock header), ms, trailerBlock tr) ∧
    TrailerSays (trailerBlock tr) code msg ∧ wsCloseCode = 1000 :=
  ⟨decodeWS_respond header ms tr hh hms hsize, trailerOutcome_trailerWithStatus md tr code msg hclean hperm, rfl⟩

/-- A target trailer that tries to set `grpc-status`/`grpc-message` itself is overridden: the outcome stated
    is the call's, and it is stated once. (Instance of `C08_resp_shape`, spelled out.) -/
theorem C08_trailer_overrides_target_status (v w : Bytes) (hv : (13 : UInt8) ∉ v) (hw : (13 : UInt8) ∉ w)
    (code : Nat) (msg : Bytes) :
    TrailerSays (trailerBlock (trailerWithStatus [(kStatus, v), (kMessage, w)] code msg)) code msg := by
  apply trailerOutcome_trailerWithStatus _ _ code msg _ (List.Perm.refl _)
  intro kv hkv
  simp only [List.mem_cons, List.not_mem_nil, or_false] at hkv
  rcases hkv with rfl | rfl
  · exact ⟨kStatus_clean.1, kStatus_clean.2, hv⟩
  · exact ⟨kMessage_clean.1, kMessage_clean.2, hw⟩

/-- The response theorems speak about the complete body, i.e. what the client has once ServeHTTP returned; before
    that the model promises only a prefix, and the empty prefix is allowed: no message is guaranteed to be visible
    while the target is silent (the bridge never flushes). The property text promises content and shape, not timeliness. -/
theorem C08_resp_visible (ms : List Bytes) (tr : MD) (visible : Bytes) :
    (VisibleOK true (respondHTTPWith ms tr) visible → visible = respondHTTPWith ms tr) ∧
    VisibleOK false (ms.flatMap lpmMessage) [] ∧ VisibleOK false (ms.flatMap lpmMessage) (ms.flatMap lpmMessage) := by
  refine ⟨fun h => by simpa [VisibleOK] using h, by simp [VisibleOK], by simp [VisibleOK]⟩

/-! ### the gRPC-WebSocket header message (readMD = textproto.ReadMIMEHeader, modelled; no oracle) -/

/-- The header message, as Go 1.23 net/textproto reads it (`readMIME`, tied to the real readMD differentially):
    * if it parses to the lines `ps`, the call is entered with it (whatever else the client has sent), the
      `metadata.MD(mimeHeader)` put into the context is exactly the lines grouped by canonical key, values in line
      order, and what `ProxyForwarder.Forward` reads back with metadata.FromIncomingContext (C07's model) is exactly
      the lines grouped by lower-cased key, values in line order (for token keys, i.e. all keys without a space);
    * if it does not parse, no metadata is ever handed over — RouteGRPC and Forward are not entered —, the only event is
      the rejection, and the client gets exactly one trailer message stating InvalidArgument (3). -/
theorem C08_ws_metadata (data : Bytes) :
    (∀ ps, readMIME data = some ps →
      (∀ ds, wsCallMD (wsEvents mdOkReal {} (data :: ds)) = some data) ∧
      (∀ K, GB.C07.MD.lookup (headerMD ps) K = grp GB.C07.canonKey ps K) ∧
      ((∀ p ∈ ps, tokenKey p.1) → ∀ q, GB.C07.MD.lookup (forwardMD ps) q = grp GB.C07.lower ps q)) ∧
    (readMIME data = none →
      (∀ ds, wsEvents mdOkReal {} (data :: ds) = [WSEv.badMD] ∧ wsCallMD (wsEvents mdOkReal {} (data :: ds)) = none) ∧
      ∃ block, decodeWS wsRespondBadHeader = some (none, [], block) ∧ TrailerSays block 3 badHeaderMsg) := by
  refine ⟨fun ps hps => ⟨fun ds => ?_, headerMD_lookup ps, forwardMD_lookup ps⟩, fun hnone => ⟨fun ds => ?_, ?_⟩⟩
  · have hok : mdOkReal data = true := by simp [mdOkReal, hps]
    have := onMessage_header mdOkReal data hok
    unfold wsEvents
    simp [wsEventsWith, this, wsCallMD]
  · have hbad : mdOkReal data = false := by simp [mdOkReal, hnone]
    have := C08_ws_bad_header_ends_call mdOkReal data hbad ds
    rw [this]; exact ⟨rfl, rfl⟩
  · have h := C08_ws_resp_shape [] [] [] (trailerWithStatus [] 3 badHeaderMsg) 3 badHeaderMsg (by decide) (by simp) (by simp)
      (List.Perm.refl _) (by decide)
    exact ⟨_, by simpa [wsRespondBadHeader, wsRespond] using h.1, h.2.1⟩

/-- malformed header messages, kernel-evaluated: no final newline, no colon, empty key, invalid key byte, control
    byte in the value, leading space; and well-formed ones: LF-only line ends, folded continuation, OWS trimming,
    a key with a space kept as written, text after the empty line ignored, the empty message -/
theorem C08_ws_metadata_cases :
    readMIME [97, 58, 32, 98] = none ∧                                  -- "a: b" (EOF before the empty line)
    readMIME [97, 32, 98, 13, 10] = none ∧                              -- "a b\r\n"
    readMIME [58, 32, 98, 13, 10] = none ∧                              -- ": b\r\n"
    readMIME [97, 9, 58, 32, 98, 13, 10] = none ∧                       -- "a\t: b\r\n"
    readMIME [97, 58, 32, 1, 13, 10] = none ∧                           -- "a: \x01\r\n"
    readMIME [32, 97, 58, 32, 98, 13, 10] = none ∧                      -- " a: b\r\n"
    readMIME [] = some [] ∧
    readMIME [97, 58, 98, 10] = some [([97], [98])] ∧                   -- "a:b\n"
    readMIME [97, 58, 32, 32, 98, 32, 13, 10, 9, 99, 32, 13, 10] = some [([97], [98, 32, 99])] ∧   -- "a:  b \r\n\tc \r\n"
    readMIME [97, 32, 58, 98, 13, 10] = some [([97, 32], [98])] ∧       -- "a :b\r\n"
    readMIME [97, 58, 98, 13, 10, 13, 10, 120] = some [([97], [98])] ∧  -- "a:b\r\n\r\nx"
    forwardMD [([67, 45, 116], [49]), ([99, 45, 84], [50])] = [([99, 45, 116], [[49], [50]])] := by   -- C-t: 1, c-T: 2
  refine ⟨?_, ?_, ?_, ?_, ?_, ?_, ?_, ?_, ?_, ?_, ?_, ?_⟩ <;> decide

/-! ### the gRPC-WebSocket request hand-off, over every interleaving (LTS in Handoff.lean) -/

open GB.C08.Handoff in
/-- No interleaving reaches a send on the closed `events` channel or a second `close(events)`: the panic labels are
    never enabled, and no reachable state is a panicked one. -/
theorem C08_ws_no_send_on_closed (cs : Bool) (s : St) (h : GB.LTS.Reachable (step cs) init s) :
    s.panicked = false ∧ step cs s Lbl.sendOnClosed = none ∧
    ∀ s', step cs s Lbl.closeEvents = some s' → s'.panicked = false := by
  have inv := inv_reachable cs s h
  refine ⟨inv.pan, ?_, fun s' hs => (inv_step cs s s' _ inv hs).pan⟩
  simp only [step]
  split
  · rename_i e rest hr
    have := (inv.busy _ hr).2.1
    simp [this]
  · rfl

open GB.C08.Handoff in
/-- In every reachable state of every interleaving: what the Recv calls have returned is a prefix of the sequential
    event sequence of the client's messages (nothing lost, reordered, duplicated or invented); as long as the handler
    has not closed `done`, results plus what is in flight (inside OnMessage's select, before close(events), or the
    closed channel not yet noticed) is exactly the event sequence of what the read loop took; and for a client that
    sends `ms` and the finish marker (and anything after it): a Recv that returned io.EOF did so after exactly the
    messages `ms`, in order, and once the read loop has worked off the socket the closed channel is there for the
    pump — the next Recv returns io.EOF. -/
theorem C08_ws_handoff (cs : Bool) (s : St) (h : GB.LTS.Reachable (step cs) init s) :
    s.results <+: eventsOf false s.sent ∧
    (s.done = false → eventsOf false s.consumed = s.results ++ flight s) ∧
    (∀ ms junk : List Bytes, s.sent = ms.map wsFrame ++ wsFinish :: junk →
      (s.eofTaken = true → s.results = ms.map WSEv.msg ++ [WSEv.eof]) ∧
      (s.pending = [] → s.reader = Reader.idle → s.done = false →
        s.eventsClosed = true ∧
        s.results ++ (if s.eofTaken then [] else [WSEv.eof]) = ms.map WSEv.msg ++ [WSEv.eof])) := by
  have inv := inv_reachable cs s h
  have hpre : s.results <+: eventsOf false s.sent := by
    rw [inv.hist, eventsOf_append]
    exact List.IsPrefix.trans inv.pre (List.prefix_append _ _)
  refine ⟨hpre, inv.eq, fun ms junk hs => ⟨fun he => ?_, fun hp hr hd => ?_⟩⟩
  · rw [hs, eventsOf_wellformed] at hpre
    exact eq_of_prefix_eof _ _ (by simp) hpre (inv.eofr he)
  · have hc : s.consumed = s.sent := by rw [inv.hist, hp]; simp
    have heq := inv.eq hd
    rw [hc, hs, eventsOf_wellformed] at heq
    simp only [flight, hr, todoOf, List.nil_append] at heq
    cases hec : s.eventsClosed with
    | false =>
      exfalso
      simp only [hec, Bool.false_and, Bool.false_eq_true, ↓reduceIte, List.append_nil] at heq
      have hmem : WSEv.eof ∈ s.results := by rw [← heq]; simp
      have := inv.eoft (inv.eofi hmem); simp [hec] at this
    | true =>
      refine ⟨rfl, ?_⟩
      cases het : s.eofTaken with
      | false => simp [hec, het] at heq; simp [heq]
      | true => simp [hec, het] at heq; simp [heq]

open GB.C08.Handoff in
/-- Once ServeHTTP has closed `done` (the handler is on its way out), the read loop is never stuck: from every
    reachable state there is a finite sequence of read-loop steps only (take a message, leave the select through
    `<-done`, close(events)) — each enabled without any help from the pump — after which every message on the socket
    has been worked off and OnMessage has returned (or the loop has already exited); no panic on the way. -/
theorem C08_ws_readloop_released (cs : Bool) (s : St) (h : GB.LTS.Reachable (step cs) init s) (hd : s.done = true) :
    ∃ ls s', (∀ l ∈ ls, readerLbl l = true) ∧ GB.LTS.run (step cs) s ls = some s' ∧ s'.panicked = false ∧
      (s'.reader = Reader.exited ∨ (s'.reader = Reader.idle ∧ s'.pending = [])) :=
  released_aux cs (measure s) s (inv_reachable cs s h) hd (Nat.le_refl _)

/-! ### the end of a gRPC-WebSocket call at connection level (fix D32: graceful close) -/

/-- facts: no hard close (`gws.Conn.WriteClose` = close frame + immediate TCP close) is left in the WebSocket bridges,
    both closing paths go through `closeGracefully`, and the close timeout is the 3 s the harness bounds against -/
theorem C08_facts_graceful_close :
    GB.Generated.wsWriteCloseCalls = 0 ∧ GB.Generated.wsGracefulCloseCallers = ["sendTrailer", "ServeHTTP"] ∧
    GB.Generated.wsCloseTimeoutMs = 3000 := by
  decide

open GB.C08.Conn in
/-- With the graceful close, in EVERY execution (any client writes, parking of the read loop, delivery and read
    timing): nothing of the response is ever dropped unless the close timeout fired, and whenever the connection is
    closed without the timeout having fired, the client has read the complete response — every message
    (`[header] data* trailer`) in order and then the close frame. A client that keeps reading and answers the close
    frame never sees less. -/
theorem C08_ws_tail_delivered (frames : List Bytes) (s : St)
    (h : GB.LTS.Reachable (step Mode.graceful) (init frames) s) :
    (s.deadline = false → s.lost = false ∧ s.got ++ s.cq ++ s.sq ++ s.towrite = script frames) ∧
    (s.tcpClosed = true → s.deadline = false → s.got = script frames ∧ s.lost = false) := by
  have inv := inv_reachable frames s h
  have hnl : s.deadline = false → s.lost = false := by
    intro hd
    cases hl : s.lost with
    | false => rfl
    | true => have := inv.lostd hl; simp [hd] at this
  refine ⟨fun hd => ⟨hnl hd, inv.cons (hnl hd)⟩, fun ht hd => ⟨?_, hnl hd⟩⟩
  rcases inv.tc ht with hr | hdl
  · have hc := inv.crep (inv.rr hr).2
    have hcons := inv.cons (hnl hd)
    rw [List.append_assoc, List.append_assoc] at hcons
    exact (got_complete frames s.got _ hcons hc).1
  · simp [hd] at hdl

open GB.C08.Conn in
/-- Termination within the bound: once the close frame is written, the handler's way out never depends on the
    client — the deadline can fire and the connection then be closed, whatever the client does or does not do. -/
theorem C08_ws_close_bounded (frames : List Bytes) (s : St)
    (h : GB.LTS.Reachable (step Mode.graceful) (init frames) s) (hc : s.closeSent = true) (ht : s.tcpClosed = false) :
    ∃ s', GB.LTS.run (step Mode.graceful) s [Lbl.timeout, Lbl.srvTcpClose] = some s' ∧ s'.tcpClosed = true := by
  refine ⟨tcpClose { s with deadline := true }, ?_, rfl⟩
  simp [GB.LTS.run, step, hc, ht]

open GB.C08.Conn in
/-- What fix D32 removed, kernel-evaluated on the original order (write the close frame and close the connection at
    once): one client message is still unread when the bridge ends the call; the data frame and the trailer are in the
    send queue; the abortive close drops them — the client never gets the trailer, whatever it does afterwards (nothing
    is left to deliver); the same schedule under the graceful close delivers everything. -/
theorem C08_ws_original_hard_close_loses_trailer :
    (GB.LTS.run (step Mode.hard) (init [[0, 0, 0, 0, 1, 7], [128, 0, 0, 0, 0]])
        [Lbl.cliWrite, Lbl.srvRead, Lbl.park, Lbl.cliWrite, Lbl.srvWrite, Lbl.srvWrite, Lbl.srvCloseFrame, Lbl.closeDone]).map
      (fun s => (s.got, s.cq, s.sq, s.lost, s.tcpClosed)) = some ([], [], [], true, true) ∧
    (GB.LTS.run (step Mode.graceful) (init [[0, 0, 0, 0, 1, 7], [128, 0, 0, 0, 0]])
        [Lbl.cliWrite, Lbl.srvRead, Lbl.park, Lbl.cliWrite, Lbl.srvWrite, Lbl.srvWrite, Lbl.srvCloseFrame, Lbl.closeDone,
         Lbl.srvRead, Lbl.deliver, Lbl.deliver, Lbl.deliver, Lbl.cliRead, Lbl.cliRead, Lbl.cliRead, Lbl.cliReply,
         Lbl.srvReadReply, Lbl.srvTcpClose]).map
      (fun s => (s.got, s.lost, s.tcpClosed)) =
        some ([Item.frame [0, 0, 0, 0, 1, 7], Item.frame [128, 0, 0, 0, 0], Item.close], false, true) := by
  refine ⟨?_, ?_⟩ <;> decide

/-! ### a client that stops reading cannot hold the gRPC-WebSocket handler (fix D35) -/

/-- fact: in sendTrailer the first statement is the SetDeadline call — it precedes the first `sendMu.Lock()` — and the
    rest of the closing sequence is the one the model walks through -/
theorem C08_facts_deadline_before_mutex :
    GB.Generated.wsSendTrailerCalls = ["SetDeadline", "Lock", "Unlock", "SetDeadline", "WriteMessage", "closeGracefully"] := by
  decide

open GB.C08.Stall in
/-- Fixed order (deadline first, then the mutex): from EVERY state the handler can be in once Forward has returned —
    an abandoned send blocked in the connection or not, the client reading, not reading, answering or silent — and
    whatever the client does afterwards (validity is preserved by all steps, the client's included), the handler's own
    schedule (next handler step if enabled, otherwise the armed deadline expires) reaches `returned` without a single
    step of the client and with at most three expirations: total bound 3 x wsCloseTimeout (abandoned write, trailer
    write, close handshake — each under its own deadline). -/
theorem C08_ws_handler_bounded_on_stalled_client (s : St) (ho : s.order = Order.fixed) (hv : valid s = true) :
    (∀ l s', step s l = some s' → valid s' = true ∧ s'.order = Order.fixed) ∧
    (∃ s', GB.LTS.run step s (escape 12 s) = some s' ∧ s'.phase = Phase.returned) ∧
    (escape 12 s).count Lbl.timeout ≤ 3 ∧
    (∀ l ∈ escape 12 s, l ∈ handlerLbls ∨ l = Lbl.timeout) := by
  have g := good_of_valid s
  simp only [ho, hv, decide_true, Bool.and_self, Bool.not_true, Bool.false_or] at g
  simp only [goodState, Bool.and_eq_true, List.all_eq_true, decide_eq_true_eq, Bool.or_eq_true, beq_iff_eq] at g
  obtain ⟨⟨⟨g1, g2⟩, g3⟩, g4⟩ := g
  refine ⟨fun l s' hs => ?_, ?_, g3, fun l hl => ?_⟩
  · have := g1 l (mem_allLbls l)
    rw [hs] at this
    simp only [Bool.and_eq_true, decide_eq_true_eq] at this
    exact ⟨this.1, by rw [this.2, ho]⟩
  · cases hr : GB.LTS.run step s (escape 12 s) with
    | none => rw [hr] at g2; simp at g2
    | some s' => rw [hr] at g2; exact ⟨s', rfl, by simpa using g2⟩
  · rcases g4 l hl with h | h
    · exact Or.inl (by simpa using h)
    · exact Or.inr h

open GB.C08.Stall in
/-- What fix D35 removed, kernel-evaluated: original order, an abandoned send blocked in a connection whose client has
    stopped reading, Forward returned. The handler is on the mutex, no deadline is armed: NO step of the handler and no
    expiration is enabled — only the client can change anything, and a silent client changes nothing; the same
    situation in the fixed order is left by the handler alone after one expiration. -/
theorem C08_ws_original_trailer_waits_for_stalled_send :
    let D : St := ⟨Order.original, Helper.blocked, Phase.start, false, false, DL.unset⟩
    valid D = true ∧ (∀ l ∈ handlerLbls ++ [Lbl.timeout], step D l = none) ∧ escape 12 D = [] ∧
    step D Lbl.cliStop = some D ∧
    escape 12 ⟨Order.fixed, Helper.blocked, Phase.start, false, false, DL.unset⟩ =
      [Lbl.arm, Lbl.timeout, Lbl.lock, Lbl.timeout, Lbl.writeTrailer, Lbl.armClose, Lbl.timeout, Lbl.writeClose, Lbl.readLoopEnds] := by
  decide

/-! ### non-vacuity -/

-- two messages, one of them empty, and EOF
example : recvTrace 3 (frames [[1, 2], []]) = [.msg [1, 2], .msg [], .eof] := by decide
-- chunked byte by byte
example : recvChunksTraceL maxMsg 2 [[0], [0, 0], [0], [1, 7]] = [.msg [7], .eof] := by decide
-- a status message with CR LF, '%', a non-ASCII byte: "a\r\n%é"
example : pathEscape [97, 13, 10, 37, 195, 169] = [97, 37, 48, 68, 37, 48, 65, 37, 50, 53, 37, 67, 51, 37, 65, 57] := by decide
example : trailerOutcome (trailerBlock (trailerWithStatus [] 5 [97, 13, 10, 37])) = some (5, [97, 13, 10, 37]) := by decide
example : decodeBody (respondHTTP [[1], []] [] 0 []) = some ([[1], []], trailerBlock (trailerWithStatus [] 0 [])) := by decide
-- WebSocket: header, an empty message, finish, ignored junk
example : wsRecvTrace 5 (wsEvents (fun _ => true) {} [[], wsFrame [], wsFinish, wsFrame [1]]) = [.msg [], .eof] := by decide
example : CleanKV ([120, 45, 116], [118, 49]) := by unfold CleanKV; decide

-- an interleaving of the hand-off: two messages and the finish marker, the pump in between; EOF at the end
example : (GB.LTS.run (Handoff.step true) Handoff.init
    [.clientSend (wsFrame [7]), .clientSend (wsFrame []), .recvCall, .read, .handoff, .clientSend wsFinish, .read, .recvCall,
     .handoff, .recvCall, .read, .closeEvents, .recvClosed]).map (·.results) =
    some [.msg [7], .msg [], .eof] := by decide
-- the handler leaves while a message is still offered: `<-done` releases OnMessage
example : (GB.LTS.run (Handoff.step false) Handoff.init
    [.clientSend (wsFrame [7]), .clientSend (wsFrame [8]), .recvCall, .read, .handoff, .read, .closeDone, .onDone, .readerExit]).map
      (fun s => (s.results, s.reader)) = some ([.msg [7]], .exited) := by decide


/-! ### the Send / trailer fence over ALL interleavings (Fence.lean: forwarder, abandoned `withCtx` helpers, handler epilogue)

  `Fence.step` is the LTS of gRPCWebStream (kind `http`) and gRPCWebSocketStream (kind `ws`) with the order of the
  code after fix e34ade0 (D30): the `finished` flag is read and written under the stream mutex. Every theorem below is
  about every label sequence executable from the initial state, i.e. every schedule of: any number of Send calls, each
  run by its own helper goroutine at its own pace (abandoned or not), SetHeader / SetTrailer, Forward returning with
  any status, the handler's Lock ; finished = true ; Unlock ; trailer write, and failing writes. -/

/-- The output is always `header-part ++ frames(messages written so far) ++ (trailer)?`: the data frames are whole
    `lpmMessage` frames, in the order the writes happened; a trailer frame is there only once the handler is done, it is
    the frame `lpmTrailer (encodeMD (trailerWithStatus s.trailer code msg))` (= the code's lpmTrailer, Trailer.lean) of the status Forward returned and of the trailer
    metadata the forwarder set, it is last, and there is at most one; over HTTP there is no header part. -/
theorem C08_fence_output_shape (k : Fence.Kind) (ls : List Fence.Lbl) (s : Fence.St)
    (hr : GB.LTS.run Fence.step (Fence.init .fixed k) ls = some s) :
    s.out = (match s.hdrW with | some h => [lpmTrailer h] | none => []) ++
            s.written.map (fun p => lpmMessage p.2) ++
            (match s.trW with | some t => [lpmTrailer t] | none => []) ∧
    (∀ t, s.trW = some t → t = encodeMD (trailerWithStatus s.trailer s.code s.smsg) ∧ s.phase = .done) ∧
    (k = .http → s.hdrW = none) := by
  have hR := GB.LTS.run_reachable Fence.step _ _ ls GB.LTS.Reachable.init hr
  have hI := Fence.inv_reachable k s hR
  refine ⟨hI.shape, fun t ht => ⟨(hI.trIs t ht).1, hI.trDone (by simp [ht])⟩, ?_⟩
  intro hk; subst hk
  exact (Fence.invHttp_reachable _ s hR).2

/-- gRPC-Web over HTTP: once the trailer write has happened the response body is, byte for byte, `respondHTTP` of the
    messages whose frames were written — the sequential model all the response theorems (`C08_resp_shape_any_values`: strict
    decoder, exactly one trailer frame, last, stating the outcome) are about. -/
theorem C08_fence_http_body (ls : List Fence.Lbl) (s : Fence.St)
    (hr : GB.LTS.run Fence.step (Fence.init .fixed .http) ls = some s) (ht : s.trW.isSome) :
    s.out.flatten = respondHTTPWith (s.written.map (·.2)) (encodeMD (trailerWithStatus s.trailer s.code s.smsg)) := by
  obtain ⟨h1, h2, h3⟩ := C08_fence_output_shape .http ls s hr
  cases htr : s.trW with
  | none => simp [htr] at ht
  | some t =>
    rw [h1, h3 rfl, htr, (h2 t htr).1]
    simp [respondHTTPWith, List.flatMap, List.map_map, Function.comp_def]

/-- gRPC-Web over WebSocket, no write failed (`Fence.NoWriteFailed`: no helper went through `hFail` — states `failed` /
    `doneErr` — and the handler's trailer write did not fail): in every reachable state of phase done the sequence of
    WebSocket messages is, message for message and byte for byte, `wsRespondWith` (the sequential model of
    `C08_ws_resp_shape…`: header frame before the first data frame and only then, data frames, ONE trailer frame, last) of
    the header block written (`hdrW`, = `encodeMD s.header` at the time of the first send), the messages whose Send
    returned nil — `written`, which at phase done is exactly the helpers in `doneOk`, second conjunct — in wire order, and
    the trailer metadata and status Forward returned. When no message was sent there is no header frame (the header
    argument is then irrelevant to `wsRespondWith`). -/
theorem C08_fence_ws_body (ls : List Fence.Lbl) (s : Fence.St)
    (hr : GB.LTS.run Fence.step (Fence.init .fixed .ws) ls = some s) (hd : s.phase = .done) (hn : Fence.NoWriteFailed s) :
    s.out = wsRespondWith (s.hdrW.getD []) (s.written.map (·.2)) (encodeMD (trailerWithStatus s.trailer s.code s.smsg)) ∧
    (∀ i h, s.helpers i = some h → (h.pc = .doneOk ↔ (i, h.msg) ∈ s.written)) ∧
    (s.written = [] → s.hdrW = none) := by
  have hI := Fence.invW_reachable s (GB.LTS.run_reachable Fence.step _ _ ls GB.LTS.Reachable.init hr)
  refine ⟨Fence.ws_body_of s hI.1 hI.2 hn hd, fun i h hh => Fence.done_written_iff s hI.1 hI.2 hd i h hh, ?_⟩
  intro hw
  cases hq : s.hdrW with
  | none => rfl
  | some hd0 =>
    have hfin : s.finished = true := hI.1.fin.2 (Or.inr (Or.inr hd))
    rcases hI.2.b (by simp [hq]) with h | ⟨i, h, hh, hp | hf⟩
    · exact absurd hw h
    · have := hI.1.pass i h hh hp; rw [hfin] at this; cases this
    · rw [hn.1 i h hh] at hf; cases hf

/-- gRPC-Web over WebSocket, failing writes. A failed `socket.WriteMessage` means the connection is gone, so every later
    write fails too: the run is `ls1` (up to `s1` no write failed and the trailer was not attempted) followed by `ls2` in
    which no write succeeds (no `hWriteHdr` / `hWrite` / `writeTrailer` label: `hFail`, `trailerFails`, refusals, late
    helpers … only). Then the output is a PREFIX of `wsRespondWith` cut at a message (= frame) boundary: for every trailer
    block `T` there is a non-empty list of whole frames `suffix` with `out ++ suffix = wsRespondWith hdr (written ++ rest) T`,
    where `rest = []` except in the one case that the header frame went out and the first data write failed (then the
    output is the lone header frame and `rest` is that one message — `wsRespondWith` of NO message has no header frame).
    The persistence hypothesis is needed: the LTS lets a write fail and a later one succeed, and then (header write fails,
    `sentMD` is already true, next Send writes its data frame) the output has data frames and no header frame —
    `C08_fence_ws_transient_header_failure`. -/
theorem C08_fence_ws_prefix_on_write_failure (ls1 ls2 : List Fence.Lbl) (s1 s : Fence.St)
    (hr1 : GB.LTS.run Fence.step (Fence.init .fixed .ws) ls1 = some s1)
    (hnf : ∀ i h, s1.helpers i = some h → h.pc.writeFailed = false) (hnd : s1.phase ≠ .done)
    (hr2 : GB.LTS.run Fence.step s1 ls2 = some s) (hfail : ∀ l ∈ ls2, l.isWrite = false) (T : MD) :
    ∃ rest suffix, suffix ≠ [] ∧
      s.out ++ suffix = wsRespondWith (s.hdrW.getD []) (s.written.map (·.2) ++ rest) T ∧
      (rest = [] ∨ (s.written = [] ∧ s.hdrW.isSome ∧ ∃ m, rest = [m])) := by
  have hI := Fence.invW_reachable s1 (GB.LTS.run_reachable Fence.step _ _ ls1 GB.LTS.Reachable.init hr1)
  obtain ⟨h1, h2, h3⟩ := Fence.nonwrite_run s1 ls2 s hfail hr2
  rw [h1, h2, h3]
  exact Fence.ws_prefix_of s1 hI.1 hI.2 hnf hnd T

/-- Why the prefix theorem assumes failures persist: in the LTS (and in the code, were a transport to fail once and then
    recover) a failing HEADER write leaves `sentMD = true`, the next Send writes its data frame without a header frame,
    and the output `[data, trailer]` is not `wsRespondWith` of anything with a message. Kernel-evaluated. -/
theorem C08_fence_ws_transient_header_failure :
    (GB.LTS.run Fence.step (Fence.init .fixed .ws)
      [.send [7], .hLock 0, .hCheck 0, .hFail 0, .hUnlock 0, .send [8], .hLock 1, .hCheck 1, .hWrite 1, .hUnlock 1,
       .fwdReturn 0 [], .finLock, .finSet, .finUnlock, .writeTrailer]).map (fun s => (s.out, s.hdrW))
      = some ([lpmMessage [8], lpmTrailer (encodeMD (trailerWithStatus [] 0 []))], none) := by
  decide

/-- Nothing after the trailer: from a state in which the handler has written (or tried to write) the trailer frame, no
    continuation whatsoever — helpers that were abandoned and complete late included — changes the output. -/
theorem C08_fence_nothing_after_trailer (k : Fence.Kind) (ls ls' : List Fence.Lbl) (s s' : Fence.St)
    (hr : GB.LTS.run Fence.step (Fence.init .fixed k) ls = some s) (hd : s.phase = .done)
    (hr' : GB.LTS.run Fence.step s ls' = some s') : s'.out = s.out :=
  (Fence.out_frozen_run s (Fence.inv_reachable k s (GB.LTS.run_reachable Fence.step _ _ ls GB.LTS.Reachable.init hr)) hd ls' s' hr').1

/-- An (abandoned) Send writes its whole frame before the trailer or nothing at all: a helper that returned nil has
    exactly its message among the written data frames (which all precede the trailer, `C08_fence_output_shape`), a helper
    that returned Canceled / Unavailable, or has not got to its write yet, has no frame in the output; no helper has two;
    and every data frame is the message of one Send call. -/
theorem C08_fence_send_all_or_nothing (k : Fence.Kind) (ls : List Fence.Lbl) (s : Fence.St)
    (hr : GB.LTS.run Fence.step (Fence.init .fixed k) ls = some s) :
    (∀ i h, s.helpers i = some h → h.pc = .doneOk → (i, h.msg) ∈ s.written) ∧
    (∀ i h, s.helpers i = some h → h.pc ≠ .doneOk → h.pc ≠ .wrote → ∀ m, (i, m) ∉ s.written) ∧
    (s.written.map Prod.fst).Nodup ∧
    (∀ i m, (i, m) ∈ s.written → ∃ h, s.helpers i = some h ∧ h.msg = m) := by
  have hI := Fence.inv_reachable k s (GB.LTS.run_reachable Fence.step _ _ ls GB.LTS.Reachable.init hr)
  refine ⟨fun i h hh hp => hI.wr2 i h hh (by simp [hp, Fence.PC.hasWritten]), ?_, hI.nodup, ?_⟩
  · intro i h hh h1 h2 m hm
    obtain ⟨h', hh', _, hw⟩ := hI.wr i m hm
    rw [hh] at hh'; cases hh'
    cases hq : h.pc <;> simp_all [Fence.PC.hasWritten]
  · intro i m hm
    obtain ⟨h', hh', hm', _⟩ := hI.wr i m hm
    exact ⟨h', hh', hm'⟩

/-- Mutual exclusion and the flag discipline the proof rests on: at most one party is between Lock and Unlock, a helper
    that has passed the `finished` test holds the mutex and `finished` is still false; the handler sets the flag only
    while it holds the mutex. -/
theorem C08_fence_mutex (k : Fence.Kind) (ls : List Fence.Lbl) (s : Fence.St)
    (hr : GB.LTS.run Fence.step (Fence.init .fixed k) ls = some s) :
    (∀ i j hi hj, s.helpers i = some hi → s.helpers j = some hj → hi.pc.holds = true → hj.pc.holds = true → i = j) ∧
    (∀ i h, s.helpers i = some h → h.pc.holds = true → s.phase ≠ .inLock ∧ s.phase ≠ .flagged) ∧
    (∀ i h, s.helpers i = some h → h.pc = .passed → s.finished = false) := by
  have hI := Fence.inv_reachable k s (GB.LTS.run_reachable Fence.step _ _ ls GB.LTS.Reachable.init hr)
  refine ⟨?_, ?_, hI.pass⟩
  · intro i j hi hj h1 h2 h3 h4
    have a := hI.hold i hi h1 h3
    have b := hI.hold j hj h2 h4
    rw [a] at b; cases b; rfl
  · intro i h h1 h2
    have a := hI.hold i h h1 h2
    have b := hI.hmu
    constructor <;> intro hp <;> simp [hp, a] at b

/-- No deadlock on the way to the trailer (writes that return): after Forward returned and until the trailer is written,
    the handler or the helper holding the mutex always has an enabled step. (A write that never returns: `Stall.lean`.) -/
theorem C08_fence_progress (k : Fence.Kind) (ls : List Fence.Lbl) (s : Fence.St)
    (hr : GB.LTS.run Fence.step (Fence.init .fixed k) ls = some s) (h1 : s.phase ≠ .forwarding) (h2 : s.phase ≠ .done) :
    (∃ l ∈ [Fence.Lbl.finLock, .finSet, .finUnlock, .writeTrailer], (Fence.step s l).isSome) ∨
    (∃ i, s.mu = .helper i ∧ ∃ l ∈ [Fence.Lbl.hCheck i, .hWriteHdr i, .hWrite i, .hUnlock i], (Fence.step s l).isSome) :=
  Fence.handler_or_holder_enabled s
    (Fence.inv_reachable k s (GB.LTS.run_reachable Fence.step _ _ ls GB.LTS.Reachable.init hr)) h1 h2

/-- The order before the fix (flag read OUTSIDE the mutex; the code before e34ade0 had no fence at all, which this order
    over-approximates from the safe side): the helper reads `finished = false`, the handler fences and writes the trailer,
    the helper then locks and writes — a data frame AFTER the trailer frame. Same schedule under the fixed order: the
    helper is refused, the trailer stays last. Kernel-evaluated. -/
theorem C08_fence_original_order_writes_after_trailer :
    (GB.LTS.run Fence.step (Fence.init .original .http)
      [.send [7], .hCheck 0, .fwdReturn 4 [], .finLock, .finSet, .finUnlock, .writeTrailer, .hLock 0, .hWrite 0, .hUnlock 0]).map (·.out)
      = some [lpmTrailer (encodeMD (trailerWithStatus [] 4 [])), lpmMessage [7]] ∧
    (GB.LTS.run Fence.step (Fence.init .fixed .http)
      [.send [7], .fwdReturn 4 [], .finLock, .finSet, .finUnlock, .writeTrailer, .hLock 0, .hCheck 0, .hUnlock 0]).map
        (fun s => (s.out, (s.helpers 0).map (·.pc)))
      = some ([lpmTrailer (encodeMD (trailerWithStatus [] 4 []))], some .doneCanceled) := by
  decide

/-- The lock scope and flag order the fixed-order LTS has are the ones in the source now (regenerated go/ast facts):
    `send` takes the mutex first, releases it by a deferred Unlock (so it covers the writes), tests `finished` under it and
    returns without writing when it is set, writes after the test (WebSocket: `if !sentMD { sentMD = true; header frame }`
    then the data frame); `finish` / `sendTrailer` set the flag between Lock and Unlock and write the trailer after the
    Unlock; GRPCWebBridge.ServeHTTP calls Forward, then finish(), then writeTrailerWithStatus (the first
    writeTrailerWithStatus is the routing-failure return, before any stream exists). -/
theorem C08_facts_fence :
    GB.Generated.grpcwebFenceHTTPSend = ["Lock", "defer Unlock", "if finished return", "Write"] ∧
    GB.Generated.grpcwebFenceHTTPFinish = ["Lock", "finished=true", "Unlock"] ∧
    GB.Generated.grpcwebFenceHTTPServe = ["writeTrailerWithStatus", "Forward", "finish", "writeTrailerWithStatus"] ∧
    GB.Generated.grpcwebFenceWSSend =
      ["Lock", "defer Unlock", "if finished return", "if !sentMD", "sentMD=true", "WriteMessage", "WriteMessage"] ∧
    GB.Generated.grpcwebFenceWSTrailer =
      ["SetDeadline", "Lock", "finished=true", "Unlock", "SetDeadline", "WriteMessage", "closeGracefully"] := by
  decide

-- a schedule with two Sends, the second abandoned and late but before the fence: both frames, then the trailer
example : (GB.LTS.run Fence.step (Fence.init .fixed .ws)
    [.setHeader [], .send [1], .send [2], .hLock 0, .hCheck 0, .hWriteHdr 0, .hWrite 0, .fwdReturn 0 [], .hUnlock 0,
     .hLock 1, .hCheck 1, .hWrite 1, .hUnlock 1, .finLock, .finSet, .finUnlock, .writeTrailer]).map (·.out) =
    some [lpmTrailer [], lpmMessage [1], lpmMessage [2], lpmTrailer (encodeMD (trailerWithStatus [] 0 []))] := by decide


/-! ### trailer content: no value can add a line to the block (fix D38) -/

/-- lpmTrailerValue never lets CR or LF through, for EVERY key and EVERY value byte string: a binary (-bin) value becomes
    base64 text (only `A-Za-z0-9+/`, so no NUL / control byte either), any other value has its CR and LF replaced by SP. -/
theorem C08_trailer_value_line_clean (k v : Bytes) :
    (13 : UInt8) ∉ trailerValue k v ∧ (10 : UInt8) ∉ trailerValue k v ∧
    (isBinKey k = true → ∀ c ∈ trailerValue k v, 33 ≤ c ∧ c ≤ 126) := by
  refine ⟨(trailerValue_clean k v).1, (trailerValue_clean k v).2, ?_⟩
  intro hb c hc
  simp only [trailerValue, hb, ↓reduceIte] at hc
  exact encodeRaw_printable v c hc

/-- Binary values are lossless: the client's `base64.RawStdEncoding` decoder gives back exactly the bytes the target sent. -/
theorem C08_trailer_bin_roundtrip (k v : Bytes) (hb : isBinKey k = true) :
    C07.b64dec false (trailerValue k v) [] = some v := by
  simp only [trailerValue, hb, ↓reduceIte]
  exact b64raw_roundtrip v

/-- The response theorem with NO assumption on the metadata values any more: for every message list, every outcome,
    every trailer metadata of the target — any value bytes, CR LF NUL and forged `grpc-status` lines included — whose KEYS
    are line-clean (keys come from the operator's allow-list + prefix), and every map order: the strict decoder reads back
    the messages and exactly one trailer frame, last, that states exactly the call's outcome. The trailer frame written is
    the code's `lpmTrailer(trailerWithStatus(md, st))` = `lpmTrailer (encodeMD (trailerWithStatus md code msg))`. -/
theorem C08_resp_shape_any_values (ms : List Bytes) (md tr : MD) (code : Nat) (msg : Bytes)
    (hms : ∀ m ∈ ms, m.length < 4294967296) (hkeys : ∀ kv ∈ md, (13 : UInt8) ∉ kv.1 ∧ (58 : UInt8) ∉ kv.1)
    (hperm : tr.Perm (encodeMD (trailerWithStatus md code msg))) (hsize : (trailerBlock tr).length < 4294967296) :
    decodeBody (respondHTTPWith ms tr) = some (ms, trailerBlock tr) ∧ TrailerSays (trailerBlock tr) code msg := by
  rw [encodeMD_trailerWithStatus] at hperm
  have := C08_resp_shape ms (encodeMD md) tr code msg hms (clean_encodeMD md hkeys) hperm hsize
  exact ⟨this.1, this.2.1⟩

/-- Witness of the behaviour before the fix (kernel-evaluated; the same input replayed on the real code: corpus/C08/trailer.txt):
    allow-listed binary trailer `x-bin` = "a\r\ngrpc-status: 0" on a call that FAILED with code 5 "no": the block had the
    lines `x-bin: a`, `grpc-status: 0`, `grpc-status: 5`, `grpc-message: no` — the trailer no longer states the outcome
    (a first-match client reads OK). After the fix the value travels as `YQ0KZ3JwYy1zdGF0dXM6IDA` and the outcome is (5, "no"). -/
theorem C08_prefix_trailer_injection :
    let md : MD := [([120, 45, 98, 105, 110], [97, 13, 10, 103, 114, 112, 99, 45, 115, 116, 97, 116, 117, 115, 58, 32, 48])]
    trailerOutcome (trailerBlock (trailerWithStatus md 5 [110, 111])) = none ∧
    (parseTrailer (trailerBlock (trailerWithStatus md 5 [110, 111]))).map (·.map (·.1)) =
      some [[120, 45, 98, 105, 110], kStatus, kStatus, kMessage] ∧
    trailerOutcome (trailerBlock (encodeMD (trailerWithStatus md 5 [110, 111]))) = some (5, [110, 111]) ∧
    trailerValue [120, 45, 98, 105, 110] [97, 13, 10, 103, 114, 112, 99, 45, 115, 116, 97, 116, 117, 115, 58, 32, 48] =
      [89, 81, 48, 75, 90, 51, 74, 119, 89, 121, 49, 122, 100, 71, 70, 48, 100, 88, 77, 54, 73, 68, 65] := by
  decide

/-! ### the request flag byte -/

/-- recv never looks at the flag byte: whatever the first byte of a frame is (0x01 "compressed", 0x80 "trailer", anything),
    the result and the rest of the stream are the same. -/
theorem C08_req_flag_ignored (L : Nat) (f g : UInt8) (s : Bytes) : recvL L (f :: s) = recvL L (g :: s) := by
  rcases s with _ | ⟨a, _ | ⟨b, _ | ⟨c, _ | ⟨d, rest⟩⟩⟩⟩ <;> simp [recvL]

/-- What IS guaranteed for a frame with a non-zero flag: its payload bytes are delivered unaltered, complete and in place —
    the bridge neither decompresses nor drops nor re-labels anything. -/
theorem C08_req_payload_intact_whatever_flag (fl : UInt8) (m rest : Bytes) (h : m.length ≤ maxMsg) :
    recv (fl :: (putBe32 m.length ++ m) ++ rest) = (.msg m, rest) := by
  have h32 : m.length < 4294967296 := by simp only [maxMsg] at h; omega
  have := recvL_frame maxMsg m rest h32 h
  simp only [frame, List.cons_append] at this
  unfold recv
  rw [List.cons_append, C08_req_flag_ignored maxMsg fl 0]
  exact this

/-! ### application/grpc-web-text (base64 body) is not supported: refused, never mis-framed -/

/-- The root dispatcher sends every media type that begins with `application/grpc-web` to GRPCWebBridge (C19), which reads
    the body as binary frames. A text-mode body consists of base64 characters (no NUL byte): then no Recv ever returns a
    message — the body is refused with Unavailable (1..4 bytes) or ResourceExhausted (its first five characters declare
    ≥ 2^24 > 4 MiB bytes), nothing reaches the target. (Before fix D7 the first 4 MiB of text were handed over as a message.) -/
theorem C08_text_mode_refused (s : Bytes) (hne : s ≠ []) (h : ∀ c ∈ s, c ≠ 0) (n : Nat) :
    recvTrace (n + 1) s = [.err .header] ∨ recvTrace (n + 1) s = [.err .oversize] := by
  rcases s with _ | ⟨f, _ | ⟨a, _ | ⟨b, _ | ⟨c, _ | ⟨d, rest⟩⟩⟩⟩⟩
  · exact absurd rfl hne
  all_goals try (left; simp [recvTrace, recvTraceL, recvL]; done)
  right
  have ha : a ≠ 0 := h a (by simp)
  have ha' : 1 ≤ a.toNat := by
    rcases Nat.eq_zero_or_pos a.toNat with h0 | h0
    · exact absurd (UInt8.toNat_inj.mp (by simpa using h0)) ha
    · exact h0
  have hlen : ¬ be32 a b c d < 1 ∧ be32 a b c d > maxMsg := by
    simp only [be32, maxMsg]; constructor <;> omega
  simp [recvTrace, recvTraceL, recvL, hlen.1, hlen.2]

-- "AAAAAAVoZWxsbw==" (the text-mode encoding of the frame of "hello"): refused as oversize; pre-fix recv would have read on
example : recvTrace 3 [65, 65, 65, 65, 65, 65, 86, 111, 90, 87, 120, 115, 98, 119, 61, 61] = [.err .oversize] := by decide
example : isBinKey [120, 45, 98, 105, 110] = true ∧ isBinKey [120, 45, 66, 73, 78] = false ∧ isBinKey [98, 105, 110] = false ∧ isBinKey kStatus = false := by decide

/-- The status trailer is written on EVERY way out of `GRPCWebBridge.ServeHTTP` once forwarding has started: between the
    statement that calls `Forward` and the trailer write there is no `return` at any depth, and the trailer write is a plain
    top-level statement (regenerated from the AST on every run). Seeded change C08-m8 put
    `if err != nil && requestCanceled(r) { return }` in front of it — a client that half-closes its connection and keeps
    reading then gets a response WITHOUT a trailer frame; Go's server cancels the request context on the client's FIN. -/
theorem C08_facts_trailer_unconditional :
    GB.Generated.grpcwebReturnsBeforeTrailer = [] ∧ GB.Generated.grpcwebTrailerStmt = "plain" := by decide
