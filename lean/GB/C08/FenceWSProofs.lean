import GB.C08.FenceProofs
import GB.C08.Proofs
/- C08 — the WebSocket body of the fence LTS: second invariant (which helper is responsible for a set `sentMD` / a written
   header frame), the exact output when no write failed, and the frame-boundary prefix when writes fail for good. -/
namespace GB.C08.Fence
open GB GB.C08

/-- a helper one of whose writes (header or data frame) failed: `hFail` is the only way into these two states -/
def PC.writeFailed : PC → Bool
  | .failed | .doneErr => true
  | _ => false

/-- no write has failed so far: no helper went through `hFail`, and the handler did not go through `trailerFails` -/
def NoWriteFailed (s : St) : Prop :=
  (∀ i h, s.helpers i = some h → h.pc.writeFailed = false) ∧ (s.phase = .done → s.trW.isSome)

/-- labels that append to the output -/
def Lbl.isWrite : Lbl → Bool
  | .hWriteHdr _ | .hWrite _ | .writeTrailer => true
  | _ => false

structure InvW (s : St) : Prop where
  a : s.sentMD = true → s.hdrW.isSome ∨ ∃ i h, s.helpers i = some h ∧ h.pc.writeFailed = true
  b : s.hdrW.isSome → s.written ≠ [] ∨ ∃ i h, s.helpers i = some h ∧ (h.pc = .passed ∨ h.pc.writeFailed = true)
  c : s.finished = true → ∀ i h, s.helpers i = some h → h.pc ≠ .wrote ∧ h.pc ≠ .failed

theorem invW_init : InvW (init .fixed .ws) := by
  constructor <;> simp [init]

macro "fw_label" h:ident : tactic =>
  `(tactic| (simp only [step, fwd, hCheck, hLock, hWriteHdr, hWrite, hFail, hUnlock] at $h:ident <;> (repeat' split at $h:ident) <;>
      (first | (cases $h:ident; done) | (cases $h:ident; simp_all [setPC, PC.holds, PC.hasWritten, PC.writeFailed] <;> grind [PC.holds, PC.hasWritten, PC.writeFailed]))))

theorem invW_c (s s' : St) (l : Lbl) (hI : Inv s) (hW : InvW s) (hs : step s l = some s') :
    s'.finished = true → ∀ i h, s'.helpers i = some h → h.pc ≠ .wrote ∧ h.pc ≠ .failed := by
  obtain ⟨ord, shape, trDone, fin, hold, pass, hmu, wr, wr2, nodup, trIs, fresh, hdrSent, noMD, muH⟩ := hI
  obtain ⟨a, b, c⟩ := hW
  cases l <;> fw_label hs

theorem invW_a (s s' : St) (l : Lbl) (hI : Inv s) (hW : InvW s) (hs : step s l = some s') :
    s'.sentMD = true → s'.hdrW.isSome ∨ ∃ i h, s'.helpers i = some h ∧ h.pc.writeFailed = true := by
  obtain ⟨ord, shape, trDone, fin, hold, pass, hmu, wr, wr2, nodup, trIs, fresh, hdrSent, noMD, muH⟩ := hI
  obtain ⟨a, b, c⟩ := hW
  cases l <;> fw_label hs

theorem invW_b (s s' : St) (l : Lbl) (hI : Inv s) (hW : InvW s) (hs : step s l = some s') :
    s'.hdrW.isSome → s'.written ≠ [] ∨ ∃ i h, s'.helpers i = some h ∧ (h.pc = .passed ∨ h.pc.writeFailed = true) := by
  obtain ⟨ord, shape, trDone, fin, hold, pass, hmu, wr, wr2, nodup, trIs, fresh, hdrSent, noMD, muH⟩ := hI
  obtain ⟨a, b, c⟩ := hW
  cases l <;> fw_label hs

theorem invW_reachable (s : St) (h : GB.LTS.Reachable step (init .fixed .ws) s) : Inv s ∧ InvW s :=
  GB.LTS.invariant step (init .fixed .ws) (fun s => Inv s ∧ InvW s) ⟨inv_init .ws, invW_init⟩
    (fun s l s' hI hs => ⟨inv_step s s' l hI.1 hs,
      ⟨invW_a s s' l hI.1 hI.2 hs, invW_b s s' l hI.1 hI.2 hs, invW_c s s' l hI.1 hI.2 hs⟩⟩) s h

/-- no failed write so far: the header frame is in the output iff a data frame is, or a helper is between the two writes -/
theorem hdr_of_written (s : St) (hI : Inv s) (hW : InvW s) (hnf : ∀ i h, s.helpers i = some h → h.pc.writeFailed = false)
    (hw : s.written ≠ []) : ∃ hd, s.hdrW = some hd := by
  have hs : s.sentMD = true := by
    cases h : s.sentMD with
    | true => rfl
    | false => exact absurd (hI.noMD h) hw
  rcases hW.a hs with h | ⟨i, h, hh, hf⟩
  · exact Option.isSome_iff_exists.1 h
  · rw [hnf i h hh] at hf; cases hf

theorem ws_body_of (s : St) (hI : Inv s) (hW : InvW s) (hn : NoWriteFailed s) (hd : s.phase = .done) :
    s.out = wsRespondWith (s.hdrW.getD []) (s.written.map (·.2)) (encodeMD (trailerWithStatus s.trailer s.code s.smsg)) := by
  obtain ⟨hnf, hnt⟩ := hn
  obtain ⟨t, ht⟩ := Option.isSome_iff_exists.1 (hnt hd)
  have htt := (hI.trIs t ht).1
  have hfin : s.finished = true := hI.fin.2 (Or.inr (Or.inr hd))
  rw [hI.shape]
  cases hw : s.written with
  | nil =>
    have hh : s.hdrW = none := by
      cases hq : s.hdrW with
      | none => rfl
      | some hd0 =>
        rcases hW.b (by simp [hq]) with h | ⟨i, h, hh, hp | hf⟩
        · exact absurd hw h
        · have := hI.pass i h hh hp; rw [hfin] at this; cases this
        · rw [hnf i h hh] at hf; cases hf
    simp [hdrPart, dataPart, trPart, hh, hw, ht, htt, wsRespondWith, wsSendAll]
  | cons p ps =>
    obtain ⟨hd0, hq⟩ := hdr_of_written s hI hW hnf (by simp [hw])
    simp [hdrPart, dataPart, trPart, hq, hw, ht, htt, wsRespondWith, wsSendAll, wsSend, wsSendAll_true,
      List.map_map, Function.comp_def]

/-- no failed write so far and the trailer not yet written: the output is what `wsRespondWith` starts with -/
theorem ws_prefix_of (s : St) (hI : Inv s) (hW : InvW s) (hnf : ∀ i h, s.helpers i = some h → h.pc.writeFailed = false)
    (hd : s.phase ≠ .done) (T : MD) :
    ∃ rest suffix, suffix ≠ [] ∧
      s.out ++ suffix = wsRespondWith (s.hdrW.getD []) (s.written.map (·.2) ++ rest) T ∧
      (rest = [] ∨ (s.written = [] ∧ s.hdrW.isSome ∧ ∃ m, rest = [m])) := by
  have ht : s.trW = none := by
    cases h : s.trW with
    | none => rfl
    | some t => exact absurd (hI.trDone (by simp [h])) hd
  rw [hI.shape]
  cases hw : s.written with
  | nil =>
    cases hq : s.hdrW with
    | none =>
      exact ⟨[], [lpmTrailer T], by simp, by simp [hdrPart, dataPart, trPart, hq, hw, ht, wsRespondWith, wsSendAll], Or.inl rfl⟩
    | some hd0 =>
      exact ⟨[[]], [lpmMessage [], lpmTrailer T], by simp,
        by simp [hdrPart, dataPart, trPart, hq, hw, ht, wsRespondWith, wsSendAll, wsSend],
        Or.inr ⟨rfl, by simp, [], rfl⟩⟩
  | cons p ps =>
    obtain ⟨hd0, hq⟩ := hdr_of_written s hI hW hnf (by simp [hw])
    exact ⟨[], [lpmTrailer T], by simp,
      by simp [hdrPart, dataPart, trPart, hq, hw, ht, wsRespondWith, wsSendAll, wsSend, wsSendAll_true,
        List.map_map, Function.comp_def], Or.inl rfl⟩

/-- a step that is not a write leaves the output and its ghost history alone -/
theorem nonwrite_step (s s' : St) (l : Lbl) (hl : l.isWrite = false) (hs : step s l = some s') :
    s'.out = s.out ∧ s'.written = s.written ∧ s'.hdrW = s.hdrW := by
  cases l <;> simp [Lbl.isWrite] at hl <;>
    (simp only [step, fwd, hCheck, hLock, hFail, hUnlock] at hs <;> (repeat' split at hs) <;>
      (first | (cases hs; done) | (cases hs; simp)))

theorem nonwrite_run (s : St) (ls : List Lbl) (s' : St) (hl : ∀ l ∈ ls, l.isWrite = false)
    (hr : GB.LTS.run step s ls = some s') : s'.out = s.out ∧ s'.written = s.written ∧ s'.hdrW = s.hdrW := by
  induction ls generalizing s with
  | nil => simp [GB.LTS.run] at hr; subst hr; exact ⟨rfl, rfl, rfl⟩
  | cons l ls ih =>
    simp only [GB.LTS.run] at hr
    cases h1 : step s l with
    | none => simp [h1] at hr
    | some s1 =>
      rw [h1] at hr
      have hf := nonwrite_step s s1 l (hl l (by simp)) h1
      have := ih s1 (fun l hm => hl l (by simp [hm])) hr
      exact ⟨this.1.trans hf.1, this.2.1.trans hf.2.1, this.2.2.trans hf.2.2⟩

/-- at phase done, the written messages are exactly those of the helpers that returned nil -/
theorem done_written_iff (s : St) (hI : Inv s) (hW : InvW s) (hd : s.phase = .done) (i : Nat) (h : Helper)
    (hh : s.helpers i = some h) : h.pc = .doneOk ↔ (i, h.msg) ∈ s.written := by
  have hfin : s.finished = true := hI.fin.2 (Or.inr (Or.inr hd))
  constructor
  · intro hp; exact hI.wr2 i h hh (by simp [hp, PC.hasWritten])
  · intro hm
    obtain ⟨h', hh', _, hp⟩ := hI.wr i h.msg hm
    rw [hh] at hh'; cases hh'
    have := (hW.c hfin i h hh).1
    cases hq : h.pc <;> simp_all [PC.hasWritten]

end GB.C08.Fence
