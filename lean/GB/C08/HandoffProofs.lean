import GB.C08.Handoff
import GB.C08.Proofs
set_option linter.unusedSimpArgs false
set_option linter.unusedVariables false
namespace GB.C08.Handoff
open GB GB.C08

abbrev om (c : Bool) (d : Bytes) := onMessage (fun _ => true) (wsOf c) d

theorem om_closed (d : Bytes) : om true d = (wsOf true, []) := by
  simp [om, onMessage, wsOf]

theorem om_state (c : Bool) (d : Bytes) : (om c d).1 = wsOf (om c d).1.closed := by
  cases c
  · simp [om, onMessage, wsOf]
  · simp [om_closed, wsOf]

/-- what one OnMessage call emits on an open stream: at most one data event, then `eof` iff the stream is now closed -/
theorem om_shape (d : Bytes) :
    ∃ X : List WSEv, (X = [] ∨ ∃ e, X = [e] ∧ isData e = true) ∧
      (om false d).2 = X ++ (if (om false d).1.closed then [WSEv.eof] else []) := by
  simp only [om, onMessage, wsOf, Bool.false_eq_true, ↓reduceIte, Bool.not_true]
  by_cases h6 : wsOff ≤ d.length
  · exact ⟨[WSEv.msg (d.drop wsOff)], Or.inr ⟨_, rfl, rfl⟩, by simp [h6]⟩
  · cases d with
    | nil => exact ⟨[WSEv.err RecvErr.flow], Or.inr ⟨_, rfl, rfl⟩, by simp [wsOff]⟩
    | cons b bs =>
      have h6' : ¬ wsOff ≤ bs.length + 1 := by simpa using h6
      by_cases h1 : bs.length = 0
      · exact ⟨[], Or.inl rfl, by simp [h1, wsOff]⟩
      · exact ⟨[WSEv.err RecvErr.wsHeader], Or.inr ⟨_, rfl, rfl⟩, by simp [h6', h1]⟩

theorem okTodo_tail (e : WSEv) (r : List WSEv) (h : okTodo (e :: r) = true) (hd : isData e = true) : okTodo r = true := by
  cases e <;> simp [isData] at hd <;> simpa [okTodo] using h

theorem om_ok (c : Bool) (d : Bytes) :
    okTodo (om c d).2 = true ∧ (WSEv.eof ∈ (om c d).2 → (om c d).1.closed = true) ∧
    (c = true → (om c d).1.closed = true) := by
  cases c
  · obtain ⟨X, hX, he⟩ := om_shape d
    rw [he]
    rcases hX with rfl | ⟨e, rfl, hd⟩
    · cases hc : (om false d).1.closed <;> simp [okTodo]
    · cases hc : (om false d).1.closed <;> cases e <;> simp [isData] at hd <;> simp [okTodo]
  · simp [om_closed, okTodo, wsOf]

theorem eventsOf_cons (c : Bool) (d : Bytes) (ds : List Bytes) :
    eventsOf c (d :: ds) = (om c d).2 ++ eventsOf (om c d).1.closed ds := by
  simp only [eventsOf, wsEvents, wsEventsWith]
  rw [show onMessage (fun _ => true) (wsOf c) d = om c d from rfl]
  conv => lhs; rw [om_state c d]

theorem eventsOf_snoc (c : Bool) (ds : List Bytes) (d : Bytes) :
    eventsOf c (ds ++ [d]) = eventsOf c ds ++ (om (closedAfter c ds) d).2 := by
  induction ds generalizing c with
  | nil => simp [eventsOf_cons, closedAfter, eventsOf, wsEvents, wsEventsWith]
  | cons x xs ih =>
    simp only [List.cons_append, eventsOf_cons, closedAfter, ih, List.append_assoc]

theorem closedAfter_snoc (c : Bool) (ds : List Bytes) (d : Bytes) :
    closedAfter c (ds ++ [d]) = (om (closedAfter c ds) d).1.closed := by
  induction ds generalizing c with
  | nil => simp [closedAfter]
  | cons x xs ih => simp only [List.cons_append, closedAfter, ih]



structure Inv (s : St) : Prop where
  hist : s.sent = s.consumed ++ s.pending
  flag : s.closedFlag = closedAfter false s.consumed
  evcl : s.eventsClosed = true → s.closedFlag = true
  busy : ∀ t, s.reader = .busy t → t ≠ [] ∧ s.eventsClosed = false ∧ okTodo t = true ∧ (WSEv.eof ∈ t → s.closedFlag = true)
  pan : s.panicked = false
  dn : s.done = true → s.recv ≠ .waiting
  eq : s.done = false → eventsOf false s.consumed = s.results ++ flight s
  pre : s.results <+: eventsOf false s.consumed
  eoft : s.eofTaken = true → s.eventsClosed = true
  eofs : s.eofTaken = true → s.recv = .stopped
  eofr : s.eofTaken = true → WSEv.eof ∈ s.results
  eofi : WSEv.eof ∈ s.results → s.eofTaken = true

theorem inv_init : Inv init := by
  refine ⟨rfl, rfl, by simp [init], by simp [init], rfl, by simp [init], ?_, ?_, by simp [init], by simp [init], by simp [init], by simp [init]⟩
  · intro _; simp [init, eventsOf, wsEvents, wsEventsWith, flight, todoOf]
  · simp [init]

theorem todoOf_afterTodo (t : List WSEv) : todoOf (afterTodo t) = t := by
  cases t <;> simp [afterTodo, todoOf]

theorem afterTodo_busy (t u : List WSEv) (h : afterTodo t = .busy u) : t = u ∧ u ≠ [] := by
  cases t with
  | nil => simp [afterTodo] at h
  | cons a r => simp [afterTodo] at h; exact ⟨h, by rw [← h]; simp⟩

theorem prefix_of_eq {α} (a b c : List α) (h : a = b ++ c) : b <+: a := ⟨c, h.symm⟩

theorem inv_step (cs : Bool) (s s' : St) (l : Lbl) (inv : Inv s) (h : step cs s l = some s') : Inv s' := by
  cases l with
  | clientSend d =>
    simp only [step, Option.some.injEq] at h; subst h
    exact ⟨by simp [inv.hist], inv.flag, inv.evcl, inv.busy, inv.pan, inv.dn, inv.eq, inv.pre, inv.eoft, inv.eofs, inv.eofr, inv.eofi⟩
  | read =>
    simp only [step] at h
    split at h
    · rename_i d rest hr hp
      simp only [Option.some.injEq] at h; subst h
      have hflag : (om s.closedFlag d).1.closed = closedAfter false (s.consumed ++ [d]) := by
        rw [closedAfter_snoc, ← inv.flag]
      have hev : eventsOf false (s.consumed ++ [d]) = eventsOf false s.consumed ++ (om s.closedFlag d).2 := by
        rw [eventsOf_snoc, ← inv.flag]
      obtain ⟨hok, heof, hcl⟩ := om_ok s.closedFlag d
      have hidle : todoOf s.reader = [] := by rw [hr]; rfl
      refine ⟨?_, hflag, ?_, ?_, inv.pan, inv.dn, ?_, ?_, inv.eoft, inv.eofs, inv.eofr, inv.eofi⟩
      · simp [inv.hist, hp]
      · intro he
        have := inv.evcl he
        exact hcl this
      · intro t ht
        obtain ⟨rfl, hne⟩ := afterTodo_busy _ _ ht
        refine ⟨hne, ?_, hok, heof⟩
        -- a non-empty emission means the stream was open, hence `events` not closed
        cases hc : s.eventsClosed with
        | false => rfl
        | true =>
          have := inv.evcl hc
          have h2 : (om s.closedFlag d).2 = [] := by rw [this, om_closed]
          exact absurd h2 hne
      · intro hd
        have := inv.eq hd
        simp only [hev, this, flight, hidle, List.nil_append, todoOf_afterTodo, List.append_assoc]
        -- the pending-eof marker and a fresh emission exclude each other
        cases hc : (s.eventsClosed && !s.eofTaken) with
        | false => simp
        | true =>
          have hec : s.eventsClosed = true := by
            cases he : s.eventsClosed <;> simp [he] at hc ⊢
          have := inv.evcl hec
          simp [this, om_closed]
      · rw [hev]
        exact List.IsPrefix.trans inv.pre (List.prefix_append _ _)
    · simp at h
  | handoff =>
    simp only [step] at h
    split at h
    · rename_i e rest hr hw
      split at h
      · rename_i hcond
        simp only [Option.some.injEq] at h; subst h
        simp only [Bool.and_eq_true, Bool.not_eq_true'] at hcond
        obtain ⟨hne, hec, hok, heof⟩ := inv.busy _ hr
        have hdone : s.done = false := by
          cases hd : s.done with
          | false => rfl
          | true => exact absurd hw (inv.dn hd)
        have heq := inv.eq hdone
        have hfl : flight s = e :: rest := by simp [flight, hr, todoOf, hec]
        have het : s.eofTaken = false := by
          cases he : s.eofTaken with
          | false => rfl
          | true => have := inv.eofs he; rw [hw] at this; cases this
        refine ⟨inv.hist, inv.flag, inv.evcl, ?_, inv.pan, ?_, ?_, ?_, inv.eoft, by intro he; simp [het] at he, by intro he; simp [het] at he, ?_⟩
        · intro t ht
          obtain ⟨rfl, hne'⟩ := afterTodo_busy _ _ ht
          exact ⟨hne', hec, okTodo_tail e _ hok hcond.1, fun hm => heof (List.mem_cons_of_mem _ hm)⟩
        · intro hd; simp [hdone] at hd
        · intro _
          simp only [flight, todoOf_afterTodo, hec, Bool.false_and, Bool.false_eq_true, ↓reduceIte, List.append_nil,
            List.append_assoc, List.cons_append, List.nil_append]
          rw [heq, hfl]
        · apply prefix_of_eq _ _ rest
          rw [heq, hfl]; simp
        · intro hm
          simp only [List.mem_append, List.mem_singleton] at hm
          rcases hm with hm | hm
          · have := inv.eofi hm; simp [het] at this
          · rw [← hm] at hcond; simp [isData] at hcond
      · simp at h
    · simp at h
  | onDone =>
    simp only [step] at h
    split at h
    · rename_i e rest hr
      split at h
      · rename_i hcond
        simp only [Option.some.injEq] at h; subst h
        simp only [Bool.and_eq_true, Bool.not_eq_true'] at hcond
        obtain ⟨hne, hec, hok, heof⟩ := inv.busy _ hr
        refine ⟨inv.hist, inv.flag, inv.evcl, ?_, inv.pan, inv.dn, ?_, inv.pre, inv.eoft, inv.eofs, inv.eofr, inv.eofi⟩
        · intro t ht
          obtain ⟨rfl, hne'⟩ := afterTodo_busy _ _ ht
          exact ⟨hne', hec, okTodo_tail e _ hok hcond.1.1, fun hm => heof (List.mem_cons_of_mem _ hm)⟩
        · intro hd; simp [hcond.1.2] at hd
      · simp at h
    · simp at h
  | closeEvents =>
    simp only [step] at h
    split at h
    · rename_i rest hr
      obtain ⟨hne, hec, hok, heof⟩ := inv.busy _ hr
      simp only [hec, Bool.false_eq_true, ↓reduceIte, Option.some.injEq] at h; subst h
      have hrest : rest = [] := by
        cases rest with
        | nil => rfl
        | cons a r => simp [okTodo] at hok
      subst hrest
      have hcf : s.closedFlag = true := heof (by simp)
      have het : s.eofTaken = false := by
        cases he : s.eofTaken with
        | false => rfl
        | true => have := inv.eoft he; simp [hec] at this
      refine ⟨inv.hist, inv.flag, fun _ => hcf, ?_, inv.pan, inv.dn, ?_, inv.pre, fun _ => rfl, inv.eofs, inv.eofr, inv.eofi⟩
      · intro t ht; simp [afterTodo] at ht
      · intro hd
        have := inv.eq hd
        simp only [flight, hr, todoOf, hec, Bool.false_and, Bool.false_eq_true, ↓reduceIte, List.append_nil] at this
        simp [flight, afterTodo, todoOf, het, this]
    · simp at h
  | sendOnClosed =>
    simp only [step] at h
    split at h
    · rename_i e rest hr
      obtain ⟨hne, hec, hok, heof⟩ := inv.busy _ hr
      simp [hec] at h
    · simp at h
  | recvCall =>
    simp only [step] at h
    split at h
    · rename_i hc
      simp only [Option.some.injEq] at h; subst h
      refine ⟨inv.hist, inv.flag, inv.evcl, inv.busy, inv.pan, ?_, inv.eq, inv.pre, inv.eoft, ?_, ?_, inv.eofi⟩
      · intro hd; simp [hc.2.1] at hd
      · intro he; have := inv.eofs he; rw [hc.1] at this; cases this
      · exact inv.eofr
    · simp at h
  | recvClosed =>
    simp only [step] at h
    split at h
    · rename_i hc
      simp only [Option.some.injEq] at h; subst h
      have hdone : s.done = false := by
        cases hd : s.done with
        | false => rfl
        | true => exact absurd hc.1 (inv.dn hd)
      have hidle : todoOf s.reader = [] := by
        cases hr : s.reader with
        | busy t => have := (inv.busy t hr).2.1; simp [hc.2] at this
        | idle => rfl
        | exited => rfl
      have heq := inv.eq hdone
      have het : s.eofTaken = false := by
        cases he : s.eofTaken with
        | false => rfl
        | true => have := inv.eofs he; rw [hc.1] at this; cases this
      simp only [flight, hidle, hc.2, het, Bool.true_and, List.nil_append, Bool.not_false, ↓reduceIte] at heq
      refine ⟨inv.hist, inv.flag, inv.evcl, inv.busy, inv.pan, ?_, ?_, ?_, fun _ => hc.2, fun _ => rfl, fun _ => by simp, fun _ => rfl⟩
      · intro _; simp
      · intro _
        simp [flight, hidle, heq]
      · rw [heq]; exact List.prefix_refl _
    · simp at h
  | recvCtx =>
    simp only [step] at h
    split at h
    · simp only [Option.some.injEq] at h; subst h
      exact ⟨inv.hist, inv.flag, inv.evcl, inv.busy, inv.pan, by intro _; simp, inv.eq, inv.pre, inv.eoft, fun _ => rfl, inv.eofr, inv.eofi⟩
    · simp at h
  | cancel =>
    simp only [step, Option.some.injEq] at h; subst h
    exact ⟨inv.hist, inv.flag, inv.evcl, inv.busy, inv.pan, inv.dn, inv.eq, inv.pre, inv.eoft, inv.eofs, inv.eofr, inv.eofi⟩
  | closeDone =>
    simp only [step] at h
    split at h
    · rename_i hc
      simp only [Option.some.injEq] at h; subst h
      exact ⟨inv.hist, inv.flag, inv.evcl, inv.busy, inv.pan, fun _ => hc, by intro hd; simp at hd, inv.pre, inv.eoft, inv.eofs, inv.eofr, inv.eofi⟩
    · simp at h
  | readerExit =>
    simp only [step] at h
    split at h
    · rename_i hr
      simp only [Option.some.injEq] at h; subst h
      refine ⟨inv.hist, inv.flag, inv.evcl, by intro t ht; simp at ht, inv.pan, inv.dn, ?_, inv.pre, inv.eoft, inv.eofs, inv.eofr, inv.eofi⟩
      intro hd
      have := inv.eq hd
      simpa [flight, hr, todoOf] using this
    · simp at h

theorem inv_reachable (cs : Bool) (s : St) (h : GB.LTS.Reachable (step cs) init s) : Inv s :=
  GB.LTS.invariant (step cs) init Inv inv_init (fun a l b ia hs => inv_step cs a b l ia hs) s h

theorem eventsOf_append (c : Bool) (a b : List Bytes) :
    eventsOf c (a ++ b) = eventsOf c a ++ eventsOf (closedAfter c a) b := by
  induction a generalizing c with
  | nil => simp [eventsOf, wsEvents, wsEventsWith, closedAfter]
  | cons x xs ih => simp only [List.cons_append, eventsOf_cons, closedAfter, ih, List.append_assoc]

theorem eq_of_prefix_eof (A R : List WSEv) (hA : WSEv.eof ∉ A) (hp : R <+: A ++ [WSEv.eof]) (he : WSEv.eof ∈ R) :
    R = A ++ [WSEv.eof] := by
  obtain ⟨t, ht⟩ := hp
  cases t with
  | nil => simpa using ht
  | cons x xs =>
    -- then R is a prefix of A, which has no eof
    exfalso
    have hlen : R.length ≤ A.length := by
      have := congrArg List.length ht
      simp at this; omega
    have : R <+: A := by
      have h1 : R <+: A ++ [WSEv.eof] := ⟨_, ht⟩
      have h2 : A <+: A ++ [WSEv.eof] := List.prefix_append _ _
      exact (List.prefix_of_prefix_length_le h1 h2 hlen)
    obtain ⟨u, hu⟩ := this
    exact hA (by rw [← hu]; exact List.mem_append_left _ he)

/-- the client's well-formed stream, sequentially: its messages, then the channel is closed -/
theorem eventsOf_wellformed (ms : List Bytes) (junk : List Bytes) :
    eventsOf false (ms.map wsFrame ++ wsFinish :: junk) = ms.map WSEv.msg ++ [WSEv.eof] := by
  have hfin : wsEvents (fun _ => true) stOpen (wsFinish :: junk) = [WSEv.eof] := by
    have := wsEvents_closed (fun _ => true) { receivedMD := true, closed := true } rfl junk
    unfold wsEvents at this ⊢
    simp [wsEventsWith, onMessage_finish, this]
  have := wsEvents_frames (fun _ => true) ms (wsFinish :: junk)
  rw [hfin] at this
  exact this

/-- reader-side labels -/
def readerLbl : Lbl → Bool
  | .read => true
  | .onDone => true
  | .closeEvents => true
  | _ => false

theorem released_aux (cs : Bool) (n : Nat) : ∀ s, Inv s → s.done = true → measure s ≤ n →
    ∃ ls s', (∀ l ∈ ls, readerLbl l = true) ∧ GB.LTS.run (step cs) s ls = some s' ∧ s'.panicked = false ∧
      (s'.reader = .exited ∨ (s'.reader = .idle ∧ s'.pending = [])) := by
  induction n with
  | zero =>
    intro s inv hd hm
    simp only [measure, Nat.le_zero, Nat.add_eq_zero_iff, Nat.mul_eq_zero] at hm
    have hp : s.pending = [] := by
      cases hp : s.pending with
      | nil => rfl
      | cons a r => simp [hp] at hm
    refine ⟨[], s, by simp, rfl, inv.pan, ?_⟩
    cases hr : s.reader with
    | idle => exact Or.inr ⟨rfl, hp⟩
    | exited => exact Or.inl rfl
    | busy t =>
      have := (inv.busy t hr).1
      have h2 : t = [] := by simpa [hr, todoOf] using hm.2
      exact absurd h2 this
  | succ n ih =>
    intro s inv hd hm
    -- pick the enabled reader step
    have key : (s.reader = .exited ∨ (s.reader = .idle ∧ s.pending = [])) ∨
        ∃ l s1, readerLbl l = true ∧ step cs s l = some s1 ∧ s1.done = true ∧ measure s1 < measure s := by
      cases hr : s.reader with
      | exited => exact Or.inl (Or.inl rfl)
      | idle =>
        cases hp : s.pending with
        | nil => exact Or.inl (Or.inr ⟨rfl, rfl⟩)
        | cons d rest =>
          have hlen : (om s.closedFlag d).2.length ≤ 2 := by
            cases hc : s.closedFlag
            · obtain ⟨X, hX, he⟩ := om_shape d
              rw [he]
              rcases hX with rfl | ⟨e, rfl, _⟩ <;> cases (om false d).1.closed <;> simp
            · simp [om_closed]
          cases hs1 : step cs s .read with
          | none => simp [step, hr, hp] at hs1
          | some s1 =>
            have e1 : s1 = { s with pending := rest, consumed := s.consumed ++ [d], closedFlag := (om s.closedFlag d).1.closed, reader := afterTodo (om s.closedFlag d).2 } := by
              simp only [step, hr, hp, Option.some.injEq] at hs1; exact hs1.symm
            refine Or.inr ⟨.read, s1, rfl, hs1, by rw [e1]; exact hd, ?_⟩
            rw [e1]
            show 3 * rest.length + (todoOf (afterTodo (om s.closedFlag d).2)).length < 3 * s.pending.length + (todoOf s.reader).length
            rw [todoOf_afterTodo, hr, hp]; simp only [todoOf, List.length_cons, List.length_nil]
            omega
      | busy t =>
        obtain ⟨hne, hec, hok, heof⟩ := inv.busy t hr
        cases t with
        | nil => exact absurd rfl hne
        | cons e rest =>
          cases e with
          | msg m =>
            have hs1 : step cs s .onDone = some { s with reader := afterTodo rest } := by simp [step, hr, isData, hd, hec]
            refine Or.inr ⟨.onDone, _, rfl, hs1, hd, ?_⟩
            show 3 * s.pending.length + (todoOf (afterTodo rest)).length < 3 * s.pending.length + (todoOf s.reader).length
            rw [todoOf_afterTodo, hr]; simp [todoOf]
          | err x =>
            have hs1 : step cs s .onDone = some { s with reader := afterTodo rest } := by simp [step, hr, isData, hd, hec]
            refine Or.inr ⟨.onDone, _, rfl, hs1, hd, ?_⟩
            show 3 * s.pending.length + (todoOf (afterTodo rest)).length < 3 * s.pending.length + (todoOf s.reader).length
            rw [todoOf_afterTodo, hr]; simp [todoOf]
          | eof =>
            have hs1 : step cs s .closeEvents = some { s with eventsClosed := true, reader := afterTodo rest } := by simp [step, hr, hec]
            refine Or.inr ⟨.closeEvents, _, rfl, hs1, hd, ?_⟩
            show 3 * s.pending.length + (todoOf (afterTodo rest)).length < 3 * s.pending.length + (todoOf s.reader).length
            rw [todoOf_afterTodo, hr]; simp [todoOf]
          | md h => simp [okTodo] at hok
          | badMD => simp [okTodo] at hok
    rcases key with hfin | ⟨l, s1, hl, hs, hd1, hlt⟩
    · exact ⟨[], s, by simp, rfl, inv.pan, hfin⟩
    · obtain ⟨ls, s', hall, hrun, hp, hend⟩ := ih s1 (inv_step cs s s1 l inv hs) hd1 (by omega)
      refine ⟨l :: ls, s', ?_, by simp [GB.LTS.run, hs, hrun], hp, hend⟩
      intro x hx
      simp only [List.mem_cons] at hx
      rcases hx with rfl | hx
      · exact hl
      · exact hall x hx

end GB.C08.Handoff
