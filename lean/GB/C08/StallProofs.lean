import GB.C08.Stall
/- C08 — kernel decision over the finite state space of Stall.lean. -/
namespace GB.C08.Stall
open GB

def goodState (s : St) : Bool :=
  allLbls.all (fun l => match step s l with | some s' => valid s' && decide (s'.order = s.order) | none => true) &&
  ((GB.LTS.run step s (escape 12 s)).map (·.phase) == some Phase.returned) &&
  decide ((escape 12 s).count Lbl.timeout ≤ 3) &&
  (escape 12 s).all (fun l => handlerLbls.contains l || l == Lbl.timeout)

set_option maxRecDepth 100000 in
theorem good_of_valid (s : St) : (!(decide (s.order = Order.fixed) && valid s) || goodState s) = true := by
  obtain ⟨o, h, p, cr, cp, d⟩ := s
  cases o <;> cases h <;> cases p <;> cases cr <;> cases cp <;> cases d <;> decide

theorem mem_allLbls (l : Lbl) : l ∈ allLbls := by cases l <;> decide

end GB.C08.Stall
