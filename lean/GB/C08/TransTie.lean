import GB.Generated.Trans
import GB.Base.TransLemmas
import GB.C08.Model
/-
  C08 — SOURCE-TO-LEAN TRANSLATOR TIE for two STATEMENT RANGES of webbridge/grpcweb.go, regenerated from the source on
  every run (extract/trans fragment targets; the enclosing methods are impure — io.ReadFull, channels — the ranges are not):
    * `recv_length`     : `(*gRPCWebStream).recv`, `length := binary.BigEndian.Uint32(header[1:5])` … `if length > maxRecvMessageSize { return … }`
    * `onMessage_frame` : `(*gwsGRPCWebHandler).OnMessage`, `if len(data) > 0 { stream.closed = data[0] == 1 } else …` …
                          `if len(data) >= 6 { event.data = data[6:] } else if …`, plus the CONDITION of the `if` that follows
                          (`len(data) >= 6 || event.err != nil`: deliver the event)
-/
set_option linter.unusedSimpArgs false
set_option linter.unusedVariables false

open GB GB.Trans

/-- library `binary.BigEndian.Uint32(header[1:5])` on a 5-byte header = the model's `be32` of bytes 1…4 -/
theorem GB.C08.TransTie.beUint32_hdr (f a b c d : UInt8) :
    beUint32 (slice [f, a, b, c, d] 1 5) = Int.ofNat (GB.C08.be32 a b c d) := by
  rfl

/-- the 5-byte prefix arithmetic of `recv`: big-endian length of bytes 1…4 (the flag byte is not looked at),
    `< 1` ⇒ first `return` (empty message, nil), `> maxRecvMessageSize` ⇒ second `return` (ResourceExhausted, fix D7),
    otherwise the length the body read uses -/
theorem C08_trans_recv_length (f a b c d : UInt8) :
    GB.Generated.Trans.recv_length [f, a, b, c, d] =
      if GB.C08.be32 a b c d < 1 then .ret 0
      else if GB.C08.be32 a b c d > GB.C08.maxMsg then .ret 1
      else .done (Int.ofNat (GB.C08.be32 a b c d)) := by
  unfold GB.Generated.Trans.recv_length
  rw [GB.C08.TransTie.beUint32_hdr]
  simp only [GB.C08.maxMsg, Int.ofNat_eq_natCast, decide_eq_true_eq]
  by_cases h1 : GB.C08.be32 a b c d < 1
  · have : ((GB.C08.be32 a b c d : Nat) : Int) < 1 := by omega
    simp [h1, this]
  · have h1' : ¬ ((GB.C08.be32 a b c d : Nat) : Int) < 1 := by omega
    by_cases h2 : GB.C08.be32 a b c d > 4194304
    · have : ((GB.C08.be32 a b c d : Nat) : Int) > 4194304 := by omega
      simp [h1, h1', h2, this]
    · have : ¬ ((GB.C08.be32 a b c d : Nat) : Int) > 4194304 := by omega
      simp [h1, h1', h2, this]

/-- the model's `recv` (one Recv on the remaining body) is the code's control flow over the regenerated range:
    header read (5 bytes) → `recv_length` → first return = empty message, second return = oversize error,
    fall-through = read `length` body bytes -/
theorem C08_trans_recv (f a b c d : UInt8) (rest : GB.Bytes) :
    GB.C08.recv (f :: a :: b :: c :: d :: rest) =
      match GB.Generated.Trans.recv_length [f, a, b, c, d] with
      | .ret 0 => (.msg [], rest)
      | .ret _ => (.err .oversize, rest)
      | .done len =>
        if rest.length < len.toNat then (.err .body, []) else (.msg (rest.take len.toNat), rest.drop len.toNat) := by
  rw [C08_trans_recv_length]
  simp only [GB.C08.recv, GB.C08.recvL]
  by_cases h1 : GB.C08.be32 a b c d < 1
  · simp [h1]
  · by_cases h2 : GB.C08.be32 a b c d > GB.C08.maxMsg
    · simp [h1, h2]
    · simp [h1, h2]

/-- what `OnMessage` sends on `stream.events` / closes, from the four values the regenerated range yields
    (`stream.closed`, `event.err != nil`, `event.data`, the delivery condition); both framing errors are
    InvalidArgument statuses — which of the two messages it is follows from `len(data) = 0` -/
def GB.C08.TransTie.frameEvents (data : Bytes) (r : Bool × Bool × Bytes × Bool) : List GB.C08.WSEv :=
  (if r.2.2.2 then
      (if r.2.1 then [GB.C08.WSEv.err (if data.length = 0 then GB.C08.RecvErr.flow else GB.C08.RecvErr.wsHeader)]
       else [GB.C08.WSEv.msg r.2.2.1])
    else []) ++ (if r.1 then [GB.C08.WSEv.eof] else [])

/-- the WebSocket sub-protocol framing of `OnMessage` (after the metadata message, stream not closed): flow-control
    byte (`data[0] == 1` closes), `len(data) >= 6` ⇒ payload `data[6:]`, 2…5 bytes ⇒ header error, empty ⇒ flow-control
    error, exactly 1 byte ⇒ nothing delivered; delivery condition `len(data) >= 6 || event.err != nil` (fix D8).
    The model's `onMessage` equals the regenerated range run from `event = gwsReadEvent{}` and `stream.closed = false`. -/
theorem C08_trans_onMessage_frame (mdOk : GB.Bytes → Bool) (st : GB.C08.WS) (data : GB.Bytes)
    (hc : st.closed = false) (hm : st.receivedMD = true) :
    GB.C08.onMessage mdOk st data =
      let r := GB.Generated.Trans.onMessage_frame data false false []
      ({ st with closed := r.1 }, GB.C08.TransTie.frameEvents data r) := by
  rcases data with _ | ⟨a, _ | ⟨b, _ | ⟨c, _ | ⟨d, _ | ⟨e, _ | ⟨f, rest⟩⟩⟩⟩⟩⟩
  case cons.cons.cons.cons.cons.cons =>
    have h1 : (0:Int) < ↑rest.length + 1 + 1 + 1 + 1 + 1 + 1 := by omega
    have h2 : (6:Int) ≤ ↑rest.length + 1 + 1 + 1 + 1 + 1 + 1 := by omega
    have h3 : ((↑rest.length : Int) + 1 + 1 + 1 + 1 + 1 + 1).toNat = rest.length + 6 := by omega
    simp [GB.C08.onMessage, GB.Generated.Trans.onMessage_frame, GB.C08.TransTie.frameEvents, hc, hm, len, slice, idx,
      GB.C08.wsOff, h1, h2, h3]
  all_goals
    simp [GB.C08.onMessage, GB.Generated.Trans.onMessage_frame, GB.C08.TransTie.frameEvents, hc, hm, len, slice, idx,
      GB.C08.wsOff]

example : GB.Generated.Trans.onMessage_frame [1] false false [] = (true, false, [], false) := by decide
example : GB.Generated.Trans.onMessage_frame [0, 0, 0, 0, 0, 1, 7] false false [] = (false, false, [7], true) := by decide
example : GB.Generated.Trans.onMessage_frame [0, 0, 0] false false [] = (false, true, [], true) := by decide
example : GB.Generated.Trans.onMessage_frame [] false false [] = (false, true, [], true) := by decide
example : GB.Generated.Trans.recv_length [0, 0, 0, 1, 2] = .done 258 := by decide
example : GB.Generated.Trans.recv_length [128, 0, 0, 0, 0] = .ret 0 := by decide
example : GB.Generated.Trans.recv_length [0, 0, 64, 0, 1] = .ret 1 := by decide
example : GB.Generated.Trans.recv_length [0, 0, 64, 0, 0] = .done 4194304 := by decide
