import GB.Base.LTS
/-
  C08 — the way out of a gRPC-WebSocket handler when the client has STOPPED READING (fix D35).

  After Forward returned, ServeHTTP calls gRPCWebSocketStream.sendTrailer. A `send` abandoned by withCtx can still be
  blocked inside socket.WriteMessage (the connection's buffers are full), holding `sendMu`.

    fixed order:     SetDeadline(now+wsCloseTimeout) ; sendMu.Lock ; finished = true ; Unlock ; SetDeadline ; write trailer ;
                     closeGracefully = SetDeadline ; write close frame ; (ServeHTTP) close(done) ; wait for ReadLoop
    original order:  sendMu.Lock ; … ; SetDeadline ; …        (the deadline is armed only after the mutex was obtained)

  A deadline that expires fails every I/O pending on the connection (the abandoned write, the trailer / close-frame
  write, ReadLoop's read) and stays expired until it is armed again. The client is the adversary: it may read, stop
  reading, answer the close frame or do nothing at all, for ever. The state space is finite, so the theorems about it
  are decided by the kernel over all states.
-/
namespace GB.C08.Stall

inductive Order | fixed | original
deriving DecidableEq, Repr

/-- the `send` abandoned by withCtx -/
inductive Helper
  | none       -- there is none (or it has returned long ago)
  | blocked    -- inside WriteMessage, holding sendMu, the client does not read
  | finished   -- returned (write completed or failed): sendMu released
deriving DecidableEq, Repr

/-- the connection deadline -/
inductive DL | unset | armed | expired
deriving DecidableEq, Repr

/-- where the handler is -/
inductive Phase
  | start      -- Forward returned, sendTrailer entered
  | armed      -- (fixed order) first SetDeadline done, about to take sendMu
  | locked     -- got sendMu, finished = true, released, deadline armed: about to write the trailer
  | trailer    -- trailer written (or the write failed): about to enter closeGracefully
  | closing    -- closeGracefully armed the deadline: about to write the close frame
  | closeSent  -- close frame written (or failed): ServeHTTP closed `done`, waits for ReadLoop
  | returned   -- ServeHTTP returned: ReadLoop ended, connection closed
deriving DecidableEq, Repr

structure St where
  order : Order
  helper : Helper
  phase : Phase
  clientReads : Bool
  clientReplied : Bool
  dl : DL
deriving DecidableEq, Repr

inductive Lbl
  | arm | lock | writeTrailer | armClose | writeClose | readLoopEnds   -- the handler
  | timeout                                                            -- the armed deadline expires
  | cliRead | cliStop | cliReply                                       -- the client (adversary)
deriving DecidableEq, Repr

def step (s : St) : Lbl → Option St
  | .arm => if s.order = .fixed ∧ s.phase = .start then some { s with phase := .armed, dl := .armed } else none
  | .lock =>
    if ((s.order = .fixed ∧ s.phase = .armed) ∨ (s.order = .original ∧ s.phase = .start)) ∧ s.helper ≠ .blocked
    then some { s with phase := .locked, dl := .armed } else none
  | .writeTrailer => if s.phase = .locked ∧ (s.clientReads = true ∨ s.dl = .expired) then some { s with phase := .trailer } else none
  | .armClose => if s.phase = .trailer then some { s with phase := .closing, dl := .armed } else none
  | .writeClose => if s.phase = .closing ∧ (s.clientReads = true ∨ s.dl = .expired) then some { s with phase := .closeSent } else none
  | .readLoopEnds => if s.phase = .closeSent ∧ (s.clientReplied = true ∨ s.dl = .expired) then some { s with phase := .returned } else none
  | .timeout =>
    if s.dl = .armed then some { s with dl := .expired, helper := if s.helper = .blocked then .finished else s.helper } else none
  | .cliRead => some { s with clientReads := true, helper := if s.helper = .blocked then .finished else s.helper }
  | .cliStop => some { s with clientReads := false }
  | .cliReply => if s.phase = .closeSent ∧ s.clientReads = true then some { s with clientReplied := true } else none

/-- states the handler can be in: past the first SetDeadline a deadline is armed or expired, and an expired
    deadline has failed the abandoned write -/
def valid (s : St) : Bool :=
  -- an expired deadline has failed the abandoned write
  !(s.helper = .blocked && s.dl = .expired) &&
  match s.phase with
  | .start => s.order = .original || true
  | .armed => s.order = .fixed && s.dl != .unset
  | .locked | .closing | .closeSent => s.dl != .unset
  | .trailer => s.dl != .unset
  | .returned => true

def handlerLbls : List Lbl := [.arm, .lock, .writeTrailer, .armClose, .writeClose, .readLoopEnds]

/-- the handler's own way out, with NO help from the client: do the next handler step if one is enabled,
    otherwise let the armed deadline expire -/
def escape : Nat → St → List Lbl
  | 0, _ => []
  | n + 1, s =>
    if s.phase = .returned then [] else
    match handlerLbls.find? (fun l => (step s l).isSome) with
    | some l => match step s l with
      | some s' => l :: escape n s'
      | none => []
    | none => match step s .timeout with
      | some s' => .timeout :: escape n s'
      | none => []

def allStates : List St :=
  [Order.fixed, Order.original].flatMap fun o =>
  [Helper.none, Helper.blocked, Helper.finished].flatMap fun h =>
  [Phase.start, Phase.armed, Phase.locked, Phase.trailer, Phase.closing, Phase.closeSent, Phase.returned].flatMap fun p =>
  [true, false].flatMap fun cr => [true, false].flatMap fun cp =>
  [DL.unset, DL.armed, DL.expired].map fun d => ⟨o, h, p, cr, cp, d⟩

def allLbls : List Lbl :=
  [.arm, .lock, .writeTrailer, .armClose, .writeClose, .readLoopEnds, .timeout, .cliRead, .cliStop, .cliReply]

end GB.C08.Stall
