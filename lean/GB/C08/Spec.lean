import GB.C08.Model
/-
  C08 — specification side: what a gRPC-Web *client* does, written independently of the bridge's code.

    * `frame`, `wsFrame`, `wsFinish`          how a client frames a request message (PROTOCOL-WEB / grpc-websockets)
    * `takeFrame`, `decodeFrames`, `decodeBody`  an independent, strict gRPC-Web response decoder:
                                              bytes → (messages, trailer block); exactly one trailer frame, last
    * `decodeWS`                              the same for the WebSocket message sequence (one frame per message,
                                              an optional leading header frame, one trailer frame, last)
    * `parseTrailer`, `pctDecode`, `atoi`     the trailer block as HTTP/1 header lines; percent-decoding of grpc-message
    * `TrailerSays`                           "grpc-status = code and pctDecode(grpc-message) = message, each exactly once"
-/
namespace GB.C08
open GB

/-- a client's length-prefixed data frame -/
def frame (m : Bytes) : Bytes := 0 :: (putBe32 m.length ++ m)

/-- all frames of a request, as one byte stream -/
def frames (ms : List Bytes) : Bytes := ms.flatMap frame

/-- grpc-websockets: flow-control byte 0, then the frame -/
def wsFrame (m : Bytes) : Bytes := 0 :: frame m

/-- grpc-websockets: the finish marker -/
def wsFinish : Bytes := [1]

inductive Frame where
  | data (m : Bytes)
  | trailer (block : Bytes)
deriving DecidableEq, Repr

/-- strict: flag 0x00 or 0x80 only, the whole declared length must be present -/
def takeFrame : Bytes → Option (Frame × Bytes)
  | f :: a :: b :: c :: d :: rest =>
    let n := be32 a b c d
    if rest.length < n then none
    else if f = 0 then some (.data (rest.take n), rest.drop n)
    else if f = 128 then some (.trailer (rest.take n), rest.drop n)
    else none
  | _ => none

def decodeFrames : Nat → Bytes → Option (List Frame)
  | _, [] => some []
  | 0, _ :: _ => none
  | k + 1, s@(_ :: _) =>
    match takeFrame s with
    | none => none
    | some (fr, rest) => (decodeFrames k rest).map (fr :: ·)

/-- data frames, then exactly one trailer frame, nothing after it -/
def splitResp : List Frame → Option (List Bytes × Bytes)
  | [] => none
  | [.trailer b] => some ([], b)
  | .data m :: rest => (splitResp rest).map (fun r => (m :: r.1, r.2))
  | .trailer _ :: _ :: _ => none

/-- the independent response decoder: every frame consumes ≥ 5 bytes, so `s.length` is enough fuel -/
def decodeBody (s : Bytes) : Option (List Bytes × Bytes) :=
  (decodeFrames s.length s).bind splitResp

/-- one WebSocket message = exactly one frame -/
def wsMsgFrame (m : Bytes) : Option Frame :=
  match takeFrame m with
  | some (fr, []) => some fr
  | _ => none

def allFrames : List Bytes → Option (List Frame)
  | [] => some []
  | m :: ms =>
    match wsMsgFrame m, allFrames ms with
    | some f, some fs => some (f :: fs)
    | _, _ => none

/-- WebSocket response: `[header frame]? data* trailer`; the header frame (flag 0x80, sent before the first
    message) is told from the trailer by position, as grpc-web clients do -/
def decodeWS (msgs : List Bytes) : Option (Option Bytes × List Bytes × Bytes) :=
  match allFrames msgs with
  | none => none
  | some (.trailer h :: f :: fs) => (splitResp (f :: fs)).map (fun r => (some h, r.1, r.2))
  | some fs => (splitResp fs).map (fun r => (none, r.1, r.2))

/-! ### trailer block -/

/-- the bytes up to the first CR LF, and what follows it -/
def takeLine : Bytes → Option (Bytes × Bytes)
  | [] => none
  | c :: rest =>
    if c = 13 then
      match rest with
      | d :: rest' =>
        if d = 10 then some ([], rest')
        else (takeLine rest).map (fun r => (c :: r.1, r.2))
      | [] => none
    else (takeLine rest).map (fun r => (c :: r.1, r.2))

def splitLines : Nat → Bytes → Option (List Bytes)
  | _, [] => some []
  | 0, _ :: _ => none
  | k + 1, s@(_ :: _) =>
    match takeLine s with
    | none => none
    | some (l, rest) => (splitLines k rest).map (l :: ·)

/-- `key: value` split at the first colon; exactly the one space the encoder writes is dropped -/
def splitKV : Bytes → Option (Bytes × Bytes)
  | [] => none
  | c :: rest =>
    if c = 58 then
      match rest with
      | d :: rest' => if d = 32 then some ([], rest') else none
      | [] => none
    else (splitKV rest).map (fun r => (c :: r.1, r.2))

def mapOpt {α β} (f : α → Option β) : List α → Option (List β)
  | [] => some []
  | a :: as =>
    match f a, mapOpt f as with
    | some b, some bs => some (b :: bs)
    | _, _ => none

def parseTrailer (block : Bytes) : Option MD :=
  (splitLines block.length block).bind (mapOpt splitKV)

def unhex (c : UInt8) : Option Nat :=
  if 48 ≤ c ∧ c ≤ 57 then some (c.toNat - 48)
  else if 65 ≤ c ∧ c ≤ 70 then some (c.toNat - 55)
  else if 97 ≤ c ∧ c ≤ 102 then some (c.toNat - 87)
  else none

/-- strict percent-decoding (RFC 3986): `%XY` ↦ byte, a stray `%` is an error, everything else literal -/
def pctDecode : Bytes → Option Bytes
  | [] => some []
  | c :: rest =>
    if c = 37 then
      match rest with
      | a :: b :: rest' =>
        match unhex a, unhex b with
        | some x, some y => (pctDecode rest').map (UInt8.ofNat (x * 16 + y) :: ·)
        | _, _ => none
      | _ => none
    else (pctDecode rest).map (c :: ·)

/-- decimal value of an all-digit, non-empty string -/
def atoi (s : Bytes) : Option Nat :=
  if s = [] ∨ ¬ s.all (fun c => 48 ≤ c && c ≤ 57) then none
  else some (s.foldl (fun a c => a * 10 + (c.toNat - 48)) 0)

/-- values of a key -/
def mdGet (md : MD) (k : Bytes) : List Bytes := (md.filter (fun kv => kv.1 == k)).map (·.2)

/-- What a client reads from the trailer block: the decimal grpc-status and the percent-decoded
    grpc-message, each present exactly once (`none` if the block is not `key: value\r\n` lines, a key is
    missing or repeated, the status is not a number or the message is not valid percent-encoding). -/
def trailerOutcome (block : Bytes) : Option (Nat × Bytes) :=
  match parseTrailer block with
  | none => none
  | some md =>
    match mdGet md kStatus, mdGet md kMessage with
    | [s], [m] =>
      match atoi s, pctDecode m with
      | some c, some d => some (c, d)
      | _, _ => none
    | _, _ => none

/-- The trailer block states exactly this outcome. -/
def TrailerSays (block : Bytes) (code : Nat) (msg : Bytes) : Prop := trailerOutcome block = some (code, msg)

end GB.C08
