import GB.C08.Trailer
import GB.C08.Proofs
import GB.C07.Proofs
/- C08 — lemmas about the trailer-block values (Trailer.lean). -/
set_option linter.unusedSimpArgs false
set_option linter.unusedVariables false
namespace GB.C08
open GB

set_option maxRecDepth 100000 in
theorem b64char_printable_all : ∀ n, n < 64 → 33 ≤ C07.b64char n ∧ C07.b64char n ≤ 126 := by decide

theorem b64char_printable (n : Nat) (h : n < 64) : Printable (C07.b64char n) := b64char_printable_all n h

theorem encodeRaw_printable (v : Bytes) : ∀ c ∈ encodeRaw v, Printable c := by
  induction v using encodeRaw.induct with
  | case1 => simp [encodeRaw]
  | case2 a =>
    have ha := UInt8.toNat_lt a
    intro c hc
    simp only [encodeRaw, List.mem_cons, List.not_mem_nil, or_false] at hc
    rcases hc with rfl | rfl <;> exact b64char_printable _ (by omega)
  | case3 a b =>
    have ha := UInt8.toNat_lt a; have hb := UInt8.toNat_lt b
    intro c hc
    simp only [encodeRaw, List.mem_cons, List.not_mem_nil, or_false] at hc
    rcases hc with rfl | rfl | rfl <;> exact b64char_printable _ (by omega)
  | case4 a b d rest ih =>
    have ha := UInt8.toNat_lt a; have hb := UInt8.toNat_lt b; have hd := UInt8.toNat_lt d
    intro c hc
    simp only [encodeRaw, List.mem_cons] at hc
    rcases hc with rfl | rfl | rfl | rfl | hc
    · exact b64char_printable _ (by omega)
    · exact b64char_printable _ (by omega)
    · exact b64char_printable _ (by omega)
    · exact b64char_printable _ (by omega)
    · exact ih c hc

theorem nlToSpace_clean (v : Bytes) : (13 : UInt8) ∉ nlToSpace v ∧ (10 : UInt8) ∉ nlToSpace v := by
  constructor <;>
  · intro h
    simp only [nlToSpace, List.mem_map] at h
    obtain ⟨c, _, hc⟩ := h
    split at hc
    · exact absurd hc (by decide)
    · rename_i hn; exact hn (by simp [hc])

theorem nlToSpace_id (v : Bytes) (h : ∀ c ∈ v, Printable c) : nlToSpace v = v := by
  induction v with
  | nil => rfl
  | cons c v ih =>
    have hc := h c (by simp)
    have h1 : c ≠ 10 := by intro e; subst e; exact absurd hc (by unfold Printable; decide)
    have h2 : c ≠ 13 := by intro e; subst e; exact absurd hc (by unfold Printable; decide)
    have := ih (fun x hx => h x (by simp [hx]))
    simp only [nlToSpace, List.map_cons] at this ⊢
    simp [h1, h2, this]

theorem not_printable_10 : ¬ Printable 10 := by unfold Printable; decide
theorem not_printable_0 : ¬ Printable 0 := by unfold Printable; decide

theorem trailerValue_clean (k v : Bytes) : (13 : UInt8) ∉ trailerValue k v ∧ (10 : UInt8) ∉ trailerValue k v := by
  unfold trailerValue
  split
  · exact ⟨not_mem_of_printable _ (encodeRaw_printable v) 13 not_printable_13,
           not_mem_of_printable _ (encodeRaw_printable v) 10 not_printable_10⟩
  · exact nlToSpace_clean v

theorem clean_encodeMD (md : MD) (hk : ∀ kv ∈ md, (13 : UInt8) ∉ kv.1 ∧ (58 : UInt8) ∉ kv.1) :
    ∀ kv ∈ encodeMD md, CleanKV kv := by
  intro kv h
  simp only [encodeMD, List.mem_map] at h
  obtain ⟨q, hq, rfl⟩ := h
  exact ⟨(hk q hq).1, (hk q hq).2, (trailerValue_clean q.1 q.2).1⟩

theorem encodeMD_mdSet (md : MD) (k v : Bytes) : encodeMD (mdSet md k v) = mdSet (encodeMD md) k (trailerValue k v) := by
  simp only [encodeMD, mdSet, List.map_append, List.map_cons, List.map_nil, List.filter_map]
  congr 1

theorem trailerValue_status (code : Nat) : trailerValue kStatus (itoa code) = itoa code := by
  have : isBinKey kStatus = false := by decide
  simp only [trailerValue, this]
  exact nlToSpace_id _ (digits_printable _ (itoa_digits code))

theorem trailerValue_message (msg : Bytes) : trailerValue kMessage (pathEscape msg) = pathEscape msg := by
  have : isBinKey kMessage = false := by decide
  simp only [trailerValue, this]
  exact nlToSpace_id _ (pathEscape_printable msg)

/-- lpmTrailer encodes AFTER trailerWithStatus set the two status keys; their values are fixed points of the encoding -/
theorem encodeMD_trailerWithStatus (md : MD) (code : Nat) (msg : Bytes) :
    encodeMD (trailerWithStatus md code msg) = trailerWithStatus (encodeMD md) code msg := by
  simp only [trailerWithStatus, encodeMD_mdSet, trailerValue_status, trailerValue_message]

/-! base64.RawStdEncoding: decode ∘ encode = id -/

theorem decR_step (n : Nat) (h : n < 64) (rest : Bytes) (acc : List Nat) (hl : acc.length ≠ 3) :
    C07.b64dec false (C07.b64char n :: rest) acc = C07.b64dec false rest (acc ++ [n]) := by
  rw [C07.b64dec]
  simp [C07.b64val_char n h, hl]

theorem decR_step4 (n : Nat) (h : n < 64) (rest : Bytes) (acc : List Nat) (hl : acc.length = 3) :
    C07.b64dec false (C07.b64char n :: rest) acc = (C07.b64dec false rest []).map (C07.emitQ (acc ++ [n]) ++ ·) := by
  rw [C07.b64dec]
  simp [C07.b64val_char n h, hl]

theorem b64raw_roundtrip (bs : Bytes) : C07.b64dec false (encodeRaw bs) [] = some bs := by
  induction bs using encodeRaw.induct with
  | case1 => simp [encodeRaw, C07.b64dec]
  | case2 a =>
    have ha := UInt8.toNat_lt a
    simp only [encodeRaw]
    rw [decR_step _ (by omega) _ _ (by simp), decR_step _ (by omega) _ _ (by simp)]
    rw [C07.b64dec]
    simp [C07.emit2]
  | case3 a b =>
    have ha := UInt8.toNat_lt a; have hb := UInt8.toNat_lt b
    simp only [encodeRaw]
    rw [decR_step _ (by omega) _ _ (by simp), decR_step _ (by omega) _ _ (by simp), decR_step _ (by omega) _ _ (by simp)]
    rw [C07.b64dec]
    simp [C07.emit3]
  | case4 a b d rest ih =>
    have ha := UInt8.toNat_lt a; have hb := UInt8.toNat_lt b; have hd := UInt8.toNat_lt d
    simp only [encodeRaw]
    rw [decR_step _ (by omega) _ _ (by simp), decR_step _ (by omega) _ _ (by simp), decR_step _ (by omega) _ _ (by simp),
      decR_step4 _ (by omega) _ _ (by simp), ih]
    simp [C07.emit4]

end GB.C08
