import GB.C08.Spec
/-
  C08 — helper lemmas for Props.lean (core Lean only, no Mathlib needed).
-/
set_option linter.unusedSimpArgs false
namespace GB.C08
open GB

theorem be32_put (n : Nat) (h : n < 4294967296) :
    be32 (UInt8.ofNat (n / 16777216)) (UInt8.ofNat (n / 65536)) (UInt8.ofNat (n / 256)) (UInt8.ofNat n) = n := by
  simp only [be32, UInt8.toNat_ofNat']
  omega

theorem recvL_frame (L : Nat) (m rest : Bytes) (h32 : m.length < 4294967296) (hL : m.length ≤ L) :
    recvL L (frame m ++ rest) = (.msg m, rest) := by
  simp only [frame, putBe32, List.cons_append, List.nil_append, recvL, be32_put _ h32]
  by_cases h0 : m.length < 1
  · have : m = [] := by cases m with | nil => rfl | cons _ _ => simp at h0
    subst this; simp
  · simp [h0, Nat.not_lt.mpr hL]

theorem recvL_oversize (L : Nat) (m rest : Bytes) (h32 : m.length < 4294967296) (hL : L < m.length) :
    recvL L (frame m ++ rest) = (.err .oversize, m ++ rest) := by
  simp only [frame, putBe32, List.cons_append, List.nil_append, recvL, be32_put _ h32]
  have h0 : ¬ m.length < 1 := by omega
  simp [h0, hL]

theorem frames_cons (m : Bytes) (ms : List Bytes) : frames (m :: ms) = frame m ++ frames ms := by
  simp [frames]

theorem recvTraceL_frames (L : Nat) (ms : List Bytes) (rest : Bytes) (n : Nat)
    (h32 : ∀ m ∈ ms, m.length < 4294967296) (hL : ∀ m ∈ ms, m.length ≤ L) :
    recvTraceL L (ms.length + n) (frames ms ++ rest) = ms.map .msg ++ recvTraceL L n rest := by
  induction ms with
  | nil => simp [frames]
  | cons m ms ih =>
    have e : (m :: ms).length + n = (ms.length + n) + 1 := by simp; omega
    rw [e, frames_cons, List.append_assoc, recvTraceL, recvL_frame L m _ (h32 m (by simp)) (hL m (by simp))]
    simp only [List.map_cons, List.cons_append]
    rw [ih (fun x hx => h32 x (by simp [hx])) (fun x hx => hL x (by simp [hx]))]

theorem readFull_spec (n : Nat) (cs : List Bytes) :
    (readFull n cs).1 = cs.flatten.take n ∧ (readFull n cs).2.flatten = cs.flatten.drop n := by
  induction cs generalizing n with
  | nil => simp [readFull]
  | cons c cs ih =>
    unfold readFull
    by_cases h0 : n = 0
    · simp [h0]
    · by_cases hc : c.length ≤ n
      · simp only [h0, hc, ↓reduceIte, List.flatten_cons]
        obtain ⟨h1, h2⟩ := ih (n - c.length)
        constructor
        · rw [h1, List.take_append]; simp [List.take_of_length_le hc]
        · rw [h2, List.drop_append]; simp [List.drop_eq_nil_of_le hc]
      · simp only [h0, hc, ↓reduceIte, List.flatten_cons]
        have : n ≤ c.length := by omega
        constructor
        · rw [List.take_append]; simp [Nat.sub_eq_zero_of_le this]
        · rw [List.drop_append]; simp [Nat.sub_eq_zero_of_le this]

theorem recvChunksL_spec (L : Nat) (cs : List Bytes) :
    (∀ m r, recvL L cs.flatten = (.msg m, r) → ∃ cs', recvChunksL L cs = (.msg m, cs') ∧ cs'.flatten = r) ∧
    (∀ x r, recvL L cs.flatten = (x, r) → (∀ m, x ≠ .msg m) → ∃ cs', recvChunksL L cs = (x, cs')) := by
  obtain ⟨h1, h2⟩ := readFull_spec 5 cs
  generalize hs : cs.flatten = s at h1 h2
  unfold recvChunksL
  simp only [hdrLen]
  rcases s with _ | ⟨f, _ | ⟨a, _ | ⟨b, _ | ⟨c, _ | ⟨d, rest⟩⟩⟩⟩⟩
  all_goals simp only [List.take, List.drop] at h1 h2
  all_goals simp only [h1, recvL]
  · simp
  · simp
  · simp
  · simp
  · simp
  · obtain ⟨b1, b2⟩ := readFull_spec (be32 a b c d) (readFull 5 cs).2
    rw [h2] at b1 b2
    by_cases h0 : be32 a b c d < 1
    · simp [h0, h2]
    · by_cases hL : be32 a b c d > L
      · simp [h0, hL]
      · by_cases hb : rest.length < be32 a b c d
        · have : (readFull (be32 a b c d) (readFull 5 cs).2).1.length < be32 a b c d := by
            rw [b1, List.length_take]; omega
          simp [h0, hL, hb, this]
        · have : ¬ (readFull (be32 a b c d) (readFull 5 cs).2).1.length < be32 a b c d := by
            rw [b1, List.length_take]; omega
          have hm : ¬ min (be32 a b c d) rest.length < be32 a b c d := by omega
          simp only [h0, hL, hb, b1, List.length_take, hm, ↓reduceIte]
          refine ⟨fun m r h => ?_, fun x r h hx => ?_⟩
          · injection h with h1 h2; injection h1 with h1
            subst h1; subst h2
            exact ⟨_, rfl, b2⟩
          · injection h with h1 h2
            exact absurd h1.symm (hx _)

def encFrame : Frame → Bytes
  | .data m => lpmMessage m
  | .trailer b => trailerFlag :: (putBe32 b.length ++ b)

def Frame.size : Frame → Nat
  | .data m => m.length
  | .trailer b => b.length

theorem takeFrame_enc (fr : Frame) (rest : Bytes) (h : fr.size < 4294967296) :
    takeFrame (encFrame fr ++ rest) = some (fr, rest) := by
  cases fr with
  | data m =>
    simp only [Frame.size] at h
    simp [encFrame, lpmMessage, dataFlag, putBe32, takeFrame, be32_put _ h]
  | trailer b =>
    simp only [Frame.size] at h
    simp [encFrame, trailerFlag, putBe32, takeFrame, be32_put _ h]

theorem encFrame_cons (fr : Frame) : ∃ x xs, encFrame fr = x :: xs := by
  cases fr <;> simp [encFrame, lpmMessage]

theorem decodeFrames_enc (frs : List Frame) (k : Nat) (hk : frs.length ≤ k)
    (h : ∀ fr ∈ frs, fr.size < 4294967296) :
    decodeFrames k (frs.flatMap encFrame) = some frs := by
  induction frs generalizing k with
  | nil => cases k <;> simp [decodeFrames]
  | cons fr frs ih =>
    cases k with
    | zero => simp at hk
    | succ k =>
      obtain ⟨x, xs, hx⟩ := encFrame_cons fr
      have e : (fr :: frs).flatMap encFrame = x :: (xs ++ frs.flatMap encFrame) := by
        simp [List.flatMap_cons, hx]
      have e' : x :: (xs ++ frs.flatMap encFrame) = encFrame fr ++ frs.flatMap encFrame := by simp [hx]
      rw [e, decodeFrames, e', takeFrame_enc fr _ (h fr (by simp))]
      simp only []
      rw [ih k (by simp at hk; omega) (fun f hf => h f (by simp [hf]))]
      simp

theorem splitResp_enc (ms : List Bytes) (b : Bytes) :
    splitResp (ms.map Frame.data ++ [Frame.trailer b]) = some (ms, b) := by
  induction ms with
  | nil => simp [splitResp]
  | cons m ms ih => simp [splitResp, ih]

theorem length_flatMap_enc (frs : List Frame) : frs.length ≤ (frs.flatMap encFrame).length := by
  induction frs with
  | nil => simp
  | cons fr frs ih =>
    obtain ⟨x, xs, hx⟩ := encFrame_cons fr
    simp only [List.flatMap_cons, hx, List.cons_append, List.length_cons, List.length_append]; omega

theorem respondHTTPWith_eq (ms : List Bytes) (tr : MD) :
    respondHTTPWith ms tr = (ms.map Frame.data ++ [Frame.trailer (trailerBlock tr)]).flatMap encFrame := by
  simp [respondHTTPWith, List.flatMap_append, List.flatMap_map, encFrame, lpmTrailer]

theorem decodeBody_respond (ms : List Bytes) (tr : MD)
    (hms : ∀ m ∈ ms, m.length < 4294967296) (htr : (trailerBlock tr).length < 4294967296) :
    decodeBody (respondHTTPWith ms tr) = some (ms, trailerBlock tr) := by
  rw [respondHTTPWith_eq]
  unfold decodeBody
  rw [decodeFrames_enc _ _ (length_flatMap_enc _)]
  · simp [splitResp_enc]
  · intro fr hfr
    simp only [List.mem_append, List.mem_map, List.mem_singleton] at hfr
    rcases hfr with ⟨m, hm, rfl⟩ | rfl
    · exact hms m hm
    · exact htr

theorem unhex_upperHex : ∀ n, n < 16 → unhex (upperHex n) = some n := by decide

theorem shouldEscape_pct : shouldEscape 37 = true := by decide

theorem ofNat_split (c : UInt8) : UInt8.ofNat (c.toNat / 16 * 16 + c.toNat % 16) = c := by
  have : c.toNat / 16 * 16 + c.toNat % 16 = c.toNat := by omega
  rw [this]; exact UInt8.ofNat_toNat

theorem pctDecode_escapeByte (c : UInt8) (rest : Bytes) :
    pctDecode (escapeByte c ++ rest) = (pctDecode rest).map (c :: ·) := by
  unfold escapeByte
  by_cases h : shouldEscape c = true
  · have h16 : c.toNat / 16 < 16 := by have := c.toNat_lt; omega
    have hm : c.toNat % 16 < 16 := by omega
    simp only [h, ↓reduceIte, List.cons_append, List.nil_append, pctDecode,
      unhex_upperHex _ h16, unhex_upperHex _ hm, ofNat_split]
  · have hne : c ≠ 37 := by
      intro e; subst e; exact h shouldEscape_pct
    simp only [h, Bool.false_eq_true, ↓reduceIte, List.cons_append, List.nil_append]
    conv => lhs; unfold pctDecode
    simp [hne]

theorem pct_roundtrip (s : Bytes) : pctDecode (pathEscape s) = some s := by
  induction s with
  | nil => simp [pathEscape, pctDecode]
  | cons c s ih =>
    have : pathEscape (c :: s) = escapeByte c ++ pathEscape s := by simp [pathEscape]
    rw [this, pctDecode_escapeByte, ih]; rfl

/-- the line of one metadata pair without its CR LF -/
def lineOf (kv : Bytes × Bytes) : Bytes := kv.1 ++ 58 :: 32 :: kv.2

def CleanKV (kv : Bytes × Bytes) : Prop := (13 : UInt8) ∉ kv.1 ∧ (58 : UInt8) ∉ kv.1 ∧ (13 : UInt8) ∉ kv.2

theorem trailerLine_eq (kv : Bytes × Bytes) : trailerLine kv = lineOf kv ++ 13 :: 10 :: [] := by
  simp [trailerLine, lineOf]

theorem takeLine_line (l rest : Bytes) (h : (13 : UInt8) ∉ l) :
    takeLine (l ++ 13 :: 10 :: rest) = some (l, rest) := by
  induction l with
  | nil => simp [takeLine]
  | cons c l ih =>
    have hc : c ≠ 13 := by intro e; subst e; simp at h
    have hl : (13 : UInt8) ∉ l := by intro e; exact h (by simp [e])
    simp [takeLine, hc, ih hl]

theorem lineOf_clean (kv : Bytes × Bytes) (h : CleanKV kv) : (13 : UInt8) ∉ lineOf kv := by
  simp only [lineOf, List.mem_append, List.mem_cons, not_or]
  refine ⟨h.1, by decide, by decide, h.2.2⟩

theorem splitLines_block (md : MD) (k : Nat) (hk : md.length ≤ k) (h : ∀ kv ∈ md, CleanKV kv) :
    splitLines k (trailerBlock md) = some (md.map lineOf) := by
  induction md generalizing k with
  | nil => cases k <;> simp [trailerBlock, splitLines]
  | cons kv md ih =>
    cases k with
    | zero => simp at hk
    | succ k =>
      have e : trailerBlock (kv :: md) = lineOf kv ++ 13 :: 10 :: trailerBlock md := by
        simp [trailerBlock, trailerLine_eq]
      have hne : ∃ x xs, lineOf kv ++ 13 :: 10 :: trailerBlock md = x :: xs := by
        cases hl : lineOf kv with
        | nil => exact ⟨_, _, rfl⟩
        | cons a as => exact ⟨_, _, rfl⟩
      obtain ⟨x, xs, hx⟩ := hne
      rw [e, hx, splitLines, ← hx, takeLine_line _ _ (lineOf_clean kv (h kv (by simp)))]
      simp only []
      rw [ih k (by simp at hk; omega) (fun q hq => h q (by simp [hq]))]
      simp

theorem splitKV_line (k v : Bytes) (h : (58 : UInt8) ∉ k) : splitKV (k ++ 58 :: 32 :: v) = some (k, v) := by
  induction k with
  | nil => simp [splitKV]
  | cons c k ih =>
    have hc : c ≠ 58 := by intro e; subst e; simp at h
    have hl : (58 : UInt8) ∉ k := by intro e; exact h (by simp [e])
    simp [splitKV, hc, ih hl]

theorem mapOpt_splitKV (md : MD) (h : ∀ kv ∈ md, CleanKV kv) : mapOpt splitKV (md.map lineOf) = some md := by
  induction md with
  | nil => simp [mapOpt]
  | cons kv md ih =>
    simp only [List.map_cons, mapOpt, lineOf]
    rw [splitKV_line _ _ (h kv (by simp)).2.1]
    have := ih (fun q hq => h q (by simp [hq]))
    rw [this]

theorem length_block (md : MD) : md.length ≤ (trailerBlock md).length := by
  induction md with
  | nil => simp
  | cons kv md ih =>
    simp only [trailerBlock, List.flatMap_cons, List.length_append, List.length_cons, trailerLine] at *
    omega

theorem parseTrailer_block (md : MD) (h : ∀ kv ∈ md, CleanKV kv) : parseTrailer (trailerBlock md) = some md := by
  unfold parseTrailer
  rw [splitLines_block md _ (length_block md) h]
  simp [mapOpt_splitKV md h]

def isDigitB (c : UInt8) : Bool := 48 ≤ c && c ≤ 57

theorem digit_ofNat (n : Nat) (h : n < 10) : isDigitB (UInt8.ofNat (48 + n)) = true ∧ (UInt8.ofNat (48 + n)).toNat - 48 = n := by
  have : ∀ n, n < 10 → isDigitB (UInt8.ofNat (48 + n)) = true ∧ (UInt8.ofNat (48 + n)).toNat - 48 = n := by decide
  exact this n h

theorem itoaF_spec (f n : Nat) (h : n < f) :
    itoaF f n ≠ [] ∧ (itoaF f n).all isDigitB = true ∧
    ∀ a, (itoaF f n).foldl (fun a c => a * 10 + (c.toNat - 48)) a = a * 10 ^ (itoaF f n).length + n := by
  induction f generalizing n with
  | zero => omega
  | succ f ih =>
    unfold itoaF
    by_cases h10 : n < 10
    · have := digit_ofNat n h10
      simp only [h10, ↓reduceIte]
      generalize UInt8.ofNat (48 + n) = d at this ⊢
      simp [this.1, this.2]
    · have hlt : n / 10 < f := by omega
      obtain ⟨h1, h2, h3⟩ := ih (n / 10) hlt
      have hd := digit_ofNat (n % 10) (by omega)
      simp only [h10, ↓reduceIte]
      generalize UInt8.ofNat (48 + n % 10) = d at hd ⊢
      refine ⟨by simp, by simp [h2, hd.1], fun a => ?_⟩
      rw [List.foldl_append, h3 a]
      simp only [List.foldl_cons, List.foldl_nil, hd.2, List.length_append, List.length_cons, List.length_nil]
      rw [Nat.pow_succ]
      have : n = n / 10 * 10 + n % 10 := by omega
      generalize 10 ^ (itoaF f (n / 10)).length = p
      rw [Nat.add_mul, Nat.mul_assoc]
      omega

theorem itoa_digits (n : Nat) : (itoa n).all isDigitB = true :=
  (itoaF_spec (n + 1) n (by omega)).2.1

theorem atoi_itoa (n : Nat) : atoi (itoa n) = some n := by
  obtain ⟨h1, h2, h3⟩ := itoaF_spec (n + 1) n (by omega)
  unfold atoi itoa
  have h2' : (itoaF (n + 1) n).all (fun c => 48 ≤ c && c ≤ 57) = true := h2
  simp [h1, h2', h3 0]

/-- printable, non-space ASCII: what url.PathEscape can emit -/
def Printable (b : UInt8) : Prop := 33 ≤ b ∧ b ≤ 126

theorem upperHex_printable : ∀ n, n < 16 → 33 ≤ upperHex n ∧ upperHex n ≤ 126 := by decide

set_option maxRecDepth 100000 in
theorem shouldEscape_of_not_printable (c : UInt8) (h : ¬ (33 ≤ c ∧ c ≤ 126)) : shouldEscape c = true := by
  have key : ∀ n, n < 256 → ¬ (33 ≤ UInt8.ofNat n ∧ UInt8.ofNat n ≤ 126) → shouldEscape (UInt8.ofNat n) = true := by decide
  have := key c.toNat c.toNat_lt
  rw [UInt8.ofNat_toNat] at this
  exact this h

theorem escapeByte_printable (c b : UInt8) (hb : b ∈ escapeByte c) : Printable b := by
  unfold escapeByte at hb
  by_cases h : shouldEscape c = true
  · have h16 : c.toNat / 16 < 16 := by have := c.toNat_lt; omega
    have hm : c.toNat % 16 < 16 := by omega
    simp only [h, ↓reduceIte, List.mem_cons, List.not_mem_nil, or_false] at hb
    rcases hb with rfl | rfl | rfl
    · exact ⟨by decide, by decide⟩
    · exact upperHex_printable _ h16
    · exact upperHex_printable _ hm
  · simp only [h, Bool.false_eq_true, ↓reduceIte, List.mem_cons, List.not_mem_nil, or_false] at hb
    subst hb
    refine Classical.byContradiction fun hp => h (shouldEscape_of_not_printable b hp)

theorem pathEscape_printable (s : Bytes) : ∀ b ∈ pathEscape s, Printable b := by
  intro b hb
  simp only [pathEscape, List.mem_flatMap] at hb
  obtain ⟨c, _, hc⟩ := hb
  exact escapeByte_printable c b hc

theorem not_mem_of_printable (s : Bytes) (h : ∀ b ∈ s, Printable b) (x : UInt8) (hx : ¬ Printable x) : x ∉ s :=
  fun hm => hx (h x hm)

theorem digits_printable (s : Bytes) (h : s.all isDigitB = true) : ∀ b ∈ s, Printable b := by
  intro b hb
  have := List.all_eq_true.mp h b hb
  simp only [isDigitB, Bool.and_eq_true, decide_eq_true_eq] at this
  have h1 := UInt8.le_iff_toNat_le.mp this.1
  have h2 := UInt8.le_iff_toNat_le.mp this.2
  constructor <;> apply UInt8.le_iff_toNat_le.mpr <;> simp at * <;> omega

theorem not_printable_13 : ¬ Printable 13 := by unfold Printable; decide
theorem kStatus_clean : (13 : UInt8) ∉ kStatus ∧ (58 : UInt8) ∉ kStatus := by decide
theorem kMessage_clean : (13 : UInt8) ∉ kMessage ∧ (58 : UInt8) ∉ kMessage := by decide

theorem kStatus_ne_kMessage : kStatus ≠ kMessage := by decide

theorem mdGet_perm {a b : MD} (h : a.Perm b) (k : Bytes) : (mdGet a k).Perm (mdGet b k) := by
  unfold mdGet
  exact (h.filter _).map _

theorem mdGet_mdSet_same (md : MD) (k v : Bytes) : mdGet (mdSet md k v) k = [v] := by
  simp [mdGet, mdSet, List.filter_append, List.filter_filter]

theorem mdGet_mdSet_other (md : MD) (k k' v : Bytes) (h : k' ≠ k) : mdGet (mdSet md k v) k' = mdGet md k' := by
  simp only [mdGet, mdSet, List.filter_append, List.filter_filter, List.map_append]
  have : List.filter (fun kv => kv.fst == k') [(k, v)] = [] := by
    simp [List.filter_cons, Ne.symm h]
  rw [this]
  simp only [List.map_nil, List.append_nil]
  congr 1
  apply List.filter_congr
  intro x _
  by_cases hx : x.1 = k'
  · simp [hx, h]
  · simp [hx]

theorem mdGet_trailerWithStatus (md : MD) (code : Nat) (msg : Bytes) :
    mdGet (trailerWithStatus md code msg) kStatus = [itoa code] ∧
    mdGet (trailerWithStatus md code msg) kMessage = [pathEscape msg] := by
  unfold trailerWithStatus
  constructor
  · rw [mdGet_mdSet_other _ _ _ _ kStatus_ne_kMessage, mdGet_mdSet_same]
  · rw [mdGet_mdSet_same]

theorem clean_mdSet (md : MD) (k v : Bytes) (h : ∀ kv ∈ md, CleanKV kv) (hk : CleanKV (k, v)) :
    ∀ kv ∈ mdSet md k v, CleanKV kv := by
  intro kv hkv
  simp only [mdSet, List.mem_append, List.mem_filter, List.mem_singleton] at hkv
  rcases hkv with ⟨hm, _⟩ | rfl
  · exact h kv hm
  · exact hk

theorem clean_trailerWithStatus (md : MD) (code : Nat) (msg : Bytes) (h : ∀ kv ∈ md, CleanKV kv) :
    ∀ kv ∈ trailerWithStatus md code msg, CleanKV kv := by
  unfold trailerWithStatus
  apply clean_mdSet
  · apply clean_mdSet _ _ _ h
    refine ⟨kStatus_clean.1, kStatus_clean.2, ?_⟩
    exact not_mem_of_printable _ (digits_printable _ (itoa_digits code)) 13 not_printable_13
  · refine ⟨kMessage_clean.1, kMessage_clean.2, ?_⟩
    exact not_mem_of_printable _ (pathEscape_printable msg) 13 not_printable_13

/-- whatever order the map iteration produced, the block states the outcome -/
theorem trailerOutcome_trailerWithStatus (md tr : MD) (code : Nat) (msg : Bytes)
    (hclean : ∀ kv ∈ md, CleanKV kv) (hperm : tr.Perm (trailerWithStatus md code msg)) :
    trailerOutcome (trailerBlock tr) = some (code, msg) := by
  have hc : ∀ kv ∈ tr, CleanKV kv := fun kv hkv =>
    clean_trailerWithStatus md code msg hclean kv (hperm.mem_iff.mp hkv)
  obtain ⟨h1, h2⟩ := mdGet_trailerWithStatus md code msg
  have g1 : mdGet tr kStatus = [itoa code] := by
    have := mdGet_perm hperm kStatus
    rw [h1] at this
    exact List.perm_singleton.mp this
  have g2 : mdGet tr kMessage = [pathEscape msg] := by
    have := mdGet_perm hperm kMessage
    rw [h2] at this
    exact List.perm_singleton.mp this
  unfold trailerOutcome
  rw [parseTrailer_block tr hc]
  simp only [g1, g2, atoi_itoa, pct_roundtrip]

def stOpen : WS := { receivedMD := true, closed := false }

theorem onMessage_header (mdOk : Bytes → Bool) (h : Bytes) (hok : mdOk h = true) :
    onMessage mdOk {} h = (stOpen, [.md h]) := by
  simp [onMessage, hok, stOpen]

theorem onMessage_frame (mdOk : Bytes → Bool) (m : Bytes) :
    onMessage mdOk stOpen (wsFrame m) = (stOpen, [.msg m]) := by
  simp [onMessage, stOpen, wsFrame, frame, putBe32, wsOff]

theorem onMessage_finish (mdOk : Bytes → Bool) :
    onMessage mdOk stOpen wsFinish = ({ receivedMD := true, closed := true }, [.eof]) := by
  simp [onMessage, stOpen, wsFinish, wsOff]

theorem wsEvents_closed (mdOk : Bytes → Bool) (st : WS) (hc : st.closed = true) (ds : List Bytes) :
    wsEvents mdOk st ds = [] := by
  induction ds with
  | nil => simp [wsEvents, wsEventsWith]
  | cons d ds ih =>
    have : onMessage mdOk st d = (st, []) := by simp [onMessage, hc]
    unfold wsEvents at ih ⊢
    simp [wsEventsWith, this, ih]

theorem wsEvents_frames (mdOk : Bytes → Bool) (ms : List Bytes) (tail : List Bytes) :
    wsEvents mdOk stOpen (ms.map wsFrame ++ tail) = ms.map .msg ++ wsEvents mdOk stOpen tail := by
  induction ms with
  | nil => simp
  | cons m ms ih =>
    unfold wsEvents at ih ⊢
    simp [wsEventsWith, onMessage_frame, ih]

theorem wsRecvTrace_msgs (ms : List Bytes) (evs : List WSEv) (n : Nat) :
    wsRecvTrace (ms.length + n) (ms.map WSEv.msg ++ evs) = ms.map RecvRes.msg ++ wsRecvTrace n evs := by
  induction ms with
  | nil => simp
  | cons m ms ih =>
    have e : (m :: ms).length + n = (ms.length + n) + 1 := by simp; omega
    rw [e]
    simp [wsRecvTrace, ih]

theorem ws_roundtrip (mdOk : Bytes → Bool) (hdr : Bytes) (hok : mdOk hdr = true)
    (ms : List Bytes) (junk : List Bytes) (k : Nat) :
    wsRecvTrace (ms.length + (k + 1)) (wsEvents mdOk {} (hdr :: (ms.map wsFrame ++ wsFinish :: junk))) =
      ms.map RecvRes.msg ++ [RecvRes.eof] := by
  have h1 : wsEvents mdOk {} (hdr :: (ms.map wsFrame ++ wsFinish :: junk)) =
      WSEv.md hdr :: (ms.map WSEv.msg ++ [WSEv.eof]) := by
    have hfin : wsEvents mdOk stOpen (wsFinish :: junk) = [WSEv.eof] := by
      have := wsEvents_closed mdOk { receivedMD := true, closed := true } rfl junk
      unfold wsEvents at this ⊢
      simp [wsEventsWith, onMessage_finish, this]
    have := wsEvents_frames mdOk ms (wsFinish :: junk)
    rw [hfin] at this
    unfold wsEvents at this ⊢
    simp [wsEventsWith, onMessage_header mdOk hdr hok, this]
  rw [h1]
  have : wsRecvTrace (ms.length + (k + 1)) (WSEv.md hdr :: (ms.map WSEv.msg ++ [WSEv.eof])) =
      wsRecvTrace (ms.length + (k + 1)) (ms.map WSEv.msg ++ [WSEv.eof]) := by
    have e : ms.length + (k + 1) = (ms.length + k) + 1 := by omega
    rw [e]; simp [wsRecvTrace]
  rw [this, wsRecvTrace_msgs]
  simp [wsRecvTrace]

theorem wsSendAll_true (header : MD) (ms : List Bytes) : wsSendAll header true ms = ms.map lpmMessage := by
  induction ms with
  | nil => simp [wsSendAll]
  | cons m ms ih => simp [wsSendAll, wsSend, ih]

theorem wsRespondWith_eq (header : MD) (ms : List Bytes) (tr : MD) :
    wsRespondWith header ms tr =
      ((if ms = [] then [] else [Frame.trailer (trailerBlock header)]) ++ ms.map Frame.data ++ [Frame.trailer (trailerBlock tr)]).map encFrame := by
  cases ms with
  | nil => simp [wsRespondWith, wsSendAll, encFrame, lpmTrailer]
  | cons m ms => simp [wsRespondWith, wsSendAll, wsSend, wsSendAll_true, encFrame, lpmTrailer]

theorem allFrames_enc (frs : List Frame) (h : ∀ fr ∈ frs, fr.size < 4294967296) :
    allFrames (frs.map encFrame) = some frs := by
  induction frs with
  | nil => simp [allFrames]
  | cons fr frs ih =>
    have := takeFrame_enc fr [] (h fr (by simp))
    simp only [List.append_nil] at this
    simp [allFrames, wsMsgFrame, this, ih (fun f hf => h f (by simp [hf]))]

theorem decodeWS_respond (header : MD) (ms : List Bytes) (tr : MD)
    (hh : (trailerBlock header).length < 4294967296)
    (hms : ∀ m ∈ ms, m.length < 4294967296) (htr : (trailerBlock tr).length < 4294967296) :
    decodeWS (wsRespondWith header ms tr) =
      some (if ms = [] then none else some (trailerBlock header), ms, trailerBlock tr) := by
  rw [wsRespondWith_eq]
  unfold decodeWS
  rw [allFrames_enc]
  · cases ms with
    | nil => simp [splitResp]
    | cons m ms =>
      have := splitResp_enc (m :: ms) (trailerBlock tr)
      simp only [List.map_cons, List.cons_append] at this
      simp [this]
  · intro fr hfr
    simp only [List.mem_append, List.mem_map, List.mem_singleton] at hfr
    rcases hfr with (hfr | ⟨m, hm, rfl⟩) | rfl
    · by_cases hms0 : ms = []
      · simp [hms0] at hfr
      · simp [hms0] at hfr; subst hfr; exact hh
    · exact hms m hm
    · exact htr

theorem recvChunksTraceL_eq (L n : Nat) (cs : List Bytes) :
    recvChunksTraceL L n cs = recvTraceL L n cs.flatten := by
  induction n generalizing cs with
  | zero => simp [recvChunksTraceL, recvTraceL]
  | succ n ih =>
    obtain ⟨s1, s2⟩ := recvChunksL_spec L cs
    unfold recvChunksTraceL recvTraceL
    cases h : recvL L cs.flatten with
    | mk x r =>
      cases x with
      | msg m =>
        obtain ⟨cs', e1, e2⟩ := s1 m r h
        simp only [e1]
        rw [ih cs', e2]
      | eof =>
        obtain ⟨cs', e1⟩ := s2 _ r h (by intro m; simp)
        simp only [e1]
      | err e =>
        obtain ⟨cs', e1⟩ := s2 _ r h (by intro m; simp)
        simp only [e1]

/-- anything recv hands out is one complete frame of the stream: header, exactly the declared number of
    bytes, and the rest is what the next recv sees -/
theorem recvL_sound (L : Nat) (s m r : Bytes) (h : recvL L s = (.msg m, r)) :
    ∃ f a b c d, s = f :: a :: b :: c :: d :: (m ++ r) ∧ be32 a b c d = m.length ∧ m.length ≤ L := by
  rcases s with _ | ⟨f, _ | ⟨a, _ | ⟨b, _ | ⟨c, _ | ⟨d, rest⟩⟩⟩⟩⟩
  all_goals simp only [recvL] at h
  all_goals try (injection h with h1 h2; injection h1)
  by_cases h0 : be32 a b c d < 1
  · simp only [h0, ↓reduceIte] at h
    injection h with h1 h2; injection h1 with h1
    subst h1; subst h2
    exact ⟨f, a, b, c, d, by simp, by simp; omega, by simp⟩
  · by_cases hL : be32 a b c d > L
    · simp only [h0, hL, ↓reduceIte] at h
      injection h with h1 h2; injection h1
    · by_cases hb : rest.length < be32 a b c d
      · simp only [h0, hL, hb, ↓reduceIte] at h
        injection h with h1 h2; injection h1
      · simp only [h0, hL, hb, ↓reduceIte] at h
        injection h with h1 h2; injection h1 with h1
        subst h1; subst h2
        refine ⟨f, a, b, c, d, by simp, ?_, ?_⟩
        · simp; omega
        · simp; omega


theorem putBe32_be32 (a b c d : UInt8) : putBe32 (be32 a b c d) = [a, b, c, d] := by
  have ha := a.toNat_lt; have hb := b.toNat_lt; have hc := c.toNat_lt; have hd := d.toNat_lt
  simp only [putBe32, be32]
  have e1 : (((a.toNat * 256 + b.toNat) * 256 + c.toNat) * 256 + d.toNat) / 16777216 = a.toNat := by omega
  have e2 : (((a.toNat * 256 + b.toNat) * 256 + c.toNat) * 256 + d.toNat) / 65536 = a.toNat * 256 + b.toNat := by omega
  have e3 : (((a.toNat * 256 + b.toNat) * 256 + c.toNat) * 256 + d.toNat) / 256 = (a.toNat * 256 + b.toNat) * 256 + c.toNat := by omega
  rw [e1, e2, e3]
  have f : ∀ (x : Nat) (y : UInt8), UInt8.ofNat (x * 256 + y.toNat) = y := by
    intro x y
    apply UInt8.toNat_inj.mp
    simp only [UInt8.toNat_ofNat']
    have := y.toNat_lt
    omega
  simp [f, UInt8.ofNat_toNat]

/-- a frame as a client may write it, with any flag byte -/
def frameF (f : UInt8) (m : Bytes) : Bytes := f :: (putBe32 m.length ++ m)

def msgsOf : List RecvRes → List Bytes
  | [] => []
  | .msg m :: r => m :: msgsOf r
  | _ :: r => msgsOf r

theorem recvTraceL_sound (L n : Nat) (s : Bytes) :
    ∃ fl : List UInt8, fl.length = (msgsOf (recvTraceL L n s)).length ∧
      ∃ rest, s = (List.zipWith frameF fl (msgsOf (recvTraceL L n s))).flatten ++ rest ∧
      ∀ m ∈ msgsOf (recvTraceL L n s), m.length ≤ L := by
  induction n generalizing s with
  | zero => exact ⟨[], by simp [recvTraceL, msgsOf], s, by simp [recvTraceL, msgsOf], by simp [recvTraceL, msgsOf]⟩
  | succ n ih =>
    unfold recvTraceL
    cases h : recvL L s with
    | mk x r =>
      cases x with
      | msg m =>
        obtain ⟨f, a, b, c, d, hs, hlen, hL⟩ := recvL_sound L s m r h
        obtain ⟨fl, hfl, rest, hr, hall⟩ := ih r
        refine ⟨f :: fl, by simp [msgsOf, hfl], rest, ?_, ?_⟩
        · simp only [msgsOf, List.zipWith_cons_cons, List.flatten_cons, frameF]
          rw [hs, ← hlen, putBe32_be32]
          simp only [List.cons_append, List.nil_append, List.append_assoc]
          rw [← hr]
        · intro m' hm'
          simp only [msgsOf, List.mem_cons] at hm'
          rcases hm' with rfl | hm'
          · exact hL
          · exact hall m' hm'
      | eof => exact ⟨[], by simp [msgsOf], s, by simp [msgsOf], by simp [msgsOf]⟩
      | err e => exact ⟨[], by simp [msgsOf], s, by simp [msgsOf], by simp [msgsOf]⟩


end GB.C08
