import GB.Base.Proto
import GB.C08.Spec
import GB.C08.Mime
import GB.C08.Handoff
import GB.C08.Trailer
import GB.C08.Fence
/-
  C08 — driver: judges one case line of the `c08` area.

  Byte strings on the line are *compact*: `x` + segments joined by `.`; a segment is plain hex or
  `<hh>*<n>` (n copies of byte hh), so that 4 MiB / 8 MiB payloads stay short.  Lists are `,`-joined, `-` = empty.

    esc  <cb>                                     => <cb escaped> <ok:<cb>|err>
         url.PathEscape(s) and url.PathUnescape of it           (exhaustive over the 256 single bytes every run)
    unesc <cb>                                    => ok:<cb> | err
         url.PathUnescape(s) against Spec.pctDecode              (ties the *specification's* decoder to Go)
    trl <code> <cb msg> <md>                      => <cb wire>
         lpmTrailer(trailerWithStatus(md, status))                (function level; lines compared as a multiset)
    http <h1|h2> k=<uu|cs|ss|bd> cd=<raw|empty> rt=<ok|code:cb> fr=<frames> tl=<cb> ck=<n/n/..> rs=<cbs> fs=<code>:<cb> tm=<md> ea=<-|n>
                                                  => st=<n> rv=<recvs> tg=<cbs> te=<eof|open|none> sd=<cbs> sf=<n> tr=<md> oc=<code>:<cb> body=<cb> gd=<...>
    ws   k=.. cd=.. rt=.. hd=<ok|bad>:<cb> ms=<cbs raw websocket messages> rs= fs= tm= ea=
                                                  => up=<n> ws=<cbs> cl=<n|none> rv= tg= te= sd= sf= tr= oc=<code:cb|->
  rv = results of the Recv calls on the bridge's ServerStream, tg = messages the target received, te = target stream
  state, sd = messages the ServerStream accepted (Send = nil), tr = metadata given to SetTrailer, oc = what
  RouteGRPC / Forward returned (the call's outcome), all observed by wrappers inside the harness.
  frames: `<flag hh>:<declared length|=>:<cb payload>`; recvs: `m:<cb>` | `eof` | `e:<grpc code>`; md: `<cb key>:<cb value>`.

    http sp … sp=timeout:<ms>|badframe            in-process call with a ResponseWriter whose first data-frame Write stalls: the
         grpc-timeout expires / the malformed rest of the request (`tl`) arrives while that Send is in flight; the Write is
         released only after Forward returned. Output adds blk=<yes|no> fwd=<returned|pending>; body = bytes in wire order.
    ws … sp=stall                                 the client stops reading while the target's large answer is sent, sends its last
         (malformed) message, and reads on only after Forward returned.
  Every output carries hs=<returned|stuck> (did ServeHTTP return within the session watchdog); `HANG …` = no end of response.

  Verdicts: VIOL = the observed behaviour breaks the property text (lossy / reordered / truncated request
  messages, oversize frame not rejected, status ≠ 200, response not `data* trailer`, trailer ≠ outcome);
  DIFF = the observation differs from the model but none of the above.
-/
namespace GB.C08
open GB GB.Proto

/-! tail-recursive helpers (payloads can be 8 MiB long) -/

def beqB : Bytes → Bytes → Bool
  | [], [] => true
  | a :: as, b :: bs => if a = b then beqB as bs else false
  | _, _ => false

def beqBs : List Bytes → List Bytes → Bool
  | [], [] => true
  | a :: as, b :: bs => if beqB a b then beqBs as bs else false
  | _, _ => false

def hexTR : List Char → Bytes → Option Bytes
  | [], acc => some acc.reverse
  | [_], _ => none
  | a :: b :: rest, acc =>
    match hexDigitVal a, hexDigitVal b with
    | some x, some y => hexTR rest (UInt8.ofNat (x * 16 + y) :: acc)
    | _, _ => none

def parseSeg (s : String) : Option Bytes :=
  match s.splitOn "*" with
  | [h] => hexTR h.toList []
  | [h, n] =>
    match hexTR h.toList [], n.toNat? with
    | some [b], some k => some (List.replicate k b)
    | _, _ => none
  | _ => none

/-- compact bytes -/
def parseCB (s : String) : Option Bytes :=
  match s.toList with
  | 'x' :: rest =>
    ((String.ofList rest).splitOn ".").foldl
      (fun acc seg => match acc, parseSeg seg with
        | some a, some b => some (a ++ b)
        | _, _ => none) (some [])
  | _ => none

def parseList {α} (f : String → Option α) (s : String) : Option (List α) :=
  if s = "-" then some [] else mapOpt f (s.splitOn ",")

def kv? (key : String) (toks : List String) : Option String :=
  match toks.find? (fun t => t.startsWith (key ++ "=")) with
  | some t => some ((t.drop (key.length + 1)).toString)
  | none => none

structure FrameD where
  flag : UInt8
  decl : Option Nat
  payload : Bytes

def FrameD.len (f : FrameD) : Nat := match f.decl with | some n => n | none => f.payload.length

/-- what the client puts on the wire for this frame description (the harness encodes the same way in Go) -/
def FrameD.enc (f : FrameD) : Bytes := f.flag :: (putBe32 f.len ++ f.payload)

def parseFrameD (s : String) : Option FrameD :=
  match s.splitOn ":" with
  | [fl, d, p] =>
    match hexTR fl.toList [], parseCB p with
    | some [f], some pl =>
      if d = "=" then some ⟨f, none, pl⟩
      else match d.toNat? with | some n => some ⟨f, some n, pl⟩ | none => none
    | _, _ => none
  | _ => none

/-- observed Recv result -/
inductive ORes where
  | eof | msg (m : Bytes) | err (code : Nat)

def parseORes (s : String) : Option ORes :=
  if s = "eof" then some .eof
  else match s.splitOn ":" with
    | ["m", p] => (parseCB p).map .msg
    | ["e", c] => c.toNat?.map .err
    | _ => none

def oresEq : ORes → RecvRes → Bool
  | .eof, .eof => true
  | .msg a, .msg b => beqB a b
  | .err c, .err e => c == e.code
  | _, _ => false

def oresListEq : List ORes → List RecvRes → Bool
  | [], [] => true
  | a :: as, b :: bs => if oresEq a b then oresListEq as bs else false
  | _, _ => false

def oresMsgs : List ORes → List Bytes
  | [] => []
  | .msg m :: r => m :: oresMsgs r
  | _ :: r => oresMsgs r

def showRes : RecvRes → String
  | .eof => "eof"
  | .msg m => s!"m[{m.length}]"
  | .err e => s!"e:{e.code}"

def showResList (l : List RecvRes) : String := ",".intercalate (l.map showRes)

def parseCodeMsg (s : String) : Option (Nat × Bytes) :=
  match s.splitOn ":" with
  | [c, m] => match c.toNat?, parseCB m with | some n, some b => some (n, b) | _, _ => none
  | _ => none

/-- expected outcome of a failed routing step: `code:msg` scripted status, `plain:msg` a non-status error
    (status.Convert ⇒ Unknown), `real` the real ServiceRouter on an unknown service (Unimplemented, text not compared) -/
def routeOutcomeOK (rt : String) (oc : Nat) (om : Bytes) : Bool :=
  if rt = "real" then oc == 12
  else match rt.splitOn ":" with
    | ["plain", m] => (match parseCB m with | some b => oc == 2 && beqB om b | none => false)
    | [c, m] => (match c.toNat?, parseCB m with | some n, some b => oc == n && beqB om b | _, _ => false)
    | _ => false

def parseKV (s : String) : Option (Bytes × Bytes) :=
  match s.splitOn ":" with
  | [k, v] => match parseCB k, parseCB v with | some a, some b => some (a, b) | _, _ => none
  | _ => none

/-- a[i] = b[i] wherever both exist -/
def agreeB : List Bytes → List Bytes → Bool
  | a :: as, b :: bs => if beqB a b then agreeB as bs else false
  | _, _ => true

def isPrefixBs : List Bytes → List Bytes → Bool
  | [], _ => true
  | a :: as, b :: bs => if beqB a b then isPrefixBs as bs else false
  | _ :: _, [] => false

/-- payloads of the maximal well-formed prefix: flag 0, honest length, within the limit (if any) -/
def wfPrefix (lim : Option Nat) : List FrameD → List Bytes
  | [] => []
  | f :: fs =>
    if f.flag == 0 && f.decl.isNone && (match lim with | some L => decide (f.payload.length ≤ L) | none => true)
    then f.payload :: wfPrefix lim fs else []

def lexLt : Bytes → Bytes → Bool
  | [], [] => false
  | [], _ :: _ => true
  | _ :: _, [] => false
  | a :: as, b :: bs => if a < b then true else if b < a then false else lexLt as bs

def insertSorted (x : Bytes) : List Bytes → List Bytes
  | [] => [x]
  | y :: ys => if lexLt y x then y :: insertSorted x ys else x :: y :: ys

def sortB (l : List Bytes) : List Bytes := l.foldl (fun acc x => insertSorted x acc) []

/-- every pair the forwarder handed to SetTrailer is one the target scripted -/
def subMD (tr tm : MD) : Bool := tr.all (fun kv => tm.any (fun q => beqB q.1 kv.1 && beqB q.2 kv.2))

def mdLines (md : MD) : List Bytes := sortB (md.map trailerLine)

/-- request-side judgement shared by both transports.
    `P` well-formed prefix payloads, `nextOversize` = the frame after the prefix declares more than the limit. -/
def judgeReq (P : List Bytes) (nextOversize : Bool) (complete : Bool) (clientStreaming : Bool) (early : Bool)
    (rv : List ORes) (tg : List Bytes) (te : String) (oc : Nat) : Option String :=
  let rm := oresMsgs rv
  if !agreeB rm P then some "VIOL request message altered/reordered at Recv"
  else if !agreeB tg P then some "VIOL request message altered/reordered at target"
  else if !isPrefixBs tg rm then some "VIOL target saw a message that was never received"
  else if nextOversize && (match rv.drop P.length with | .msg _ :: _ => true | .eof :: _ => true | _ => false) then
    some "VIOL oversize frame not rejected"
  else if !early && (match rv.getLast? with | some (.err _) => oc == 0 | _ => false) then
    some "VIOL receive error but call outcome OK"
  else if complete && !early && clientStreaming &&
      !(beqBs rm P && beqBs tg P && rv.length == P.length + 1 && (match rv.getLast? with | some .eof => true | _ => false) && te == "eof") then
    some "VIOL well-formed request stream not delivered completely"
  else if complete && !early && !clientStreaming && !P.isEmpty && !(beqBs rm (P.take 1) && beqBs tg (P.take 1)) then
    some "VIOL unary request not delivered"
  else none

/-- response-side judgement on decoded frames -/
def judgeResp (msgs : List Bytes) (block : Bytes) (sd : List Bytes) (sf : Nat) (rs : List Bytes) (serverStreaming : Bool)
    (oc : Nat) (om : Bytes) : Option String :=
  if !(match trailerOutcome block with | some (c, m) => c == oc && beqB m om | none => false) then some "VIOL trailer does not state the call outcome"
  -- every accepted Send is on the wire, in order; a Send abandoned on context end (`sf` of them) may be too
  else if !(isPrefixBs sd msgs && msgs.length ≤ sd.length + sf) then some "VIOL response messages altered (≠ what the forwarder sent)"
  else if !isPrefixBs msgs rs then some "VIOL response messages are not the target's"
  else if oc == 0 && serverStreaming && !beqBs msgs rs then some "VIOL response messages lost"
  else none

def goDecodeSummary (msgs : List Bytes) (block : Bytes) : String :=
  match parseTrailer block with
  | none => "bad"
  | some md =>
    match mdGet md kStatus, mdGet md kMessage with
    | [s], [m] =>
      match pctDecode m with
      | some d => s!"ok:{msgs.length}:{toHex s}:{toHex d}"
      | none => "bad"
    | _, _ => "bad"

/-- split the wire bytes the way the harness writes them into the pipe: chunk sizes cycle through `pat` -/
def chunkBy (pat : List Nat) : Nat → Nat → Bytes → List Bytes
  | 0, _, _ => []
  | _, _, [] => []
  | fuel + 1, i, s =>
    let n := match pat[i % pat.length]? with | some k => (if k = 0 then 1 else k) | none => 1048576
    s.take n :: chunkBy pat fuel (i + 1) (s.drop n)

def parsePattern (s : String) : List Nat := (s.splitOn "/").filterMap String.toNat?

/-- Trace validation against the fence LTS (Fence.lean): the canonical schedule of an observed HTTP call — every wire
    message is one Send whose helper runs Lock ; test ; Write ; Unlock; in a stalled-Send scenario the LAST helper has taken
    the mutex and passed the test when Forward returns and writes only afterwards, the handler's Lock comes after its Unlock —
    must be executable step by step, end with the trailer written, and its output must be the observed body (the trailer
    lines compared as a multiset: Go map order). -/
def fenceLabels (ws : Bool) (msgs : List Bytes) (stalledLast : Bool) (tr : MD) (oc : Nat) (om : Bytes) : List Fence.Lbl :=
  let n := msgs.length
  -- gRPC-WebSocket: the first send writes the header frame before its data frame, under the same lock
  let wr (i : Nat) : List Fence.Lbl := if ws && i == 0 then [.hWriteHdr 0, .hWrite 0] else [.hWrite i]
  let rec go (i : Nat) : List Bytes → List Fence.Lbl
    | [] => [.setTrailer tr, .fwdReturn oc om]
    | m :: rest =>
      if stalledLast && i + 1 == n then [.send m, .hLock i, .hCheck i, .setTrailer tr, .fwdReturn oc om] ++ wr i ++ [.hUnlock i]
      else [.send m, .hLock i, .hCheck i] ++ wr i ++ [.hUnlock i] ++ go (i + 1) rest
  go 0 msgs ++ [.finLock, .finSet, .finUnlock, .writeTrailer]

def fenceReplayOK (msgs : List Bytes) (stalledLast : Bool) (tr : MD) (oc : Nat) (om : Bytes) (md : MD) (body : Bytes) : Bool :=
  match GB.LTS.run Fence.step (Fence.init .fixed .http) (fenceLabels false msgs stalledLast tr oc om) with
  | some s =>
    s.phase == .done && beqB (s.out.dropLast.flatten ++ lpmTrailer md) body &&
    (match s.trW with | some t => mdLines t == mdLines md | none => false)
  | none => false

/-- the same over WebSocket: the observed message list must be the LTS output frame by frame (the two metadata frames
    compared as line multisets: Go map order) -/
def fenceReplayWSOK (msgs : List Bytes) (stalledLast : Bool) (sh tr : MD) (oc : Nat) (om : Bytes) (hmd md : MD) (wsm : List Bytes) : Bool :=
  match GB.LTS.run Fence.step (Fence.init .fixed .ws) (Fence.Lbl.setHeader sh :: fenceLabels true msgs stalledLast tr oc om) with
  | some s =>
    let core (l : List Bytes) : List Bytes := (if s.hdrW.isSome then l.drop 1 else l).dropLast
    s.phase == .done && s.out.length == wsm.length && beqBs (core s.out) (core wsm) &&
    (match s.hdrW with | some h => mdLines h == mdLines hmd && wsm.head? == some (lpmTrailer hmd) | none => true) &&
    (match s.trW with | some t => mdLines t == mdLines md && wsm.getLast? == some (lpmTrailer md) | none => false)
  | none => false

def handleHTTP (i o : List String) : String :=
  match kv? "k" i, kv? "rt" i, (kv? "fr" i).bind (parseList parseFrameD), (kv? "tl" i).bind parseCB,
        (kv? "rs" i).bind (parseList parseCB), (kv? "fs" i).bind parseCodeMsg,
        (kv? "tm" i).bind (parseList parseKV), kv? "ea" i with
  | some k, some rt, some frs, some tl, some rs, some _fs, some tm, some ea =>
    if o.head? == some "HANG" then s!"VIOL the call never ends ({o.getD 1 ""} handler={(kv? "hs" o).getD "?"})" else
    if o.head? == some "PANIC" then "VIOL panic" else
    if (kv? "hs" o).getD "returned" != "returned" then "VIOL handler=stuck: ServeHTTP did not return after the response ended" else
    -- the status first: a request that was not answered by the gRPC-Web bridge at all has no outcome to parse
    if (match (kv? "st" o).bind String.toNat? with | some st => st != httpStatus | none => false) then
      s!"VIOL http status {(kv? "st" o).getD "?"}" else
    match (kv? "st" o).bind String.toNat?, (kv? "rv" o).bind (parseList parseORes), (kv? "tg" o).bind (parseList parseCB),
          kv? "te" o, (kv? "sd" o).bind (parseList parseCB), (kv? "oc" o).bind parseCodeMsg,
          (kv? "body" o).bind parseCB, kv? "gd" o, (kv? "tr" o).bind (parseList parseKV) with
    | some st, some rv, some tg, some te, some sd, some (oc, om), some body, some gd, some tr =>
      let cs : Bool := k == "cs" || k == "bd"
      let ss : Bool := k == "ss" || k == "bd"
      let sp := (kv? "sp" i).getD ""
      let stalled : Bool := sp != ""
      let early : Bool := ea != "-" || stalled
      let sf := ((kv? "sf" o).bind String.toNat?).getD 0
      let wire := frs.flatMap FrameD.enc ++ tl
      let P := wfPrefix (some maxMsg) frs
      let nextOver := match frs.drop P.length with | f :: _ => decide (f.len > maxMsg) | [] => false
      let complete : Bool := P.length == frs.length && tl.isEmpty
      if st ≠ httpStatus then s!"VIOL http status {st}" else
      match decodeBody body with
      | none => "VIOL response body is not data* followed by exactly one trailer frame"
      | some (msgs, block) =>
        let routed : Bool := rt == "ok"
        let reqV := if routed then judgeReq P nextOver complete cs early rv tg te oc else none
        match reqV with
        | some v => v
        | none =>
        match judgeResp msgs block sd sf rs ss oc om with
        | some v => v
        | none =>
          -- stalled-Send scenarios: the interleaving must have been established, the outcome is the deadline /
          -- the request-side error the model predicts
          let spOK : Bool := !stalled ||
            ((kv? "blk" o) == some "yes" && (kv? "fwd" o) == some "returned" &&
             (if sp.startsWith "timeout" then oc == 4
              else match (recvTrace (frs.length + 1) wire).getLast? with | some (.err e) => oc == e.code | _ => false))
          if !spOK then "DIFF model=stalled-send scenario not established or outcome differs" else
          -- model equality
          let mrv := recvTrace rv.length wire
          -- the same through the chunked-reader model, with the chunking the harness used (small bodies only)
          let chunkOK : Bool := wire.length > 200000 ||
            (match kv? "ck" i with
             | some ck => decide (recvChunksTraceL maxMsg rv.length (chunkBy (parsePattern ck) (wire.length + 1) 0 wire) = mrv)
             | none => false)
          let rvOK : Bool := early || (oresListEq rv mrv && chunkOK)
          let md := match parseTrailer block with | some m => m | none => []
          let bodyOK : Bool := beqB body (respondHTTPWith msgs md) &&
            mdLines md == mdLines (encodeMD (trailerWithStatus tr oc om)) && subMD tr tm
          let ocOK : Bool := if routed then
              (match rv.getLast? with | some (.err c) => early || oc == c | _ => true)
            else routeOutcomeOK rt oc om && rv.isEmpty && tg.isEmpty && sd.isEmpty
          let gdOK : Bool := gd == goDecodeSummary msgs block
          let fenceOK : Bool := !routed || body.length > 200000 ||
            fenceReplayOK msgs (stalled && decide (msgs.length > sd.length)) tr oc om md body
          if !rvOK then s!"DIFF model=rv:{showResList mrv}"
          else if !bodyOK then "DIFF model=body"
          else if !fenceOK then "DIFF model=fence-lts-replay"
          else if !ocOK then "DIFF model=outcome"
          else if !gdOK then s!"DIFF model=gd:{goDecodeSummary msgs block}"
          else
            let big : Bool := frs.any (fun f => f.payload.length ≥ 65536) || rs.any (fun m => m.length ≥ 65536)
            let br := if !routed then "route-fail"
              else if stalled then "stalled-send"
              else match rv.getLast? with
                | some (.err 8) => "oversize"
                | some (.err _) => "recv-error"
                | _ => if oc = 0 then "ok" else "status"
            let nt := if frs.length + rs.length + om.length > 0 then " nt" else ""
            s!"OK{nt} b=http-{br}{if big then "-big" else ""}"
    | _, _, _, _, _, _, _, _, _ => "BAD c08 http output"
  | _, _, _, _, _, _, _, _ => "BAD c08 http input"

/-- the grpc-websockets client messages of the structured description: `d:<cb>` data, `f` finish, `r:<cb>` raw -/
inductive WSItem where
  | data (m : Bytes) | fin | raw (b : Bytes)

def parseWSItem (s : String) : Option WSItem :=
  if s = "f" then some .fin
  else match s.splitOn ":" with
    | ["d", p] => (parseCB p).map .data
    | ["r", p] => (parseCB p).map .raw
    | _ => none

def WSItem.enc : WSItem → Bytes
  | .data m => wsFrame m
  | .fin => wsFinish
  | .raw b => b

/-- payloads of the leading data items (before the first finish/raw item) and whether a finish follows directly -/
def wsPrefix : List WSItem → List Bytes × Bool
  | .data m :: r => let p := wsPrefix r; (m :: p.1, p.2)
  | .fin :: _ => ([], true)
  | _ => ([], false)

def insertKey (e : Bytes × List Bytes) : List (Bytes × List Bytes) → List (Bytes × List Bytes)
  | [] => [e]
  | y :: ys => if lexLt y.1 e.1 then y :: insertKey e ys else e :: y :: ys

/-- (key, value) pairs with keys sorted bytewise (Go's sort.Strings) and the values of a key in order -/
def flatMD (md : GB.C07.MD) : List (Bytes × Bytes) :=
  (md.foldl (fun acc e => insertKey e acc) []).flatMap (fun e => e.2.map (fun v => (e.1, v)))

def pairsEq : List (Bytes × Bytes) → List (Bytes × Bytes) → Bool
  | [], [] => true
  | a :: as, b :: bs => beqB a.1 b.1 && beqB a.2 b.2 && pairsEq as bs
  | _, _ => false

def showPairs (l : List (Bytes × Bytes)) : String :=
  if l.isEmpty then "-" else ",".intercalate (l.map (fun p => toHex p.1 ++ ":" ++ toHex p.2))

/-! trace validation of the hand-off LTS: the observable sequence of a session (client messages, the results of the
    Recv calls in order, ServeHTTP returned) is replayed through `Handoff.step` under a canonical schedule — the pump
    calls Recv `want` times, the read loop runs only as far as needed, then close(done), the read loop drains and exits.
    Every label must be enabled; the final state must show the observed results. -/
namespace HandoffReplay
open GB.C08.Handoff

def pump (cs : Bool) : Nat → St → Nat → Option St
  | 0, s, _ => some s
  | fuel + 1, s, want =>
    match s.recv with
    | .waiting =>
      match s.reader with
      | .busy (.eof :: _) => (step cs s .closeEvents).bind (fun s' => pump cs fuel s' want)
      | .busy _ => (step cs s .handoff).bind (fun s' => pump cs fuel s' want)
      | .idle =>
        if s.eventsClosed then (step cs s .recvClosed).bind (fun s' => pump cs fuel s' want)
        else if s.pending.isEmpty then some s          -- the pump blocks: nothing more will come
        else (step cs s .read).bind (fun s' => pump cs fuel s' want)
      | .exited => some s
    | .idle => if want = 0 then some s else (step cs s .recvCall).bind (fun s' => pump cs fuel s' (want - 1))
    | .stopped => some s

def drain (cs : Bool) : Nat → St → Option St
  | 0, s => some s
  | fuel + 1, s =>
    match s.reader with
    | .busy (.eof :: _) => (step cs s .closeEvents).bind (drain cs fuel)
    | .busy _ => (step cs s .onDone).bind (drain cs fuel)
    | .idle => if s.pending.isEmpty then step cs s .readerExit else (step cs s .read).bind (drain cs fuel)
    | .exited => some s

def toRes : WSEv → Option RecvRes
  | .msg m => some (.msg m)
  | .err e => some (.err e)
  | .eof => some .eof
  | _ => none

/-- replay; `some results` if every step was enabled and the read loop exited without a panic -/
def replay (cs : Bool) (msgs : List Bytes) (want : Nat) : Option (List RecvRes) :=
  let s0 := msgs.foldl (fun s d => (s.bind (fun s => step cs s (.clientSend d)))) (some init)
  let fuel := 4 * msgs.length + 2 * want + 8
  match s0.bind (fun s => pump cs fuel s want) with
  | none => none
  | some s1 =>
    -- a pump still inside Recv when Forward ends is impossible in these sessions (Forward returned): it is not waiting
    let s1' := if s1.recv = .waiting then none else some s1
    match (s1'.bind (fun s => step cs s .closeDone)).bind (drain cs fuel) with
    | some s2 => if s2.reader = .exited && !s2.panicked && s2.pending.isEmpty then some (s2.results.filterMap toRes) else none
    | none => none

end HandoffReplay

def handleWS (i o : List String) : String :=
  match kv? "k" i, kv? "rt" i, kv? "hd" i, (kv? "ms" i).bind (parseList parseWSItem),
        (kv? "rs" i).bind (parseList parseCB), (kv? "tm" i).bind (parseList parseKV), kv? "ea" i with
  | some k, some rt, some hd, some items, some rs, some tm, some ea =>
    if o.head? == some "HANG" then s!"VIOL the call never ends ({o.getD 1 ""})" else
    if o.head? == some "PANIC" then "VIOL panic" else
    if (kv? "hs" o).getD "returned" != "returned" then "VIOL handler=stuck: ServeHTTP did not return after the close frame" else
    -- sp=mute: a client that never answers the close frame must not hold the handler beyond the close timeout
    if (kv? "sp" i) == some "mute" && ((kv? "bound" o) != some "ok" || (kv? "tcp" o) != some "closed") then
      s!"VIOL close handshake not bounded (bound={(kv? "bound" o).getD "?"} tcp={(kv? "tcp" o).getD "?"})" else
    match (kv? "up" o).bind String.toNat?, (kv? "ws" o).bind (parseList parseCB), kv? "cl" o,
          (kv? "rv" o).bind (parseList parseORes), (kv? "tg" o).bind (parseList parseCB),
          kv? "te" o, (kv? "sd" o).bind (parseList parseCB), kv? "oc" o, (kv? "tr" o).bind (parseList parseKV) with
    | some up, some wsm, some cl, some rv, some tg, some te, some sd, some ocs, some tr =>
      let cs : Bool := k == "cs" || k == "bd"
      let ss : Bool := k == "ss" || k == "bd"
      let early : Bool := ea != "-"
      let stalled : Bool := (kv? "sp" i).isSome && (kv? "sp" i) != some "mute"
      let early : Bool := early || stalled
      let sf := ((kv? "sf" o).bind String.toNat?).getD 0
      -- `hd=<tag>:<cb>`: the tag (ok/bad/h) is a comment of the generator; whether the header message parses is
      -- decided by the model of readMD / textproto.ReadMIMEHeader
      let hdBytes := match hd.splitOn ":" with | [_, b] => (match parseCB b with | some x => x | none => []) | _ => []
      let hdPairs := readMIME hdBytes
      let hdOK : Bool := hdPairs.isSome
      if up ≠ 101 then s!"VIOL websocket upgrade status {up}" else
      match decodeWS wsm with
      | none => "VIOL websocket response is not [header] data* followed by exactly one trailer message"
      | some (hdr, msgs, block) =>
        if cl ≠ "1000" then s!"VIOL websocket not closed normally after the trailer (close={cl})" else
        -- a rejected header message never reaches the router/forwarder: the outcome is the bridge's own status
        match (if ocs = "-" then trailerOutcome block else parseCodeMsg ocs) with
        | none => if ocs = "-" then "VIOL trailer does not decode to a status" else "BAD c08 ws oc"
        | some (oc, om) =>
        let routed : Bool := hdOK && rt == "ok"
        if !hdOK && te != "none" then "VIOL call forwarded to the target after its header message was rejected" else
        let (P, finished) := wsPrefix items
        let reqV := if routed then judgeReq P false finished cs early rv tg te oc else none
        match reqV with
        | some v => v
        | none =>
        match judgeResp msgs block sd sf rs ss oc om with
        | some v => v
        | none =>
          let spOK : Bool := !stalled || ((kv? "fwd" o) == some "returned" &&
            ((kv? "sp" i) != some "stall" || (kv? "blk" o) == some "yes"))
          if !spOK then "DIFF model=stalled-send scenario not established" else
          let evs := wsEvents mdOkReal {} (hdBytes :: items.map WSItem.enc)
          -- the metadata Forward saw = FromIncomingContext(MD(mimeHeader)) of the parsed lines, keys sorted, values in order
          let mdModel := flatMD (forwardMD (hdPairs.getD []))
          let mdOK : Bool := match kv? "md" o with
            | some obs => if routed then (match parseList parseKV obs with | some l => pairsEq l mdModel | none => false) else obs == "none"
            | none => false
          if !mdOK then s!"DIFF model=md:{showPairs mdModel}" else
          let mrv := wsRecvTrace rv.length evs
          -- hand-off LTS replay (sessions whose pump ended by itself: not cut short by an early answer / context end)
          let ltsOK : Bool := early || !routed ||
            (match rv.getLast? with
             | some (.msg _) => true        -- unary request: the pump never saw the end; covered by the sequential check
             | none => true
             | _ => match HandoffReplay.replay cs (items.map WSItem.enc) rv.length with
                    | some res => oresListEq rv res
                    | none => false)
          if !ltsOK then "DIFF model=handoff-lts" else
          let rvOK : Bool := (early && !stalled) || (ea != "-" && (kv? "sp" i) == some "flood") || oresListEq rv mrv
          let md := match parseTrailer block with | some m => m | none => []
          let hmd := match hdr with | some h => (match parseTrailer h with | some m => m | none => [([0], [])]) | none => []
          -- response header metadata: scripted (`hm=`), what the forwarder handed to SetHeader (`sh=`), the header frame on the wire
          let hm := ((kv? "hm" i).bind (parseList parseKV)).getD []
          let sh := ((kv? "sh" o).bind (parseList parseKV)).getD []
          let respOK : Bool := beqBs wsm (wsRespondWith hmd msgs md) && (hdr.isSome == !msgs.isEmpty) &&
            (hdr.isNone || mdLines hmd == mdLines (encodeMD sh)) && subMD sh hm &&
            mdLines md == mdLines (encodeMD (trailerWithStatus tr oc om)) && subMD tr tm
          let ocOK : Bool := if routed then
              ocs != "-" && (match rv.getLast? with | some (.err c) => early || oc == c | _ => true)
            else if !hdOK then oc == 3 && ocs == "-" && rv.isEmpty && tg.isEmpty && sd.isEmpty
            else ocs != "-" && routeOutcomeOK rt oc om && rv.isEmpty && tg.isEmpty && sd.isEmpty
          let fenceOK : Bool := !routed || !hdOK || (wsm.foldl (fun a m => a + m.length) 0) > 200000 ||
            fenceReplayWSOK msgs (stalled && decide (msgs.length > sd.length)) sh tr oc om hmd md wsm
          if !rvOK then s!"DIFF model=rv:{showResList mrv}"
          else if !respOK then "DIFF model=ws-messages"
          else if !fenceOK then "DIFF model=fence-lts-replay"
          else if !ocOK then "DIFF model=outcome"
          else
            let big : Bool := items.any (fun it => (WSItem.enc it).length ≥ 65536) || rs.any (fun m => m.length ≥ 65536)
            let br := if !hdOK then "bad-header" else if rt ≠ "ok" then "route-fail"
              else if (kv? "sp" i) == some "flood" then "flood-at-close"
              else if stalled then "stalled-send"
              else match rv.getLast? with
                | some (.err _) => "recv-error"
                | _ => if oc = 0 then "ok" else "status"
            let nt := if items.length + rs.length + om.length > 0 then " nt" else ""
            s!"OK{nt} b=ws-{br}{if big then "-big" else ""}"
    | _, _, _, _, _, _, _, _, _ => "BAD c08 ws output"
  | _, _, _, _, _, _, _ => "BAD c08 ws input"

def handle : Handler
  | ["esc", hx], [esc, un] =>
    match parseCB hx, parseCB esc with
    | some s, some e =>
      let m := pathEscape s
      if pctDecode e ≠ some s then s!"VIOL escaped grpc-message does not decode to the message model={toHex m}"
      else if e ≠ m then s!"DIFF model={toHex m}"
      else if un ≠ "ok:" ++ toHex s then "DIFF model=unescape"
      else s!"OK nt b=esc{if s.length = 1 then "-byte" else ""}"
    | _, _ => "BAD c08 esc"
  | ["unesc", hx], [out] =>
    match parseCB hx with
    | some s =>
      let m := match pctDecode s with | some d => "ok:" ++ toHex d | none => "err"
      if out ≠ m then s!"DIFF model={m}" else s!"OK nt b=unesc-{if m = "err" then "err" else "ok"}"
    | none => "BAD c08 unesc"
  | ["trl", code, msg, mds], [out] =>
    match code.toNat?, parseCB msg, parseList parseKV mds, parseCB out with
    | some c, some m, some md, some w =>
      match takeFrame w with
      | some (.trailer block, []) =>
        if trailerOutcome block ≠ some (c, m) then "VIOL trailer does not state the status"
        else
          match parseTrailer block with
          | some omd =>
            if w ≠ lpmTrailer omd then "DIFF model=lpmTrailer"
            else if mdLines omd ≠ mdLines (encodeMD (trailerWithStatus md c m)) then "DIFF model=trailerWithStatus"
            else "OK nt b=trl"
          | none => "VIOL trailer block unparsable"
      | _ => "VIOL not a single trailer frame"
    | _, _, _, _ => "BAD c08 trl"
  | "obs" :: _, o =>
    -- observation only (per-message flushing is not promised by the property): reported in the branch histogram
    if (kv? "hs" o).getD "returned" != "returned" then "VIOL handler=stuck" else
    match kv? "st" o, kv? "first" o with
    | some "200", some f => s!"OK b=obs-first-message-visible-{f}"
    | _, _ => "BAD c08 obs"
  | "nr" :: tr :: _, o =>
    -- a client that stops reading and never closes; the grpc-timeout ends Forward with a Send still blocked
    if o.head? == some "PANIC" then "VIOL panic" else
    match kv? "hs" o, kv? "gr" o, kv? "tcp" o, kv? "blk" o, kv? "fwd" o, kv? "gone" o, (kv? "oc" o).bind parseCodeMsg with
    | some hs, some gr, some tcp, some blk, some fwd, some gone, some (oc, _) =>
      if blk != "yes" || fwd != "returned" || oc != 4 then "DIFF model=non-reading-client scenario not established"
      else if gone != "returned" then "VIOL handler-stuck although the client has gone away"
      else if tr == "h1" then
        -- gRPC-Web over HTTP: bounded only by net/http (WriteTimeout / client going away) — documented assumption
        s!"OK nt b=nr-h1-{hs}-until-client-gone"
      else if hs != "returned" || tcp != "closed" || gr != "0" then
        s!"VIOL handler-stuck-on-non-reading-client (handler={hs} goroutines={gr} tcp={tcp})"
      else s!"OK nt b=nr-{tr}-bounded"
    | _, _, _, _, _, _, _ => "BAD c08 nr"
  | "http" :: i, o => handleHTTP i o
  | "ws" :: i, o => handleWS i o
  | _, _ => "BAD c08 line"

end GB.C08
