import GB.Base.Proto
namespace GB.C08
open GB GB.Proto

/-- stub: replaced when the C08 slice is built -/
def handle : Handler := fun _ _ => "BAD c08 unimplemented"

end GB.C08
