import GB.C08.Mime
import GB.C07.Proofs
/- C08 — lemmas about the header-message model (Mime.lean) over the C07 metadata model. -/
set_option linter.unusedSimpArgs false
namespace GB.C08
open GB GB.C07

/-- the values of the lines whose key maps to `q` under `f`, in line order -/
def grp (f : Bytes → Bytes) (ps : List (Bytes × Bytes)) (q : Bytes) : List Bytes :=
  (ps.filter (fun p => f p.1 == q)).map (·.2)

theorem mimeFold_lookup (ps : List (Bytes × Bytes)) (o : C07.MD) (K : Bytes) :
    MD.lookup (ps.foldl (fun o p => MD.put o (canonKey p.1) (MD.lookup o (canonKey p.1) ++ [p.2])) o) K =
      MD.lookup o K ++ grp canonKey ps K := by
  induction ps generalizing o with
  | nil => simp [grp]
  | cons p ps ih =>
    simp only [List.foldl_cons, ih, lookup_put, grp, List.filter_cons]
    by_cases h : K = canonKey p.1
    · subst h; simp
    · have : (canonKey p.1 == K) = false := by simp; exact fun e => h e.symm
      simp [h, this]

/-- T1: `metadata.MD(mimeHeader)` is exactly the parsed lines, grouped by canonical key, values in line order -/
theorem headerMD_lookup (ps : List (Bytes × Bytes)) (K : Bytes) :
    MD.lookup (headerMD ps) K = grp canonKey ps K := by
  have := mimeFold_lookup ps [] K
  simpa [headerMD, mimeHeader, MD.lookup] using this

/-- `FromIncomingContext`: the last entry whose lower-cased key is `q` wins -/
theorem fromFold_lookup (md : C07.MD) (o : C07.MD) (q : Bytes) :
    MD.lookup (md.foldl (fun o e => MD.put o (lower e.1) e.2) o) q =
      match (md.filter (fun e => lower e.1 == q)).getLast? with
      | some e => e.2
      | none => MD.lookup o q := by
  induction md generalizing o with
  | nil => simp
  | cons e md ih =>
    simp only [List.foldl_cons, ih, List.filter_cons]
    by_cases h : lower e.1 = q
    · simp only [h, beq_self_eq_true, ↓reduceIte]
      cases hl : (md.filter (fun e => lower e.1 == q)).getLast? with
      | none =>
        have : md.filter (fun e => lower e.1 == q) = [] := by simpa using hl
        simp [this, lookup_put, h]
      | some x =>
        have : (e :: md.filter (fun e => lower e.1 == q)).getLast? = some x := by
          cases hm : md.filter (fun e => lower e.1 == q) with
          | nil => simp [hm] at hl
          | cons a r => rw [hm] at hl; simpa [List.getLast?_cons_cons] using hl
        simp [this]
    · have hb : (lower e.1 == q) = false := by simp [h]
      simp only [hb, Bool.false_eq_true, ↓reduceIte]
      cases hl : (md.filter (fun e => lower e.1 == q)).getLast? with
      | none => simp [lookup_put]; intro e'; exact absurd e'.symm h
      | some x => rfl

/-! structure of the entries of `headerMD` -/

def keysOf (md : C07.MD) : List Bytes := md.map (·.1)

theorem keys_put (md : C07.MD) (k : Bytes) (v : List Bytes) :
    keysOf (MD.put md k v) = if k ∈ keysOf md then keysOf md else keysOf md ++ [k] := by
  induction md with
  | nil => simp [MD.put, keysOf]
  | cons e r ih =>
    obtain ⟨k0, v0⟩ := e
    simp only [MD.put]
    by_cases h : k0 = k
    · subst h; simp [keysOf]
    · have hb : (k0 == k) = false := by simp [h]
      simp only [hb, Bool.false_eq_true, ↓reduceIte, keysOf, List.map_cons, List.mem_cons] at ih ⊢
      have hne : ¬ k = k0 := fun e => h e.symm
      by_cases hm : k ∈ List.map (fun x => x.1) r
      · simp [hm, hne] at ih ⊢; exact ih
      · simp [hm, hne] at ih ⊢; exact ih

theorem nodup_put (md : C07.MD) (k : Bytes) (v : List Bytes) (h : (keysOf md).Nodup) : (keysOf (MD.put md k v)).Nodup := by
  rw [keys_put]
  split
  · exact h
  · rename_i hk
    exact List.nodup_append.mpr ⟨h, by simp, by intro a ha b hb; simp at hb; subst hb; intro e; subst e; exact hk ha⟩

theorem lookup_of_mem (md : C07.MD) (h : (keysOf md).Nodup) (k : Bytes) (v : List Bytes) (hm : (k, v) ∈ md) :
    MD.lookup md k = v := by
  induction md with
  | nil => simp at hm
  | cons e r ih =>
    obtain ⟨k0, v0⟩ := e
    simp only [keysOf, List.map_cons, List.nodup_cons] at h
    simp only [List.mem_cons, Prod.mk.injEq] at hm
    simp only [MD.lookup]
    rcases hm with ⟨rfl, rfl⟩ | hm
    · simp
    · have hne : k0 ≠ k := by
        intro e; subst e
        exact h.1 (List.mem_map.mpr ⟨(k0, v), hm, rfl⟩)
      have hb : (k0 == k) = false := by simp [hne]
      simp only [hb, Bool.false_eq_true, ↓reduceIte]
      exact ih h.2 hm

theorem headerFold_keys (ps : List (Bytes × Bytes)) (o : C07.MD) (ho : (keysOf o).Nodup) :
    (keysOf (ps.foldl (fun o p => MD.put o (canonKey p.1) (MD.lookup o (canonKey p.1) ++ [p.2])) o)).Nodup ∧
    ∀ k, k ∈ keysOf (ps.foldl (fun o p => MD.put o (canonKey p.1) (MD.lookup o (canonKey p.1) ++ [p.2])) o) ↔
      (k ∈ keysOf o ∨ ∃ p ∈ ps, k = canonKey p.1) := by
  induction ps generalizing o with
  | nil => simp [ho]
  | cons p ps ih =>
    simp only [List.foldl_cons]
    obtain ⟨h1, h2⟩ := ih _ (nodup_put o (canonKey p.1) _ ho)
    refine ⟨h1, fun k => ?_⟩
    rw [h2 k, keys_put]
    by_cases hm : canonKey p.1 ∈ keysOf o
    · simp only [hm, ↓reduceIte, List.mem_cons, exists_eq_or_imp]
      constructor
      · rintro (h | h)
        · exact Or.inl h
        · exact Or.inr (Or.inr h)
      · rintro (h | h | h)
        · exact Or.inl h
        · subst h; exact Or.inl hm
        · exact Or.inr h
    · simp only [hm, ↓reduceIte, List.mem_append, List.mem_cons, List.not_mem_nil, or_false, exists_eq_or_imp]
      constructor
      · rintro ((h | h) | h)
        · exact Or.inl h
        · exact Or.inr (Or.inl h)
        · exact Or.inr (Or.inr h)
      · rintro (h | h | h)
        · exact Or.inl (Or.inl h)
        · exact Or.inl (Or.inr h)
        · exact Or.inr h

theorem headerMD_keys (ps : List (Bytes × Bytes)) :
    (keysOf (headerMD ps)).Nodup ∧ ∀ k, k ∈ keysOf (headerMD ps) ↔ ∃ p ∈ ps, k = canonKey p.1 := by
  have := headerFold_keys ps [] (by simp [keysOf])
  simpa [headerMD, mimeHeader, keysOf] using this

/-! canonicalisation depends on the key only up to ASCII case -/

set_option maxRecDepth 100000 in
theorem upperB_lowerB : ∀ n, n < 256 → upperB (lowerB (UInt8.ofNat n)) = upperB (UInt8.ofNat n) := by decide

theorem upperB_of_lower (a b : UInt8) (h : lowerB a = lowerB b) : upperB a = upperB b := by
  have ha := upperB_lowerB a.toNat a.toNat_lt
  have hb := upperB_lowerB b.toNat b.toNat_lt
  rw [UInt8.ofNat_toNat] at ha hb
  rw [← ha, ← hb, h]

theorem canonLoop_lower (up : Bool) (a b : Bytes) (h : lower a = lower b) : canonLoop up a = canonLoop up b := by
  induction a generalizing b up with
  | nil => cases b with
    | nil => rfl
    | cons _ _ => simp [lower] at h
  | cons x xs ih =>
    cases b with
    | nil => simp [lower] at h
    | cons y ys =>
      simp only [lower, List.map_cons, List.cons.injEq] at h
      obtain ⟨h1, h2⟩ := h
      simp only [canonLoop]
      have hx : (if up = true then upperB x else lowerB x) = (if up = true then upperB y else lowerB y) := by
        cases up
        · simpa using h1
        · simpa using upperB_of_lower x y h1
      rw [hx, ih _ ys h2]

def tokenKey (k : Bytes) : Prop := k.all validTok = true

theorem canonKey_lower (a b : Bytes) (ha : tokenKey a) (hb : tokenKey b) (h : lower a = lower b) : canonKey a = canonKey b := by
  unfold tokenKey at ha hb
  simp only [canonKey, ha, hb, ↓reduceIte]
  exact canonLoop_lower true a b h

/-- T2: what the forwarder reads with metadata.FromIncomingContext is exactly the parsed header lines, grouped by
    lower-cased key, values in line order (keys that are tokens, i.e. canonicalised by ReadMIMEHeader) -/
theorem forwardMD_lookup (ps : List (Bytes × Bytes)) (htok : ∀ p ∈ ps, tokenKey p.1) (q : Bytes) :
    MD.lookup (forwardMD ps) q = grp lower ps q := by
  obtain ⟨hnd, hkeys⟩ := headerMD_keys ps
  have hf := fromFold_lookup (headerMD ps) [] q
  simp only [forwardMD, fromIncoming]
  rw [hf]
  -- an entry of headerMD whose lower-cased key is q carries exactly the group of q
  have entry : ∀ e ∈ headerMD ps, lower e.1 = q → e.2 = grp lower ps q := by
    intro e he hq
    have hk : e.1 ∈ keysOf (headerMD ps) := List.mem_map.mpr ⟨e, he, rfl⟩
    obtain ⟨p', hp', hk'⟩ := (hkeys e.1).mp hk
    have : MD.lookup (headerMD ps) e.1 = e.2 := lookup_of_mem _ hnd e.1 e.2 he
    rw [← this, headerMD_lookup]
    unfold grp
    congr 1
    apply List.filter_congr
    intro p hp
    have hiff : canonKey p.1 = e.1 ↔ lower p.1 = q := by
      constructor
      · intro h; rw [← hq, ← h, lower_canonKey]
      · intro h
        rw [hk']
        apply canonKey_lower _ _ (htok p hp) (htok p' hp')
        rw [h, ← hq, hk', lower_canonKey]
    rw [Bool.eq_iff_iff]
    simp only [beq_iff_eq]
    exact hiff
  cases hl : ((headerMD ps).filter (fun e => lower e.1 == q)).getLast? with
  | some e =>
    have hm := List.mem_of_getLast? hl
    simp only [List.mem_filter, beq_iff_eq] at hm
    exact entry e hm.1 hm.2
  | none =>
    have hnil : (headerMD ps).filter (fun e => lower e.1 == q) = [] := by simpa using hl
    show MD.lookup [] q = grp lower ps q
    unfold grp MD.lookup
    symm
    rw [List.map_eq_nil_iff, List.filter_eq_nil_iff]
    intro p hp hq
    simp only [beq_iff_eq] at hq
    have : canonKey p.1 ∈ keysOf (headerMD ps) := (hkeys _).mpr ⟨p, hp, rfl⟩
    obtain ⟨e, he, hek⟩ := List.mem_map.mp this
    have : e ∈ (headerMD ps).filter (fun e => lower e.1 == q) := by
      simp only [List.mem_filter, beq_iff_eq]
      exact ⟨he, by rw [hek, lower_canonKey, hq]⟩
    rw [hnil] at this; simp at this

end GB.C08
