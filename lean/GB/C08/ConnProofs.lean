import GB.C08.Conn
set_option linter.unusedSimpArgs false
set_option linter.unusedVariables false
namespace GB.C08.Conn
open GB GB.C08

structure Inv (frames : List Bytes) (s : St) : Prop where
  /-- nothing of the response is lost or reordered unless an abortive close dropped it -/
  cons : s.lost = false → s.got ++ s.cq ++ s.sq ++ s.towrite = script frames
  /-- graceful: a loss can only come from the timeout path -/
  lostd : s.lost = true → s.deadline = true
  rr : s.replyRead = true → s.unread = 0 ∧ s.cliReplied = true
  crep : s.cliReplied = true → Item.close ∈ s.got
  tc : s.tcpClosed = true → s.replyRead = true ∨ s.deadline = true
  dl : s.deadline = true → s.closeSent = true

theorem inv_init (frames : List Bytes) : Inv frames (init frames) := by
  refine ⟨by intro _; simp [init], by simp [init], by simp [init], by simp [init], by simp [init], by simp [init]⟩

theorem inv_step (frames : List Bytes) (s s' : St) (l : Lbl) (inv : Inv frames s)
    (h : step .graceful s l = some s') : Inv frames s' := by
  cases l with
  | cliWrite =>
    simp only [step] at h
    split at h
    · rename_i hc
      simp only [Option.some.injEq] at h; subst h
      simp only [Bool.and_eq_true, Bool.not_eq_true'] at hc
      refine ⟨inv.cons, inv.lostd, ?_, inv.crep, inv.tc, inv.dl⟩
      intro hr; have := (inv.rr hr).2; simp [hc.1] at this
    · simp at h
  | srvRead =>
    simp only [step] at h
    split at h
    · simp only [Option.some.injEq] at h; subst h
      refine ⟨inv.cons, inv.lostd, ?_, inv.crep, inv.tc, inv.dl⟩
      intro hr; have := inv.rr hr; exact ⟨by simp [this.1], this.2⟩
    · simp at h
  | park =>
    simp only [step] at h
    split at h
    · simp only [Option.some.injEq] at h; subst h
      exact ⟨inv.cons, inv.lostd, inv.rr, inv.crep, inv.tc, inv.dl⟩
    · simp at h
  | srvWrite =>
    simp only [step] at h
    split at h
    · rename_i b rest ht
      split at h
      · simp only [Option.some.injEq] at h; subst h
        refine ⟨?_, inv.lostd, inv.rr, inv.crep, inv.tc, inv.dl⟩
        intro hl; have := inv.cons hl; rw [ht] at this; simpa using this
      · simp at h
    · simp at h
  | srvCloseFrame =>
    simp only [step] at h
    split at h
    · rename_i ht
      split at h
      · simp at h
      · simp only [Option.some.injEq] at h; subst h
        refine ⟨?_, inv.lostd, inv.rr, inv.crep, inv.tc, fun _ => rfl⟩
        intro hl; have := inv.cons hl; rw [ht] at this; simpa using this
    · simp at h
  | closeDone =>
    simp only [step] at h
    split at h
    · simp only [Option.some.injEq] at h; subst h
      exact ⟨inv.cons, inv.lostd, inv.rr, inv.crep, inv.tc, inv.dl⟩
    · simp at h
  | deliver =>
    simp only [step] at h
    split at h
    · rename_i x rest hq
      simp only [Option.some.injEq] at h; subst h
      refine ⟨?_, inv.lostd, inv.rr, inv.crep, inv.tc, inv.dl⟩
      intro hl; have := inv.cons hl; rw [hq] at this; simpa using this
    · simp at h
  | cliRead =>
    simp only [step] at h
    split at h
    · rename_i x rest hq
      simp only [Option.some.injEq] at h; subst h
      refine ⟨?_, inv.lostd, inv.rr, ?_, inv.tc, inv.dl⟩
      · intro hl; have := inv.cons hl; rw [hq] at this; simpa using this
      · intro hc; exact List.mem_append_left _ (inv.crep hc)
    · simp at h
  | cliReply =>
    simp only [step] at h
    split at h
    · rename_i hc
      simp only [Option.some.injEq] at h; subst h
      exact ⟨inv.cons, inv.lostd, fun hr => ⟨(inv.rr hr).1, rfl⟩, fun _ => hc.1, inv.tc, inv.dl⟩
    · simp at h
  | srvReadReply =>
    simp only [step] at h
    split at h
    · rename_i hc
      simp only [Option.some.injEq] at h; subst h
      simp only [Bool.and_eq_true, beq_iff_eq, Bool.not_eq_true'] at hc
      exact ⟨inv.cons, inv.lostd, fun _ => ⟨hc.1.1.1.2, hc.1.1.1.1⟩, inv.crep, fun _ => Or.inl rfl, inv.dl⟩
    · simp at h
  | timeout =>
    simp only [step] at h
    split at h
    · rename_i hc
      simp only [Option.some.injEq] at h; subst h
      simp only [Bool.and_eq_true] at hc
      exact ⟨inv.cons, fun _ => rfl, inv.rr, inv.crep, fun ht => Or.inr rfl, fun _ => hc.1⟩
    · simp at h
  | srvTcpClose =>
    simp only [step] at h
    split at h
    · rename_i hc
      simp only [Option.some.injEq] at h; subst h
      simp only [Bool.and_eq_true, Bool.or_eq_true, Bool.not_eq_true'] at hc
      refine ⟨?_, ?_, inv.rr, inv.crep, fun _ => hc.2, inv.dl⟩
      · intro hl
        simp only [tcpClose, Bool.or_eq_false_iff, Bool.and_eq_false_iff] at hl
        have := inv.cons hl.1
        simp only [tcpClose]
        by_cases hu : s.unread > 0
        · -- unread input but nothing lost: the send queue was empty
          have hsq : s.sq = [] := by
            rcases hl.2 with h1 | h1
            · simp [hu] at h1
            · simpa using h1
          simp [hu, hsq] at this ⊢; exact this
        · simp [hu]; simpa using this
      · intro hl
        simp only [tcpClose, Bool.or_eq_true, Bool.and_eq_true, decide_eq_true_eq] at hl
        rcases hl with hl | hl
        · exact inv.lostd hl
        · -- input was unread: the close frame of the client cannot have been read, so this is the timeout path
          rcases hc.2 with hr | hd
          · have := (inv.rr hr).1; omega
          · exact hd
    · simp at h

theorem inv_reachable (frames : List Bytes) (s : St) (h : GB.LTS.Reachable (step .graceful) (init frames) s) :
    Inv frames s :=
  GB.LTS.invariant (step .graceful) (init frames) (Inv frames) (inv_init frames)
    (fun a l b ia hs => inv_step frames a b l ia hs) s h

theorem close_not_frame (frames : List Bytes) : Item.close ∉ frames.map Item.frame := by
  intro h; simp at h

/-- a prefix of the script that contains the close frame is the whole script -/
theorem got_complete (frames : List Bytes) (g rest : List Item) (h : g ++ rest = script frames) (hc : Item.close ∈ g) :
    g = script frames ∧ rest = [] := by
  unfold script at h ⊢
  cases rest with
  | nil => simp at h; exact ⟨h, rfl⟩
  | cons x xs =>
    exfalso
    -- then g is a prefix of the frames only
    have hlen : g.length ≤ (frames.map Item.frame).length := by
      have := congrArg List.length h
      simp at this ⊢; omega
    have hp : g <+: frames.map Item.frame ++ [Item.close] := ⟨_, h⟩
    have hq : frames.map Item.frame <+: frames.map Item.frame ++ [Item.close] := List.prefix_append _ _
    obtain ⟨u, hu⟩ := List.prefix_of_prefix_length_le hp hq hlen
    exact close_not_frame frames (by rw [← hu]; exact List.mem_append_left _ hc)

end GB.C08.Conn
