import GB.C08.Model
import GB.C07.Model
/-
  C08 — the VALUES of the HTTP/1-style block inside a gRPC-Web trailer frame / gRPC-WebSocket header frame
  (webbridge/grpcweb.go lpmTrailerValue, after fix D38).

    lpmTrailer(md) writes, per key and value,  fmt.Sprintf("%s: %s\r\n", k, lpmTrailerValue(k, v))
    lpmTrailerValue(k, v) = base64.RawStdEncoding.EncodeToString(v)          if strings.HasSuffix(k, "-bin")
                          = strings.NewReplacer("\n", " ", "\r", " ").Replace(v)   otherwise

  gRPC-Go hands binary metadata to the bridge DECODED (arbitrary bytes); before the fix every value was written as-is.
  The code's `lpmTrailer(md)` is the model's `lpmTrailer (encodeMD md)`; `lpmTrailer`/`trailerLine` of Model.lean stay the
  functions on wire-form pairs.
-/
namespace GB.C08
open GB

def kBinSuffix : Bytes := [45, 98, 105, 110]   -- "-bin"

/-- `strings.HasSuffix(k, "-bin")` (metadata.MD keys are lower-case; gRPC-Go's own test) -/
def isBinKey (k : Bytes) : Bool := decide (4 ≤ k.length) && k.drop (k.length - 4) == kBinSuffix

/-- base64.RawStdEncoding.EncodeToString (no padding) -/
def encodeRaw : Bytes → Bytes
  | [] => []
  | [a] => [C07.b64char (a.toNat / 4), C07.b64char (a.toNat % 4 * 16)]
  | [a, b] => [C07.b64char (a.toNat / 4), C07.b64char (a.toNat % 4 * 16 + b.toNat / 16), C07.b64char (b.toNat % 16 * 4)]
  | a :: b :: d :: rest =>
    C07.b64char (a.toNat / 4) :: C07.b64char (a.toNat % 4 * 16 + b.toNat / 16) ::
      C07.b64char (b.toNat % 16 * 4 + d.toNat / 64) :: C07.b64char (d.toNat % 64) :: encodeRaw rest

/-- strings.NewReplacer("\n", " ", "\r", " ").Replace -/
def nlToSpace (v : Bytes) : Bytes := v.map (fun c => if c = 10 ∨ c = 13 then 32 else c)

/-- lpmTrailerValue -/
def trailerValue (k v : Bytes) : Bytes := if isBinKey k then encodeRaw v else nlToSpace v

/-- what lpmTrailer puts on the wire for the metadata it is given -/
def encodeMD (md : MD) : MD := md.map (fun kv => (kv.1, trailerValue kv.1 kv.2))

/-- the code: `lpmTrailer(trailerWithStatus(md, st))` -/
def lpmTrailerCode (md : MD) (code : Nat) (msg : Bytes) : Bytes := lpmTrailer (encodeMD (trailerWithStatus md code msg))

/-- the code before fix D38: every value as-is -/
def lpmTrailerPreFix (md : MD) (code : Nat) (msg : Bytes) : Bytes := lpmTrailer (trailerWithStatus md code msg)

end GB.C08
