import GB.C08.Model
import GB.C07.Model
/-
  C08 — the gRPC-WebSocket header message: model of `readMD`
      textproto.NewReader(bufio.NewReader(bytes.NewReader(data ++ "\r\n"))).ReadMIMEHeader()
  as Go 1.23 net/textproto does it (reader.go: readMIMEHeader, readContinuedLineSlice, readLineSlice, skipSpace,
  trim, mustHaveFieldNameColon, canonicalMIMEHeaderKey, validHeaderFieldByte, validHeaderValueByte), and of what
  ServeHTTP then does with it: `metadata.MD(mimeHeader)` into the incoming context, read back by the forwarder with
  `metadata.FromIncomingContext` (lower-cased keys). metadata.MD, CanonicalMIMEHeaderKey and FromIncomingContext are
  the C07 slice's (`GB.C07.MD`, `canonKey`, `mimeHeader`, `fromIncoming`), imported, not re-modelled.

  Reading of the Go code that the model follows:
  * bufio.Reader.ReadLine: the input is cut at every LF, one CR directly before the LF is dropped; a last piece
    without LF is a line too. (`readMD` appends CR LF, so the last piece is always empty.)
  * the very first byte being SP/HT ⇒ error ("malformed MIME header initial line").
  * per header: the first physical line must contain a colon (mustHaveFieldNameColon); it is trimmed (SP/HT, both
    ends); every following physical line that starts with SP/HT is a continuation: its leading SP/HT are skipped,
    one SP and the trimmed rest are appended. An empty line ends the header block successfully; EOF before an empty
    line is an error (io.EOF) — also when headers were read — so `data` must end its last line with a newline.
  * key = bytes before the first colon: empty ⇒ error; a byte that is neither a token byte nor SP ⇒ error; with a
    SP it is kept as written, otherwise canonicalised. value = bytes after the colon: any byte outside
    HT / SP..~ / 0x80..0xff ⇒ error; leading SP/HT removed (trailing ones went with the line trim, except behind
    an empty continuation). `m[key] = append(m[key], value)`.
  * ReadMIMEHeader passes math.MaxInt64 for both limits: there is no line-length, header-count or memory limit here.
-/
namespace GB.C08
open GB

def isWS (c : UInt8) : Bool := c == 32 || c == 9

def trimL : Bytes → Bytes
  | [] => []
  | c :: r => if isWS c then trimL r else c :: r

def trimR (s : Bytes) : Bytes := (trimL s.reverse).reverse

/-- net/textproto `trim` -/
def trimWS (s : Bytes) : Bytes := trimR (trimL s)

/-- drop one trailing CR (bufio.ReadLine drops "\r\n" or "\n") -/
def stripCR (l : Bytes) : Bytes := if l.getLast? = some 13 then l.dropLast else l

/-- the lines bufio.Reader.ReadLine hands out for the whole input (`cur` = current line, reversed) -/
def physLinesAux : Bytes → Bytes → List Bytes
  | cur, [] => if cur.isEmpty then [] else [cur.reverse]
  | cur, c :: rest => if c = 10 then stripCR cur.reverse :: physLinesAux [] rest else physLinesAux (c :: cur) rest

def physLines (s : Bytes) : List Bytes := physLinesAux [] s

/-- net/textproto validHeaderValueByte -/
def validVal (c : UInt8) : Bool := c == 9 || (32 ≤ c && c ≤ 126) || 128 ≤ c

/-- bytes.Cut(kv, ":") -/
def cutColon : Bytes → Option (Bytes × Bytes)
  | [] => none
  | c :: r => if c = 58 then some ([], r) else (cutColon r).map (fun p => (c :: p.1, p.2))

/-- one logical header line `kv` ⇒ (key as written, value): the checks of readMIMEHeader's loop body -/
def finishKV (kv : Bytes) : Option (Bytes × Bytes) :=
  match cutColon kv with
  | none => none
  | some (k, v) =>
    if k.isEmpty then none
    else if !k.all (fun c => GB.C07.validTok c || c == 32) then none
    else if !v.all validVal then none
    else some (k, trimL v)

/-- readMIMEHeader's loop over the physical lines; `cur` = the logical line being assembled, `acc` reversed -/
def readLines : List Bytes → Option Bytes → List (Bytes × Bytes) → Option (List (Bytes × Bytes))
  | [], _, _ => none                                        -- EOF before the empty line: io.EOF
  | l :: ls, cur, acc =>
    match cur with
    | some buf =>
      match l with
      | c :: _ =>
        if isWS c then readLines ls (some (buf ++ 32 :: trimR (trimL l))) acc    -- continuation line
        else
          match finishKV buf with
          | none => none
          | some p => if l.contains 58 then readLines ls (some (trimWS l)) (p :: acc) else none
      | [] =>
        match finishKV buf with
        | none => none
        | some p => some (p :: acc).reverse                 -- the empty line: done
    | none =>
      match l with
      | [] => some acc.reverse
      | _ :: _ => if l.contains 58 then readLines ls (some (trimWS l)) acc else none

/-- `readMD`'s parse: the (key as written, value) pairs in line order, or `none` if ReadMIMEHeader returns an error -/
def readMIME (data : Bytes) : Option (List (Bytes × Bytes)) :=
  match data ++ [13, 10] with
  | [] => none
  | c :: s => if isWS c then none else readLines (physLines (c :: s)) none []

/-- the oracle of `onMessage`, now computed -/
def mdOkReal (data : Bytes) : Bool := (readMIME data).isSome

/-- `metadata.MD(mimeHeader)`: canonical keys, values appended in line order -/
def headerMD (ps : List (Bytes × Bytes)) : GB.C07.MD := GB.C07.mimeHeader ps

/-- the metadata the forwarder reads with metadata.FromIncomingContext -/
def forwardMD (ps : List (Bytes × Bytes)) : GB.C07.MD := GB.C07.fromIncoming (headerMD ps)

/-- "expected metadata as valid HTTP/1.1 header" -/
def badHeaderMsg : Bytes :=
  [101,120,112,101,99,116,101,100,32,109,101,116,97,100,97,116,97,32,97,115,32,118,97,108,105,100,32,72,84,84,80,47,49,46,49,32,104,101,97,100,101,114]

/-- what the client gets for a header message that does not parse: one trailer message (then close 1000) -/
def wsRespondBadHeader : List Bytes := wsRespond [] [] [] 3 badHeaderMsg

/-- the metadata with which RouteGRPC/Forward are entered, if they are entered at all: ServeHTTP waits for the
    one value OnMessage puts on `metadataCh` -/
def wsCallMD : List WSEv → Option Bytes
  | [] => none
  | .md h :: _ => some h
  | _ :: r => wsCallMD r

end GB.C08
