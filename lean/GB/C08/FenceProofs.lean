import GB.C08.Fence
/- C08 — invariant of the Send/trailer fence LTS (Fence.lean), fixed order. -/
namespace GB.C08.Fence
open GB GB.C08

structure Inv (s : St) : Prop where
  ord : s.order = .fixed
  shape : s.out = hdrPart s ++ dataPart s ++ trPart s
  trDone : s.trW.isSome → s.phase = .done
  fin : s.finished = true ↔ (s.phase = .flagged ∨ s.phase = .fenced ∨ s.phase = .done)
  hold : ∀ i h, s.helpers i = some h → h.pc.holds = true → s.mu = .helper i
  pass : ∀ i h, s.helpers i = some h → h.pc = .passed → s.finished = false
  hmu : s.mu = .handler ↔ (s.phase = .inLock ∨ s.phase = .flagged)
  wr : ∀ i m, (i, m) ∈ s.written → ∃ h, s.helpers i = some h ∧ h.msg = m ∧ h.pc.hasWritten = true
  wr2 : ∀ i h, s.helpers i = some h → h.pc.hasWritten = true → (i, h.msg) ∈ s.written
  nodup : (s.written.map Prod.fst).Nodup
  trIs : ∀ t, s.trW = some t → t = encodeMD (trailerWithStatus s.trailer s.code s.smsg) ∧ s.phase = .done
  fresh : ∀ i, s.next ≤ i → s.helpers i = none
  hdrSent : s.hdrW.isSome → s.sentMD = true
  noMD : s.sentMD = false → s.written = []
  muH : ∀ i, s.mu = .helper i → ∃ h, s.helpers i = some h ∧ h.pc.holds = true

theorem inv_init (k : Kind) : Inv (init .fixed k) := by
  constructor <;> simp [init, hdrPart, dataPart, trPart]

macro "fence_close" : tactic =>
  `(tactic| (constructor <;> simp_all [hdrPart, dataPart, trPart, setPC, PC.holds, PC.hasWritten] <;>
      grind [PC.holds, PC.hasWritten]))

macro "fence_label" h:ident : tactic =>
  `(tactic| (simp only [step, fwd, hCheck, hLock, hWriteHdr, hWrite, hFail, hUnlock] at $h:ident <;> (repeat' split at $h:ident) <;>
      (first | (cases $h:ident; done) | (cases $h:ident; fence_close))))

theorem inv_send (s s' : St) (m : Bytes) (hI : Inv s) (hs : step s (.send m) = some s') : Inv s' := by
  obtain ⟨ord, shape, trDone, fin, hold, pass, hmu, wr, wr2, nodup, trIs, fresh, hdrSent, noMD, muH⟩ := hI
  fence_label hs

theorem inv_setHeader (s s' : St) (md : MD) (hI : Inv s) (hs : step s (.setHeader md) = some s') : Inv s' := by
  obtain ⟨ord, shape, trDone, fin, hold, pass, hmu, wr, wr2, nodup, trIs, fresh, hdrSent, noMD, muH⟩ := hI
  fence_label hs

theorem inv_setTrailer (s s' : St) (md : MD) (hI : Inv s) (hs : step s (.setTrailer md) = some s') : Inv s' := by
  obtain ⟨ord, shape, trDone, fin, hold, pass, hmu, wr, wr2, nodup, trIs, fresh, hdrSent, noMD, muH⟩ := hI
  fence_label hs

theorem inv_fwdReturn (s s' : St) (c : Nat) (m : Bytes) (hI : Inv s) (hs : step s (.fwdReturn c m) = some s') : Inv s' := by
  obtain ⟨ord, shape, trDone, fin, hold, pass, hmu, wr, wr2, nodup, trIs, fresh, hdrSent, noMD, muH⟩ := hI
  fence_label hs

theorem inv_hCheck (s s' : St) (i : Nat) (hI : Inv s) (hs : step s (.hCheck i) = some s') : Inv s' := by
  obtain ⟨ord, shape, trDone, fin, hold, pass, hmu, wr, wr2, nodup, trIs, fresh, hdrSent, noMD, muH⟩ := hI
  fence_label hs

theorem inv_hLock (s s' : St) (i : Nat) (hI : Inv s) (hs : step s (.hLock i) = some s') : Inv s' := by
  obtain ⟨ord, shape, trDone, fin, hold, pass, hmu, wr, wr2, nodup, trIs, fresh, hdrSent, noMD, muH⟩ := hI
  fence_label hs

theorem inv_hWriteHdr (s s' : St) (i : Nat) (hI : Inv s) (hs : step s (.hWriteHdr i) = some s') : Inv s' := by
  obtain ⟨ord, shape, trDone, fin, hold, pass, hmu, wr, wr2, nodup, trIs, fresh, hdrSent, noMD, muH⟩ := hI
  fence_label hs

theorem inv_hWrite (s s' : St) (i : Nat) (hI : Inv s) (hs : step s (.hWrite i) = some s') : Inv s' := by
  obtain ⟨ord, shape, trDone, fin, hold, pass, hmu, wr, wr2, nodup, trIs, fresh, hdrSent, noMD, muH⟩ := hI
  fence_label hs

theorem inv_hFail (s s' : St) (i : Nat) (hI : Inv s) (hs : step s (.hFail i) = some s') : Inv s' := by
  obtain ⟨ord, shape, trDone, fin, hold, pass, hmu, wr, wr2, nodup, trIs, fresh, hdrSent, noMD, muH⟩ := hI
  fence_label hs

set_option maxHeartbeats 1000000 in
theorem inv_hUnlock (s s' : St) (i : Nat) (hI : Inv s) (hs : step s (.hUnlock i) = some s') : Inv s' := by
  obtain ⟨ord, shape, trDone, fin, hold, pass, hmu, wr, wr2, nodup, trIs, fresh, hdrSent, noMD, muH⟩ := hI
  fence_label hs

theorem inv_finLock (s s' : St)  (hI : Inv s) (hs : step s (.finLock) = some s') : Inv s' := by
  obtain ⟨ord, shape, trDone, fin, hold, pass, hmu, wr, wr2, nodup, trIs, fresh, hdrSent, noMD, muH⟩ := hI
  fence_label hs

theorem inv_finSet (s s' : St)  (hI : Inv s) (hs : step s (.finSet) = some s') : Inv s' := by
  obtain ⟨ord, shape, trDone, fin, hold, pass, hmu, wr, wr2, nodup, trIs, fresh, hdrSent, noMD, muH⟩ := hI
  fence_label hs

theorem inv_finUnlock (s s' : St)  (hI : Inv s) (hs : step s (.finUnlock) = some s') : Inv s' := by
  obtain ⟨ord, shape, trDone, fin, hold, pass, hmu, wr, wr2, nodup, trIs, fresh, hdrSent, noMD, muH⟩ := hI
  fence_label hs

theorem inv_writeTrailer (s s' : St)  (hI : Inv s) (hs : step s (.writeTrailer) = some s') : Inv s' := by
  obtain ⟨ord, shape, trDone, fin, hold, pass, hmu, wr, wr2, nodup, trIs, fresh, hdrSent, noMD, muH⟩ := hI
  fence_label hs

theorem inv_trailerFails (s s' : St)  (hI : Inv s) (hs : step s (.trailerFails) = some s') : Inv s' := by
  obtain ⟨ord, shape, trDone, fin, hold, pass, hmu, wr, wr2, nodup, trIs, fresh, hdrSent, noMD, muH⟩ := hI
  fence_label hs

theorem inv_step (s s' : St) (l : Lbl) (hI : Inv s) (hs : step s l = some s') : Inv s' := by
  cases l with
  | send m => exact inv_send s s' m hI hs
  | setHeader md => exact inv_setHeader s s' md hI hs
  | setTrailer md => exact inv_setTrailer s s' md hI hs
  | fwdReturn c m => exact inv_fwdReturn s s' c m hI hs
  | hCheck i => exact inv_hCheck s s' i hI hs
  | hLock i => exact inv_hLock s s' i hI hs
  | hWriteHdr i => exact inv_hWriteHdr s s' i hI hs
  | hWrite i => exact inv_hWrite s s' i hI hs
  | hFail i => exact inv_hFail s s' i hI hs
  | hUnlock i => exact inv_hUnlock s s' i hI hs
  | finLock => exact inv_finLock s s'  hI hs
  | finSet => exact inv_finSet s s'  hI hs
  | finUnlock => exact inv_finUnlock s s'  hI hs
  | writeTrailer => exact inv_writeTrailer s s'  hI hs
  | trailerFails => exact inv_trailerFails s s'  hI hs

theorem inv_reachable (k : Kind) (s : St) (h : GB.LTS.Reachable step (init .fixed k) s) : Inv s :=
  GB.LTS.invariant step (init .fixed k) Inv (inv_init k) (fun s l s' hI hs => inv_step s s' l hI hs) s h

/-- HTTP: the response headers do not travel in the body — no header frame, ever -/
def InvHttp (s : St) : Prop := s.sentMD = true ∧ s.hdrW = none

theorem invHttp_step (s : St) (l : Lbl) (s' : St) (hI : InvHttp s) (hs : step s l = some s') : InvHttp s' := by
  obtain ⟨h1, h2⟩ := hI
  cases l <;>
    (simp only [step, fwd, hCheck, hLock, hWriteHdr, hWrite, hFail, hUnlock] at hs <;> (repeat' split at hs) <;>
      (first | (cases hs; done) | (cases hs; simp_all [InvHttp])))

theorem invHttp_reachable (o : Order) (s : St) (h : GB.LTS.Reachable step (init o .http) s) : InvHttp s :=
  GB.LTS.invariant step (init o .http) InvHttp (by simp [InvHttp, init]) invHttp_step s h

/-- once the handler has set the flag nothing is ever appended except the handler's own trailer frame -/
theorem out_frozen_step (s s' : St) (l : Lbl) (hI : Inv s) (hd : s.phase = .done) (hs : step s l = some s') :
    s'.out = s.out ∧ s'.phase = .done := by
  obtain ⟨ord, shape, trDone, fin, hold, pass, hmu, wr, wr2, nodup, trIs, fresh, hdrSent, noMD, muH⟩ := hI
  have hf : s.finished = true := fin.2 (Or.inr (Or.inr hd))
  cases l <;>
    (simp only [step, fwd, hCheck, hLock, hWriteHdr, hWrite, hFail, hUnlock] at hs <;> (repeat' split at hs) <;>
      (first | (cases hs; done) | (cases hs; grind)))

theorem out_frozen_run (s : St) (hI : Inv s) (hd : s.phase = .done) (ls : List Lbl) (s' : St)
    (hr : GB.LTS.run step s ls = some s') : s'.out = s.out ∧ s'.phase = .done := by
  induction ls generalizing s with
  | nil => simp [GB.LTS.run] at hr; subst hr; exact ⟨rfl, hd⟩
  | cons l ls ih =>
    simp only [GB.LTS.run] at hr
    cases h1 : step s l with
    | none => simp [h1] at hr
    | some s1 =>
      rw [h1] at hr
      have hf := out_frozen_step s s1 l hI hd h1
      have := ih s1 (inv_step s s1 l hI h1) hf.2 hr
      exact ⟨this.1.trans hf.1, this.2⟩

/-- no deadlock on the way to the trailer: after Forward returned, the handler or the helper that holds the mutex can move
    (writes are assumed to return — a write that blocks for ever is the subject of Stall.lean) -/
theorem handler_or_holder_enabled (s : St) (hI : Inv s) (h1 : s.phase ≠ .forwarding) (h2 : s.phase ≠ .done) :
    (∃ l ∈ [Lbl.finLock, .finSet, .finUnlock, .writeTrailer], (step s l).isSome) ∨
    (∃ i, s.mu = .helper i ∧ ∃ l ∈ [Lbl.hCheck i, .hWriteHdr i, .hWrite i, .hUnlock i], (step s l).isSome) := by
  obtain ⟨ord, shape, trDone, fin, hold, pass, hmu, wr, wr2, nodup, trIs, fresh, hdrSent, noMD, muH⟩ := hI
  cases hp : s.phase with
  | forwarding => exact absurd hp h1
  | done => exact absurd hp h2
  | inLock => left; exact ⟨.finSet, by simp, by simp [step, hp]⟩
  | flagged => left; exact ⟨.finUnlock, by simp, by simp [step, hp]⟩
  | fenced => left; exact ⟨.writeTrailer, by simp, by simp [step, hp]⟩
  | returned =>
    cases hm : s.mu with
    | free => left; exact ⟨.finLock, by simp, by simp [step, hp, hm]⟩
    | handler => have := hmu.1 hm; simp [hp] at this
    | helper i =>
      right
      obtain ⟨h, hh, hpc⟩ := muH i hm
      refine ⟨i, rfl, ?_⟩
      cases hq : h.pc <;> simp [hq, PC.holds] at hpc
      · exact ⟨.hCheck i, by simp, by simp [step, hCheck, hh, ord, hq]⟩
      · cases hs : s.sentMD
        · exact ⟨.hWriteHdr i, by simp, by simp [step, hWriteHdr, hh, hq, hs]⟩
        · exact ⟨.hWrite i, by simp, by simp [step, hWrite, hh, hq, hs]⟩
      · exact ⟨.hUnlock i, by simp, by simp [step, hUnlock, hh, hq]⟩
      · exact ⟨.hUnlock i, by simp, by simp [step, hUnlock, hh, hq]⟩
      · exact ⟨.hUnlock i, by simp, by simp [step, hUnlock, hh, hq]⟩

end GB.C08.Fence
