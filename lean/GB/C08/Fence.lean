import GB.Base.LTS
import GB.C08.Model
import GB.C08.Trailer
/-
  C08 — the Send / trailer fence of gRPCWebStream (HTTP) and gRPCWebSocketStream (WebSocket) as an LTS.

  Threads:
    * the forwarder (ProxyForwarder goroutines, alive only while Forward runs): calls Send / SetHeader / SetTrailer.
      `Send(ctx, m)` = `withCtx(ctx, func() { s.send(m) })`: a HELPER goroutine runs `send`, the caller waits for it or
      for ctx.Done() — in the second case the helper is abandoned and completes whenever it likes. The model lets every
      helper run at its own pace for ever (abandoned or not makes no difference to what it does), and lets the forwarder
      start a new Send at any time while Forward runs (more behaviours than the code has).
    * helper i (`send`):        fixed order     Lock ; if finished {Unlock; return Canceled} ; [ws, !sentMD: sentMD = true ;
                                                 write header frame] ; write data frame ; Unlock
                                original order  if finished {return} ; Lock ; … writes … ; Unlock     (flag read OUTSIDE the mutex)
    * the handler epilogue:     Forward returned(code, msg) ; Lock ; finished = true ; Unlock ; write trailer frame
                                (lpmTrailer = Trailer.lean's encoding of the values; HTTP: incoming.finish() ; writeTrailerWithStatus — WebSocket: sendTrailer)
  Every write (`rw.Write(frame)`, `socket.WriteMessage(frame)`) is one atomic append to the output; a write may fail
  (nothing appended).  HTTP is the same machine started with `sentMD = true` (response headers do not travel in the body).
-/
namespace GB.C08.Fence
open GB GB.C08

inductive Order | fixed | original
deriving DecidableEq, Repr

inductive Kind | http | ws
deriving DecidableEq, Repr

/-- program counter of one `send` helper -/
inductive PC
  | start        -- spawned, nothing done yet
  | checked      -- (original order only) saw finished = false without the mutex, about to Lock
  | locked       -- holds the mutex, about to test `finished`
  | passed       -- holds the mutex, saw finished = false: will write
  | wrote        -- holds the mutex, data frame appended
  | failed       -- holds the mutex, a write failed (nothing appended by it)
  | refused      -- holds the mutex, saw finished = true
  | doneOk       -- returned nil
  | doneErr      -- returned Unavailable
  | doneCanceled -- returned Canceled "stream already finished"
deriving DecidableEq, Repr

structure Helper where
  msg : Bytes
  pc : PC
deriving DecidableEq, Repr

inductive Holder | free | helper (i : Nat) | handler
deriving DecidableEq, Repr

inductive Phase
  | forwarding   -- Forward is running
  | returned     -- Forward returned, the handler is about to Lock
  | inLock       -- handler holds the mutex
  | flagged      -- handler holds the mutex, finished = true
  | fenced       -- handler released the mutex, about to write the trailer
  | done         -- trailer written
deriving DecidableEq, Repr

structure St where
  order : Order
  helpers : Nat → Option Helper
  next : Nat                       -- number of Send calls so far
  mu : Holder
  finished : Bool
  sentMD : Bool
  header : MD                      -- s.header (SetHeader)
  trailer : MD                     -- s.trailer (SetTrailer)
  phase : Phase
  code : Nat
  smsg : Bytes
  out : List Bytes                 -- the writes, in wire order
  -- ghost history
  hdrW : Option MD                 -- the header frame written (WebSocket)
  written : List (Nat × Bytes)     -- (helper, message) of every data frame written, in wire order
  trW : Option MD                  -- the trailer frame written

def init (o : Order) (k : Kind) : St :=
  { order := o, helpers := fun _ => none, next := 0, mu := .free, finished := false,
    sentMD := (k == .http), header := [], trailer := [], phase := .forwarding, code := 0, smsg := [],
    out := [], hdrW := none, written := [], trW := none }

inductive Lbl
  | send (m : Bytes)            -- forwarder: Send(ctx, m) spawns helper `next`
  | setHeader (md : MD)         -- forwarder
  | setTrailer (md : MD)        -- forwarder
  | fwdReturn (code : Nat) (msg : Bytes)   -- Forward returns (all forwarder goroutines have ended; helpers may live on)
  | hCheck (i : Nat)            -- helper reads `finished`
  | hLock (i : Nat)
  | hWriteHdr (i : Nat)         -- ws: sentMD = true ; WriteMessage(lpmTrailer(header))
  | hWrite (i : Nat)            -- Write / WriteMessage (lpmMessage m)
  | hFail (i : Nat)             -- that write (header or data) fails
  | hUnlock (i : Nat)           -- deferred Unlock + return
  | finLock | finSet | finUnlock | writeTrailer | trailerFails
deriving DecidableEq, Repr

def setPC (s : St) (i : Nat) (h : Helper) (pc : PC) : Nat → Option Helper :=
  fun j => if j = i then some { h with pc := pc } else s.helpers j

def hCheck (s : St) (i : Nat) : Option St :=
  match s.helpers i with
  | none => none
  | some h =>
    if s.order = .fixed ∧ h.pc = .locked then
      some { s with helpers := setPC s i h (if s.finished then .refused else .passed) }
    else if s.order = .original ∧ h.pc = .start then
      some { s with helpers := setPC s i h (if s.finished then .doneCanceled else .checked) }
    else none

def hLock (s : St) (i : Nat) : Option St :=
  match s.helpers i with
  | none => none
  | some h =>
    if s.mu = .free then
      if s.order = .fixed ∧ h.pc = .start then some { s with helpers := setPC s i h .locked, mu := .helper i }
      else if s.order = .original ∧ h.pc = .checked then some { s with helpers := setPC s i h .passed, mu := .helper i }
      else none
    else none

def hWriteHdr (s : St) (i : Nat) : Option St :=
  match s.helpers i with
  | none => none
  | some h =>
    if h.pc = .passed ∧ s.sentMD = false then
      some { s with sentMD := true, out := s.out ++ [lpmTrailer (encodeMD s.header)], hdrW := some (encodeMD s.header) }
    else none

def hWrite (s : St) (i : Nat) : Option St :=
  match s.helpers i with
  | none => none
  | some h =>
    if h.pc = .passed ∧ s.sentMD = true then
      some { s with helpers := setPC s i h .wrote, out := s.out ++ [lpmMessage h.msg], written := s.written ++ [(i, h.msg)] }
    else none

def hFail (s : St) (i : Nat) : Option St :=
  match s.helpers i with
  | none => none
  | some h => if h.pc = .passed then some { s with helpers := setPC s i h .failed, sentMD := true } else none

def hUnlock (s : St) (i : Nat) : Option St :=
  match s.helpers i with
  | none => none
  | some h =>
    if h.pc = .wrote then some { s with helpers := setPC s i h .doneOk, mu := .free }
    else if h.pc = .failed then some { s with helpers := setPC s i h .doneErr, mu := .free }
    else if h.pc = .refused then some { s with helpers := setPC s i h .doneCanceled, mu := .free }
    else none

def fwd (s : St) (f : St → St) : Option St := if s.phase = .forwarding then some (f s) else none

def step (s : St) : Lbl → Option St
  | .send m =>
    fwd s fun s => { s with helpers := fun j => if j = s.next then some ⟨m, .start⟩ else s.helpers j, next := s.next + 1 }
  | .setHeader md => fwd s fun s => { s with header := md }
  | .setTrailer md => fwd s fun s => { s with trailer := md }
  | .fwdReturn c m => fwd s fun s => { s with phase := .returned, code := c, smsg := m }
  | .hCheck i => hCheck s i
  | .hLock i => hLock s i
  | .hWriteHdr i => hWriteHdr s i
  | .hWrite i => hWrite s i
  | .hFail i => hFail s i
  | .hUnlock i => hUnlock s i
  | .finLock => if s.phase = .returned ∧ s.mu = .free then some { s with phase := .inLock, mu := .handler } else none
  | .finSet => if s.phase = .inLock then some { s with phase := .flagged, finished := true } else none
  | .finUnlock => if s.phase = .flagged then some { s with phase := .fenced, mu := .free } else none
  | .writeTrailer =>
    if s.phase = .fenced then
      some { s with phase := .done, out := s.out ++ [lpmTrailer (encodeMD (trailerWithStatus s.trailer s.code s.smsg))],
                    trW := some (encodeMD (trailerWithStatus s.trailer s.code s.smsg)) }
    else none
  | .trailerFails => if s.phase = .fenced then some { s with phase := .done } else none

/-- the frames the ghost history stands for -/
def hdrPart (s : St) : List Bytes := match s.hdrW with | some h => [lpmTrailer h] | none => []
def trPart (s : St) : List Bytes := match s.trW with | some t => [lpmTrailer t] | none => []
def dataPart (s : St) : List Bytes := s.written.map (fun p => lpmMessage p.2)

/-- a helper that holds the mutex -/
def PC.holds : PC → Bool
  | .locked | .passed | .wrote | .failed | .refused => true
  | _ => false

/-- a helper whose data frame is in the output -/
def PC.hasWritten : PC → Bool
  | .wrote | .doneOk => true
  | _ => false

end GB.C08.Fence
