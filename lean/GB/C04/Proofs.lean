import GB.C04.Spec
/-
  C04 — helper lemmas for the property theorems (GB/C04/Props.lean).
-/
set_option linter.unusedSimpArgs false
set_option linter.unusedVariables false
namespace GB.C04
open GB

/-! ### finite-map lemmas -/

theorem Msg.get_erase_self (m : Msg) (p : Path) : Msg.get (Msg.erase m p) p = none := by
  induction m with
  | nil => simp [Msg.erase, Msg.get]
  | cons e rest ih =>
    obtain ⟨q, c⟩ := e
    by_cases h : q = p
    · subst h
      simpa [Msg.erase, List.filter] using ih
    · have hb : (q == p) = false := by simpa using h
      simp only [Msg.erase, List.filter, hb, Bool.not_false] at ih ⊢
      simp [Msg.get, h, ih]

theorem Msg.get_erase_ne (m : Msg) (p q : Path) (h : q ≠ p) : Msg.get (Msg.erase m p) q = Msg.get m q := by
  induction m with
  | nil => simp [Msg.erase, Msg.get]
  | cons e rest ih =>
    obtain ⟨r, c⟩ := e
    by_cases hr : r = p
    · subst hr
      have hne : ¬ r = q := fun hh => h hh.symm
      simp only [Msg.erase, List.filter, beq_self_eq_true, Bool.not_true] at ih ⊢
      simp [Msg.get, hne, ih]
    · have hb : (r == p) = false := by simpa using hr
      simp only [Msg.erase, List.filter, hb, Bool.not_false] at ih ⊢
      by_cases hq : r = q
      · simp [Msg.get, hq]
      · simp [Msg.get, hq, ih]

theorem Msg.get_put_self (m : Msg) (p : Path) (c : Cell) : Msg.get (Msg.put m p c) p = some c := by
  simp [Msg.put, Msg.get]

theorem Msg.get_put_ne (m : Msg) (p q : Path) (c : Cell) (h : q ≠ p) : Msg.get (Msg.put m p c) q = Msg.get m q := by
  have hne : ¬ p = q := fun hh => h hh.symm
  simp [Msg.put, Msg.get, hne, Msg.get_erase_ne m p q h]

/-! ### error classification -/

def Err.isParamErr : Err → Prop
  | .invalidArgument => True
  | .fault => True
  | _ => False

theorem optToExcept_err {α} {o : Option α} {e : Err} (h : optToExcept o = .error e) : e = .invalidArgument := by
  cases o <;> simp [optToExcept] at h
  exact h.symm

theorem map_optToExcept_err {α β} {o : Option α} {f : α → β} {e : Err}
    (h : (optToExcept o).map f = .error e) : e = .invalidArgument := by
  cases o <;> simp [optToExcept, Except.map] at h
  exact h.symm

theorem parseScalar_err {sch orc k t e} (h : parseScalar sch orc k t = .error e) : e.isParamErr := by
  unfold parseScalar at h
  repeat' split at h
  all_goals first
    | (have := map_optToExcept_err h; subst this; trivial)
    | (simp at h; done)
    | (simp at h; subst h; trivial)
    | (simp only at h; split at h <;> first | (simp at h; done) | (simp at h; subst h; trivial))

theorem parseMessage_err {orc ref t e} (h : parseMessage orc ref t = .error e) : e.isParamErr := by
  unfold parseMessage at h
  repeat' split at h
  all_goals first
    | (have := map_optToExcept_err h; subst this; trivial)
    | (simp at h; try (subst h; trivial))

theorem parseElem_err {sch orc k t e} (h : parseElem sch orc k t = .error e) : e.isParamErr := by
  unfold parseElem at h
  split at h
  · split at h
    · rename_i e' he
      simp at h; subst h
      exact parseMessage_err he
    · split at h <;> simp at h
      subst h; trivial
  · exact parseScalar_err h

theorem parseAll_err {sch orc k ts e} (h : parseAll sch orc k ts = .error e) : e.isParamErr := by
  induction ts with
  | nil => simp [parseAll] at h
  | cons t rest ih =>
    unfold parseAll at h
    split at h
    · rename_i e' he
      simp at h; subst h
      exact parseElem_err he
    · split at h
      · rename_i e' he
        simp at h; subst h
        exact ih he
      · simp at h

theorem setLeaf_err {sch orc md pre m fd vals e} (h : setLeaf sch orc md pre m fd vals = .error e) : e.isParamErr := by
  unfold setLeaf at h
  simp only at h
  split at h
  · simp at h; subst h; trivial
  · split at h
    · split at h
      · rename_i e' he
        simp at h; subst h; exact parseAll_err he
      · simp at h
    · split at h
      · split at h
        · rename_i e' he
          simp at h; subst h; exact parseScalar_err he
        · split at h
          · rename_i e' he
            simp at h; subst h; exact parseElem_err he
          · simp at h
      · simp at h; subst h; trivial
    · split at h
      · split at h
        · split at h
          · rename_i e' he
            simp at h; subst h; exact parseMessage_err he
          · simp at h
        · split at h
          · rename_i e' he
            simp at h; subst h; exact parseScalar_err he
          · simp at h
      · simp at h; subst h; trivial

theorem populateGo_err {sch orc} : ∀ {els md pre m vals e},
    populateGo sch orc md pre m els vals = .error e → e.isParamErr := by
  intro els
  induction els with
  | nil =>
    intro md pre m vals e h
    simp [populateGo] at h; subst h; trivial
  | cons name rest ih =>
    intro md pre m vals e h
    cases rest with
    | nil =>
      simp only [populateGo] at h
      split at h
      · simp at h
      · exact setLeaf_err h
    | cons n2 r2 =>
      simp only [populateGo] at h
      split at h
      · simp at h
      · split at h
        · simp at h; subst h; trivial
        · split at h
          · simp at h; subst h; trivial
          · exact ih h

theorem populate_err {sch orc root m fp vals e}
    (h : populateFieldValueFromPath sch orc root m fp vals = .error e) : e.isParamErr := by
  unfold populateFieldValueFromPath at h
  split at h
  · simp at h; subst h; trivial
  · split at h
    · simp at h; subst h; trivial
    · exact populateGo_err h

theorem pathStage_err {sch orc root} : ∀ {pp m e}, pathStage sch orc root m pp = .error e → e.isParamErr := by
  intro pp
  induction pp with
  | nil => intro m e h; simp [pathStage] at h
  | cons kv rest ih =>
    intro m e h
    obtain ⟨k, v⟩ := kv
    simp only [pathStage] at h
    split at h
    · rename_i e' he
      simp at h; subst h; exact populate_err he
    · exact ih h

theorem queryOne_err {sch orc root seqs m k vs e} (h : queryOne sch orc root seqs m k vs = .error e) : e.isParamErr := by
  unfold queryOne at h
  simp only at h
  repeat' split at h
  all_goals first
    | (simp at h; done)
    | exact populate_err h

theorem queryStage_err {sch orc root seqs} : ∀ {q m e}, queryStage sch orc root seqs m q = .error e → e.isParamErr := by
  intro q
  induction q with
  | nil => intro m e h; simp [queryStage] at h
  | cons kv rest ih =>
    intro m e h
    obtain ⟨k, vs⟩ := kv
    simp only [queryStage] at h
    split at h
    · rename_i e' he
      simp at h; subst h; exact queryOne_err he
    · exact ih h

theorem traverseEls_err {sch} : ∀ {els md pre m fd e},
    traverseEls sch md pre m fd els = .error e → e = .internal ∨ e = .fault := by
  intro els
  induction els with
  | nil => intro md pre m fd e h; simp [traverseEls] at h
  | cons el rest ih =>
    intro md pre m fd e h
    simp only [traverseEls] at h
    split at h
    · simp at h; exact Or.inl h.symm
    · split at h
      · simp at h
      · split at h
        · simp at h; exact Or.inl h.symm
        · split at h
          · simp at h
          · split at h
            · simp at h; exact Or.inl h.symm
            · split at h
              · simp at h; exact Or.inr h.symm
              · exact ih h

theorem traverse_err {sch root m path e} (h : traverseFieldPath sch root m path = .error e) :
    e = .internal ∨ e = .fault := by
  unfold traverseFieldPath at h
  split at h
  · simp at h
  · exact traverseEls_err h

end GB.C04

namespace GB.C04

/-- the binding's body path is not a field path of the request message (a defect of the binding,
    independent of the request) -/
def BadBinding (sch : Schema) (root : MsgDesc) (bd : Binding) : Prop :=
  traverseFieldPath sch root [] bd.bodyPath = .error .internal

instance (sch : Schema) (root : MsgDesc) (bd : Binding) : Decidable (BadBinding sch root bd) := by
  unfold BadBinding; infer_instance

/-! example data for the witnesses in Props.lean (explicit bytes: 'E'=69 'A'=65 'B'=66 'M'=77 'a'=97 'b'=98) -/
def exEnum : EnumDesc := { name := [69], values := [([65], 0), ([66], 1)] }
def exDecoy : EnumDesc := { name := [69], values := [([65], 0), ([66], 1001)] }
def exEnumSchema : Schema := { enums := [exEnum], msgs := [] }
def exNoOracle : Oracle := fun _ _ => none
def exFa : Field := { name := [97], json := [97], number := 1, kind := .int32, card := .single, presence := false, oneof := none }
def exFb : Field := { name := [98], json := [98], number := 2, kind := .string, card := .single, presence := false, oneof := none }
def exRoot : MsgDesc := { name := [77], fields := [exFa, exFb] }
def exSchema : Schema := { enums := [], msgs := [exRoot] }
/-- the same message with `optional int32 a = 1` (presence, synthetic oneof numbered 1000) -/
def exFaOpt : Field := { name := [97], json := [97], number := 1, kind := .int32, card := .single, presence := true, oneof := some 1000 }
def exRootOpt : MsgDesc := { name := [77], fields := [exFaOpt, exFb] }
def exSchemaOpt : Schema := { enums := [], msgs := [exRootOpt] }
/-- message O { oneof o { S a = 1; int32 b = 2; } }, S { int32 x = 1; }  ('O'=79 'S'=83 'x'=120) -/
def exSx : Field := { name := [120], json := [120], number := 1, kind := .int32, card := .single, presence := false, oneof := none }
def exS : MsgDesc := { name := [83], fields := [exSx] }
def exOa : Field := { name := [97], json := [97], number := 1, kind := .message [83], card := .single, presence := true, oneof := some 0 }
def exOb : Field := { name := [98], json := [98], number := 2, kind := .int32, card := .single, presence := true, oneof := some 0 }
def exO : MsgDesc := { name := [79], fields := [exOa, exOb] }
def exSchemaO : Schema := { enums := [], msgs := [exO, exS] }
/-- message J { int32 a_b = 1 [json_name = "aB"]; }  ('J'=74 '_'=95 'B'=66) -/
def exJf : Field := { name := [97, 95, 98], json := [97, 66], number := 1, kind := .int32, card := .single, presence := false, oneof := none }
def exJ : MsgDesc := { name := [74], fields := [exJf] }
def exSchemaJ : Schema := { enums := [], msgs := [exJ] }
/-- message T { repeated int32 t = 1; }  ('T'=84 't'=116) -/
def exTt : Field := { name := [116], json := [116], number := 1, kind := .int32, card := .list, presence := false, oneof := none }
def exT : MsgDesc := { name := [84], fields := [exTt] }
def exSchemaT : Schema := { enums := [], msgs := [exT] }
/-- body {"a": 1, "b": "x"} decoded -/
def exBodyAB : Dec := .ok [([[97]], .single (.int 1)), ([[98]], .single (.bytes [120]))]

theorem bodyStage_err {sch root bd dec e} (h : bodyStage sch root bd dec = .error e) :
    e = .invalidArgument ∨ (e = .internal ∧ BadBinding sch root bd) ∨ (e = .eof ∧ dec = .eof) ∨ e = .fault := by
  unfold bodyStage at h
  split at h
  · simp at h
  · split at h
    · rename_i e' he
      simp at h; subst h
      rcases traverse_err he with h1 | h1
      · subst h1; exact Or.inr (Or.inl ⟨rfl, he⟩)
      · subst h1; exact Or.inr (Or.inr (Or.inr rfl))
    · split at h
      · simp at h
      · simp at h; exact Or.inl h.symm
      · simp at h; exact Or.inr (Or.inr (Or.inl ⟨h.symm, rfl⟩))
      · simp at h

theorem isParamErr_cases {e : Err} (h : e.isParamErr) : e = .invalidArgument ∨ e = .fault := by
  cases e <;> simp [Err.isParamErr] at h ⊢

/-- the stream model with any cache state that holds the right filter -/
theorem streamFrom_eq {sch orc root bd rq} : ∀ (decs : List Dec) (cache : Option (List (List Bytes))),
    (cache = none ∨ cache = some (filterSeqs bd rq.pathParams)) →
    streamFrom sch orc root bd rq cache decs = decs.map (fun d => transcode sch orc root bd d rq) := by
  intro decs
  induction decs with
  | nil => intro cache _; simp [streamFrom]
  | cons d rest ih =>
    intro cache hc
    rcases hc with hc | hc <;> subst hc <;> simp [streamFrom, transcode, ih]

/-- dropping the query keys that the filter covers does not change the query stage -/
def covered (sch : Schema) (root : MsgDesc) (seqs : List (List Bytes)) (kv : Bytes × List Bytes) : Bool :=
  hasCommonPrefix seqs (normalizeFieldPath sch root (splitDot (queryKey kv.1 kv.2).1))

theorem queryOne_covered {sch orc root seqs m k vs} (h : covered sch root seqs (k, vs) = true) :
    queryOne sch orc root seqs m k vs = .ok m := by
  unfold covered queryKey at h
  unfold queryOne
  simp only at h ⊢
  split <;> simp_all

theorem queryStage_filter {sch orc root seqs} : ∀ (q : List (Bytes × List Bytes)) (m : Msg),
    queryStage sch orc root seqs m (q.filter (fun kv => !covered sch root seqs kv)) = queryStage sch orc root seqs m q := by
  intro q
  induction q with
  | nil => intro m; simp [queryStage]
  | cons kv rest ih =>
    intro m
    obtain ⟨k, vs⟩ := kv
    by_cases hc : covered sch root seqs (k, vs) = true
    · simp [List.filter, hc, queryStage, queryOne_covered hc, ih]
    · have hf : covered sch root seqs (k, vs) = false := by simpa using hc
      simp only [List.filter, hf, Bool.not_false, queryStage]
      split
      · rfl
      · exact ih _

end GB.C04

namespace GB.C04

theorem parseDigits_some {s : Bytes} {n : Nat} (h : parseDigits s = some n) : s ≠ [] ∧ s.all isDigit = true := by
  unfold parseDigits at h
  cases he : s.isEmpty
  · cases ha : s.all isDigit
    · simp [he, ha] at h
    · refine ⟨?_, rfl⟩
      intro hs; subst hs; simp at he
  · simp [he] at h

theorem parseInt_cons (c : UInt8) (rest : Bytes) (bits : Nat) : parseInt (c :: rest) bits =
    match parseDigits (if c == 43 || c == 45 then rest else c :: rest) with
    | none => none
    | some n =>
      if !(c == 45) && n ≥ 2 ^ (bits - 1) then none
      else if (c == 45) && n > 2 ^ (bits - 1) then none
      else some (if c == 45 then -(n : Int) else (n : Int)) := rfl

end GB.C04

namespace GB.C04

theorem validUTF8_append' : ∀ (a : Bytes), validUTF8 a = true → ∀ b, validUTF8 b = true → validUTF8 (a ++ b) = true := by
  intro a
  fun_induction validUTF8 a with
  | case1 => intro _ b hb; simpa using hb
  | case2 c rest h0 ih =>
    intro ha b hb
    rw [List.cons_append, validUTF8.eq_def]
    simp only [h0, if_true]
    exact ih ha b hb
  | case3 c h0 h1 b1 r ih =>
    intro ha b hb
    rw [List.cons_append, List.cons_append, validUTF8.eq_def]
    simp only [h0, h1, if_true, Bool.false_eq_true, if_false, Bool.and_eq_true] at ha ⊢
    exact ⟨ha.1, ih ha.2 b hb⟩
  | case4 c rest h0 h1 hne => intro ha; simp at ha
  | case5 c h0 h1 h2 b1 b2 r ih =>
    intro ha b hb
    rw [List.cons_append, List.cons_append, List.cons_append, validUTF8.eq_def]
    simp only [h0, h1, h2, if_true, Bool.false_eq_true, if_false, Bool.and_eq_true] at ha ⊢
    exact ⟨ha.1, ih ha.2 b hb⟩
  | case6 c rest h0 h1 h2 hne => intro ha; simp at ha
  | case7 c h0 h1 h2 h3 b1 b2 b3 r ih =>
    intro ha b hb
    rw [List.cons_append, List.cons_append, List.cons_append, List.cons_append, validUTF8.eq_def]
    simp only [h0, h1, h2, h3, if_true, Bool.false_eq_true, if_false, Bool.and_eq_true] at ha ⊢
    exact ⟨ha.1, ih ha.2 b hb⟩
  | case8 c rest h0 h1 h2 h3 hne => intro ha; simp at ha
  | case9 c rest h0 h1 h2 h3 => intro ha; simp at ha

theorem validUTF8_append (a b : Bytes) (ha : validUTF8 a = true) (hb : validUTF8 b = true) : validUTF8 (a ++ b) = true :=
  validUTF8_append' a ha b hb

/-- UTF-8 encoding of a code point (RFC 3629), as a byte list -/
def utf8Encode (c : Nat) : Bytes :=
  if c < 128 then [UInt8.ofNat c]
  else if c < 2048 then [UInt8.ofNat (192 + c / 64), UInt8.ofNat (128 + c % 64)]
  else if c < 65536 then [UInt8.ofNat (224 + c / 4096), UInt8.ofNat (128 + c / 64 % 64), UInt8.ofNat (128 + c % 64)]
  else [UInt8.ofNat (240 + c / 262144), UInt8.ofNat (128 + c / 4096 % 64), UInt8.ofNat (128 + c / 64 % 64), UInt8.ofNat (128 + c % 64)]

theorem validUTF8_encode (c : Nat) (h : c < 55296 ∨ (57344 ≤ c ∧ c < 1114112)) : validUTF8 (utf8Encode c) = true := by
  unfold utf8Encode
  split
  · rename_i h1
    simp only [validUTF8, UInt8.lt_iff_toNat_lt, UInt8.toNat_ofNat]
    simp
    omega
  · split
    · rename_i h1 h2
      simp [validUTF8, isCont, UInt8.lt_iff_toNat_lt, UInt8.le_iff_toNat_le, UInt8.toNat_ofNat]
      (repeat' split) <;> omega
    · split
      · rename_i h1 h2 h3
        simp [validUTF8, isCont, UInt8.lt_iff_toNat_lt, UInt8.le_iff_toNat_le, UInt8.toNat_ofNat, ← UInt8.toNat_inj]
        (repeat' split) <;> omega
      · rename_i h1 h2 h3
        simp [validUTF8, isCont, UInt8.lt_iff_toNat_lt, UInt8.le_iff_toNat_le, UInt8.toNat_ofNat, ← UInt8.toNat_inj]
        (repeat' split) <;> omega

end GB.C04

namespace GB.C04

theorem bodyStageOnto_nil (sch : Schema) (root : MsgDesc) (bd : Binding) (dec : Dec) :
    bodyStageOnto sch root bd dec [] = bodyStage sch root bd dec := by
  unfold bodyStageOnto bodyStage
  rfl

theorem transcodeOnto_nil (sch : Schema) (orc : Oracle) (root : MsgDesc) (bd : Binding) (dec : Dec) (rq : Request) :
    transcodeOnto sch orc root bd dec rq [] = transcode sch orc root bd dec rq := by
  unfold transcodeOnto transcode transcodeWith
  rw [bodyStageOnto_nil]

/-- the accepted prefix of a list of outcomes -/
def okPrefix : List (Except Err Msg) → List Msg
  | [] => []
  | .error _ :: _ => []
  | .ok m :: rest => m :: okPrefix rest

theorem pump_eq (sch : Schema) (orc : Oracle) (root : MsgDesc) (bd : Binding) (rq : Request) : ∀ (decs : List Dec),
    pump sch orc root bd rq decs = okPrefix (decs.map (fun d => transcode sch orc root bd d rq)) := by
  intro decs
  induction decs with
  | nil => rfl
  | cons d rest ih =>
    simp only [pump, List.map, transcodeOnto_nil]
    cases h : transcode sch orc root bd d rq with
    | error e => simp [okPrefix]
    | ok m => simp [okPrefix, ih]

end GB.C04
