import GB.C04.Model
/-
  C04 — base64: the encoders of the two alphabets and the round trips through the model of
  `gwquery.Bytes` (`parseBytes`: base64.StdEncoding, then base64.URLEncoding; padded, non-strict).
-/
set_option linter.unusedSimpArgs false
set_option linter.unusedVariables false
namespace GB.C04
open GB

/-- the i-th character of the standard (url = false) / URL-safe (url = true) alphabet -/
def b64char (url : Bool) (i : Nat) : UInt8 :=
  if i < 26 then UInt8.ofNat (65 + i)
  else if i < 52 then UInt8.ofNat (97 + (i - 26))
  else if i < 62 then UInt8.ofNat (48 + (i - 52))
  else if i = 62 then (if url then 45 else 43)
  else (if url then 95 else 47)

/-- `base64.StdEncoding.EncodeToString` (url = false) / `base64.URLEncoding.EncodeToString` (url = true) -/
def b64encode (url : Bool) : Bytes → Bytes
  | [] => []
  | [a] => [b64char url (a.toNat / 4), b64char url (a.toNat % 4 * 16), 61, 61]
  | [a, b] => [b64char url (a.toNat / 4), b64char url (a.toNat % 4 * 16 + b.toNat / 16), b64char url (b.toNat % 16 * 4), 61]
  | a :: b :: c :: rest =>
    b64char url (a.toNat / 4) :: b64char url (a.toNat % 4 * 16 + b.toNat / 16) ::
      b64char url (b.toNat % 16 * 4 + c.toNat / 64) :: b64char url (c.toNat % 64) :: b64encode url rest

theorem b64_char (url : Bool) (i : Nat) (h : i < 64) :
    b64val url (b64char url i) = some i ∧ (b64char url i == 61) = false
      ∧ (!(b64char url i == 10 || b64char url i == 13)) = true := by
  revert i
  cases url <;> decide

/-- a character of the URL alphabet read with the standard alphabet: same value, or not a character at all -/
theorem b64_char_cross (i : Nat) (h : i < 64) :
    b64val false (b64char true i) = some i ∨ b64val false (b64char true i) = none := by
  revert i
  decide

theorem u8_lt' (a : UInt8) : a.toNat < 256 := a.toNat_lt

theorem ofNat_toNat_eq' (a : UInt8) (n : Nat) (h : n = a.toNat) : UInt8.ofNat n = a := by
  subst h; simp

theorem b64encode_noNewline (url : Bool) (b : Bytes) :
    (b64encode url b).filter (fun c => !(c == 10 || c == 13)) = b64encode url b := by
  fun_induction b64encode url b with
  | case1 => rfl
  | case2 a =>
    have := u8_lt' a
    simp [List.filter, (b64_char url (a.toNat / 4) (by omega)).2.2, (b64_char url (a.toNat % 4 * 16) (by omega)).2.2]
  | case3 a b =>
    have := u8_lt' a; have := u8_lt' b
    simp [List.filter, (b64_char url (a.toNat / 4) (by omega)).2.2, (b64_char url (a.toNat % 4 * 16 + b.toNat / 16) (by omega)).2.2,
      (b64_char url (b.toNat % 16 * 4) (by omega)).2.2]
  | case4 a b c rest ih =>
    have := u8_lt' a; have := u8_lt' b; have := u8_lt' c
    simp [List.filter, (b64_char url (a.toNat / 4) (by omega)).2.2, (b64_char url (a.toNat % 4 * 16 + b.toNat / 16) (by omega)).2.2,
      (b64_char url (b.toNat % 16 * 4 + c.toNat / 64) (by omega)).2.2, (b64_char url (c.toNat % 64) (by omega)).2.2]
    intro x hx
    have := List.filter_eq_self.mp ih x hx
    simpa using this

theorem b64quanta_encode (url : Bool) (b : Bytes) : b64quanta url (b64encode url b) = some b := by
  fun_induction b64encode url b with
  | case1 => rfl
  | case2 a =>
    have := u8_lt' a
    have h1 := b64_char url (a.toNat / 4) (by omega)
    have h2 := b64_char url (a.toNat % 4 * 16) (by omega)
    simp only [b64quanta, h1.1, h2.1]
    simp
    exact ofNat_toNat_eq' a _ (by omega)
  | case3 a b =>
    have := u8_lt' a; have := u8_lt' b
    have h1 := b64_char url (a.toNat / 4) (by omega)
    have h2 := b64_char url (a.toNat % 4 * 16 + b.toNat / 16) (by omega)
    have h3 := b64_char url (b.toNat % 16 * 4) (by omega)
    simp only [b64quanta, h1.1, h2.1, h3.1, h3.2.1]
    simp
    exact ⟨ofNat_toNat_eq' a _ (by omega), ofNat_toNat_eq' b _ (by omega)⟩
  | case4 a b c rest ih =>
    have := u8_lt' a; have := u8_lt' b; have := u8_lt' c
    have h1 := b64_char url (a.toNat / 4) (by omega)
    have h2 := b64_char url (a.toNat % 4 * 16 + b.toNat / 16) (by omega)
    have h3 := b64_char url (b.toNat % 16 * 4 + c.toNat / 64) (by omega)
    have h4 := b64_char url (c.toNat % 64) (by omega)
    simp only [b64quanta, h1.1, h2.1, h3.1, h4.1, h3.2.1, h4.2.1, ih]
    simp
    exact ⟨ofNat_toNat_eq' a _ (by omega), ofNat_toNat_eq' b _ (by omega), ofNat_toNat_eq' c _ (by omega)⟩

theorem b64decode_encode (url : Bool) (b : Bytes) : b64decode url (b64encode url b) = some b := by
  unfold b64decode
  rw [b64encode_noNewline, b64quanta_encode]

/-- URL-alphabet text read with the standard alphabet: the same bytes, or rejected (then `gwquery.Bytes` retries
    with the URL alphabet) -/
theorem b64quanta_cross (b : Bytes) :
    b64quanta false (b64encode true b) = some b ∨ b64quanta false (b64encode true b) = none := by
  fun_induction b64encode true b with
  | case1 => left; rfl
  | case2 a =>
    have := u8_lt' a
    have e1 := b64_char true (a.toNat / 4) (by omega)
    have e2 := b64_char true (a.toNat % 4 * 16) (by omega)
    rcases b64_char_cross (a.toNat / 4) (by omega) with h1 | h1 <;>
    rcases b64_char_cross (a.toNat % 4 * 16) (by omega) with h2 | h2 <;>
    simp only [b64quanta, h1, h2] <;> simp
    exact ofNat_toNat_eq' a _ (by omega)
  | case3 a b =>
    have := u8_lt' a; have := u8_lt' b
    have e3 := b64_char true (b.toNat % 16 * 4) (by omega)
    rcases b64_char_cross (a.toNat / 4) (by omega) with h1 | h1 <;>
    rcases b64_char_cross (a.toNat % 4 * 16 + b.toNat / 16) (by omega) with h2 | h2 <;>
    rcases b64_char_cross (b.toNat % 16 * 4) (by omega) with h3 | h3 <;>
    simp only [b64quanta, h1, h2, h3, e3.2.1] <;> simp
    exact ⟨ofNat_toNat_eq' a _ (by omega), ofNat_toNat_eq' b _ (by omega)⟩
  | case4 a b c rest ih =>
    have := u8_lt' a; have := u8_lt' b; have := u8_lt' c
    have e3 := b64_char true (b.toNat % 16 * 4 + c.toNat / 64) (by omega)
    have e4 := b64_char true (c.toNat % 64) (by omega)
    rcases b64_char_cross (a.toNat / 4) (by omega) with h1 | h1 <;>
    rcases b64_char_cross (a.toNat % 4 * 16 + b.toNat / 16) (by omega) with h2 | h2 <;>
    rcases b64_char_cross (b.toNat % 16 * 4 + c.toNat / 64) (by omega) with h3 | h3 <;>
    rcases b64_char_cross (c.toNat % 64) (by omega) with h4 | h4 <;>
    rcases ih with h5 | h5 <;>
    simp only [b64quanta, h1, h2, h3, h4, h5, e3.2.1, e4.2.1] <;> simp
    exact ⟨ofNat_toNat_eq' a _ (by omega), ofNat_toNat_eq' b _ (by omega), ofNat_toNat_eq' c _ (by omega)⟩

theorem parseBytes_encode (url : Bool) (b : Bytes) : parseBytes (b64encode url b) = some b := by
  cases url with
  | false => simp [parseBytes, b64decode_encode]
  | true =>
    unfold parseBytes
    have hx : b64decode false (b64encode true b) = some b ∨ b64decode false (b64encode true b) = none := by
      unfold b64decode
      rw [b64encode_noNewline]
      exact b64quanta_cross b
    rcases hx with h | h
    · simp [h]
    · simp [h, b64decode_encode]

theorem b64quanta_chars (url : Bool) (s : Bytes) : ∀ b, b64quanta url s = some b → ∀ c ∈ s, c = 61 ∨ (b64val url c).isSome = true := by
  fun_induction b64quanta url s <;> intro b h x hx <;> simp_all
  all_goals (try (rcases hx with rfl | rfl | rfl | rfl <;> simp_all))
  rcases hx with rfl | rfl | rfl | rfl | hx
  · simp_all
  · simp_all
  · simp_all
  · simp_all
  · rename_i ih; exact ih x hx

theorem b64decode_chars (url : Bool) (s b : Bytes) (h : b64decode url s = some b) :
    ∀ c ∈ s, c = 10 ∨ c = 13 ∨ c = 61 ∨ (b64val url c).isSome = true := by
  intro c hc
  unfold b64decode at h
  by_cases hnl : c = 10 ∨ c = 13
  · rcases hnl with h1 | h1
    · exact Or.inl h1
    · exact Or.inr (Or.inl h1)
  · have hmem : c ∈ s.filter (fun c => !(c == 10 || c == 13)) := by
      simp only [List.mem_filter]
      refine ⟨hc, ?_⟩
      simp only [not_or] at hnl
      simp [hnl.1, hnl.2]
    rcases b64quanta_chars url _ b h c hmem with h1 | h1
    · exact Or.inr (Or.inr (Or.inl h1))
    · exact Or.inr (Or.inr (Or.inr h1))

end GB.C04
