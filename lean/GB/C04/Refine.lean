import GB.C04.Frame
/-
  C04 — normal form of one `populateFieldValueFromPath` call on a field outside any oneof
  (`leafParse` = what is parsed, independent of the message; `applyWrite` = how it is stored), and the
  resulting description of a whole stage of calls on pairwise unrelated fields.
-/
set_option linter.unusedSimpArgs false
set_option linter.unusedVariables false
namespace GB.C04
open GB

/-- populated leaf at `q` (an empty sub-message counts as nothing) -/
def lget (m : Msg) (q : Path) : Option Cell :=
  match Msg.get m q with
  | some .present => none
  | x => x

/-- what one call writes — the parsed values, independent of the message -/
inductive Write where
  | scalar (v : Val) (keep : Bool)   -- keep = false: zero value of an implicit-presence field ⇒ not populated
  | msg (es : Msg)                    -- a parsed well-known-type message (entries relative to the field)
  | list (vs : List Val)              -- appended
  | map (k v : Val)                   -- one entry set
  deriving DecidableEq

def leafParse (sch : Schema) (orc : Oracle) (f : Field) (vals : List Bytes) : Except Err Write :=
  match f.card with
  | .list =>
    match parseAll sch orc f.kind vals with
    | .error e => .error e
    | .ok vs => .ok (.list vs)
  | .map kk =>
    match vals with
    | [kt, vt] =>
      match parseScalar sch orc kk kt with
      | .error e => .error e
      | .ok k =>
        match parseElem sch orc f.kind vt with
        | .error e => .error e
        | .ok v => .ok (.map k v)
    | _ => .error .invalidArgument
  | .single =>
    match vals with
    | [t] =>
      match f.kind with
      | .message ref =>
        match parseMessage orc ref t with
        | .error e => .error e
        | .ok es => .ok (.msg es)
      | k =>
        match parseScalar sch orc k t with
        | .error e => .error e
        | .ok v => .ok (.scalar v (f.presence || !v.isZero))
    | _ => .error .invalidArgument

def oldList (m : Msg) (p : Path) : List Val :=
  match Msg.get m p with
  | some (.list l) => l
  | _ => []

def oldMap (m : Msg) (p : Path) : List (Val × Val) :=
  match Msg.get m p with
  | some (.map es) => es
  | _ => []

def applyWrite (m : Msg) (p : Path) : Write → Msg
  | .scalar v keep => if keep then Msg.put m p (.single v) else Msg.erase m p
  | .msg es => es.map (fun e => (p ++ e.1, e.2)) ++ Msg.put (Msg.eraseTree m p) p .present
  | .list vs => Msg.put m p (.list (oldList m p ++ vs))
  | .map k v => Msg.put m p (.map ((oldMap m p).filter (fun e => !(e.1 == k)) ++ [(k, v)]))

theorem setLeaf_eq {sch orc md pre m fd vals} (ho : oneofAlreadySet m md pre fd = false) :
    setLeaf sch orc md pre m fd vals = (leafParse sch orc fd vals).map (applyWrite m (pre ++ [fd.name])) := by
  unfold setLeaf leafParse
  simp only [ho, Bool.false_eq_true, if_false]
  cases hc : fd.card with
  | list =>
    simp only
    cases parseAll sch orc fd.kind vals <;> simp [Except.map, applyWrite, oldList]
    rfl
  | map kk =>
    simp only
    split
    · rename_i kt vt
      cases hps : parseScalar sch orc kk kt with
      | error e => simp [hps, Except.map]
      | ok k =>
        simp only
        cases hpe : parseElem sch orc fd.kind vt with
        | error e => simp [hps, hpe, Except.map]
        | ok v =>
          simp [hps, hpe, Except.map, applyWrite, oldMap]
          cases hg : Msg.get m (pre ++ [fd.name]) with
          | none => rfl
          | some c => cases c <;> rfl
    · simp [Except.map]
  | single =>
    simp only
    split
    · rename_i t
      cases hk : fd.kind with
      | message r =>
        simp only
        cases parseMessage orc r t <;> simp [Except.map, applyWrite]
      | _ =>
        simp only
        split <;> rename_i hp <;> simp only [hp] <;> simp [Except.map, applyWrite]
        all_goals (cases fd.presence <;> rename_i v <;> cases v.isZero <;> simp)
    · simp [Except.map]

/-! ### `applyWrite` seen through `get` -/

theorem Msg.get_eraseTree_under (m : Msg) (p q : Path) (h : p.isPrefixOf q = true) :
    Msg.get (Msg.eraseTree m p) q = none := by
  induction m with
  | nil => simp [Msg.eraseTree, Msg.get]
  | cons e rest ih =>
    obtain ⟨r, c⟩ := e
    simp only [Msg.eraseTree, List.filter] at ih ⊢
    by_cases hr : p.isPrefixOf r = true
    · simp [hr, ih]
    · have hr' : p.isPrefixOf r = false := Bool.eq_false_iff.mpr hr
      have hne : ¬ r = q := by intro hh; subst hh; exact hr h
      simp [hr', Msg.get, hne, ih]

theorem Msg.get_append (l1 l2 : Msg) (q : Path) :
    Msg.get (l1 ++ l2) q = match Msg.get l1 q with
      | some c => some c
      | none => Msg.get l2 q := by
  induction l1 with
  | nil => simp [Msg.get]
  | cons e rest ih =>
    obtain ⟨r, c⟩ := e
    by_cases hq : r = q
    · simp [Msg.get, hq]
    · simp [Msg.get, hq, ih]

/-- outside the written field nothing changes -/
theorem applyWrite_frame (m : Msg) (p q : Path) (w : Write) (h : p.isPrefixOf q = false) :
    Msg.get (applyWrite m p w) q = Msg.get m q := by
  have hne : q ≠ p := by intro hh; subst hh; simp [isPrefixOf_refl] at h
  cases w with
  | scalar v keep =>
    simp only [applyWrite]
    split
    · exact Msg.get_put_ne _ _ _ _ hne
    · exact Msg.get_erase_ne _ _ _ hne
  | list vs => exact Msg.get_put_ne _ _ _ _ hne
  | map k v => exact Msg.get_put_ne _ _ _ _ hne
  | msg es =>
    simp only [applyWrite]
    rw [Msg.get_append_of_forall_ne]
    · rw [Msg.get_put_ne _ _ _ _ hne, Msg.get_eraseTree_of_not_under _ _ _ h]
    · intro e he
      simp only [List.mem_map] at he
      obtain ⟨e0, _, rfl⟩ := he
      intro hh
      simp only at hh
      rw [← hh, isPrefixOf_append] at h
      exact Bool.noConfusion h

/-- inside the written field the result depends on the old message only through its values there -/
theorem applyWrite_congr (m m' : Msg) (p : Path) (w : Write)
    (hm : ∀ q, p.isPrefixOf q = true → Msg.get m q = Msg.get m' q) :
    ∀ q, p.isPrefixOf q = true → Msg.get (applyWrite m p w) q = Msg.get (applyWrite m' p w) q := by
  intro q hq
  have hp := hm p (isPrefixOf_refl p)
  cases w with
  | scalar v keep =>
    simp only [applyWrite]
    by_cases hqp : q = p
    · subst hqp
      split <;> simp [Msg.get_put_self, Msg.get_erase_self]
    · split
      · rw [Msg.get_put_ne _ _ _ _ hqp, Msg.get_put_ne _ _ _ _ hqp]; exact hm q hq
      · rw [Msg.get_erase_ne _ _ _ hqp, Msg.get_erase_ne _ _ _ hqp]; exact hm q hq
  | list vs =>
    simp only [applyWrite, oldList, hp]
    by_cases hqp : q = p
    · subst hqp; simp [Msg.get_put_self]
    · rw [Msg.get_put_ne _ _ _ _ hqp, Msg.get_put_ne _ _ _ _ hqp]; exact hm q hq
  | map k v =>
    simp only [applyWrite, oldMap, hp]
    by_cases hqp : q = p
    · subst hqp; simp [Msg.get_put_self]
    · rw [Msg.get_put_ne _ _ _ _ hqp, Msg.get_put_ne _ _ _ _ hqp]; exact hm q hq
  | msg es =>
    simp only [applyWrite]
    rw [Msg.get_append, Msg.get_append]
    split
    · rfl
    · by_cases hqp : q = p
      · subst hqp; simp [Msg.get_put_self]
      · rw [Msg.get_put_ne _ _ _ _ hqp, Msg.get_put_ne _ _ _ _ hqp,
          Msg.get_eraseTree_under _ _ _ hq, Msg.get_eraseTree_under _ _ _ hq]

/-! ### materialised prefixes -/

/-- `m1` is `m` plus possibly some empty sub-messages at proper prefixes of `P` -/
def MatRel (m m1 : Msg) (P : Path) : Prop :=
  ∀ q, Msg.get m1 q = Msg.get m q ∨
    (Msg.get m q = none ∧ Msg.get m1 q = some .present ∧ q.isPrefixOf P = true ∧ q ≠ P)

theorem MatRel.refl (m : Msg) (P : Path) : MatRel m m P := fun _ => Or.inl rfl

theorem MatRel.lget_eq {m m1 : Msg} {P : Path} (h : MatRel m m1 P) (q : Path) : lget m1 q = lget m q := by
  rcases h q with h1 | ⟨h1, h2, _, _⟩
  · unfold lget; rw [h1]
  · unfold lget; rw [h1, h2]

theorem MatRel.under {m m1 : Msg} {P : Path} (h : MatRel m m1 P) (q : Path) (hq : P.isPrefixOf q = true) :
    Msg.get m1 q = Msg.get m q := by
  rcases h q with h1 | ⟨_, _, h3, h4⟩
  · exact h1
  · exfalso
    -- q ≤ P and P ≤ q ⇒ q = P
    rw [List.isPrefixOf_iff_prefix] at h3 hq
    exact h4 (List.IsPrefix.eq_of_length_le h3 (List.IsPrefix.length_le hq))

theorem MatRel.unrelated {m m1 : Msg} {P : Path} (h : MatRel m m1 P) (q : Path) (hq : related P q = false) :
    Msg.get m1 q = Msg.get m q := by
  rcases h q with h1 | ⟨_, _, h3, _⟩
  · exact h1
  · simp [related, h3] at hq

theorem MatRel.step {m : Msg} {md : MsgDesc} {pre : Path} {f : Field} {m1 : Msg} {P : Path} (ho : f.oneof = none)
    (hP : (pre ++ [f.name]).isPrefixOf P = true) (hne : pre ++ [f.name] ≠ P)
    (h : MatRel (mutableMsg m md pre f) m1 P) : MatRel m m1 P := by
  intro q
  by_cases hq : q = pre ++ [f.name]
  · subst hq
    unfold mutableMsg at h
    by_cases hh : Msg.has m (pre ++ [f.name]) = true
    · simp only [hh, if_true] at h
      exact h _
    · have hh' : Msg.has m (pre ++ [f.name]) = false := Bool.eq_false_iff.mpr hh
      simp only [hh', Bool.false_eq_true, if_false] at h
      have hnone : Msg.get m (pre ++ [f.name]) = none := by
        simp [Msg.has] at hh
        cases hg : Msg.get m (pre ++ [f.name]) <;> simp_all
      rcases h (pre ++ [f.name]) with h1 | ⟨h1, _, _, _⟩
      · right
        simp only [clearOneofSiblings, ho, Msg.get_put_self] at h1
        exact ⟨hnone, h1, hP, hne⟩
      · simp [clearOneofSiblings, ho, Msg.get_put_self] at h1
  · have := mutableMsg_frame (m := m) (md := md) (pre := pre) ho hq
    rcases h q with h1 | ⟨h1, h2, h3, h4⟩
    · left; rw [h1, this]
    · right; exact ⟨by rw [← this]; exact h1, h2, h3, h4⟩

theorem resolveGo_nonempty {sch strict} : ∀ {els md p fs}, resolveGo sch strict md els = some (p, fs) → fs ≠ [] ∧ p ≠ [] := by
  intro els
  induction els with
  | nil => intro md p fs h; simp [resolveGo] at h
  | cons name rest ih =>
    intro md p fs h
    cases rest with
    | nil =>
      simp only [resolveGo] at h
      split at h
      · simp at h
      · simp at h; obtain ⟨rfl, rfl⟩ := h; simp
    | cons n2 r2 =>
      simp only [resolveGo] at h
      split at h
      · simp at h
      · split at h
        · simp at h
        · split at h
          · simp at h
          · split at h
            · simp at h
            · simp at h; obtain ⟨rfl, rfl⟩ := h; simp

/-- Normal form of the path walk on a resolved path outside any oneof: the prefixes are materialised,
    then the parsed write is applied at the leaf; a parse error is returned unchanged. -/
theorem populateGo_nf {sch orc} : ∀ {els md pre m vals p fs f},
    resolveGo sch false md els = some (p, fs) → oneofFree fs = true → fs.getLast? = some f →
    (∀ e, leafParse sch orc f vals = .error e → populateGo sch orc md pre m els vals = .error e) ∧
    (∀ w, leafParse sch orc f vals = .ok w →
      ∃ m1, populateGo sch orc md pre m els vals = .ok (applyWrite m1 (pre ++ p) w) ∧ MatRel m m1 (pre ++ p)) := by
  intro els
  induction els with
  | nil => intro md pre m vals p fs f hr; simp [resolveGo] at hr
  | cons name rest ih =>
    intro md pre m vals p fs f hr ho hl
    cases rest with
    | nil =>
      simp only [resolveGo, Bool.false_eq_true, if_false] at hr
      split at hr
      · simp at hr
      · rename_i f0 hf
        simp at hr
        obtain ⟨rfl, rfl⟩ := hr
        simp at hl
        subst hl
        have hof : f0.oneof = none := by
          simp [oneofFree] at ho
          cases hfo : f0.oneof <;> simp_all
        have hset : oneofAlreadySet m md pre f0 = false := by simp [oneofAlreadySet, hof]
        simp only [populateGo, hf, setLeaf_eq hset]
        constructor
        · intro e he; simp [he, Except.map]
        · intro w hw; exact ⟨m, by simp [hw, Except.map], MatRel.refl _ _⟩
    | cons n2 r2 =>
      simp only [resolveGo, Bool.false_eq_true, if_false] at hr
      split at hr
      · simp at hr
      · rename_i f0 hf
        split at hr
        · simp at hr
        · rename_i hsm
          split at hr
          · simp at hr
          · rename_i sub hsub
            split at hr
            · simp at hr
            · rename_i p' fs' hrr
              simp at hr
              obtain ⟨rfl, rfl⟩ := hr
              have hne := (resolveGo_nonempty hrr)
              have hof : f0.oneof = none := by
                simp [oneofFree] at ho
                have := ho.1
                cases hfo : f0.oneof <;> simp_all
              have hofs : oneofFree fs' = true := by
                simp [oneofFree] at ho ⊢
                exact ho.2
              have hl' : fs'.getLast? = some f := by
                cases fs' with
                | nil => exact absurd rfl hne.1
                | cons a b => simpa [List.getLast?_cons_cons] using hl
              have hpath : (pre ++ [f0.name]) ++ p' = pre ++ f0.name :: p' := by simp
              obtain ⟨ihe, ihw⟩ := ih (md := sub) (pre := pre ++ [f0.name]) (m := mutableMsg m md pre f0) (vals := vals) hrr hofs hl'
              simp only [populateGo, hf, hsm, hsub, Bool.not_true, Bool.false_eq_true, if_false]
              constructor
              · intro e he; exact ihe e he
              · intro w hw
                obtain ⟨m1, h1, h2⟩ := ihw w hw
                refine ⟨m1, by rw [← hpath]; exact h1, ?_⟩
                rw [hpath] at h2
                refine MatRel.step hof ?_ ?_ h2
                · rw [← hpath]; exact isPrefixOf_append _ _
                · intro hh
                  have h3 := List.append_cancel_left hh
                  simp at h3
                  exact hne.2 (by simpa [eq_comm] using h3)

/-! ### a stage = a list of calls -/

structure Src where
  p : Path              -- proto-name path of the field the call writes
  f : Field
  vals : List Bytes
  deriving DecidableEq

abbrev Call := List Bytes × List Bytes

/-- what a call is, by descriptors alone: `some none` = first element names no field (the call is ignored),
    `some (some s)` = it names a field outside any oneof, `none` = anything else (not covered here). -/
def srcOf (sch : Schema) (root : MsgDesc) (c : Call) : Option (Option Src) :=
  if c.2.isEmpty || c.1.isEmpty then none
  else if firstUnknown false root c.1 then some none
  else match resolveGo sch false root c.1 with
    | some (p, fs) =>
      if oneofFree fs then
        match fs.getLast? with
        | some f => some (some ⟨p, f, c.2⟩)
        | none => none
      else none
    | none => none

def srcsOf (sch : Schema) (root : MsgDesc) : List Call → Option (List Src)
  | [] => some []
  | c :: rest =>
    match srcOf sch root c, srcsOf sch root rest with
    | some none, some l => some l
    | some (some s), some l => some (s :: l)
    | _, _ => none

def popStage (sch : Schema) (orc : Oracle) (root : MsgDesc) : Msg → List Call → Except Err Msg
  | m, [] => .ok m
  | m, c :: rest =>
    match populateFieldValueFromPath sch orc root m c.1 c.2 with
    | .error e => .error e
    | .ok m' => popStage sch orc root m' rest

theorem call_skip {sch orc root m} {c : Call} (h : srcOf sch root c = some none) :
    populateFieldValueFromPath sch orc root m c.1 c.2 = .ok m := by
  obtain ⟨els, vals⟩ := c
  unfold srcOf at h
  simp only at h
  split at h
  · simp at h
  · rename_i hne
    simp only [Bool.or_eq_true, not_or, Bool.not_eq_true] at hne
    split at h
    · rename_i hfu
      unfold populateFieldValueFromPath
      simp only [hne.1, hne.2, Bool.false_eq_true, if_false]
      cases els with
      | nil => simp at hne
      | cons name rest =>
        simp only [firstUnknown, Bool.false_eq_true, if_false, Option.isNone_iff_eq_none] at hfu
        cases rest <;> simp [populateGo, hfu]
    · repeat' split at h
      all_goals simp at h

theorem call_src {sch orc root m} {c : Call} {s : Src} (h : srcOf sch root c = some (some s)) :
    (∀ e, leafParse sch orc s.f s.vals = .error e → populateFieldValueFromPath sch orc root m c.1 c.2 = .error e) ∧
    (∀ w, leafParse sch orc s.f s.vals = .ok w →
      ∃ m1, populateFieldValueFromPath sch orc root m c.1 c.2 = .ok (applyWrite m1 s.p w) ∧ MatRel m m1 s.p) := by
  obtain ⟨els, vals⟩ := c
  unfold srcOf at h
  simp only at h
  split at h
  · simp at h
  · rename_i hne
    simp only [Bool.or_eq_true, not_or, Bool.not_eq_true] at hne
    split at h
    · simp at h
    · split at h
      · rename_i p fs hr
        split at h
        · rename_i ho
          split at h
          · rename_i f hl
            simp at h
            subst h
            have := populateGo_nf (orc := orc) (pre := []) (m := m) (vals := vals) hr ho hl
            unfold populateFieldValueFromPath
            simpa [hne.1, hne.2] using this
          · simp at h
        · simp at h
      · simp at h

theorem under_excludes {a b q : Path} (h : related a b = false) (ha : a.isPrefixOf q = true) : b.isPrefixOf q = false := by
  cases hb : b.isPrefixOf q
  · rfl
  · exfalso
    rw [List.isPrefixOf_iff_prefix] at ha hb
    rcases List.prefix_or_prefix_of_prefix ha hb with h1 | h1
    · simp [related, List.isPrefixOf_iff_prefix.mpr h1] at h
    · simp [related, List.isPrefixOf_iff_prefix.mpr h1] at h

theorem under_unrelated {a b q : Path} (h : related a b = false) (hb : b.isPrefixOf q = true) : related a q = false := by
  cases hr : related a q
  · rfl
  · exfalso
    simp only [related, Bool.or_eq_true] at hr
    rcases hr with h1 | h1
    · -- a ≤ q and b ≤ q
      have := under_excludes h h1
      simp [hb] at this
    · -- q ≤ a, b ≤ q ⇒ b ≤ a
      rw [List.isPrefixOf_iff_prefix] at h1 hb
      simp [related, List.isPrefixOf_iff_prefix.mpr (hb.trans h1)] at h

def Unrelated (srcs : List Src) : Prop := List.Pairwise (fun a b : Src => related a.p b.p = false) srcs

/-- what a stage yields, in terms of the message it started from -/
def StageSpec (sch : Schema) (orc : Oracle) (m0 : Msg) (srcs : List Src) (m : Msg) : Prop :=
  (∀ s ∈ srcs, ∃ w, leafParse sch orc s.f s.vals = .ok w ∧
      ∀ q, s.p.isPrefixOf q = true → lget m q = lget (applyWrite m0 s.p w) q)
  ∧ (∀ q, (∀ s ∈ srcs, s.p.isPrefixOf q = false) → lget m q = lget m0 q)

theorem lget_congr {m m' : Msg} {q : Path} (h : Msg.get m q = Msg.get m' q) : lget m q = lget m' q := by
  unfold lget; rw [h]

theorem popStage_ok {sch orc root} : ∀ {calls srcs m m'}, srcsOf sch root calls = some srcs → Unrelated srcs →
    popStage sch orc root m calls = .ok m' → StageSpec sch orc m srcs m' := by
  intro calls
  induction calls with
  | nil =>
    intro srcs m m' hs _ h
    simp [srcsOf] at hs; subst hs
    simp [popStage] at h; subst h
    exact ⟨by simp, fun _ _ => rfl⟩
  | cons c rest ih =>
    intro srcs m m' hs hu h
    simp only [srcsOf] at hs
    simp only [popStage] at h
    cases hc : srcOf sch root c with
    | none => simp [hc] at hs
    | some r =>
      cases hrest : srcsOf sch root rest with
      | none => cases r <;> simp [hc, hrest] at hs
      | some l =>
        cases r with
        | none =>
          simp [hc, hrest] at hs; subst hs
          rw [call_skip hc] at h
          exact ih hrest hu h
        | some s =>
          simp [hc, hrest] at hs; subst hs
          have hu' : Unrelated l := (List.pairwise_cons.mp hu).2
          have hus : ∀ s' ∈ l, related s.p s'.p = false := (List.pairwise_cons.mp hu).1
          obtain ⟨hce, hcw⟩ := call_src (orc := orc) (m := m) hc
          cases hw : leafParse sch orc s.f s.vals with
          | error e => rw [hce e hw] at h; simp at h
          | ok w =>
            obtain ⟨m1, hm1, hrel⟩ := hcw w hw
            rw [hm1] at h
            simp only at h
            obtain ⟨ih1, ih2⟩ := ih hrest hu' h
            refine ⟨?_, ?_⟩
            · intro s' hs'
              simp only [List.mem_cons] at hs'
              rcases hs' with rfl | hs'
              · refine ⟨w, hw, ?_⟩
                intro q hq
                rw [ih2 q (fun s'' hs'' => under_excludes (hus s'' hs'') hq)]
                exact lget_congr (applyWrite_congr m1 m s'.p w (fun q' hq' => hrel.under q' hq') q hq)
              · obtain ⟨w', hw', hval⟩ := ih1 s' hs'
                refine ⟨w', hw', ?_⟩
                intro q hq
                rw [hval q hq]
                apply lget_congr
                apply applyWrite_congr _ _ _ _ _ q hq
                intro q' hq'
                have hex : s.p.isPrefixOf q' = false := by
                  have := under_excludes (a := s'.p) (b := s.p) (by rw [related_comm]; exact hus s' hs') hq'
                  exact this
                rw [applyWrite_frame _ _ _ _ hex]
                exact hrel.unrelated q' (under_unrelated (hus s' hs') hq')
            · intro q hq
              have hqs : s.p.isPrefixOf q = false := hq s (by simp)
              rw [ih2 q (fun s'' hs'' => hq s'' (by simp [hs'']))]
              rw [lget_congr (applyWrite_frame m1 s.p q w hqs)]
              exact hrel.lget_eq q

theorem popStage_succeeds {sch orc root} : ∀ {calls srcs m}, srcsOf sch root calls = some srcs →
    (∀ s ∈ srcs, ∃ w, leafParse sch orc s.f s.vals = .ok w) → ∃ m', popStage sch orc root m calls = .ok m' := by
  intro calls
  induction calls with
  | nil => intro srcs m _ _; exact ⟨m, rfl⟩
  | cons c rest ih =>
    intro srcs m hs hall
    simp only [srcsOf] at hs
    simp only [popStage]
    cases hc : srcOf sch root c with
    | none => simp [hc] at hs
    | some r =>
      cases hrest : srcsOf sch root rest with
      | none => cases r <;> simp [hc, hrest] at hs
      | some l =>
        cases r with
        | none =>
          simp [hc, hrest] at hs; subst hs
          rw [call_skip hc]
          exact ih hrest hall
        | some s =>
          simp [hc, hrest] at hs; subst hs
          obtain ⟨w, hw⟩ := hall s (by simp)
          obtain ⟨m1, hm1, _⟩ := (call_src (orc := orc) (m := m) hc).2 w hw
          rw [hm1]
          exact ih hrest (fun s' hs' => hall s' (by simp [hs']))

theorem popStage_fails {sch orc root} : ∀ {calls srcs m}, srcsOf sch root calls = some srcs →
    (∃ s ∈ srcs, ∃ e, leafParse sch orc s.f s.vals = .error e) → ∃ e, popStage sch orc root m calls = .error e := by
  intro calls
  induction calls with
  | nil => intro srcs m hs h; simp [srcsOf] at hs; subst hs; simp at h
  | cons c rest ih =>
    intro srcs m hs hex
    simp only [srcsOf] at hs
    simp only [popStage]
    cases hc : srcOf sch root c with
    | none => simp [hc] at hs
    | some r =>
      cases hrest : srcsOf sch root rest with
      | none => cases r <;> simp [hc, hrest] at hs
      | some l =>
        cases r with
        | none =>
          simp [hc, hrest] at hs; subst hs
          rw [call_skip hc]
          exact ih hrest hex
        | some s =>
          simp [hc, hrest] at hs; subst hs
          cases hw : leafParse sch orc s.f s.vals with
          | error e => exact ⟨e, by rw [(call_src (orc := orc) (m := m) hc).1 e hw]⟩
          | ok w =>
            obtain ⟨m1, hm1, _⟩ := (call_src (orc := orc) (m := m) hc).2 w hw
            rw [hm1]
            obtain ⟨s', hs', e, he⟩ := hex
            simp only [List.mem_cons] at hs'
            rcases hs' with rfl | hs'
            · rw [hw] at he; simp at he
            · exact ih hrest ⟨s', hs', e, he⟩

/-! ### the stages of `transcodeFunc` as call lists -/

def ppCalls (pp : List (Bytes × Bytes)) : List Call := pp.map (fun kv => (splitDot kv.1, [kv.2]))

def qCalls (sch : Schema) (root : MsgDesc) (seqs : List (List Bytes)) (q : List (Bytes × List Bytes)) : List Call :=
  (q.filter (fun kv => !covered sch root seqs kv)).map
    (fun kv => (normalizeFieldPath sch root (splitDot (queryKey kv.1 kv.2).1), (queryKey kv.1 kv.2).2))

/-- every call the request makes, in order: path variables, then (unless body = "*") the query keys the filter lets through -/
def allCalls (sch : Schema) (root : MsgDesc) (bd : Binding) (rq : Request) : List Call :=
  ppCalls rq.pathParams ++ (if bd.bodyPath = wildcard then [] else qCalls sch root (filterSeqs bd rq.pathParams) rq.query)

theorem pathStage_eq {sch orc root} : ∀ (pp : List (Bytes × Bytes)) (m : Msg),
    pathStage sch orc root m pp = popStage sch orc root m (ppCalls pp) := by
  intro pp
  induction pp with
  | nil => intro m; rfl
  | cons kv rest ih =>
    intro m
    obtain ⟨k, v⟩ := kv
    simp only [pathStage, ppCalls, List.map, popStage]
    cases hp : populateFieldValueFromPath sch orc root m (splitDot k) [v] with
    | error e => rfl
    | ok m' => exact ih m'

theorem queryOne_uncovered {sch orc root seqs m k vs} (h : covered sch root seqs (k, vs) = false) :
    queryOne sch orc root seqs m k vs =
      populateFieldValueFromPath sch orc root m (normalizeFieldPath sch root (splitDot (queryKey k vs).1)) (queryKey k vs).2 := by
  unfold covered at h
  unfold queryOne
  unfold queryKey at h ⊢
  simp only at h ⊢
  split <;> simp_all

theorem queryStage_eq {sch orc root seqs} : ∀ (q : List (Bytes × List Bytes)) (m : Msg),
    queryStage sch orc root seqs m q = popStage sch orc root m (qCalls sch root seqs q) := by
  intro q
  induction q with
  | nil => intro m; rfl
  | cons kv rest ih =>
    intro m
    obtain ⟨k, vs⟩ := kv
    by_cases hc : covered sch root seqs (k, vs) = true
    · simp only [queryStage, queryOne_covered hc, qCalls, List.filter, hc, Bool.not_true]
      exact ih m
    · have hf : covered sch root seqs (k, vs) = false := Bool.eq_false_iff.mpr hc
      simp only [queryStage, qCalls, List.filter, hf, Bool.not_false, List.map, popStage, queryOne_uncovered hf]
      cases hp : populateFieldValueFromPath sch orc root m (normalizeFieldPath sch root (splitDot (queryKey k vs).1)) (queryKey k vs).2 with
      | error e => rfl
      | ok m' => exact ih m'

theorem popStage_append {sch orc root} : ∀ (c1 c2 : List Call) (m : Msg),
    popStage sch orc root m (c1 ++ c2) =
      match popStage sch orc root m c1 with
      | .error e => .error e
      | .ok m' => popStage sch orc root m' c2 := by
  intro c1
  induction c1 with
  | nil => intro c2 m; rfl
  | cons c rest ih =>
    intro c2 m
    simp only [List.cons_append, popStage]
    cases hp : populateFieldValueFromPath sch orc root m c.1 c.2 with
    | error e => rfl
    | ok m' => exact ih c2 m'

/-- `transcode` = body stage, then all calls in order -/
theorem transcode_eq (sch : Schema) (orc : Oracle) (root : MsgDesc) (bd : Binding) (dec : Dec) (rq : Request) :
    transcode sch orc root bd dec rq =
      match bodyStage sch root bd dec with
      | .error e => .error e
      | .ok m0 => popStage sch orc root m0 (allCalls sch root bd rq) := by
  unfold transcode transcodeWith allCalls
  cases hb : bodyStage sch root bd dec with
  | error e => rfl
  | ok m0 =>
    simp only [popStage_append, pathStage_eq]
    cases hp : popStage sch orc root m0 (ppCalls rq.pathParams) with
    | error e => rfl
    | ok m1 =>
      by_cases hw : bd.bodyPath = wildcard
      · simp [shouldParseQuery, hw, popStage]
      · simp [shouldParseQuery, hw, queryStage_eq]

/-! ### order independence -/

theorem srcsOf_eq {sch root} : ∀ (calls : List Call),
    srcsOf sch root calls =
      if calls.all (fun c => (srcOf sch root c).isSome) then some (calls.filterMap (fun c => (srcOf sch root c).join)) else none := by
  intro calls
  induction calls with
  | nil => simp [srcsOf]
  | cons c rest ih =>
    cases hc : srcOf sch root c with
    | none => simp [srcsOf, hc]
    | some r =>
      cases r with
      | none => by_cases hall : rest.all (fun c => (srcOf sch root c).isSome) = true <;> simp [srcsOf, hc, ih, hall, Option.join]
      | some s0 => by_cases hall : rest.all (fun c => (srcOf sch root c).isSome) = true <;> simp [srcsOf, hc, ih, hall, Option.join]

theorem srcsOf_perm {sch root} {calls calls' : List Call} {srcs : List Src} (hp : calls.Perm calls')
    (hs : srcsOf sch root calls = some srcs) : ∃ srcs', srcsOf sch root calls' = some srcs' ∧ srcs.Perm srcs' := by
  rw [srcsOf_eq] at hs ⊢
  by_cases hall : calls.all (fun c => (srcOf sch root c).isSome) = true
  · have hall' : calls'.all (fun c => (srcOf sch root c).isSome) = true := by
      rw [List.all_eq_true] at hall ⊢
      intro c hc
      exact hall c (hp.symm.subset hc)
    simp only [hall, if_true, Option.some.injEq] at hs
    subst hs
    exact ⟨_, by simp [hall'], hp.filterMap _⟩
  · simp [hall] at hs

theorem Unrelated.perm {srcs srcs' : List Src} (hp : srcs.Perm srcs') (hu : Unrelated srcs) : Unrelated srcs' := by
  unfold Unrelated at hu ⊢
  exact (hp.pairwise_iff (fun {a b} h => by rw [related_comm]; exact h)).mp hu

theorem stageSpec_agree {sch orc m srcs srcs' m1 m2} (hp : srcs.Perm srcs')
    (h1 : StageSpec sch orc m srcs m1) (h2 : StageSpec sch orc m srcs' m2) : ∀ q, lget m1 q = lget m2 q := by
  intro q
  by_cases hex : ∃ s ∈ srcs, s.p.isPrefixOf q = true
  · obtain ⟨s, hs, hq⟩ := hex
    obtain ⟨w, hw, hv⟩ := h1.1 s hs
    obtain ⟨w', hw', hv'⟩ := h2.1 s (hp.subset hs)
    rw [hw] at hw'
    simp at hw'
    subst hw'
    rw [hv q hq, hv' q hq]
  · have hno : ∀ s ∈ srcs, s.p.isPrefixOf q = false := by
      intro s hs
      cases hpq : s.p.isPrefixOf q
      · rfl
      · exact absurd ⟨s, hs, hpq⟩ hex
    rw [h1.2 q hno, h2.2 q (fun s hs => hno s (hp.symm.subset hs))]

/-- a stage of calls on pairwise unrelated fields outside oneofs does not depend on the order of the calls -/
theorem popStage_perm {sch orc root m} {calls calls' : List Call} {srcs : List Src} (hp : calls.Perm calls')
    (hs : srcsOf sch root calls = some srcs) (hu : Unrelated srcs) :
    (∀ m1 m2, popStage sch orc root m calls = .ok m1 → popStage sch orc root m calls' = .ok m2 → ∀ q, lget m1 q = lget m2 q)
    ∧ ((∃ m1, popStage sch orc root m calls = .ok m1) ↔ (∃ m2, popStage sch orc root m calls' = .ok m2)) := by
  obtain ⟨srcs', hs', hps⟩ := srcsOf_perm hp hs
  have hu' := hu.perm hps
  refine ⟨?_, ?_, ?_⟩
  · intro m1 m2 h1 h2
    exact stageSpec_agree hps (popStage_ok hs hu h1) (popStage_ok hs' hu' h2)
  · rintro ⟨m1, h1⟩
    apply popStage_succeeds hs'
    intro s hsm
    obtain ⟨w, hw, _⟩ := (popStage_ok hs hu h1).1 s (hps.symm.subset hsm)
    exact ⟨w, hw⟩
  · rintro ⟨m2, h2⟩
    apply popStage_succeeds hs
    intro s hsm
    obtain ⟨w, hw, _⟩ := (popStage_ok hs' hu' h2).1 s (hps.subset hsm)
    exact ⟨w, hw⟩

theorem covered_perm {sch root} {seqs seqs' : List (List Bytes)} (hp : seqs.Perm seqs') (kv : Bytes × List Bytes) :
    covered sch root seqs kv = covered sch root seqs' kv := by
  unfold covered hasCommonPrefix
  exact hp.any_eq

theorem allCalls_perm {sch root bd} {pp pp' : List (Bytes × Bytes)} {q q' : List (Bytes × List Bytes)}
    (hpp : pp.Perm pp') (hq : q.Perm q') :
    (allCalls sch root bd ⟨pp, q⟩).Perm (allCalls sch root bd ⟨pp', q'⟩) := by
  unfold allCalls
  apply List.Perm.append
  · exact hpp.map _
  · simp only
    split
    · exact List.Perm.refl _
    · unfold qCalls
      have hseq : (filterSeqs bd pp).Perm (filterSeqs bd pp') := by
        unfold filterSeqs
        exact List.Perm.append (List.Perm.refl _) (hpp.map _)
      have hfun : (fun kv => !covered sch root (filterSeqs bd pp) kv) = (fun kv => !covered sch root (filterSeqs bd pp') kv) := by
        funext kv; rw [covered_perm hseq]
      rw [hfun]
      exact (hq.filter _).map _

end GB.C04
