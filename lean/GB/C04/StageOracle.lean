import GB.C04.Refine
/-
  C04 — the executable oracle for the requests `C04_refines` covers, and the proof that it IS the
  declarative `StageSpec` (deepening round 5, task 1).

  `stageExpect` computes, from descriptors and request alone (no walk through `populateGo`, no `Mutable`
  side effects, no order of mutation beyond the list of sources): the body-stage message, then for every
  call `applyWrite` of its parsed values. `stageExpect_spec` shows its message satisfies `StageSpec`, that
  `StageSpec` determines the populated leaves uniquely, and that `transcode` returns exactly its verdict.
  The driver judges every case inside the theorem's hypotheses by `stageExpect` (branch suffix `-thm`).
-/
set_option linter.unusedSimpArgs false
set_option linter.unusedVariables false
namespace GB.C04
open GB

/-- the sources applied to a message in list order; the first value that does not parse is the error -/
def stageApply (sch : Schema) (orc : Oracle) : Msg → List Src → Except Err Msg
  | m, [] => .ok m
  | m, s :: rest =>
    match leafParse sch orc s.f s.vals with
    | .error e => .error e
    | .ok w => stageApply sch orc (applyWrite m s.p w) rest

/-- `some` exactly on the requests inside the hypotheses of `C04_refines` (every call ignored or naming a field
    outside any oneof with ≥ 1 value; no two calls overlap) -/
def stageExpect (sch : Schema) (orc : Oracle) (root : MsgDesc) (bd : Binding) (dec : Dec) (rq : Request) : Option (Except Err Msg) :=
  match srcsOf sch root (allCalls sch root bd rq) with
  | none => none
  | some srcs =>
    if !pairwiseUnrelated (srcs.map (·.p)) then none
    else match bodyStage sch root bd dec with
      | .error e => some (.error e)
      | .ok m0 => some (stageApply sch orc m0 srcs)

/-- **The oracle the driver judges every case by.** Inside the hypotheses of `C04_refines` it IS `stageExpect` — proved
    (`C04_expect_accepts/_rejects/_in_domain`) to be the declarative `StageSpec`; outside (oneof members, overlapping keys,
    keys failing half-way) the per-field rules `expectRules` (GB/C04/Spec.lean), which leave oneof pass-through, JSON-named
    path variables and the trailing-dot body path unspecified (`none`). Where both speak the driver requires them to
    agree (`BAD the two specification oracles disagree` otherwise). -/
def expect (sch : Schema) (orc : Oracle) (root : MsgDesc) (bd : Binding) (dec : Dec) (rq : Request) : Option (Except Err Msg) :=
  match stageExpect sch orc root bd dec rq with
  | some r => some r
  | none => expectRules sch orc root bd dec rq

theorem unrelated_of_pairwise : ∀ (srcs : List Src), pairwiseUnrelated (srcs.map (·.p)) = true → Unrelated srcs := by
  intro srcs
  induction srcs with
  | nil => intro _; exact List.Pairwise.nil
  | cons s rest ih =>
    intro h
    simp only [List.map, pairwiseUnrelated, Bool.and_eq_true, List.all_eq_true, List.mem_map] at h
    refine List.Pairwise.cons ?_ (ih h.2)
    intro s' hs'
    have := h.1 s'.p ⟨s', hs', rfl⟩
    simpa using this

theorem pairwise_of_unrelated : ∀ (srcs : List Src), Unrelated srcs → pairwiseUnrelated (srcs.map (·.p)) = true := by
  intro srcs
  induction srcs with
  | nil => intro _; rfl
  | cons s rest ih =>
    intro h
    have h' := List.pairwise_cons.mp h
    simp only [List.map, pairwiseUnrelated, Bool.and_eq_true, List.all_eq_true, List.mem_map]
    refine ⟨?_, ih h'.2⟩
    rintro q ⟨s', hs', rfl⟩
    simp [h'.1 s' hs']

/-- the oracle's message satisfies the declarative relation -/
theorem stageApply_spec {sch orc} : ∀ {srcs m m'}, Unrelated srcs →
    stageApply sch orc m srcs = .ok m' → StageSpec sch orc m srcs m' := by
  intro srcs
  induction srcs with
  | nil =>
    intro m m' _ h
    simp [stageApply] at h; subst h
    exact ⟨by simp, fun _ _ => rfl⟩
  | cons s l ih =>
    intro m m' hu h
    have hu' : Unrelated l := (List.pairwise_cons.mp hu).2
    have hus : ∀ s' ∈ l, related s.p s'.p = false := (List.pairwise_cons.mp hu).1
    simp only [stageApply] at h
    cases hw : leafParse sch orc s.f s.vals with
    | error e => rw [hw] at h; simp at h
    | ok w =>
      rw [hw] at h
      simp only at h
      obtain ⟨ih1, ih2⟩ := ih hu' h
      refine ⟨?_, ?_⟩
      · intro s' hs'
        simp only [List.mem_cons] at hs'
        rcases hs' with rfl | hs'
        · refine ⟨w, hw, ?_⟩
          intro q hq
          exact ih2 q (fun s'' hs'' => under_excludes (hus s'' hs'') hq)
        · obtain ⟨w', hw', hval⟩ := ih1 s' hs'
          refine ⟨w', hw', ?_⟩
          intro q hq
          rw [hval q hq]
          apply lget_congr
          apply applyWrite_congr _ _ _ _ _ q hq
          intro q' hq'
          have hex : s.p.isPrefixOf q' = false :=
            under_excludes (a := s'.p) (b := s.p) (by rw [related_comm]; exact hus s' hs') hq'
          exact applyWrite_frame _ _ _ _ hex
      · intro q hq
        have hqs : s.p.isPrefixOf q = false := hq s (by simp)
        rw [ih2 q (fun s'' hs'' => hq s'' (by simp [hs'']))]
        exact lget_congr (applyWrite_frame m s.p q w hqs)

theorem stageApply_ok_parses {sch orc} : ∀ {srcs m m'}, stageApply sch orc m srcs = .ok m' →
    ∀ s ∈ srcs, ∃ w, leafParse sch orc s.f s.vals = .ok w := by
  intro srcs
  induction srcs with
  | nil => intro m m' _ s hs; simp at hs
  | cons s0 l ih =>
    intro m m' h s hs
    simp only [stageApply] at h
    cases hw : leafParse sch orc s0.f s0.vals with
    | error e => rw [hw] at h; simp at h
    | ok w =>
      rw [hw] at h
      simp only [List.mem_cons] at hs
      rcases hs with rfl | hs
      · exact ⟨w, hw⟩
      · exact ih h s hs

/-- the first value that does not parse is the error the code returns (whatever the message is by then) -/
theorem popStage_error_exact {sch orc root} : ∀ {calls srcs m m' e}, srcsOf sch root calls = some srcs →
    stageApply sch orc m srcs = .error e → popStage sch orc root m' calls = .error e := by
  intro calls
  induction calls with
  | nil => intro srcs m m' e hs h; simp [srcsOf] at hs; subst hs; simp [stageApply] at h
  | cons c rest ih =>
    intro srcs m m' e hs h
    simp only [srcsOf] at hs
    simp only [popStage]
    cases hc : srcOf sch root c with
    | none => simp [hc] at hs
    | some r =>
      cases hrest : srcsOf sch root rest with
      | none => cases r <;> simp [hc, hrest] at hs
      | some l =>
        cases r with
        | none =>
          simp [hc, hrest] at hs; subst hs
          rw [call_skip hc]
          exact ih hrest h
        | some s =>
          simp [hc, hrest] at hs; subst hs
          simp only [stageApply] at h
          cases hw : leafParse sch orc s.f s.vals with
          | error e0 =>
            rw [hw] at h
            simp at h; subst h
            rw [(call_src (orc := orc) (m := m') hc).1 e0 hw]
          | ok w =>
            rw [hw] at h
            obtain ⟨m1, hm1, _⟩ := (call_src (orc := orc) (m := m') hc).2 w hw
            rw [hm1]
            exact ih hrest h

theorem stageExpect_some {sch orc root bd dec rq r} (h : stageExpect sch orc root bd dec rq = some r) :
    ∃ srcs, srcsOf sch root (allCalls sch root bd rq) = some srcs ∧ Unrelated srcs ∧
      ((∃ e, bodyStage sch root bd dec = .error e ∧ r = .error e)
       ∨ (∃ m0, bodyStage sch root bd dec = .ok m0 ∧ r = stageApply sch orc m0 srcs)) := by
  unfold stageExpect at h
  cases hs : srcsOf sch root (allCalls sch root bd rq) with
  | none => simp [hs] at h
  | some srcs =>
    simp only [hs] at h
    by_cases hpu : pairwiseUnrelated (srcs.map (·.p)) = true
    · have hu := unrelated_of_pairwise srcs hpu
      simp only [hpu, Bool.not_true, Bool.false_eq_true, if_false] at h
      refine ⟨srcs, rfl, hu, ?_⟩
      cases hb : bodyStage sch root bd dec with
      | error e =>
        simp only [hb, Option.some.injEq] at h
        exact Or.inl ⟨e, rfl, h.symm⟩
      | ok m0 =>
        simp only [hb, Option.some.injEq] at h
        exact Or.inr ⟨m0, rfl, h.symm⟩
    · simp [hpu] at h

/-- a rejection by `stageExpect` is the rejection `transcode` gives, with the same error -/
theorem stageExpect_error (sch : Schema) (orc : Oracle) (root : MsgDesc) (bd : Binding) (dec : Dec) (rq : Request) (e : Err)
    (h : stageExpect sch orc root bd dec rq = some (.error e)) : transcode sch orc root bd dec rq = .error e := by
  obtain ⟨srcs, hs, hu, hcase⟩ := stageExpect_some h
  have heq := transcode_eq sch orc root bd dec rq
  rcases hcase with ⟨e', hb, hr⟩ | ⟨m0, hb, hr⟩
  · simp only [hb] at heq
    cases hr
    exact heq
  · simp only [hb] at heq
    rw [heq]
    exact popStage_error_exact hs hr.symm

/-- `stageExpect` is the declarative specification: its message satisfies `StageSpec`, `StageSpec` pins the
    populated leaves down uniquely, and `transcode` accepts with exactly those populated leaves. -/
theorem stageExpect_ok (sch : Schema) (orc : Oracle) (root : MsgDesc) (bd : Binding) (dec : Dec) (rq : Request) (l : Msg)
    (h : stageExpect sch orc root bd dec rq = some (.ok l)) :
    ∃ m0 srcs m, bodyStage sch root bd dec = .ok m0
        ∧ srcsOf sch root (allCalls sch root bd rq) = some srcs ∧ Unrelated srcs
        ∧ StageSpec sch orc m0 srcs l
        ∧ (∀ m', StageSpec sch orc m0 srcs m' → ∀ q, lget m' q = lget l q)
        ∧ transcode sch orc root bd dec rq = .ok m ∧ (∀ q, lget m q = lget l q) := by
  obtain ⟨srcs, hs, hu, hcase⟩ := stageExpect_some h
  have heq := transcode_eq sch orc root bd dec rq
  rcases hcase with ⟨e', hb, hr⟩ | ⟨m0, hb, hr⟩
  · cases hr
  · simp only [hb] at heq
    have hr' := hr.symm
    have hspec := stageApply_spec hu hr'
    obtain ⟨m, hm⟩ := popStage_succeeds (orc := orc) (m := m0) hs (stageApply_ok_parses hr')
    have hm' := popStage_ok hs hu hm
    refine ⟨m0, srcs, m, hb, hs, hu, hspec, ?_, ?_, ?_⟩
    · intro m' hm2
      exact stageSpec_agree (List.Perm.refl _) hm2 hspec
    · rw [heq]; exact hm
    · exact stageSpec_agree (List.Perm.refl _) hm' hspec

/-- completeness of the oracle on the theorem's domain: inside the hypotheses of `C04_refines` it is defined -/
theorem stageExpect_defined (sch : Schema) (orc : Oracle) (root : MsgDesc) (bd : Binding) (dec : Dec) (rq : Request)
    (srcs : List Src) (hs : srcsOf sch root (allCalls sch root bd rq) = some srcs) (hu : Unrelated srcs) :
    ∃ r, stageExpect sch orc root bd dec rq = some r := by
  unfold stageExpect
  simp only [hs, pairwise_of_unrelated srcs hu, Bool.not_true, Bool.false_eq_true, if_false]
  cases bodyStage sch root bd dec <;> exact ⟨_, rfl⟩

theorem expect_eq_stage (sch : Schema) (orc : Oracle) (root : MsgDesc) (bd : Binding) (dec : Dec) (rq : Request)
    (srcs : List Src) (hs : srcsOf sch root (allCalls sch root bd rq) = some srcs) (hu : Unrelated srcs) :
    expect sch orc root bd dec rq = stageExpect sch orc root bd dec rq := by
  obtain ⟨r, hr⟩ := stageExpect_defined sch orc root bd dec rq srcs hs hu
  unfold expect
  rw [hr]

end GB.C04
