import GB.C04.Model

/-!
  C04 — the order in which the keys of `PathParams` / `url.Values` are applied (repo fix fc13e30, D4d).

  `GB.C04.transcode` is the order-parametric core: it applies the path parameters and the query keys in the
  order in which the two lists of the `Request` are given. BEFORE the fix the code ranged over the two Go maps
  directly, i.e. it was `transcode` on an ARBITRARY permutation of the request's entries (the pre-fix model;
  the negative witnesses `C04_query_spelling_order_dependent_fails`, `C04_oneof_order_dependent_witness` are
  stated on it). AFTER the fix both loops collect the keys, `slices.Sort` them (Go string order = bytewise
  lexicographic) and apply them in that order: `transcodeSorted` = `transcode` on `sortReq rq`.
  Core-only Lean (part of the compiled driver).
-/

namespace GB.C04

/-- Go `string` comparison `a <= b`: bytewise lexicographic, a proper prefix is smaller. -/
def bytesLe : Bytes → Bytes → Bool
  | [], _ => true
  | _ :: _, [] => false
  | a :: as, b :: bs =>
    if a.toNat < b.toNat then true
    else if b.toNat < a.toNat then false
    else bytesLe as bs

/-- insert one map entry into a list of entries sorted by key -/
def insertKey {β : Type} (e : Bytes × β) : List (Bytes × β) → List (Bytes × β)
  | [] => [e]
  | x :: xs => if bytesLe e.1 x.1 then e :: x :: xs else x :: insertKey e xs

/-- `keys := maps.Keys(m); slices.Sort(keys); for _, k := range keys { … m[k] … }`: the entries of a Go map in
    sorted key order (a map has no two entries with one key, so the result does not depend on the sort used). -/
def sortKeys {β : Type} : List (Bytes × β) → List (Bytes × β)
  | [] => []
  | e :: es => insertKey e (sortKeys es)

/-- the request as the fixed code walks it: path parameters and query keys each in sorted key order -/
def sortReq (rq : Request) : Request :=
  { pathParams := sortKeys rq.pathParams, query := sortKeys rq.query }

/-- `standardRequestTranscoder.Transcode` AS CODED after fix fc13e30: body ⟶ path parameters in sorted key
    order ⟶ filtered query parameters in sorted key order. -/
def transcodeSorted (sch : Schema) (orc : Oracle) (root : MsgDesc) (bd : Binding) (dec : Dec) (rq : Request) : Except Err Msg :=
  transcode sch orc root bd dec (sortReq rq)

/-- the request stream after the fix (every message walks the keys in sorted order) -/
def streamTranscodeSorted (sch : Schema) (orc : Oracle) (root : MsgDesc) (bd : Binding) (rq : Request) (decs : List Dec) : List (Except Err Msg) :=
  streamTranscode sch orc root bd (sortReq rq) decs

/-! ## the order is a total order, sorting is canonical -/

theorem bytesLe_refl : ∀ a : Bytes, bytesLe a a = true
  | [] => rfl
  | a :: as => by simp [bytesLe, bytesLe_refl as]

theorem bytesLe_total : ∀ a b : Bytes, bytesLe a b = true ∨ bytesLe b a = true
  | [], _ => Or.inl rfl
  | _ :: _, [] => Or.inr rfl
  | a :: as, b :: bs => by
    unfold bytesLe
    by_cases h1 : a.toNat < b.toNat
    · simp [h1]
    · by_cases h2 : b.toNat < a.toNat
      · simp [h2]
      · simp [h1, h2]; exact bytesLe_total as bs

theorem bytesLe_antisymm : ∀ a b : Bytes, bytesLe a b = true → bytesLe b a = true → a = b
  | [], [], _, _ => rfl
  | [], _ :: _, _, h => by simp [bytesLe] at h
  | _ :: _, [], h, _ => by simp [bytesLe] at h
  | a :: as, b :: bs, h1, h2 => by
    unfold bytesLe at h1 h2
    by_cases l1 : a.toNat < b.toNat
    · have : ¬ b.toNat < a.toNat := by omega
      simp [l1, this] at h2
    · by_cases l2 : b.toNat < a.toNat
      · simp [l1, l2] at h1
      · simp [l1, l2] at h1 h2
        have hab : a = b := UInt8.toNat_inj.1 (by omega)
        rw [hab, bytesLe_antisymm as bs h1 h2]

theorem bytesLe_trans : ∀ a b c : Bytes, bytesLe a b = true → bytesLe b c = true → bytesLe a c = true
  | [], _, _, _, _ => by simp [bytesLe]
  | _ :: _, [], _, h, _ => by simp [bytesLe] at h
  | _ :: _, _ :: _, [], _, h => by simp [bytesLe] at h
  | a :: as, b :: bs, c :: cs, h1, h2 => by
    unfold bytesLe at h1 h2 ⊢
    by_cases ab : a.toNat < b.toNat
    · by_cases bc : b.toNat < c.toNat
      · have : a.toNat < c.toNat := by omega
        simp [this]
      · by_cases cb : c.toNat < b.toNat
        · simp [bc, cb] at h2
        · have : a.toNat < c.toNat := by omega
          simp [this]
    · by_cases ba : b.toNat < a.toNat
      · simp [ab, ba] at h1
      · simp [ab, ba] at h1
        by_cases bc : b.toNat < c.toNat
        · have : a.toNat < c.toNat := by omega
          simp [this]
        · by_cases cb : c.toNat < b.toNat
          · simp [bc, cb] at h2
          · simp [bc, cb] at h2
            have e1 : ¬ a.toNat < c.toNat := by omega
            have e2 : ¬ c.toNat < a.toNat := by omega
            simp [e1, e2]
            exact bytesLe_trans as bs cs h1 h2

/-- the order on map entries: by key -/
def keyLe {β : Type} (a b : Bytes × β) : Prop := bytesLe a.1 b.1 = true

theorem insertKey_perm {β : Type} (e : Bytes × β) : ∀ l : List (Bytes × β), (insertKey e l).Perm (e :: l)
  | [] => List.Perm.refl _
  | x :: xs => by
    unfold insertKey
    split
    · exact List.Perm.refl _
    · exact ((insertKey_perm e xs).cons x).trans (List.Perm.swap e x xs)

theorem sortKeys_perm {β : Type} : ∀ l : List (Bytes × β), (sortKeys l).Perm l
  | [] => List.Perm.refl _
  | e :: es => (insertKey_perm e (sortKeys es)).trans ((sortKeys_perm es).cons e)

theorem insertKey_sorted {β : Type} (e : Bytes × β) : ∀ l : List (Bytes × β), l.Pairwise keyLe → (insertKey e l).Pairwise keyLe
  | [], _ => by simp [insertKey]
  | x :: xs, h => by
    unfold insertKey
    have hx := List.pairwise_cons.1 h
    split
    · rename_i hle
      refine List.pairwise_cons.2 ⟨?_, h⟩
      intro y hy
      rcases List.mem_cons.1 hy with rfl | hy
      · exact hle
      · exact bytesLe_trans _ _ _ hle (hx.1 y hy)
    · rename_i hle
      refine List.pairwise_cons.2 ⟨?_, insertKey_sorted e xs hx.2⟩
      intro y hy
      rcases List.mem_cons.1 ((insertKey_perm e xs).subset hy) with rfl | hy
      · rcases bytesLe_total y.1 x.1 with h' | h'
        · exact absurd h' hle
        · exact h'
      · exact hx.1 y hy

theorem sortKeys_sorted {β : Type} : ∀ l : List (Bytes × β), (sortKeys l).Pairwise keyLe
  | [] => List.Pairwise.nil
  | e :: es => insertKey_sorted e _ (sortKeys_sorted es)

/-- Two listings of ONE Go map (no key twice, same entries) are sorted to the same list. -/
theorem sortKeys_canonical {β : Type} (l₁ l₂ : List (Bytes × β)) (hp : l₁.Perm l₂)
    (hk : (l₁.map (·.1)).Nodup) : sortKeys l₁ = sortKeys l₂ := by
  have p12 : (sortKeys l₁).Perm (sortKeys l₂) := (sortKeys_perm l₁).trans (hp.trans (sortKeys_perm l₂).symm)
  refine List.Perm.eq_of_pairwise (le := keyLe) ?_ (sortKeys_sorted l₁) (sortKeys_sorted l₂) p12
  intro a b ha hb hab hba
  have hkey : a.1 = b.1 := bytesLe_antisymm _ _ hab hba
  have ha1 : a ∈ l₁ := (sortKeys_perm l₁).subset ha
  have hb1 : b ∈ l₁ := hp.symm.subset ((sortKeys_perm l₂).subset hb)
  -- distinct keys: two entries of l₁ with one key are one entry
  clear p12 ha hb hab hba hp
  induction l₁ with
  | nil => cases ha1
  | cons x xs ih =>
    simp only [List.map_cons, List.nodup_cons] at hk
    rcases List.mem_cons.1 ha1 with rfl | ha'
    · rcases List.mem_cons.1 hb1 with rfl | hb'
      · rfl
      · exact absurd (hkey ▸ List.mem_map_of_mem (f := (·.1)) hb') hk.1
    · rcases List.mem_cons.1 hb1 with rfl | hb'
      · exact absurd (hkey ▸ List.mem_map_of_mem (f := (·.1)) ha') hk.1
      · exact ih hk.2 ha' hb'

theorem sortKeys_of_sorted {β : Type} : ∀ l : List (Bytes × β), l.Pairwise keyLe → sortKeys l = l
  | [], _ => rfl
  | e :: es, h => by
    have hx := List.pairwise_cons.1 h
    show insertKey e (sortKeys es) = e :: es
    rw [sortKeys_of_sorted es hx.2]
    cases es with
    | nil => rfl
    | cons y ys => simp [insertKey, show bytesLe e.1 y.1 = true from hx.1 y List.mem_cons_self]

theorem sortReq_idem (rq : Request) : sortReq (sortReq rq) = sortReq rq := by
  simp [sortReq, sortKeys_of_sorted _ (sortKeys_sorted _)]

end GB.C04
