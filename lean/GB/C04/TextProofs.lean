import GB.C04.Proofs
/-
  C04 — lemmas about the text forms of well-known types in path / query parameters (round 5):
  google.protobuf.Duration (`time.ParseDuration` + `durationpb.New`) and the wrapper types.
-/
set_option linter.unusedSimpArgs false
set_option linter.unusedVariables false
namespace GB.C04
open GB

theorem parseDigits_val {s : Bytes} {n : Nat} (h : parseDigits s = some n) : n = digitsVal 0 s := by
  unfold parseDigits at h
  by_cases hc : (s.isEmpty || !s.all isDigit) = true
  · rw [if_pos hc] at h; cases h
  · rw [if_neg hc] at h; cases h; rfl

/-! ### durationpb.New -/

/-- the (seconds, nanos) pair is the value: same sign, |nanos| < 10^9, seconds·10^9 + nanos = ns -/
theorem duration_split (ns : Int) :
    Int.tdiv ns 1000000000 * 1000000000 + Int.tmod ns 1000000000 = ns
    ∧ -1000000000 < Int.tmod ns 1000000000 ∧ Int.tmod ns 1000000000 < 1000000000
    ∧ (0 ≤ ns → 0 ≤ Int.tdiv ns 1000000000 ∧ 0 ≤ Int.tmod ns 1000000000)
    ∧ (ns ≤ 0 → Int.tdiv ns 1000000000 ≤ 0 ∧ Int.tmod ns 1000000000 ≤ 0) := by
  have h1 := Int.mul_tdiv_add_tmod ns 1000000000
  have h2 : Int.tmod ns 1000000000 < 1000000000 := Int.tmod_lt_of_pos ns (by decide)
  have h3 : -1000000000 < Int.tmod ns 1000000000 := Int.lt_tmod_of_pos ns (by decide)
  refine ⟨by omega, h3, h2, ?_, ?_⟩
  · intro h
    exact ⟨Int.tdiv_nonneg h (by decide), Int.tmod_nonneg _ h⟩
  · intro h
    have hn : 0 ≤ -ns := by omega
    have a := Int.tdiv_nonneg hn (b := 1000000000) (by decide)
    have b := Int.tmod_nonneg (1000000000) hn
    rw [Int.neg_tdiv] at a
    rw [Int.neg_tmod] at b
    constructor <;> omega

/-! ### time.ParseDuration: range -/

theorem durLoop_le : ∀ (fuel : Nat) (s : Bytes) (d d' : Nat), d ≤ 2 ^ 63 →
    durLoop fuel s d = some (some d') → d' ≤ 2 ^ 63 := by
  intro fuel
  induction fuel with
  | zero => intro s d d' _ h; simp [durLoop] at h
  | succ fuel ih =>
    intro s d d' hd h
    cases s with
    | nil => simp [durLoop] at h; omega
    | cons c rest =>
      simp only [durLoop] at h
      repeat' split at h
      all_goals first
        | (simp at h; done)
        | (rename_i hle; exact ih _ _ _ (by omega) h)

/-- an accepted duration is an int64 number of nanoseconds -/
theorem parseDurationGo_range (s : Bytes) (ns : Int) (h : parseDurationGo s = some (some ns)) :
    -(2 ^ 63 : Int) ≤ ns ∧ ns < 2 ^ 63 := by
  unfold parseDurationGo at h
  generalize durSign s = p at h
  by_cases h0 : p.2 = [48]
  · rw [if_pos h0] at h
    simp at h; subst h; decide
  · rw [if_neg h0] at h
    by_cases h1 : p.2 = []
    · rw [if_pos h1] at h; simp at h
    · rw [if_neg h1] at h
      cases hd : durLoop (p.2.length + 1) p.2 0 with
      | none => rw [hd] at h; simp [durFinish] at h
      | some r =>
        cases r with
        | none => rw [hd] at h; simp [durFinish] at h
        | some d =>
          rw [hd] at h
          have hle := durLoop_le _ _ 0 d (by decide) hd
          have hle' : ((d : Nat) : Int) ≤ 2 ^ 63 := by exact_mod_cast hle
          simp only [durFinish] at h
          cases hneg : p.1 with
          | true =>
            rw [hneg] at h
            simp at h; subst h
            omega
          | false =>
            rw [hneg] at h
            simp only [Bool.false_eq_true, if_false] at h
            by_cases hgt : d > 2 ^ 63 - 1
            · rw [if_pos hgt] at h; simp at h
            · rw [if_neg hgt] at h
              simp at h; subst h
              have : d ≤ 2 ^ 63 - 1 := by omega
              have h2 : ((d : Nat) : Int) ≤ 2 ^ 63 - 1 := by
                have h3 : ((2 ^ 63 - 1 : Nat) : Int) = 2 ^ 63 - 1 := by decide
                rw [← h3]; exact_mod_cast this
              omega

/-! ### the canonical proto3 JSON form `<digits>[.<digits>]s` -/

theorem takeWhile_digits_append (ds rest : Bytes) (hds : ds.all isDigit = true)
    (hr : ∀ c r, rest = c :: r → isDigit c = false) :
    (ds ++ rest).takeWhile isDigit = ds ∧ (ds ++ rest).dropWhile isDigit = rest := by
  induction ds with
  | nil =>
    cases rest with
    | nil => simp
    | cons c r => simp [List.takeWhile, List.dropWhile, hr c r rfl]
  | cons a ds ih =>
    simp only [List.all_cons, Bool.and_eq_true] at hds
    obtain ⟨ih1, ih2⟩ := ih hds.2
    simp [List.takeWhile, List.dropWhile, hds.1, ih1, ih2]

theorem isDigit_not_sign {c : UInt8} (h : isDigit c = true) : c ≠ 45 ∧ c ≠ 43 ∧ c ≠ 46 := by
  simp only [isDigit, Bool.and_eq_true, decide_eq_true_eq, UInt8.le_iff_toNat_le] at h
  have h48 : (48 : UInt8).toNat = 48 := by decide
  refine ⟨?_, ?_, ?_⟩ <;> (intro hc; subst hc; revert h; decide)

theorem durLoop_nil (fuel d : Nat) : durLoop (fuel + 1) [] d = some (some d) := by
  simp [durLoop]

theorem durSign_digit (c : UInt8) (rest : Bytes) (h : isDigit c = true) : durSign (c :: rest) = (false, c :: rest) := by
  obtain ⟨h1, h2, _⟩ := isDigit_not_sign h
  unfold durSign
  split
  · rename_i heq; simp at heq; exact absurd heq.1 h1
  · rename_i heq; simp at heq; exact absurd heq.1 h2
  · rfl

/-- **canonical proto3 JSON Duration text** `<digits>.<digits>s` with at most 9 fraction digits, inside the int64
    nanosecond range: the value is seconds·10^9 + fraction·10^(9-k), exactly. -/
theorem parseDurationGo_canonical (ds fs : Bytes) (hds : ds.all isDigit = true) (hne : ds ≠ [])
    (hfs : fs.all isDigit = true) (hk : fs.length ≤ 9)
    (hr : digitsVal 0 ds * 1000000000 + digitsVal 0 fs * 10 ^ (9 - fs.length) ≤ 9223372036854775807) :
    parseDurationGo (ds ++ 46 :: (fs ++ [115])) =
      some (some ((digitsVal 0 ds * 1000000000 + digitsVal 0 fs * 10 ^ (9 - fs.length) : Nat) : Int)) := by
  have h46 : isDigit 46 = false := by decide
  have h115 : isDigit 115 = false := by decide
  obtain ⟨t1, d1⟩ := takeWhile_digits_append ds (46 :: (fs ++ [115])) hds (by intro c r h; cases h; exact h46)
  obtain ⟨t2, d2⟩ := takeWhile_digits_append fs [115] hfs (by intro c r h; cases h; exact h115)
  have hu : ([115] : Bytes).takeWhile isUnitByte = [115] ∧ ([115] : Bytes).dropWhile isUnitByte = [] := by decide
  have hunit : durUnit [115] = some (1000000000, 9) := by decide
  cases ds with
  | nil => exact absurd rfl hne
  | cons c ds' =>
    have hc : isDigit c = true := by simp only [List.all_cons, Bool.and_eq_true] at hds; exact hds.1
    generalize hV : digitsVal 0 (c :: ds') = v at hr ⊢
    generalize hF : digitsVal 0 fs = f at hr ⊢
    have hpow : 1000000000 / 10 ^ fs.length = 10 ^ (9 - fs.length) := by
      have : (1000000000 : Nat) = 10 ^ 9 := by decide
      rw [this, Nat.pow_div hk (by decide)]
    generalize hP : 10 ^ (9 - fs.length) = P at hr hpow ⊢
    have hv : v ≤ 9223372036 := by omega
    unfold parseDurationGo
    rw [List.cons_append, durSign_digit c _ hc]
    have hn48 : ¬ (c :: (ds' ++ 46 :: (fs ++ [115])) = [48]) := by
      intro h; simp at h
    simp only [hn48, if_false, List.cons_ne_nil, List.length_cons]
    rw [durLoop]
    simp only [hc, Bool.or_true, Bool.not_true, Bool.false_eq_true, if_false]
    rw [← List.cons_append, t1, d1]
    simp only [t2, d2, hu.1, hu.2, hunit, hV, hF, hpow, List.isEmpty_cons, Bool.false_and, List.isEmpty_nil]
    have e1 : ¬ (v > 2 ^ 63) := by omega
    have e2 : ¬ (v > 2 ^ 63 / 1000000000) := by
      have : (2 : Nat) ^ 63 / 1000000000 = 9223372036 := by decide
      rw [this]; omega
    have e3 : (decide (f > 0) && decide (fs.length > 9)) = false := by
      have : ¬ fs.length > 9 := by omega
      simp [this]
    have e4 : v * 1000000000 + (if f > 0 then f * P else 0) = v * 1000000000 + f * P := by
      by_cases hf : f > 0
      · simp [hf]
      · have : f = 0 := by omega
        simp [this]
    have e5 : ¬ (v * 1000000000 + f * P > 2 ^ 63) := by omega
    have e6 : ¬ (0 + (v * 1000000000 + f * P) > 2 ^ 63) := by omega
    simp only [e1, e2, e3, e4, e5, e6, if_false, Bool.false_eq_true]
    have hlen : (ds' ++ 46 :: (fs ++ [115])).length + 1 = ((ds' ++ 46 :: (fs ++ [115])).length) + 1 := rfl
    rw [durLoop_nil]
    have e7 : ¬ (v * 1000000000 + f * P > 2 ^ 63 - 1) := by omega
    simp only [durFinish, Bool.false_eq_true, if_false, Nat.zero_add]
    rw [if_neg e7]

end GB.C04
