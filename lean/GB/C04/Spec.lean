import GB.C04.Model
/-
  C04 — specification: what the request message must be, stated per field and without any order of
  mutation (google/api/http.proto binding rules as in the property text):

    final f =  the path variable's value      if f is bound by a path variable
            |  the body's value               if the body covers f  ("*" or the body path is a prefix of f)
            |  the query parameter's value    if present, body ≠ "*", f not covered by body / path variables
            |  not populated                  otherwise
  — modulo presence of empty sub-messages (only populated leaves are compared).
  Values that do not parse ⇒ InvalidArgument; a body path that is not a field path of the request
  message ⇒ Internal (bad binding). Nothing else may appear in the message.

  `expectRules` gives the exact expected outcome for *simple* requests (every key names a field outright,
  keys do not overlap each other, no oneof is involved); the general rules `frameOK` / `mustFail`
  constrain every request.
-/
namespace GB.C04
open GB

/-- populated leaves of a message (sub-message presence is not compared) -/
def leaves (m : Msg) : Msg := m.filter (fun e => !(e.2 == Cell.present))

def related (p q : Path) : Bool := p.isPrefixOf q || q.isPrefixOf p

/-- Resolution of a dotted key to a field: every element names a field (`strict`: by proto name only;
    otherwise proto name first, then JSON name), every element but the last a singular message.
    Result: proto-name path, fields along the path (last = the leaf). `none` + position of failure. -/
def resolveGo (sch : Schema) (strict : Bool) : MsgDesc → List Bytes → Option (Path × List Field)
  | _, [] => none
  | md, [name] =>
    match (if strict then md.byName name else md.lookup name) with
    | none => none
    | some f => some ([f.name], [f])
  | md, name :: rest =>
    match (if strict then md.byName name else md.lookup name) with
    | none => none
    | some f =>
      if !isSingularMessage f then none
      else match subMsgDesc sch f with
        | none => none
        | some sub =>
          match resolveGo sch strict sub rest with
          | none => none
          | some (p, fs) => some (f.name :: p, f :: fs)

def firstUnknown (strict : Bool) (md : MsgDesc) (els : List Bytes) : Bool :=
  match els with
  | [] => true
  | name :: _ => ((if strict then md.byName name else md.lookup name)).isNone

def oneofFree (fs : List Field) : Bool := fs.all (fun f => f.oneof.isNone)

/-- oneof indices from 1000 up denote the synthetic one-member oneofs of proto3 `optional` fields
    (the driver numbers them so); they have no siblings. -/
def isSynthetic (f : Field) : Bool :=
  match f.oneof with
  | some o => o ≥ 1000
  | none => false

/-- no field on the path is a member of a real oneof; the leaf may be a proto3 `optional` field -/
def oneofSafe (fs : List Field) : Bool :=
  fs.dropLast.all (fun f => f.oneof.isNone) && (match fs.getLast? with
    | some f => f.oneof.isNone || isSynthetic f
    | none => true)

/-- the declared text forms (model-exact kinds and the oracle kinds alike) -/
def specParseLeaf (sch : Schema) (orc : Oracle) (p : Path) (f : Field) (values : List Bytes) : Option (Except Err Msg) :=
  match f.card with
  | .single =>
    match values with
    | [t] =>
      match f.kind with
      | .message ref =>
        match parseMessage orc ref t with
        | .error .fault => none
        | .error e => some (.error e)
        | .ok es => some (.ok (leaves (es.map (fun e => (p ++ e.1, e.2)))))
      | k =>
        match parseScalar sch orc k t with
        | .error .fault => none
        | .error e => some (.error e)
        | .ok v => some (.ok (if !f.presence && v.isZero then [] else [(p, .single v)]))
    | _ => some (.error .invalidArgument)
  | .list =>
    match parseAll sch orc f.kind values with
    | .error .fault => none
    | .error e => some (.error e)
    | .ok vs => some (.ok [(p, .list vs)])
  | .map kk =>
    match values with
    | [kt, vt] =>
      match parseScalar sch orc kk kt, parseElem sch orc f.kind vt with
      | .error .fault, _ => none
      | _, .error .fault => none
      | .error e, _ => some (.error e)
      | _, .error e => some (.error e)
      | .ok k, .ok v => some (.ok [(p, .map [(k, v)])])
    | _ => some (.error .invalidArgument)

/-- the message containing the leaf a key resolves to -/
def parentMd (sch : Schema) (strict : Bool) : MsgDesc → List Bytes → Option MsgDesc
  | _, [] => none
  | md, [_] => some md
  | md, name :: rest =>
    match (if strict then md.byName name else md.lookup name) with
    | none => none
    | some f =>
      if !isSingularMessage f then none
      else match subMsgDesc sch f with
        | none => none
        | some sub => parentMd sch strict sub rest

/-- only the leaf may be a member of a oneof (real, or the synthetic one of a proto3 `optional` field) -/
def leafOneofOK (fs : List Field) : Bool := fs.dropLast.all (fun f => f.oneof.isNone)

/-- the oneof group of a resolved leaf: (path of the containing message, oneof index, names of all members) -/
def groupOf (p : Path) (fs : List Field) (md : Option MsgDesc) : Option (Path × Nat × List Name) :=
  match fs.getLast?, md with
  | some f, some md =>
    match f.oneof with
    | some o => some (p.dropLast, o, (md.fields.filter (fun g => g.oneof == some o)).map (·.name))
    | none => none
  | _, _ => none

/-- one source of field values, resolved: the fields it covers (`at`) and what it contributes -/
structure Source where
  at_ : Path
  result : Except Err Msg
  group : Option (Path × Nat × List Name) := none

inductive BodyT where
  | noBody
  | bad                      -- not a field path of the request message
  | quirk                    -- accepted by the code but not a clean field path (trailing '.'): not specified
  | target (p : Path)        -- the path the body is decoded to ([] = whole message)

def bodyTarget (sch : Schema) (root : MsgDesc) (bd : Binding) : BodyT :=
  if bd.bodyPath.isEmpty then .noBody
  else if bd.bodyPath = wildcard then .target []
  else match resolveGo sch true root (splitDot bd.bodyPath) with
    | some (p, _) => .target p
    | none =>
      -- a single trailing '.' is ignored by the code ("a.b." is read as "a.b")
      if (splitDot bd.bodyPath).getLast? == some [] && (resolveGo sch true root (splitDot bd.bodyPath).dropLast).isSome then .quirk else .bad

def queryKey (key : Bytes) (values : List Bytes) : Bytes × List Bytes :=
  match splitMapKey key with
  | some (k, sub) => (k, sub :: values)
  | none => (key, values)

def pairwiseUnrelated : List Path → Bool
  | [] => true
  | p :: rest => rest.all (fun q => !related p q) && pairwiseUnrelated rest

def firstError : List (Except Err Msg) → Option Err
  | [] => none
  | .error e :: _ => some e
  | .ok _ :: rest => firstError rest

def okLeaves : List (Except Err Msg) → Msg
  | [] => []
  | .ok l :: rest => l ++ okLeaves rest
  | .error _ :: rest => okLeaves rest

/-- Exact expected outcome (`some`) for simple requests; `none` = the per-field rule does not pin the
    outcome down (overlapping keys, oneofs, keys that fail to resolve half-way, JSON-named path variables). -/
def expectRules (sch : Schema) (orc : Oracle) (root : MsgDesc) (bd : Binding) (dec : Dec) (rq : Request) : Option (Except Err Msg) :=
  match bodyTarget sch root bd with
  | .quirk => none
  | .bad => some (.error .internal)
  | bt =>
    let tgt : Option Path := match bt with
      | .target p => some p
      | _ => none
    -- the message the body is decoded into: parent of the body field
    let parent : Path := match tgt with
      | some p => p.dropLast
      | none => []
    let bodyDone : Option (Except Err Msg) := match tgt, dec with
      | none, _ => some (.ok [])
      | some _, .none => some (.ok [])
      | some _, .err => some (.error .invalidArgument)
      | some _, .eof => some (.error .eof)
      | some _, .ok es => some (.ok (leaves (es.map (fun e => (parent ++ e.1, e.2)))))
    -- every path the body populated, empty sub-messages included (what `WhichOneof` sees)
    -- (the sub-messages on the way to the body field are materialised by `traverseFieldPath` whatever the body is)
    let bodyAll : List Path := (List.range parent.length).map (fun i => parent.take (i + 1)) ++ (match tgt, dec with
      | some _, .ok es => es.map (fun e => parent ++ e.1)
      | _, _ => [])
    match bodyDone with
    | none => none
    | some (.error e) => some (.error e)
    | some (.ok bodyLeaves) =>
      -- path variables: proto-named, oneof-free, singular leaves; unknown top-level names are ignored
      let pps := rq.pathParams.filter (fun kv => !firstUnknown false root (splitDot kv.1))
      let ppRes := pps.map (fun kv => (resolveGo sch true root (splitDot kv.1), kv.2, parentMd sch true root (splitDot kv.1)))
      if ppRes.any (fun r => match r.1 with
          | none => true
          | some (_, fs) => !leafOneofOK fs || (match fs.getLast? with
              | some f => !(f.card == Card.single)
              | none => true)) then none
      else
        let ppSrc : List Source := ppRes.filterMap (fun r => match r.1 with
          | some (p, fs) => match fs.getLast? with
            | some f => (specParseLeaf sch orc p f [r.2.1]).map (fun res => ⟨p, res, groupOf p fs r.2.2⟩)
            | none => none
          | none => none)
        if ppSrc.length != ppRes.length then none
        else
          -- query parameters (unless body = "*"): resolved by proto or JSON name, not covered by the filter
          let seqs := filterSeqs bd rq.pathParams
          let qs := if bd.bodyPath = wildcard then [] else
            (rq.query.map (fun kv => queryKey kv.1 kv.2)).filter (fun kv => !firstUnknown false root (splitDot kv.1))
          let qRes := qs.map (fun kv => (resolveGo sch false root (splitDot kv.1), kv.2, parentMd sch false root (splitDot kv.1)))
          if qRes.any (fun r => match r.1 with
              | none => true
              | some (_, fs) => !leafOneofOK fs) then none
          else
            let qLive := qRes.filter (fun r => match r.1 with
              | some (p, _) => !hasCommonPrefix seqs p
              | none => false)
            let qSrc : List Source := qLive.filterMap (fun r => match r.1 with
              | some (p, fs) => match fs.getLast? with
                | some f => (specParseLeaf sch orc p f r.2.1).map (fun res => ⟨p, res, groupOf p fs r.2.2⟩)
                | none => none
              | none => none)
            if qSrc.length != qLive.length then none
            else
              let paths := ppSrc.map (·.at_) ++ qSrc.map (·.at_)
              let bodyRel := match tgt with
                | some t => qSrc.any (fun s => related s.at_ t) || ppSrc.any (fun s => s.at_.isPrefixOf t && s.at_ != t)
                | none => false
              if !pairwiseUnrelated paths || bodyRel then none
              else
                -- oneofs (only leaves can be members here). As coded, `populateFieldValueFromPath` refuses a member
                -- of a oneof one of whose members is already populated ("field already set for oneof"):
                --  * two keys into one oneof ⇒ InvalidArgument whatever the order (the second one is refused);
                --  * a key into a oneof a DIFFERENT member of which the body populated ⇒ InvalidArgument;
                --  * a path variable for the very member the body populated: the per-field rule says the path
                --    variable is written over the body (the code refuses: known finding D4c).
                let allSrc := ppSrc ++ qSrc
                let groups := allSrc.filterMap (fun s => s.group.map (fun g => (g.1, g.2.1)))
                let rec dup : List (Path × Nat) → Bool
                  | [] => false
                  | g :: rest => rest.any (fun h => h.1 == g.1 && h.2 == g.2) || dup rest
                let siblingInBody := allSrc.any (fun s => match s.group with
                  | some (par, _, members) =>
                    members.any (fun g => !(par ++ [g] == s.at_) && bodyAll.any (fun b => b == par ++ [g]))
                  | none => false)
                if dup groups || siblingInBody then some (.error .invalidArgument) else
                match firstError (ppSrc.map (·.result) ++ qSrc.map (·.result)) with
                | some e => some (.error e)
                | none =>
                  let kept := bodyLeaves.filter (fun e => !(ppSrc.any (fun s => s.at_.isPrefixOf e.1)))
                  some (.ok (kept ++ okLeaves (ppSrc.map (·.result)) ++ okLeaves (qSrc.map (·.result))))

/-- the request binds a proto3 `optional` field by a path variable while the decoded body also sets it -/
def pathVarOverBodyOptional (sch : Schema) (root : MsgDesc) (bd : Binding) (dec : Dec) (rq : Request) : Bool :=
  match dec with
  | .ok es =>
    let parent : Path := match bodyTarget sch root bd with
      | .target p => p.dropLast
      | _ => []
    rq.pathParams.any (fun kv => match resolveGo sch true root (splitDot kv.1) with
      | some (p, fs) => (match fs.getLast? with
          | some f => f.oneof.isSome
          | none => false) && es.any (fun e => parent ++ e.1 == p)
      | none => false)
  | _ => false

/-- General rule 1 (frame): every populated leaf of the result is accounted for by the body target, a
    path variable or an unfiltered query parameter (none if body = "*"). -/
def frameOK (sch : Schema) (root : MsgDesc) (bd : Binding) (dec : Dec) (rq : Request) (m : Msg) : Bool :=
  let bodyCovers (p : Path) : Bool := match bodyTarget sch root bd, dec with
    | .target t, .ok _ => t.isPrefixOf p
    | .quirk, .ok _ => true
    | _, _ => false
  let seqs := filterSeqs bd rq.pathParams
  (leaves m).all (fun e =>
    bodyCovers e.1
    || rq.pathParams.any (fun kv => match resolveGo sch false root (splitDot kv.1) with
        | some (p, _) => p.isPrefixOf e.1
        | none => false)
    || (!(bd.bodyPath = wildcard) && rq.query.any (fun kv =>
        match resolveGo sch false root (splitDot (queryKey kv.1 kv.2).1) with
        | some (p, _) => p.isPrefixOf e.1 && !hasCommonPrefix seqs p
        | none => false)))

/-- General rule 2: a path variable that names a singular scalar/enum/well-known field and does not parse
    must make the request fail. -/
def mustFail (sch : Schema) (orc : Oracle) (root : MsgDesc) (rq : Request) : Bool :=
  rq.pathParams.any (fun kv => match resolveGo sch false root (splitDot kv.1) with
    | some (p, fs) => match fs.getLast? with
      | some f => f.card == Card.single && (match specParseLeaf sch orc p f [kv.2] with
          | some (.error _) => true
          | _ => false)
      | none => false
    | none => false)

def errorAllowed (sch : Schema) (root : MsgDesc) (bd : Binding) (dec : Dec) (stream : Bool) : Err → Bool
  | .invalidArgument => true
  | .internal => match bodyTarget sch root bd with
    | .bad => true
    | _ => false
  | .eof => stream && (match dec with
    | .eof => true
    | _ => false)
  | .fault => false

end GB.C04
