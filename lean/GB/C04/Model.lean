import GB.Base.Bytes
/-
  C04 — executable model of request transcoding:
    transcoding/http.go   standardRequestTranscoder.Transcode / transcodeFunc / traverseFieldPath /
                          shouldParseQuery / queryParamFilter / standardRequestStream.Transcode
    internal/gwquery/query.go   DefaultQueryParser.Parse / PopulateFieldFromPath / normalizeFieldPath /
                          populateFieldValueFromPath / populateField / populateRepeatedField /
                          populateMapField / parseField / parseMessage / Bytes
    (utilities.DoubleArray.HasCommonPrefix is modelled as "some registered sequence is a prefix")
  plus the pieces of strconv / encoding/base64 / dynamicpb the result depends on.

  Request messages are FLAT finite maps: dotted path of field names (through singular message fields)
  ↦ cell. A singular sub-message that is present has a `present` cell; scalar fields that are not
  populated (`Has` = false) have no entry. Messages inside lists / maps are opaque blobs.
  Core-only Lean: this file is linked into the gbdriver executable.
-/
namespace GB.C04
open GB

abbrev Name := Bytes
abbrev Path := List Name

inductive Kind where
  | bool | int32 | int64 | uint32 | uint64 | float | double | string | bytes
  | enum (ref : Name)
  | message (ref : Name)
  deriving DecidableEq, Repr

inductive Card where
  | single | list
  | map (key : Kind)
  deriving DecidableEq, Repr

structure Field where
  name : Name
  json : Name
  number : Nat
  kind : Kind
  card : Card
  /-- `fd.HasPresence()` -/
  presence : Bool
  /-- index of the containing oneof (real or proto3-optional synthetic), `fd.ContainingOneof()` -/
  oneof : Option Nat
  deriving DecidableEq, Repr

structure MsgDesc where
  name : Name
  fields : List Field
  deriving Repr

structure EnumDesc where
  name : Name
  values : List (Name × Int)
  deriving Repr

/-- The target's own descriptors. There is deliberately no other source of type information. -/
structure Schema where
  enums : List EnumDesc
  msgs : List MsgDesc
  deriving Repr

def Schema.findMsg (s : Schema) (n : Name) : Option MsgDesc := s.msgs.find? (fun m => m.name == n)
def Schema.findEnum (s : Schema) (n : Name) : Option EnumDesc := s.enums.find? (fun e => e.name == n)

/-! ## values -/

inductive Val where
  | bool (b : Bool)
  | int (i : Int)          -- every integer kind and enum numbers
  | bytes (b : Bytes)      -- string and bytes
  | opaque (b : Bytes)     -- float/double bit patterns, messages inside lists/maps
  deriving DecidableEq, Repr

inductive Cell where
  | present                         -- a singular sub-message exists (possibly empty)
  | single (v : Val)
  | list (vs : List Val)
  | map (es : List (Val × Val))
  deriving DecidableEq, Repr

abbrev Msg := List (Path × Cell)

def Msg.get (m : Msg) (p : Path) : Option Cell :=
  match m with
  | [] => none
  | (q, c) :: rest => if q = p then some c else Msg.get rest p

def Msg.has (m : Msg) (p : Path) : Bool := (Msg.get m p).isSome

def Msg.erase (m : Msg) (p : Path) : Msg := m.filter (fun e => !(e.1 == p))

/-- `Set`: replace the cell at `p`. -/
def Msg.put (m : Msg) (p : Path) (c : Cell) : Msg := (p, c) :: Msg.erase m p

/-- `Clear` of a field including everything below it. -/
def Msg.eraseTree (m : Msg) (p : Path) : Msg := m.filter (fun e => !(p.isPrefixOf e.1))

/-- dynamicpb `isSet` for a scalar without presence: zero values are not populated. -/
def Val.isZero : Val → Bool
  | .bool b => !b
  | .int i => i == 0
  | .bytes b => b.isEmpty
  | .opaque b => b.all (· == 0)

/-! ## errors -/

inductive Err where
  | invalidArgument
  | internal
  | eof          -- stream only: wrapped io.EOF, "end of stream" (not a status error)
  | fault        -- the model's inputs are not well formed (dangling type reference, oracle miss)
  deriving DecidableEq, Repr

instance {ε α} [DecidableEq ε] [DecidableEq α] : DecidableEq (Except ε α)
  | .ok a, .ok b => if h : a = b then isTrue (by rw [h]) else isFalse (fun h' => by cases h'; exact h rfl)
  | .error a, .error b => if h : a = b then isTrue (by rw [h]) else isFalse (fun h' => by cases h'; exact h rfl)
  | .ok _, .error _ => isFalse (fun h' => by cases h')
  | .error _, .ok _ => isFalse (fun h' => by cases h')

/-! ## strconv -/

def isDigit (c : UInt8) : Bool := 48 ≤ c && c ≤ 57

/-- value of a digit string read left to right (accumulator form). -/
def digitsVal : Nat → Bytes → Nat
  | acc, [] => acc
  | acc, c :: rest => digitsVal (acc * 10 + (c.toNat - 48)) rest

/-- non-empty, decimal digits only (base 10: no underscores, no prefixes). -/
def parseDigits (s : Bytes) : Option Nat :=
  if s.isEmpty || !s.all isDigit then none else some (digitsVal 0 s)

/-- `strconv.ParseUint(s, 10, bits)` -/
def parseUint (s : Bytes) (bits : Nat) : Option Nat :=
  match parseDigits s with
  | none => none
  | some n => if n < 2 ^ bits then some n else none

/-- `strconv.ParseInt(s, 10, bits)` (bits = 32 or 64); `strconv.Atoi` = bits 64. -/
def parseInt (s : Bytes) (bits : Nat) : Option Int :=
  match s with
  | [] => none
  | c :: rest =>
    let neg := c == 45
    let ds := if c == 43 || c == 45 then rest else s
    match parseDigits ds with
    | none => none
    | some n =>
      let cutoff := 2 ^ (bits - 1)
      if !neg && n ≥ cutoff then none
      else if neg && n > cutoff then none
      else some (if neg then -(n : Int) else (n : Int))

/-- `strconv.ParseBool` -/
def parseBool (s : Bytes) : Option Bool :=
  if s = [49] || s = [116] || s = [84] || s = [84, 82, 85, 69] || s = [116, 114, 117, 101] || s = [84, 114, 117, 101] then some true
  else if s = [48] || s = [102] || s = [70] || s = [70, 65, 76, 83, 69] || s = [102, 97, 108, 115, 101] || s = [70, 97, 108, 115, 101] then some false
  else none

/-- Go conversion `int32(i)` / `protoreflect.EnumNumber(i)` of an `int`. -/
def wrapInt32 (i : Int) : Int := (i + 2147483648) % 4294967296 - 2147483648

/-! ## unicode/utf8 -/

def isCont (c : UInt8) : Bool := 128 ≤ c && c ≤ 191

/-- `utf8.ValidString`: a byte-level recogniser of well-formed UTF-8 (Unicode Table 3-7): no overlong
    forms (C0, C1, E0 80..9F, F0 80..8F), no surrogates (ED A0..BF), nothing above U+10FFFF (F4 90.., F5..FF),
    no truncated sequence, no stray continuation byte. -/
def validUTF8 : Bytes → Bool
  | [] => true
  | b0 :: rest =>
    if b0 < 128 then validUTF8 rest
    else if 194 ≤ b0 && b0 ≤ 223 then
      match rest with
      | b1 :: r => isCont b1 && validUTF8 r
      | _ => false
    else if 224 ≤ b0 && b0 ≤ 239 then
      match rest with
      | b1 :: b2 :: r =>
        (if b0 == 224 then 160 ≤ b1 && b1 ≤ 191
         else if b0 == 237 then 128 ≤ b1 && b1 ≤ 159
         else isCont b1) && isCont b2 && validUTF8 r
      | _ => false
    else if 240 ≤ b0 && b0 ≤ 244 then
      match rest with
      | b1 :: b2 :: b3 :: r =>
        (if b0 == 240 then 144 ≤ b1 && b1 ≤ 191
         else if b0 == 244 then 128 ≤ b1 && b1 ≤ 143
         else isCont b1) && isCont b2 && isCont b3 && validUTF8 r
      | _ => false
    else false

/-! ## encoding/base64 (padded, non-strict, '\r' '\n' ignored) -/

def b64val (url : Bool) (c : UInt8) : Option Nat :=
  if 65 ≤ c && c ≤ 90 then some (c.toNat - 65)
  else if 97 ≤ c && c ≤ 122 then some (c.toNat - 97 + 26)
  else if 48 ≤ c && c ≤ 57 then some (c.toNat - 48 + 52)
  else if (!url && c == 43) || (url && c == 45) then some 62
  else if (!url && c == 47) || (url && c == 95) then some 63
  else none

def b64quanta (url : Bool) : Bytes → Option Bytes
  | [] => some []
  | a :: b :: c :: d :: rest =>
    match b64val url a, b64val url b with
    | some va, some vb =>
      if c == 61 then
        -- "xx==" must end the input
        if d == 61 && rest.isEmpty then some [UInt8.ofNat ((va * 64 + vb) / 16 % 256)] else none
      else match b64val url c with
        | none => none
        | some vc =>
          if d == 61 then
            if rest.isEmpty then
              let n := (va * 64 + vb) * 64 + vc
              some [UInt8.ofNat (n / 1024 % 256), UInt8.ofNat (n / 4 % 256)]
            else none
          else match b64val url d with
            | none => none
            | some vd =>
              let n := ((va * 64 + vb) * 64 + vc) * 64 + vd
              match b64quanta url rest with
              | none => none
              | some r => some (UInt8.ofNat (n / 65536 % 256) :: UInt8.ofNat (n / 256 % 256) :: UInt8.ofNat (n % 256) :: r)
    | _, _ => none
  | _ => none

/-- `base64.StdEncoding.DecodeString` (url = false) / `base64.URLEncoding.DecodeString` (url = true). -/
def b64decode (url : Bool) (s : Bytes) : Option Bytes :=
  b64quanta url (s.filter (fun c => !(c == 10 || c == 13)))

/-- `gwquery.Bytes`: standard alphabet first, URL alphabet second. -/
def parseBytes (s : Bytes) : Option Bytes :=
  match b64decode false s with
  | some b => some b
  | none => b64decode true s

/-! ## strings -/

/-- `strings.Split(s, sep)` for a one-byte separator: always at least one element. -/
def splitOnByte (sep : UInt8) : Bytes → List Bytes
  | [] => [[]]
  | c :: rest =>
    if c == sep then [] :: splitOnByte sep rest
    else match splitOnByte sep rest with
      | [] => [[c]]            -- unreachable: the result is never empty
      | h :: t => (c :: h) :: t

def splitDot (s : Bytes) : List Bytes := splitOnByte 46 s

/-- index of the last occurrence of `c` -/
def lastIndexOf (c : UInt8) (s : Bytes) : Option Nat :=
  let rec go (i : Nat) (best : Option Nat) : Bytes → Option Nat
    | [] => best
    | x :: rest => go (i + 1) (if x == c then some i else best) rest
  go 0 none s

/-- `valuesKeyRegexp = ^(.*)\[(.*)\]$`: no '\n' anywhere, last byte ']', split at the last '['. -/
def splitMapKey (key : Bytes) : Option (Bytes × Bytes) :=
  if key.contains 10 then none
  else match key.getLast? with
    | some 93 =>
      let body := key.dropLast
      match lastIndexOf 91 body with
      | none => none
      | some i => some (body.take i, body.drop (i + 1))
    | _ => none

/-! ## parse oracle: results of the libraries the model does not look into -/

inductive Parsed where
  | err
  | val (v : Val)                       -- float / double
  | msg (blob : Bytes) (entries : Msg)  -- a well-known-type message: blob (list/map element form) and flat entries
  deriving Repr

/-- `tag` = "float" | "double" | a message full name. `none` = the harness did not supply the entry. -/
abbrev Oracle := Name → Bytes → Option Parsed

def tagFloat : Name := ascii "float"
def tagDouble : Name := ascii "double"

def wkt (s : String) : Name := ascii ("google.protobuf." ++ s)
def nValue : Name := ascii "value"
def nPaths : Name := ascii "paths"

def wInt64 := wkt "Int64Value"
def wInt32 := wkt "Int32Value"
def wUInt64 := wkt "UInt64Value"
def wUInt32 := wkt "UInt32Value"
def wBool := wkt "BoolValue"
def wString := wkt "StringValue"
def wBytes := wkt "BytesValue"
def wFieldMask := wkt "FieldMask"
def wTimestamp := wkt "Timestamp"
def wDuration := wkt "Duration"
def wDouble := wkt "DoubleValue"
def wFloat := wkt "FloatValue"
def wValue := wkt "Value"
def wStruct := wkt "Struct"

/-- a wrapper message `{value: v}` as flat entries relative to the wrapper (zero ⇒ field not populated). -/
def wrapperEntries (v : Val) : Msg := if v.isZero then [] else [([nValue], .single v)]

def optToExcept {α} : Option α → Except Err α
  | some a => .ok a
  | none => .error .invalidArgument

/-- `parseField` for the non-message kinds. -/
def parseScalar (sch : Schema) (orc : Oracle) (k : Kind) (text : Bytes) : Except Err Val :=
  match k with
  | .bool => (optToExcept (parseBool text)).map .bool
  | .int32 => (optToExcept (parseInt text 32)).map .int
  | .int64 => (optToExcept (parseInt text 64)).map .int
  | .uint32 => (optToExcept (parseUint text 32)).map (fun n => Val.int (Int.ofNat n))
  | .uint64 => (optToExcept (parseUint text 64)).map (fun n => Val.int (Int.ofNat n))
  | .string => if validUTF8 text then .ok (.bytes text) else .error .invalidArgument   -- proto3 strings must be valid UTF-8
  | .bytes => (optToExcept (parseBytes text)).map .bytes
  | .float =>
    match orc tagFloat text with
    | some (.val v) => .ok v
    | some .err => .error .invalidArgument
    | _ => .error .fault
  | .double =>
    match orc tagDouble text with
    | some (.val v) => .ok v
    | some .err => .error .invalidArgument
    | _ => .error .fault
  | .enum ref =>
    match sch.findEnum ref with
    | none => .error .fault
    | some e =>
      match e.values.find? (fun nv => nv.1 == text) with
      | some nv => .ok (.int nv.2)
      | none =>
        match parseInt text 64 with          -- strconv.Atoi
        | none => .error .invalidArgument
        | some i =>
          let n := wrapInt32 i               -- protoreflect.EnumNumber(i)
          if e.values.any (fun nv => nv.2 == n) then .ok (.int n) else .error .invalidArgument
  | .message _ => .error .fault              -- not a scalar kind

/-! ### google.protobuf.Duration: `time.ParseDuration` + `durationpb.New` -/

def nSeconds : Name := ascii "seconds"
def nNanos : Name := ascii "nanos"

/-- `unitMap` of package time: nanoseconds per unit, and the number of fraction digits up to which
    `float64(f) * (float64(unit) / scale)` is exact integer arithmetic (unit / 10^k is an integer, every operand and the
    product is below 2^53). With more digits the Go code rounds through float64: outside the modelled domain. -/
def durUnit (u : Bytes) : Option (Nat × Nat) :=
  if u = [110, 115] then some (1, 0)                                   -- ns
  else if u = [117, 115] || u = [194, 181, 115] || u = [206, 188, 115] then some (1000, 3)   -- us, µs (U+00B5), μs (U+03BC)
  else if u = [109, 115] then some (1000000, 6)                         -- ms
  else if u = [115] then some (1000000000, 9)                           -- s
  else if u = [109] then some (60000000000, 10)                         -- m
  else if u = [104] then some (3600000000000, 11)                       -- h
  else none

def isUnitByte (c : UInt8) : Bool := !(c == 46 || isDigit c)

/-- the loop of `time.ParseDuration` over `([0-9]*(\.[0-9]*)?[a-z]+)+`, `d` = nanoseconds so far.
    `none` = a fraction with more digits than the exact domain (see `durUnit`); `some none` = an error return. -/
def durLoop : Nat → Bytes → Nat → Option (Option Nat)
  | 0, _, _ => some none
  | fuel + 1, s, d =>
    match s with
    | [] => some (some d)
    | c :: _ =>
      if !(c == 46 || isDigit c) then some none else
      let ds := s.takeWhile isDigit          -- leadingInt
      let s1 := s.dropWhile isDigit
      let v := digitsVal 0 ds
      if v > 2 ^ 63 then some none else      -- errLeadingInt
      let fr : Bytes × Bytes := match s1 with
        | 46 :: r => (r.takeWhile isDigit, r.dropWhile isDigit)     -- leadingFraction
        | _ => ([], s1)
      let fs := fr.1
      let s2 := fr.2
      if ds.isEmpty && fs.isEmpty then some none else              -- no digits (".s")
      let u := s2.takeWhile isUnitByte
      let s3 := s2.dropWhile isUnitByte
      if u.isEmpty then some none else                              -- missing unit
      match durUnit u with
      | none => some none                                           -- unknown unit
      | some (unit, maxk) =>
        if v > 2 ^ 63 / unit then some none else                    -- overflow
        let f := digitsVal 0 fs
        if f > 0 && fs.length > maxk then none else                 -- float64 rounding: not modelled
        let v2 := v * unit + (if f > 0 then f * (unit / 10 ^ fs.length) else 0)
        if v2 > 2 ^ 63 then some none else
        if d + v2 > 2 ^ 63 then some none else
        durLoop fuel s3 (d + v2)

/-- `[-+]?` -/
def durSign : Bytes → Bool × Bytes
  | 45 :: r => (true, r)
  | 43 :: r => (false, r)
  | s => (false, s)

/-- the sign and the final range check -/
def durFinish (neg : Bool) : Option (Option Nat) → Option (Option Int)
  | none => none
  | some none => some none
  | some (some d) =>
    if neg then some (some (-(d : Int)))
    else if d > 2 ^ 63 - 1 then some none
    else some (some (d : Int))

/-- `time.ParseDuration`: `none` = outside the modelled domain, `some none` = error, `some (some ns)`. -/
def parseDurationGo (s : Bytes) : Option (Option Int) :=
  if (durSign s).2 = [48] then some (some 0)
  else if (durSign s).2 = [] then some none
  else durFinish (durSign s).1 (durLoop ((durSign s).2.length + 1) (durSign s).2 0)

/-- `durationpb.New(d)`: `secs := nanos / 1e9; nanos -= secs * 1e9` (Go division truncates toward zero); flat
    entries, zero fields not populated -/
def durationEntries (ns : Int) : Msg :=
  let secs := Int.tdiv ns 1000000000
  let nanos := Int.tmod ns 1000000000
  (if secs = 0 then [] else [([nSeconds], Cell.single (.int secs))]) ++
  (if nanos = 0 then [] else [([nNanos], Cell.single (.int nanos))])

/-- `parseMessage`: flat entries of the resulting message, relative to it. -/
def parseMessage (orc : Oracle) (ref : Name) (text : Bytes) : Except Err Msg :=
  if ref = wInt64 then (optToExcept (parseInt text 64)).map (fun i => wrapperEntries (.int i))
  else if ref = wInt32 then (optToExcept (parseInt text 32)).map (fun i => wrapperEntries (.int i))
  else if ref = wUInt64 then (optToExcept (parseUint text 64)).map (fun n => wrapperEntries (.int (Int.ofNat n)))
  else if ref = wUInt32 then (optToExcept (parseUint text 32)).map (fun n => wrapperEntries (.int (Int.ofNat n)))
  else if ref = wBool then (optToExcept (parseBool text)).map (fun b => wrapperEntries (.bool b))
  else if ref = wString then (if validUTF8 text then .ok (wrapperEntries (.bytes text)) else .error .invalidArgument)
  else if ref = wBytes then (optToExcept (parseBytes text)).map (fun b => wrapperEntries (.bytes b))
  else if ref = wFieldMask then
    -- the whole value is checked, then split
    (if validUTF8 text then .ok [([nPaths], .list ((splitOnByte 44 text).map .bytes))] else .error .invalidArgument)
  else if ref = wDuration then
    match parseDurationGo text with
    | some (some ns) => .ok (durationEntries ns)
    | some none => .error .invalidArgument
    | none =>
      -- a fraction finer than the unit's exact range: Go rounds through float64 (post-library oracle)
      match orc ref text with
      | some (.msg _ es) => .ok es
      | some .err => .error .invalidArgument
      | _ => .error .fault
  else if ref = wTimestamp || ref = wDouble || ref = wFloat || ref = wValue || ref = wStruct then
    match orc ref text with
    | some (.msg _ es) => .ok es
    | some .err => .error .invalidArgument
    | _ => .error .fault
  else .error .invalidArgument             -- "unsupported message type"

/-- `parseField` for an element of a list / a map value: messages are carried as blobs. -/
def parseElem (sch : Schema) (orc : Oracle) (k : Kind) (text : Bytes) : Except Err Val :=
  match k with
  | .message ref =>
    match parseMessage orc ref text with
    | .error e => .error e
    | .ok _ =>
      match orc ref text with
      | some (.msg blob _) => .ok (.opaque blob)
      | _ => .error .fault
  | k => parseScalar sch orc k text

/-! ## field lookup and mutation (protoreflect / dynamicpb) -/

def isSingularMessage (f : Field) : Bool :=
  match f.kind, f.card with
  | .message _, .single => true
  | _, _ => false

def MsgDesc.byName (md : MsgDesc) (n : Name) : Option Field := md.fields.find? (fun f => f.name == n)
def MsgDesc.byJSON (md : MsgDesc) (n : Name) : Option Field := md.fields.find? (fun f => f.json == n)

/-- `fields.ByName(n)`, then `fields.ByJSONName(n)` -/
def MsgDesc.lookup (md : MsgDesc) (n : Name) : Option Field :=
  match md.byName n with
  | some f => some f
  | none => md.byJSON n

/-- `clearOtherOneofFields` -/
def clearOneofSiblings (m : Msg) (md : MsgDesc) (pre : Path) (fd : Field) : Msg :=
  match fd.oneof with
  | none => m
  | some o =>
    md.fields.foldl (fun acc g => if g.oneof == some o && !(g.name == fd.name) then Msg.eraseTree acc (pre ++ [g.name]) else acc) m

/-- `msg.Mutable(fd)` on a singular message field: materialises an empty sub-message (clearing oneof siblings). -/
def mutableMsg (m : Msg) (md : MsgDesc) (pre : Path) (fd : Field) : Msg :=
  if Msg.has m (pre ++ [fd.name]) then m
  else Msg.put (clearOneofSiblings m md pre fd) (pre ++ [fd.name]) .present

/-- `msgValue.WhichOneof(of) != nil` for the oneof containing `fd` -/
def oneofAlreadySet (m : Msg) (md : MsgDesc) (pre : Path) (fd : Field) : Bool :=
  match fd.oneof with
  | none => false
  | some o => md.fields.any (fun g => g.oneof == some o && Msg.has m (pre ++ [g.name]))

def subMsgDesc (sch : Schema) (fd : Field) : Option MsgDesc :=
  match fd.kind with
  | .message ref => sch.findMsg ref
  | _ => none

/-! ## transcoding/http.go traverseFieldPath -/

structure Target where
  msg : Msg            -- the request message after the `Mutable` side effects
  pre : Path           -- path of the message the body is decoded into
  fd : Option Field    -- the body field (none = whole message)
  deriving DecidableEq

/-- the loop of traverseFieldPath over the elements of `strings.Split(path, ".")`. Every failure is an
    error of the binding itself. -/
def traverseEls (sch : Schema) : MsgDesc → Path → Msg → Option Field → List Bytes → Except Err Target
  | _, pre, m, fd, [] => .ok ⟨m, pre, fd⟩
  | md, pre, m, fd, elem :: rest =>
    let foundSep := !rest.isEmpty
    if foundSep && elem.isEmpty then .error .internal            -- "contains empty element"
    else if !foundSep && elem.isEmpty then .ok ⟨m, pre, fd⟩       -- loop condition false
    else match md.byName elem with
      | none => .error .internal                                  -- "no field found"
      | some f =>
        if rest.isEmpty || rest == [[]] then .ok ⟨m, pre, some f⟩  -- `rest == ""`: last element (a trailing '.' is ignored)
        else if !isSingularMessage f then .error .internal        -- "is not a message"
        else match subMsgDesc sch f with
          | none => .error .fault
          | some sub => traverseEls sch sub (pre ++ [f.name]) (mutableMsg m md pre f) (some f) rest

def wildcard : Bytes := [42]

def traverseFieldPath (sch : Schema) (root : MsgDesc) (m : Msg) (path : Bytes) : Except Err Target :=
  if path.isEmpty || path = wildcard then .ok ⟨m, [], none⟩
  else traverseEls sch root [] m none (splitDot path)

/-! ## gwquery populateFieldValueFromPath -/

def parseAll (sch : Schema) (orc : Oracle) (k : Kind) : List Bytes → Except Err (List Val)
  | [] => .ok []
  | t :: rest =>
    match parseElem sch orc k t with
    | .error e => .error e
    | .ok v =>
      match parseAll sch orc k rest with
      | .error e => .error e
      | .ok vs => .ok (v :: vs)

/-- the part of populateFieldValueFromPath after the path walk. -/
def setLeaf (sch : Schema) (orc : Oracle) (md : MsgDesc) (pre : Path) (m : Msg) (fd : Field) (values : List Bytes) : Except Err Msg :=
  let p := pre ++ [fd.name]
  if oneofAlreadySet m md pre fd then .error .invalidArgument
  else match fd.card with
    | .list =>
      match parseAll sch orc fd.kind values with
      | .error e => .error e
      | .ok vs =>
        let old := match Msg.get m p with
          | some (.list l) => l
          | _ => []
        .ok (Msg.put m p (.list (old ++ vs)))
    | .map kk =>
      match values with
      | [kt, vt] =>
        match parseScalar sch orc kk kt with
        | .error e => .error e
        | .ok k =>
          match parseElem sch orc fd.kind vt with
          | .error e => .error e
          | .ok v =>
            let old := match Msg.get m p with
              | some (.map es) => es
              | _ => []
            .ok (Msg.put m p (.map (old.filter (fun e => !(e.1 == k)) ++ [(k, v)])))
      | _ => .error .invalidArgument
    | .single =>
      match values with
      | [t] =>
        match fd.kind with
        | .message ref =>
          match parseMessage orc ref t with
          | .error e => .error e
          | .ok es => .ok (es.map (fun e => (p ++ e.1, e.2)) ++ Msg.put (Msg.eraseTree m p) p .present)
        | k =>
          match parseScalar sch orc k t with
          | .error e => .error e
          | .ok v => .ok (if !fd.presence && v.isZero then Msg.erase m p else Msg.put m p (.single v))
      | _ => .error .invalidArgument     -- "too many values" (no values is excluded by the caller)

def populateGo (sch : Schema) (orc : Oracle) : MsgDesc → Path → Msg → List Bytes → List Bytes → Except Err Msg
  | _, _, _, [], _ => .error .invalidArgument                    -- "no field path"
  | md, pre, m, [name], values =>
    match md.lookup name with
    | none => .ok m                                              -- unknown parameter: ignored
    | some fd => setLeaf sch orc md pre m fd values
  | md, pre, m, name :: rest, values =>
    match md.lookup name with
    | none => .ok m
    | some fd =>
      if !isSingularMessage fd then .error .invalidArgument       -- "is not a message"
      else match subMsgDesc sch fd with
        | none => .error .fault
        | some sub => populateGo sch orc sub (pre ++ [fd.name]) (mutableMsg m md pre fd) rest values

def populateFieldValueFromPath (sch : Schema) (orc : Oracle) (root : MsgDesc) (m : Msg) (fieldPath : List Bytes) (values : List Bytes) : Except Err Msg :=
  if fieldPath.isEmpty then .error .invalidArgument
  else if values.isEmpty then .error .invalidArgument
  else populateGo sch orc root [] m fieldPath values

/-- `normalizeFieldPath`; `none` = "return the initial field path". Navigation is by descriptors only. -/
def normalizeGo (sch : Schema) : MsgDesc → List Bytes → Option (List Bytes)
  | _, [] => some []
  | md, [name] =>
    match md.lookup name with
    | none => none
    | some fd => some [fd.name]
  | md, name :: rest =>
    match md.lookup name with
    | none => none
    | some fd =>
      if !isSingularMessage fd then none
      else match subMsgDesc sch fd with
        | none => none
        | some sub =>
          match normalizeGo sch sub rest with
          | none => none
          | some r => some (fd.name :: r)

def normalizeFieldPath (sch : Schema) (root : MsgDesc) (fieldPath : List Bytes) : List Bytes :=
  match normalizeGo sch root fieldPath with
  | some p => p
  | none => fieldPath

/-- `utilities.DoubleArray.HasCommonPrefix`: some registered sequence is a prefix of `seq`. -/
def hasCommonPrefix (seqs : List (List Bytes)) (seq : List Bytes) : Bool := seqs.any (fun s => s.isPrefixOf seq)

/-! ## transcodeFunc -/

/-- what the marshaler decoded from the request body into the (fresh) body target — a parameter
    (the JSON codec is property C09's). Entries are relative to the target message. -/
inductive Dec where
  | none                 -- no body bytes (unary: `len(b) == 0`)
  | err                  -- the marshaler rejected the body
  | eof                  -- stream: io.EOF from the decoder
  | ok (entries : Msg)
  deriving Repr

structure Binding where
  bodyPath : Bytes       -- `Binding.RequestBodyPath` ("" = no body, "*" = whole message)
  deriving Repr

structure Request where
  /-- `PathParams` in the iteration order the Go runtime happened to pick -/
  pathParams : List (Bytes × Bytes)
  /-- `RawRequest.URL.Query()` in the iteration order the Go runtime happened to pick -/
  query : List (Bytes × List Bytes)
  deriving Repr

def bodyStage (sch : Schema) (root : MsgDesc) (bd : Binding) (dec : Dec) : Except Err Msg :=
  if bd.bodyPath.isEmpty then .ok []
  else match traverseFieldPath sch root [] bd.bodyPath with
    | .error e => .error e
    | .ok t =>
      match dec with
      | .none => .ok t.msg
      | .err => .error .invalidArgument
      | .eof => .error .eof
      | .ok es => .ok (es.foldl (fun acc e => Msg.put acc (t.pre ++ e.1) e.2) t.msg)

def pathStage (sch : Schema) (orc : Oracle) (root : MsgDesc) : Msg → List (Bytes × Bytes) → Except Err Msg
  | m, [] => .ok m
  | m, (k, v) :: rest =>
    match populateFieldValueFromPath sch orc root m (splitDot k) [v] with
    | .error e => .error e
    | .ok m' => pathStage sch orc root m' rest

/-- `queryParamFilter`: the sequences registered in the DoubleArray. -/
def filterSeqs (bd : Binding) (pathParams : List (Bytes × Bytes)) : List (List Bytes) :=
  (if bd.bodyPath.isEmpty then [] else [splitDot bd.bodyPath]) ++ pathParams.map (fun kv => splitDot kv.1)

/-- one iteration of `DefaultQueryParser.Parse` -/
def queryOne (sch : Schema) (orc : Oracle) (root : MsgDesc) (seqs : List (List Bytes)) (m : Msg) (key : Bytes) (values : List Bytes) : Except Err Msg :=
  let kv : Bytes × List Bytes := match splitMapKey key with
    | some (k, sub) => (k, sub :: values)
    | none => (key, values)
  let fieldPath := normalizeFieldPath sch root (splitDot kv.1)
  if hasCommonPrefix seqs fieldPath then .ok m
  else populateFieldValueFromPath sch orc root m fieldPath kv.2

def queryStage (sch : Schema) (orc : Oracle) (root : MsgDesc) (seqs : List (List Bytes)) : Msg → List (Bytes × List Bytes) → Except Err Msg
  | m, [] => .ok m
  | m, (k, vs) :: rest =>
    match queryOne sch orc root seqs m k vs with
    | .error e => .error e
    | .ok m' => queryStage sch orc root seqs m' rest

def shouldParseQuery (bd : Binding) : Bool := !(bd.bodyPath = wildcard)

/-- `transcodeFunc` on a fresh request message, with an explicit query filter (the cached one of the
    bound transcoder, see `streamFrom`). -/
def transcodeWith (sch : Schema) (orc : Oracle) (root : MsgDesc) (bd : Binding) (seqs : List (List Bytes)) (dec : Dec) (rq : Request) : Except Err Msg :=
  match bodyStage sch root bd dec with
  | .error e => .error e
  | .ok m0 =>
    match pathStage sch orc root m0 rq.pathParams with
    | .error e => .error e
    | .ok m1 =>
      if !shouldParseQuery bd then .ok m1
      else queryStage sch orc root seqs m1 rq.query

/-- `standardRequestTranscoder.Transcode`: body ⟶ path parameters ⟶ filtered query parameters. -/
def transcode (sch : Schema) (orc : Oracle) (root : MsgDesc) (bd : Binding) (dec : Dec) (rq : Request) : Except Err Msg :=
  transcodeWith sch orc root bd (filterSeqs bd rq.pathParams) dec rq

/-- `standardRequestStream.Transcode` called once per message of the stream; the bound transcoder
    caches the query filter the first time it is needed (`t.queryFilter`). -/
def streamFrom (sch : Schema) (orc : Oracle) (root : MsgDesc) (bd : Binding) (rq : Request) :
    Option (List (List Bytes)) → List Dec → List (Except Err Msg)
  | _, [] => []
  | cache, d :: rest =>
    let seqs := match cache with
      | some s => s
      | none => filterSeqs bd rq.pathParams
    -- the filter is built (and cached) only when the query stage is reached; caching it earlier is unobservable
    transcodeWith sch orc root bd seqs d rq :: streamFrom sch orc root bd rq (some seqs) rest

def streamTranscode (sch : Schema) (orc : Oracle) (root : MsgDesc) (bd : Binding) (rq : Request) (decs : List Dec) : List (Except Err Msg) :=
  streamFrom sch orc root bd rq none decs

/-! ## the forwarder's pump (grpcadapter/forwarder.go forwardIncomingToOutgoing) -/

/-- `transcodeFunc` on a request message that is NOT necessarily fresh: the bound transcoder layers body,
    path variables and query on top of whatever message it is handed. (For body "*" the JSON codec resets the
    message first; that is not modelled here — `transcodeOnto` is used with `[]`, and in the witness of the
    reuse variant with a binding without body.) -/
def bodyStageOnto (sch : Schema) (root : MsgDesc) (bd : Binding) (dec : Dec) (m : Msg) : Except Err Msg :=
  if bd.bodyPath.isEmpty then .ok m
  else match traverseFieldPath sch root m bd.bodyPath with
    | .error e => .error e
    | .ok t =>
      match dec with
      | .none => .ok t.msg
      | .err => .error .invalidArgument
      | .eof => .error .eof
      | .ok es => .ok (es.foldl (fun acc e => Msg.put acc (t.pre ++ e.1) e.2) t.msg)

def transcodeOnto (sch : Schema) (orc : Oracle) (root : MsgDesc) (bd : Binding) (dec : Dec) (rq : Request) (m : Msg) : Except Err Msg :=
  match bodyStageOnto sch root bd dec m with
  | .error e => .error e
  | .ok m0 =>
    match pathStage sch orc root m0 rq.pathParams with
    | .error e => .error e
    | .ok m1 =>
      if !shouldParseQuery bd then .ok m1
      else queryStage sch orc root (filterSeqs bd rq.pathParams) m1 rq.query

/-- The pump of a transcoded client stream: for every incoming message
      `msg := params.Method.Input.New()`  (a FRESH message, `[]`),  `Incoming.Recv(ctx, msg)` (= transcode onto msg),
      `Outgoing.Send(ctx, msg)`;
    the first error ends the forwarding. Result: the messages the target is sent. -/
def pump (sch : Schema) (orc : Oracle) (root : MsgDesc) (bd : Binding) (rq : Request) : List Dec → List Msg
  | [] => []
  | d :: rest =>
    match transcodeOnto sch orc root bd d rq [] with
    | .error _ => []
    | .ok m => m :: pump sch orc root bd rq rest

/-- the variant with ONE message allocated before the loop and handed to every `Recv` (seeded change C04-m6) -/
def pumpReuse (sch : Schema) (orc : Oracle) (root : MsgDesc) (bd : Binding) (rq : Request) : Msg → List Dec → List Msg
  | _, [] => []
  | msg, d :: rest =>
    match transcodeOnto sch orc root bd d rq msg with
    | .error _ => []
    | .ok m => m :: pumpReuse sch orc root bd rq m rest

/-! ## resolution of `google.protobuf.Any` type URLs (bridgedesc.Target.TypeResolver) -/

/-- `FindMessageByURL`: the full name is what follows the last '/' (the whole URL if there is none) -/
def urlTypeName (url : Bytes) : Bytes :=
  match lastIndexOf 47 url with
  | some i => url.drop (i + 1)
  | none => url

/-- the resolver production installs (`dynamicpb.NewTypes(files)`): the messages of the target's own files, nothing else -/
def anyResolves (targetMsgs : List Name) (url : Bytes) : Bool := targetMsgs.contains (urlTypeName url)

/-- the variant that retries the process-global registry on NotFound (seeded change C04-m5) -/
def anyResolvesFallback (targetMsgs globalMsgs : List Name) (url : Bytes) : Bool :=
  targetMsgs.contains (urlTypeName url) || globalMsgs.contains (urlTypeName url)

/-! ## the gateway library variant (what the code called before the fix, D4) -/

/-- grpc-gateway `runtime.parseField`, enum branch: the enum is looked up by full name in a
    process-global registry instead of the field's own descriptor. -/
def parseEnumViaRegistry (registry : List EnumDesc) (ref : Name) (text : Bytes) : Except Err Val :=
  match registry.find? (fun e => e.name == ref) with
  | none => .error .invalidArgument            -- "enum ... is not registered"
  | some e =>
    match e.values.find? (fun nv => nv.1 == text) with
    | some nv => .ok (.int nv.2)
    | none =>
      match parseInt text 64 with
      | none => .error .invalidArgument
      | some i =>
        let n := wrapInt32 i
        if e.values.any (fun nv => nv.2 == n) then .ok (.int n) else .error .invalidArgument

end GB.C04
