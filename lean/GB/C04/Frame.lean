import GB.C04.Proofs
/-
  C04 — frame and value lemmas: what one `populateFieldValueFromPath` call changes in the flat message,
  lifted to the path-parameter and query stages.
-/
set_option linter.unusedSimpArgs false
set_option linter.unusedVariables false
namespace GB.C04
open GB

theorem isPrefixOf_refl (p : Path) : p.isPrefixOf p = true := by
  induction p with
  | nil => simp [List.isPrefixOf]
  | cons a r ih => simp [List.isPrefixOf, ih]

theorem isPrefixOf_append (p r : Path) : p.isPrefixOf (p ++ r) = true := by
  induction p with
  | nil => simp [List.isPrefixOf]
  | cons a t ih => simp [List.isPrefixOf, ih]

theorem related_comm (p q : Path) : related p q = related q p := by
  simp [related, Bool.or_comm]

/-- a path unrelated to `P` is different from every prefix of `P` -/
theorem ne_of_unrelated_prefix {P q s : Path} (h : related P q = false) (hs : s.isPrefixOf P = true) : q ≠ s := by
  intro hq
  subst hq
  simp [related, hs] at h

/-- a path unrelated to `P` is not below any extension point `P` itself -/
theorem not_under_of_unrelated {P q : Path} (h : related P q = false) : P.isPrefixOf q = false := by
  simp [related] at h
  exact h.1

/-- … nor below anything that extends a prefix relation: if `P ≤ s` then `s` is not a prefix of … -/
theorem ne_of_unrelated_ext {P q : Path} (r : Path) (h : related P q = false) : q ≠ P ++ r := by
  intro hq
  subst hq
  simp [related, isPrefixOf_append] at h

theorem Msg.get_eraseTree_of_not_under (m : Msg) (p q : Path) (h : p.isPrefixOf q = false) :
    Msg.get (Msg.eraseTree m p) q = Msg.get m q := by
  induction m with
  | nil => simp [Msg.eraseTree, Msg.get]
  | cons e rest ih =>
    obtain ⟨r, c⟩ := e
    simp only [Msg.eraseTree, List.filter] at ih ⊢
    by_cases hr : p.isPrefixOf r = true
    · have hne : ¬ r = q := by
        intro hh; subst hh; simp [hr] at h
      simp [hr, Msg.get, hne, ih]
    · have hr' : p.isPrefixOf r = false := Bool.eq_false_iff.mpr hr
      simp only [hr', Bool.not_false]
      by_cases hq : r = q
      · simp [Msg.get, hq]
      · simp [Msg.get, hq, ih]

theorem Msg.get_append_of_forall_ne (l1 l2 : Msg) (q : Path) (h : ∀ e ∈ l1, e.1 ≠ q) :
    Msg.get (l1 ++ l2) q = Msg.get l2 q := by
  induction l1 with
  | nil => simp
  | cons e rest ih =>
    obtain ⟨r, c⟩ := e
    have hne : ¬ r = q := h (r, c) (by simp)
    simp only [List.cons_append, Msg.get, hne, if_false]
    exact ih (fun e he => h e (by simp [he]))

/-! ### one `Mutable` on a field outside any oneof -/

theorem mutableMsg_frame {m : Msg} {md : MsgDesc} {pre : Path} {fd : Field} (ho : fd.oneof = none)
    {q : Path} (hq : q ≠ pre ++ [fd.name]) : Msg.get (mutableMsg m md pre fd) q = Msg.get m q := by
  unfold mutableMsg
  split
  · rfl
  · simp [clearOneofSiblings, ho, Msg.get_put_ne _ _ _ _ hq]

/-! ### the leaf write -/

theorem setLeaf_frame {sch orc md pre m fd vals m'} (h : setLeaf sch orc md pre m fd vals = .ok m')
    {q : Path} (hq : related (pre ++ [fd.name]) q = false) : Msg.get m' q = Msg.get m q := by
  have hne : q ≠ pre ++ [fd.name] := ne_of_unrelated_prefix hq (isPrefixOf_refl _)
  have hnu : (pre ++ [fd.name]).isPrefixOf q = false := not_under_of_unrelated hq
  unfold setLeaf at h
  simp only at h
  split at h
  · simp at h
  · split at h
    · split at h
      · simp at h
      · simp at h; subst h; exact Msg.get_put_ne _ _ _ _ hne
    · split at h
      · split at h
        · simp at h
        · split at h
          · simp at h
          · simp at h; subst h; exact Msg.get_put_ne _ _ _ _ hne
      · simp at h
    · split at h
      · split at h
        · split at h
          · simp at h
          · simp at h; subst h
            rw [Msg.get_append_of_forall_ne]
            · rw [Msg.get_put_ne _ _ _ _ hne, Msg.get_eraseTree_of_not_under _ _ _ hnu]
            · intro e he
              simp only [List.mem_map] at he
              obtain ⟨e0, _, rfl⟩ := he
              exact fun hh => ne_of_unrelated_ext e0.1 hq (by simpa using hh.symm)
        · split at h
          · simp at h
          · simp at h; subst h
            split
            · exact Msg.get_erase_ne _ _ _ hne
            · exact Msg.get_put_ne _ _ _ _ hne
      · simp at h

theorem setLeaf_value {sch orc md pre m fd t m' v} (hc : fd.card = .single) (hk : ∀ r, fd.kind ≠ .message r)
    (hp : parseScalar sch orc fd.kind t = .ok v)
    (h : setLeaf sch orc md pre m fd [t] = .ok m') :
    Msg.get m' (pre ++ [fd.name]) = if !fd.presence && v.isZero then none else some (.single v) := by
  unfold setLeaf at h
  simp only [hc] at h
  split at h
  · simp at h
  · cases hkd : fd.kind with
    | message r => exact absurd hkd (hk r)
    | _ =>
      simp only [hkd] at h hp
      rw [hp] at h
      simp at h; subst h
      split
      · rename_i hz; simp [hz, Msg.get_erase_self]
      · rename_i hz; simp [hz, Msg.get_put_self]

/-! ### the path walk -/

theorem populateGo_frame {sch orc} : ∀ {els md pre m vals m' p fs},
    resolveGo sch false md els = some (p, fs) → oneofFree fs = true →
    populateGo sch orc md pre m els vals = .ok m' →
    ∀ q, related (pre ++ p) q = false → Msg.get m' q = Msg.get m q := by
  intro els
  induction els with
  | nil => intro md pre m vals m' p fs hr; simp [resolveGo] at hr
  | cons name rest ih =>
    intro md pre m vals m' p fs hr ho h q hq
    cases rest with
    | nil =>
      simp only [resolveGo, Bool.false_eq_true, if_false] at hr
      simp only [populateGo] at h
      split at hr
      · simp at hr
      · rename_i f hf
        simp at hr
        obtain ⟨rfl, rfl⟩ := hr
        rw [hf] at h
        exact setLeaf_frame h hq
    | cons n2 r2 =>
      simp only [resolveGo, Bool.false_eq_true, if_false] at hr
      simp only [populateGo] at h
      split at hr
      · simp at hr
      · rename_i f hf
        rw [hf] at h
        simp only at h
        split at hr
        · simp at hr
        · rename_i hsm
          simp only [hsm] at h
          split at hr
          · simp at hr
          · rename_i sub hsub
            rw [hsub] at h
            simp only at h
            split at hr
            · simp at hr
            · rename_i p' fs' hrr
              simp at hr
              obtain ⟨rfl, rfl⟩ := hr
              have hof : f.oneof = none := by
                simp [oneofFree] at ho
                have := ho.1
                cases hfo : f.oneof <;> simp_all
              have hofs : oneofFree fs' = true := by
                simp [oneofFree] at ho ⊢
                exact ho.2
              have hq' : related ((pre ++ [f.name]) ++ p') q = false := by
                simpa [List.append_assoc] using hq
              have h1 := ih hrr hofs h q hq'
              rw [h1]
              apply mutableMsg_frame hof
              apply ne_of_unrelated_prefix hq
              simpa [List.append_assoc] using isPrefixOf_append (pre ++ [f.name]) p'

theorem populateGo_value {sch orc} : ∀ {els md pre m t m' p fs f v},
    resolveGo sch false md els = some (p, fs) → fs.getLast? = some f →
    f.card = .single → (∀ r, f.kind ≠ .message r) → parseScalar sch orc f.kind t = .ok v →
    populateGo sch orc md pre m els [t] = .ok m' →
    Msg.get m' (pre ++ p) = if !f.presence && v.isZero then none else some (.single v) := by
  intro els
  induction els with
  | nil => intro md pre m t m' p fs f v hr; simp [resolveGo] at hr
  | cons name rest ih =>
    intro md pre m t m' p fs f v hr hl hc hk hp h
    cases rest with
    | nil =>
      simp only [resolveGo, Bool.false_eq_true, if_false] at hr
      simp only [populateGo] at h
      split at hr
      · simp at hr
      · rename_i f0 hf
        simp at hr
        obtain ⟨rfl, rfl⟩ := hr
        simp at hl
        subst hl
        rw [hf] at h
        exact setLeaf_value hc hk hp h
    | cons n2 r2 =>
      simp only [resolveGo, Bool.false_eq_true, if_false] at hr
      simp only [populateGo] at h
      split at hr
      · simp at hr
      · rename_i f0 hf
        rw [hf] at h
        simp only at h
        split at hr
        · simp at hr
        · rename_i hsm
          simp only [hsm] at h
          split at hr
          · simp at hr
          · rename_i sub hsub
            rw [hsub] at h
            simp only at h
            split at hr
            · simp at hr
            · rename_i p' fs' hrr
              simp at hr
              obtain ⟨rfl, rfl⟩ := hr
              have hl' : fs'.getLast? = some f := by
                cases fs' with
                | nil =>
                  -- resolveGo never returns an empty field list
                  exfalso
                  cases r2 <;> simp [resolveGo] at hrr <;> (repeat' split at hrr) <;> simp at hrr
                | cons a b => simpa [List.getLast?_cons_cons] using hl
              have := ih hrr hl' hc hk hp h
              simpa [List.append_assoc] using this

theorem populate_ok {sch orc root m fp vals m'} (h : populateFieldValueFromPath sch orc root m fp vals = .ok m') :
    populateGo sch orc root [] m fp vals = .ok m' := by
  unfold populateFieldValueFromPath at h
  split at h
  · simp at h
  · split at h
    · simp at h
    · exact h

/-! ### stages -/

/-- every path variable of the list names (by proto or JSON names) a field outside any oneof whose path is unrelated to `P` -/
def PathsAvoid (sch : Schema) (root : MsgDesc) (P : Path) (pp : List (Bytes × Bytes)) : Prop :=
  ∀ kv ∈ pp, ∃ p' fs', resolveGo sch false root (splitDot kv.1) = some (p', fs') ∧ oneofFree fs' = true ∧ related p' P = false

/-- every query key is covered by the filter, or names a field outside any oneof whose path is unrelated to `P` -/
def QueryAvoids (sch : Schema) (root : MsgDesc) (seqs : List (List Bytes)) (P : Path) (q : List (Bytes × List Bytes)) : Prop :=
  ∀ kv ∈ q, covered sch root seqs kv = true ∨
    ∃ p' fs', resolveGo sch false root (normalizeFieldPath sch root (splitDot (queryKey kv.1 kv.2).1)) = some (p', fs')
      ∧ oneofFree fs' = true ∧ related p' P = false

theorem pathStage_frame {sch orc root P} : ∀ {pp m m'}, PathsAvoid sch root P pp →
    pathStage sch orc root m pp = .ok m' → Msg.get m' P = Msg.get m P := by
  intro pp
  induction pp with
  | nil => intro m m' _ h; simp [pathStage] at h; subst h; rfl
  | cons kv rest ih =>
    intro m m' ha h
    obtain ⟨k, v⟩ := kv
    simp only [pathStage] at h
    split at h
    · simp at h
    · rename_i m1 h1
      obtain ⟨p', fs', hr, ho, hrel⟩ := ha (k, v) (by simp)
      have := populateGo_frame hr ho (populate_ok h1) P (by simpa using hrel)
      rw [ih (fun kv hkv => ha kv (by simp [hkv])) h, this]

theorem queryOne_frame {sch orc root seqs P m k vs m'}
    (ha : covered sch root seqs (k, vs) = true ∨
      ∃ p' fs', resolveGo sch false root (normalizeFieldPath sch root (splitDot (queryKey k vs).1)) = some (p', fs')
        ∧ oneofFree fs' = true ∧ related p' P = false)
    (h : queryOne sch orc root seqs m k vs = .ok m') : Msg.get m' P = Msg.get m P := by
  rcases ha with hc | ⟨p', fs', hr, ho, hrel⟩
  · rw [queryOne_covered hc] at h
    simp at h; subst h; rfl
  · unfold queryOne at h
    unfold queryKey at hr
    simp only at h hr
    split at h
    · rename_i k' sub hk
      simp only [hk] at hr
      split at h
      · simp at h; subst h; rfl
      · exact populateGo_frame hr ho (populate_ok h) P (by simpa using hrel)
    · rename_i hk
      simp only [hk] at hr
      split at h
      · simp at h; subst h; rfl
      · exact populateGo_frame hr ho (populate_ok h) P (by simpa using hrel)

theorem queryStage_frame {sch orc root seqs P} : ∀ {q m m'}, QueryAvoids sch root seqs P q →
    queryStage sch orc root seqs m q = .ok m' → Msg.get m' P = Msg.get m P := by
  intro q
  induction q with
  | nil => intro m m' _ h; simp [queryStage] at h; subst h; rfl
  | cons kv rest ih =>
    intro m m' ha h
    obtain ⟨k, vs⟩ := kv
    simp only [queryStage] at h
    split at h
    · simp at h
    · rename_i m1 h1
      rw [ih (fun kv hkv => ha kv (by simp [hkv])) h, queryOne_frame (ha (k, vs) (by simp)) h1]

theorem pathStage_append {sch orc root} : ∀ {pp1 pp2 m m'},
    pathStage sch orc root m (pp1 ++ pp2) = .ok m' →
    ∃ ma, pathStage sch orc root m pp1 = .ok ma ∧ pathStage sch orc root ma pp2 = .ok m' := by
  intro pp1
  induction pp1 with
  | nil => intro pp2 m m' h; exact ⟨m, by simp [pathStage], by simpa using h⟩
  | cons kv rest ih =>
    intro pp2 m m' h
    obtain ⟨k, v⟩ := kv
    simp only [List.cons_append, pathStage] at h ⊢
    split at h
    · simp at h
    · rename_i m1 h1
      obtain ⟨ma, h2, h3⟩ := ih h
      exact ⟨ma, by simp [h1, h2], h3⟩

end GB.C04

namespace GB.C04

theorem queryStage_append {sch orc root seqs} : ∀ {q1 q2 m m'},
    queryStage sch orc root seqs m (q1 ++ q2) = .ok m' →
    ∃ ma, queryStage sch orc root seqs m q1 = .ok ma ∧ queryStage sch orc root seqs ma q2 = .ok m' := by
  intro q1
  induction q1 with
  | nil => intro q2 m m' h; exact ⟨m, by simp [queryStage], by simpa using h⟩
  | cons kv rest ih =>
    intro q2 m m' h
    obtain ⟨k, v⟩ := kv
    simp only [List.cons_append, queryStage] at h ⊢
    split at h
    · simp at h
    · rename_i m1 h1
      obtain ⟨ma, h2, h3⟩ := ih h
      exact ⟨ma, by simp [h1, h2], h3⟩

/-- value written by one uncovered query key that names a singular scalar field -/
theorem queryOne_value {sch orc root seqs m k t m' p fs f v}
    (hnc : covered sch root seqs (k, [t]) = false)
    (hmk : splitMapKey k = none)
    (hr : resolveGo sch false root (normalizeFieldPath sch root (splitDot k)) = some (p, fs))
    (hl : fs.getLast? = some f) (hc : f.card = .single) (hk : ∀ r, f.kind ≠ .message r)
    (hp : parseScalar sch orc f.kind t = .ok v)
    (h : queryOne sch orc root seqs m k [t] = .ok m') :
    Msg.get m' p = if !f.presence && v.isZero then none else some (.single v) := by
  unfold covered queryKey at hnc
  unfold queryOne at h
  simp only [hmk] at h hnc
  simp only [hnc] at h
  have := populateGo_value hr hl hc hk hp (populate_ok h)
  simpa using this

end GB.C04
