import GB.C04.Proofs
/-
  C04 — transcoded requests populate the gRPC message per the http.proto binding rules.

  The theorems are about `GB.C04.transcode` (GB/C04/Model.lean), the executable model of
  transcoding/http.go transcodeFunc + internal/gwquery, which `./check C04` ties to the real
  StandardTranscoder by a differential run on schemas built at run time.
  `transcode sch orc root bd dec rq`:  sch = the target's own descriptors, orc = results of the text
  parsers that are parameters (float/double/Timestamp/Duration/Struct/Value), root = request message
  type, bd = binding (body path), dec = what the body codec decoded (parameter, property C09),
  rq = path parameters and query in the iteration order the Go runtime picked.
-/
open GB GB.C04

/-! ## errors: InvalidArgument, or Internal only for a bad binding -/

/-- Every failure of request transcoding is InvalidArgument — except Internal, which is returned only
    when the binding's body path is not a field path of the request message (independent of the request),
    and the wrapped io.EOF of a stream whose decoder reported end of input. (`fault` = the model was
    given a schema with dangling type references or an incomplete oracle table; see `C04_no_fault_…`.) -/
theorem C04_errors (sch : Schema) (orc : Oracle) (root : MsgDesc) (bd : Binding) (dec : Dec) (rq : Request) (e : Err)
    (h : transcode sch orc root bd dec rq = .error e) :
    e = .invalidArgument ∨ (e = .internal ∧ BadBinding sch root bd) ∨ (e = .eof ∧ dec = .eof) ∨ e = .fault := by
  unfold transcode transcodeWith at h
  split at h
  · rename_i e' he
    simp at h; subst h
    exact bodyStage_err he
  · split at h
    · rename_i e' he
      simp at h; subst h
      rcases isParamErr_cases (pathStage_err he) with h1 | h1
      · exact Or.inl h1
      · exact Or.inr (Or.inr (Or.inr h1))
    · split at h
      · simp at h
      · rcases isParamErr_cases (queryStage_err h) with h1 | h1
        · exact Or.inl h1
        · exact Or.inr (Or.inr (Or.inr h1))

/-- A value that does not parse can only yield InvalidArgument: every error of the path-parameter and
    query stages is InvalidArgument (or a model-input fault), never Internal. -/
theorem C04_param_errors_invalidArgument (sch : Schema) (orc : Oracle) (root : MsgDesc) (m : Msg)
    (fieldPath values : List Bytes) (e : Err)
    (h : populateFieldValueFromPath sch orc root m fieldPath values = .error e) :
    e = .invalidArgument ∨ e = .fault :=
  isParamErr_cases (populate_err h)

/-! ## streams: path and query bindings apply to every message -/

/-- The stream transcoder (with its cached query filter) yields, for every message of the stream,
    exactly what the unary transcoder yields for that message with the same path parameters and query. -/
theorem C04_stream (sch : Schema) (orc : Oracle) (root : MsgDesc) (bd : Binding) (rq : Request) (decs : List Dec) :
    streamTranscode sch orc root bd rq decs = decs.map (fun d => transcode sch orc root bd d rq) :=
  streamFrom_eq decs none (Or.inl rfl)

/-! ## body "*": the query string is not consulted -/

theorem C04_body_star_ignores_query (sch : Schema) (orc : Oracle) (root : MsgDesc) (dec : Dec)
    (pp : List (Bytes × Bytes)) (q q' : List (Bytes × List Bytes)) :
    transcode sch orc root ⟨wildcard⟩ dec ⟨pp, q⟩ = transcode sch orc root ⟨wildcard⟩ dec ⟨pp, q'⟩ := by
  unfold transcode transcodeWith
  simp [shouldParseQuery]

/-! ## query parameters of fields bound by the body or a path variable are ignored -/

/-- Removing every query key whose (normalised) field path starts with the body path or with the name
    of a path variable does not change the result — such keys are never applied. -/
theorem C04_bound_query_ignored (sch : Schema) (orc : Oracle) (root : MsgDesc) (bd : Binding) (dec : Dec)
    (pp : List (Bytes × Bytes)) (q : List (Bytes × List Bytes)) :
    transcode sch orc root bd dec ⟨pp, q.filter (fun kv => !covered sch root (filterSeqs bd pp) kv)⟩
      = transcode sch orc root bd dec ⟨pp, q⟩ := by
  unfold transcode transcodeWith
  simp only
  split
  · rfl
  · split
    · rfl
    · split
      · rfl
      · exact queryStage_filter q _

/-- what "covered" means: the body path or a path-variable name is a prefix of the key's field path -/
theorem C04_covered_iff (sch : Schema) (root : MsgDesc) (bd : Binding) (pp : List (Bytes × Bytes)) (kv : Bytes × List Bytes) :
    covered sch root (filterSeqs bd pp) kv = true ↔
      ∃ s, (s ∈ (if bd.bodyPath.isEmpty then [] else [splitDot bd.bodyPath]) ∨ ∃ k v, (k, v) ∈ pp ∧ s = splitDot k)
        ∧ s.isPrefixOf (normalizeFieldPath sch root (splitDot (queryKey kv.1 kv.2).1)) = true := by
  unfold covered hasCommonPrefix filterSeqs
  simp only [List.any_eq_true, List.mem_append, List.mem_map]
  constructor
  · rintro ⟨s, hs, hp⟩
    refine ⟨s, ?_, hp⟩
    rcases hs with hs | ⟨⟨k, v⟩, hkv, rfl⟩
    · exact Or.inl hs
    · exact Or.inr ⟨k, v, hkv, rfl⟩
  · rintro ⟨s, hs, hp⟩
    refine ⟨s, ?_, hp⟩
    rcases hs with hs | ⟨k, v, hkv, rfl⟩
    · exact Or.inl hs
    · exact Or.inr ⟨(k, v), hkv, rfl⟩

/-! ## the result depends on the target's own descriptors only -/

/-- Enum text is resolved from the field's own enum descriptor: two schemas that agree on that enum
    parse every text identically, whatever else they (or the process) contain. -/
theorem C04_enum_by_own_descriptor (sch sch' : Schema) (orc orc' : Oracle) (ref : Name) (text : Bytes)
    (h : sch.findEnum ref = sch'.findEnum ref) :
    parseScalar sch orc (.enum ref) text = parseScalar sch' orc' (.enum ref) text := by
  simp [parseScalar, h]

/-- D4 (negative witness, the code before the fix): grpc-gateway's enum branch consults a process-global
    registry; with the registry of the real bridge (no target types) EVERY enum text is rejected … -/
theorem C04_gateway_enum_lookup_fails (ref : Name) (text : Bytes) :
    parseEnumViaRegistry [] ref text = .error .invalidArgument := by
  simp [parseEnumViaRegistry]

/-- … whereas the target's descriptor accepts it (enum E { A = 0; B = 1 }, text "B" ↦ 1), and a registry
    that holds a different enum under the same name changes the value: the result depended on what is linked in. -/
theorem C04_gateway_enum_registry_dependence_fails :
    parseScalar exEnumSchema exNoOracle (.enum [69]) [66] = .ok (.int 1)
    ∧ parseEnumViaRegistry [exEnum] [69] [66] = .ok (.int 1)
    ∧ ¬ (parseEnumViaRegistry [exDecoy] [69] [66] = parseScalar exEnumSchema exNoOracle (.enum [69]) [66]) := by
  decide

/-! ## non-vacuity -/

/-- a concrete request: message M { int32 a = 1; string b = 2; }, body "*" decoded to {b: "x"},
    path variable a=7, query b=y (ignored because the body is "*") ⟹ {a: 7, b: "x"} -/
example :
    transcode exSchema exNoOracle exRoot ⟨wildcard⟩ (.ok [([[98]], .single (.bytes [120]))]) ⟨[([97], [55])], [([98], [[121]])]⟩
      = .ok [([[97]], .single (.int 7)), ([[98]], .single (.bytes [120]))] := by
  decide

/-- … and with an ill-typed path variable the same request is InvalidArgument -/
example :
    transcode exSchema exNoOracle exRoot ⟨wildcard⟩ .none ⟨[([97], [120])], []⟩ = .error .invalidArgument := by
  decide

/-- a bad binding (body path names no field) is Internal -/
example :
    transcode exSchema exNoOracle exRoot ⟨[122]⟩ .none ⟨[], []⟩ = .error .internal
    ∧ BadBinding exSchema exRoot ⟨[122]⟩ := by
  decide
