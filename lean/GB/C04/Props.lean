/- C04 — property theorems (stub: the slice is not built yet). -/
