import GB.C04.Refine
import GB.C04.StageOracle
import GB.C04.OracleProofs
import GB.C04.WF
import GB.C04.B64
import GB.C04.TextProofs
import GB.C04.Order
import GB.Generated.Facts
/-
  C04 — transcoded requests populate the gRPC message per the http.proto binding rules.

  The theorems are about `GB.C04.transcode` (GB/C04/Model.lean), the executable model of
  transcoding/http.go transcodeFunc + internal/gwquery, which `./check C04` ties to the real
  StandardTranscoder by a differential run on schemas built at run time.
  `transcode sch orc root bd dec rq`:  sch = the target's own descriptors, orc = results of the text
  parsers that are parameters (float/double/Timestamp/Duration/Struct/Value), root = request message
  type, bd = binding (body path), dec = what the body codec decoded (parameter, property C09),
  rq = path parameters and query in the iteration order the Go runtime picked.
-/
open GB GB.C04

/-! ## errors: InvalidArgument, or Internal only for a bad binding -/

/-- Every failure of request transcoding is InvalidArgument — except Internal, which is returned only
    when the binding's body path is not a field path of the request message (independent of the request),
    and the wrapped io.EOF of a stream whose decoder reported end of input. (`fault` = the model was
    given a schema with dangling type references or an incomplete oracle table; see `C04_no_fault_…`.) -/
theorem C04_errors (sch : Schema) (orc : Oracle) (root : MsgDesc) (bd : Binding) (dec : Dec) (rq : Request) (e : Err)
    (h : transcode sch orc root bd dec rq = .error e) :
    e = .invalidArgument ∨ (e = .internal ∧ BadBinding sch root bd) ∨ (e = .eof ∧ dec = .eof) ∨ e = .fault := by
  unfold transcode transcodeWith at h
  split at h
  · rename_i e' he
    simp at h; subst h
    exact bodyStage_err he
  · split at h
    · rename_i e' he
      simp at h; subst h
      rcases isParamErr_cases (pathStage_err he) with h1 | h1
      · exact Or.inl h1
      · exact Or.inr (Or.inr (Or.inr h1))
    · split at h
      · simp at h
      · rcases isParamErr_cases (queryStage_err h) with h1 | h1
        · exact Or.inl h1
        · exact Or.inr (Or.inr (Or.inr h1))

/-- A value that does not parse can only yield InvalidArgument: every error of the path-parameter and
    query stages is InvalidArgument (or a model-input fault), never Internal. -/
theorem C04_param_errors_invalidArgument (sch : Schema) (orc : Oracle) (root : MsgDesc) (m : Msg)
    (fieldPath values : List Bytes) (e : Err)
    (h : populateFieldValueFromPath sch orc root m fieldPath values = .error e) :
    e = .invalidArgument ∨ e = .fault :=
  isParamErr_cases (populate_err h)

/-! ## streams: path and query bindings apply to every message -/

/-- The stream transcoder (with its cached query filter) yields, for every message of the stream,
    exactly what the unary transcoder yields for that message with the same path parameters and query. -/
theorem C04_stream (sch : Schema) (orc : Oracle) (root : MsgDesc) (bd : Binding) (rq : Request) (decs : List Dec) :
    streamTranscode sch orc root bd rq decs = decs.map (fun d => transcode sch orc root bd d rq) :=
  streamFrom_eq decs none (Or.inl rfl)

/-! ## body "*": the query string is not consulted -/

theorem C04_body_star_ignores_query (sch : Schema) (orc : Oracle) (root : MsgDesc) (dec : Dec)
    (pp : List (Bytes × Bytes)) (q q' : List (Bytes × List Bytes)) :
    transcode sch orc root ⟨wildcard⟩ dec ⟨pp, q⟩ = transcode sch orc root ⟨wildcard⟩ dec ⟨pp, q'⟩ := by
  unfold transcode transcodeWith
  simp [shouldParseQuery]

/-! ## query parameters of fields bound by the body or a path variable are ignored -/

/-- Removing every query key whose (normalised) field path starts with the body path or with the name
    of a path variable does not change the result — such keys are never applied. -/
theorem C04_bound_query_ignored (sch : Schema) (orc : Oracle) (root : MsgDesc) (bd : Binding) (dec : Dec)
    (pp : List (Bytes × Bytes)) (q : List (Bytes × List Bytes)) :
    transcode sch orc root bd dec ⟨pp, q.filter (fun kv => !covered sch root (filterSeqs bd pp) kv)⟩
      = transcode sch orc root bd dec ⟨pp, q⟩ := by
  unfold transcode transcodeWith
  simp only
  split
  · rfl
  · split
    · rfl
    · split
      · rfl
      · exact queryStage_filter q _

/-- what "covered" means: the body path or a path-variable name is a prefix of the key's field path -/
theorem C04_covered_iff (sch : Schema) (root : MsgDesc) (bd : Binding) (pp : List (Bytes × Bytes)) (kv : Bytes × List Bytes) :
    covered sch root (filterSeqs bd pp) kv = true ↔
      ∃ s, (s ∈ (if bd.bodyPath.isEmpty then [] else [splitDot bd.bodyPath]) ∨ ∃ k v, (k, v) ∈ pp ∧ s = splitDot k)
        ∧ s.isPrefixOf (normalizeFieldPath sch root (splitDot (queryKey kv.1 kv.2).1)) = true := by
  unfold covered hasCommonPrefix filterSeqs
  simp only [List.any_eq_true, List.mem_append, List.mem_map]
  constructor
  · rintro ⟨s, hs, hp⟩
    refine ⟨s, ?_, hp⟩
    rcases hs with hs | ⟨⟨k, v⟩, hkv, rfl⟩
    · exact Or.inl hs
    · exact Or.inr ⟨k, v, hkv, rfl⟩
  · rintro ⟨s, hs, hp⟩
    refine ⟨s, ?_, hp⟩
    rcases hs with hs | ⟨k, v, hkv, rfl⟩
    · exact Or.inl hs
    · exact Or.inr ⟨(k, v), hkv, rfl⟩

/-! ## the result depends on the target's own descriptors only -/

/-- Enum text is resolved from the field's own enum descriptor: two schemas that agree on that enum
    parse every text identically, whatever else they (or the process) contain. -/
theorem C04_enum_by_own_descriptor (sch sch' : Schema) (orc orc' : Oracle) (ref : Name) (text : Bytes)
    (h : sch.findEnum ref = sch'.findEnum ref) :
    parseScalar sch orc (.enum ref) text = parseScalar sch' orc' (.enum ref) text := by
  simp [parseScalar, h]

/-- D4 (negative witness, the code before the fix): grpc-gateway's enum branch consults a process-global
    registry; with the registry of the real bridge (no target types) EVERY enum text is rejected … -/
theorem C04_gateway_enum_lookup_fails (ref : Name) (text : Bytes) :
    parseEnumViaRegistry [] ref text = .error .invalidArgument := by
  simp [parseEnumViaRegistry]

/-- … whereas the target's descriptor accepts it (enum E { A = 0; B = 1 }, text "B" ↦ 1), and a registry
    that holds a different enum under the same name changes the value: the result depended on what is linked in. -/
theorem C04_gateway_enum_registry_dependence_fails :
    parseScalar exEnumSchema exNoOracle (.enum [69]) [66] = .ok (.int 1)
    ∧ parseEnumViaRegistry [exEnum] [69] [66] = .ok (.int 1)
    ∧ ¬ (parseEnumViaRegistry [exDecoy] [69] [66] = parseScalar exEnumSchema exNoOracle (.enum [69]) [66]) := by
  decide

/-! ## non-vacuity -/

/-- a concrete request: message M { int32 a = 1; string b = 2; }, body "*" decoded to {b: "x"},
    path variable a=7, query b=y (ignored because the body is "*") ⟹ {a: 7, b: "x"} -/
example :
    transcode exSchema exNoOracle exRoot ⟨wildcard⟩ (.ok [([[98]], .single (.bytes [120]))]) ⟨[([97], [55])], [([98], [[121]])]⟩
      = .ok [([[97]], .single (.int 7)), ([[98]], .single (.bytes [120]))] := by
  decide

/-- … and with an ill-typed path variable the same request is InvalidArgument -/
example :
    transcode exSchema exNoOracle exRoot ⟨wildcard⟩ .none ⟨[([97], [120])], []⟩ = .error .invalidArgument := by
  decide

/-- a bad binding (body path names no field) is Internal -/
example :
    transcode exSchema exNoOracle exRoot ⟨[122]⟩ .none ⟨[], []⟩ = .error .internal
    ∧ BadBinding exSchema exRoot ⟨[122]⟩ := by
  decide

/-! ## the per-field rule (partial: fields outside oneofs, keys that do not overlap)

  Full statement aimed at (DESIGN 5.4, `C04_refines`): for ALL schemas/bindings/requests the populated
  leaves of `transcode …` are exactly those of `GB.C04.expectRules …` (GB/C04/Spec.lean): path variable, else
  body, else unfiltered query parameter, else nothing.  `./check` tests exactly that equation on every
  generated case.  Proved here: the three clauses of the rule as theorems about `transcode`, under the
  side conditions `PathsAvoid` / `QueryAvoids` (every OTHER applied key names a field outside any oneof
  whose path neither contains nor lies below the field in question).  Missing for the unrestricted
  statement: keys that overlap each other (the result then depends on Go map iteration order), `Mutable`
  clearing oneof siblings while walking a path, and list/map/message-typed leaves for the value clauses.
-/

/-- Clause 1 — a path variable wins: whatever the body decoded to and whatever earlier path variables
    did, a path variable naming a singular scalar/enum field determines that field of the result. -/
theorem C04_path_variable_wins_partial (sch : Schema) (orc : Oracle) (root : MsgDesc) (bd : Binding) (dec : Dec)
    (pp1 pp2 : List (Bytes × Bytes)) (k t : Bytes) (q : List (Bytes × List Bytes)) (m : Msg)
    (p : Path) (fs : List Field) (f : Field) (v : Val)
    (hres : resolveGo sch false root (splitDot k) = some (p, fs)) (hlast : fs.getLast? = some f)
    (hsingle : f.card = .single) (hscalar : ∀ r, f.kind ≠ .message r)
    (hparse : parseScalar sch orc f.kind t = .ok v)
    (hpp : PathsAvoid sch root p pp2)
    (hq : QueryAvoids sch root (filterSeqs bd (pp1 ++ (k, t) :: pp2)) p q)
    (h : transcode sch orc root bd dec ⟨pp1 ++ (k, t) :: pp2, q⟩ = .ok m) :
    Msg.get m p = if !f.presence && v.isZero then none else some (.single v) := by
  unfold transcode transcodeWith at h
  simp only at h
  split at h
  · simp at h
  · rename_i m0 _
    split at h
    · simp at h
    · rename_i m1 h1
      obtain ⟨ma, _, h3⟩ := pathStage_append h1
      simp only [pathStage] at h3
      split at h3
      · simp at h3
      · rename_i mb hb
        have hv := populateGo_value (pre := []) hres hlast hsingle hscalar hparse (populate_ok hb)
        have hf := pathStage_frame hpp h3
        simp only [List.nil_append] at hv
        split at h
        · simp at h; subst h; rw [hf, hv]
        · rw [queryStage_frame hq h, hf, hv]

/-- Clause 2 — the body's value stays: a field that no path variable and no unfiltered query key
    touches has exactly the value the body stage gave it (the decoded body, or nothing). -/
theorem C04_body_kept_partial (sch : Schema) (orc : Oracle) (root : MsgDesc) (bd : Binding) (dec : Dec)
    (rq : Request) (m0 m : Msg) (P : Path)
    (hbody : bodyStage sch root bd dec = .ok m0)
    (hpp : PathsAvoid sch root P rq.pathParams)
    (hq : QueryAvoids sch root (filterSeqs bd rq.pathParams) P rq.query)
    (h : transcode sch orc root bd dec rq = .ok m) :
    Msg.get m P = Msg.get m0 P := by
  unfold transcode transcodeWith at h
  simp only [hbody] at h
  split at h
  · simp at h
  · rename_i m1 h1
    have hf := pathStage_frame hpp h1
    split at h
    · simp at h; subst h; exact hf
    · rw [queryStage_frame hq h, hf]

/-- Clause 3 — an unfiltered query parameter (body ≠ "*") naming a singular scalar/enum field, by proto or
    JSON name, determines that field when no later key overlaps it. -/
theorem C04_query_value_partial (sch : Schema) (orc : Oracle) (root : MsgDesc) (bd : Binding) (dec : Dec)
    (pp : List (Bytes × Bytes)) (q1 q2 : List (Bytes × List Bytes)) (k t : Bytes) (m : Msg)
    (p : Path) (fs : List Field) (f : Field) (v : Val)
    (hstar : bd.bodyPath ≠ wildcard)
    (hnc : covered sch root (filterSeqs bd pp) (k, [t]) = false)
    (hmk : splitMapKey k = none)
    (hres : resolveGo sch false root (normalizeFieldPath sch root (splitDot k)) = some (p, fs))
    (hlast : fs.getLast? = some f) (hsingle : f.card = .single) (hscalar : ∀ r, f.kind ≠ .message r)
    (hparse : parseScalar sch orc f.kind t = .ok v)
    (hq : QueryAvoids sch root (filterSeqs bd pp) p q2)
    (h : transcode sch orc root bd dec ⟨pp, q1 ++ (k, [t]) :: q2⟩ = .ok m) :
    Msg.get m p = if !f.presence && v.isZero then none else some (.single v) := by
  unfold transcode transcodeWith at h
  simp only at h
  split at h
  · simp at h
  · split at h
    · simp at h
    · have hs : shouldParseQuery bd = true := by simp [shouldParseQuery, hstar]
      simp only [hs, Bool.not_true, Bool.false_eq_true, if_false] at h
      obtain ⟨ma, _, h3⟩ := queryStage_append h
      simp only [queryStage] at h3
      split at h3
      · simp at h3
      · rename_i mb hb
        rw [queryStage_frame hq h3]
        exact queryOne_value hnc hmk hres hlast hsingle hscalar hparse hb

/-- the side conditions are satisfiable and the clauses say something: message M { int32 a = 1; string b = 2; },
    body "*" decoded to {a: 1, b: "x"}, path variable a=7 ⟹ a = 7 (clause 1) and b = "x" (clause 2). -/
example :
    ∃ m, transcode exSchema exNoOracle exRoot ⟨wildcard⟩ (.ok [([[97]], .single (.int 1)), ([[98]], .single (.bytes [120]))]) ⟨[([97], [55])], []⟩ = .ok m
      ∧ Msg.get m [[97]] = some (.single (.int 7)) ∧ Msg.get m [[98]] = some (.single (.bytes [120])) := by
  refine ⟨_, rfl, ?_, ?_⟩ <;> decide

example : PathsAvoid exSchema exRoot [[98]] [([97], [55])] := by
  intro kv hkv
  simp at hkv
  subst hkv
  exact ⟨[[97]], [exFa], by decide, by decide, by decide⟩

/-- KNOWN FINDING D4c (negative witness). "Path variables are written over the body" fails for a proto3
    `optional` field that the body also sets: message M { optional int32 a = 1; string b = 2; }, body "*"
    decoded to {a: 1, b: "x"}, path variable a=7. The specification expects {b: "x", a: 7}; the code (and
    the model) answer InvalidArgument ("field already set for oneof _a"), although the same request on the
    implicit-presence field `int32 a = 1` is accepted with a = 7. `C04_path_variable_wins_partial` is the
    statement that does hold (it speaks about successful transcodings). -/
theorem C04_path_variable_over_body_optional_fails :
    transcode exSchemaOpt exNoOracle exRootOpt ⟨wildcard⟩ exBodyAB ⟨[([97], [55])], []⟩ = .error .invalidArgument
    ∧ expect exSchemaOpt exNoOracle exRootOpt ⟨wildcard⟩ exBodyAB ⟨[([97], [55])], []⟩
        = some (.ok [([[98]], .single (.bytes [120])), ([[97]], .single (.int 7))])
    ∧ transcode exSchema exNoOracle exRoot ⟨wildcard⟩ exBodyAB ⟨[([97], [55])], []⟩
        = .ok [([[97]], .single (.int 7)), ([[98]], .single (.bytes [120]))] := by
  decide

/-! ## text forms -/

/-- integers: accepted text is an optional sign followed by decimal digits only, and the value is within
    the field's range (no wrap-around, no clamping) -/
theorem C04_int_text (s : Bytes) (bits : Nat) (i : Int) (h : parseInt s bits = some i) :
    -((2 ^ (bits - 1) : Nat) : Int) ≤ i ∧ i < ((2 ^ (bits - 1) : Nat) : Int)
    ∧ ∃ c rest, s = c :: rest ∧ (if c == 43 || c == 45 then rest else s).all isDigit = true := by
  cases s with
  | nil => simp [parseInt] at h
  | cons c rest =>
    rw [parseInt_cons] at h
    have hCpos : 0 < 2 ^ (bits - 1) := Nat.pow_pos (by decide)
    generalize 2 ^ (bits - 1) = C at h hCpos ⊢
    cases hd : parseDigits (if c == 43 || c == 45 then rest else c :: rest) with
    | none => simp only [hd] at h; simp at h
    | some n =>
      simp only [hd] at h
      refine ⟨?_, ?_, c, rest, rfl, (parseDigits_some hd).2⟩
      · cases hb : (c == 45) <;> simp only [hb] at h
        · by_cases hge : n ≥ C <;> simp [hge] at h <;> omega
        · by_cases hgt : n > C <;> simp [hgt] at h <;> omega
      · cases hb : (c == 45) <;> simp only [hb] at h
        · by_cases hge : n ≥ C <;> simp [hge] at h <;> omega
        · by_cases hgt : n > C <;> simp [hgt] at h <;> omega

theorem C04_uint_text (s : Bytes) (bits n : Nat) (h : parseUint s bits = some n) :
    n < 2 ^ bits ∧ s ≠ [] ∧ s.all isDigit = true := by
  unfold parseUint at h
  cases hd : parseDigits s with
  | none => simp [hd] at h
  | some n' =>
    simp only [hd] at h
    by_cases hlt : n' < 2 ^ bits
    · simp [hlt] at h; subst h
      exact ⟨hlt, parseDigits_some hd⟩
    · simp [hlt] at h

/-- enums: an accepted text denotes a value of the field's own enum — its name, or the decimal number of
    one of its values (read as Go `int` and converted to int32 like the code does) -/
theorem C04_enum_text (sch : Schema) (orc : Oracle) (ref : Name) (text : Bytes) (n : Int)
    (h : parseScalar sch orc (.enum ref) text = .ok (.int n)) :
    ∃ e, sch.findEnum ref = some e ∧
      ((text, n) ∈ e.values ∨ (∃ i name, parseInt text 64 = some i ∧ n = wrapInt32 i ∧ (name, n) ∈ e.values)) := by
  simp only [parseScalar] at h
  split at h
  · simp at h
  · rename_i e he
    refine ⟨e, he, ?_⟩
    split at h
    · rename_i nv hnv
      simp at h
      have hm := List.mem_of_find?_eq_some hnv
      have hp := List.find?_some hnv
      simp at hp
      left
      rw [← hp, ← h]
      exact hm
    · split at h
      · simp at h
      · rename_i i hi
        try simp only at h
        split at h
        · rename_i hany
          simp at h
          simp only [List.any_eq_true, beq_iff_eq] at hany
          obtain ⟨⟨name, num⟩, hmem, hnum⟩ := hany
          right
          refine ⟨i, name, hi, h.symm, ?_⟩
          simp at hnum
          rw [← h, ← hnum]
          exact hmem
        · simp at h

/-- strings: a text is accepted iff it is well-formed UTF-8 (Go `utf8.ValidString`), and it is stored verbatim -/
theorem C04_string_text (sch : Schema) (orc : Oracle) (text : Bytes) (v : Val) :
    parseScalar sch orc .string text = .ok v ↔ validUTF8 text = true ∧ v = .bytes text := by
  simp only [parseScalar]
  cases h : validUTF8 text <;> simp [eq_comm]

/-- … ill-formed text is InvalidArgument, for string fields, StringValue and FieldMask (whole value checked) alike -/
theorem C04_string_text_invalid (sch : Schema) (orc : Oracle) (text : Bytes) (h : validUTF8 text = false) :
    parseScalar sch orc .string text = .error .invalidArgument
    ∧ parseMessage orc wString text = .error .invalidArgument
    ∧ parseMessage orc wFieldMask text = .error .invalidArgument := by
  refine ⟨by simp [parseScalar, h], ?_, ?_⟩
  · have h1 : (wString = wInt64) = False := by decide
    have h2 : (wString = wInt32) = False := by decide
    have h3 : (wString = wUInt64) = False := by decide
    have h4 : (wString = wUInt32) = False := by decide
    have h5 : (wString = wBool) = False := by decide
    simp [parseMessage, h, h1, h2, h3, h4, h5]
  · have h1 : (wFieldMask = wInt64) = False := by decide
    have h2 : (wFieldMask = wInt32) = False := by decide
    have h3 : (wFieldMask = wUInt64) = False := by decide
    have h4 : (wFieldMask = wUInt32) = False := by decide
    have h5 : (wFieldMask = wBool) = False := by decide
    have h6 : (wFieldMask = wString) = False := by decide
    have h7 : (wFieldMask = wBytes) = False := by decide
    simp [parseMessage, h, h1, h2, h3, h4, h5, h6, h7]

/-- the recogniser is compositional: a concatenation of well-formed texts is well formed -/
theorem C04_validUTF8_append (a b : Bytes) (ha : validUTF8 a = true) (hb : validUTF8 b = true) :
    validUTF8 (a ++ b) = true :=
  validUTF8_append a b ha hb

/-- every Unicode scalar value (U+0000..U+D7FF, U+E000..U+10FFFF) in its UTF-8 encoding is accepted … -/
theorem C04_validUTF8_scalar (c : Nat) (h : c < 55296 ∨ (57344 ≤ c ∧ c < 1114112)) :
    validUTF8 (utf8Encode c) = true :=
  validUTF8_encode c h

/-- … and the ill-formed classes are rejected: overlong forms (C0 80, C1 BF, E0 80 80, E0 9F BF, F0 80 80 80,
    F0 8F BF BF), surrogates (ED A0 80, ED BF BF), above U+10FFFF (F4 90 80 80, F5 80 80 80), truncated
    sequences (E2 82, F0 9D 84, C3), stray bytes (80, FF, C3 28); boundaries accepted: U+007F, U+0080, U+07FF,
    U+0800, U+D7FF, U+E000, U+FFFF, U+10000, U+10FFFF. -/
example :
    validUTF8 [192, 128] = false ∧ validUTF8 [193, 191] = false ∧ validUTF8 [224, 128, 128] = false
    ∧ validUTF8 [224, 159, 191] = false ∧ validUTF8 [240, 128, 128, 128] = false ∧ validUTF8 [240, 143, 191, 191] = false
    ∧ validUTF8 [237, 160, 128] = false ∧ validUTF8 [237, 191, 191] = false
    ∧ validUTF8 [244, 144, 128, 128] = false ∧ validUTF8 [245, 128, 128, 128] = false
    ∧ validUTF8 [226, 130] = false ∧ validUTF8 [240, 157, 132] = false ∧ validUTF8 [195] = false
    ∧ validUTF8 [128] = false ∧ validUTF8 [255] = false ∧ validUTF8 [195, 40] = false
    ∧ validUTF8 [127] = true ∧ validUTF8 [194, 128] = true ∧ validUTF8 [223, 191] = true
    ∧ validUTF8 [224, 160, 128] = true ∧ validUTF8 [237, 159, 191] = true ∧ validUTF8 [238, 128, 128] = true
    ∧ validUTF8 [239, 191, 191] = true ∧ validUTF8 [240, 144, 128, 128] = true ∧ validUTF8 [244, 143, 191, 191] = true
    ∧ validUTF8 [] = true := by
  decide

/-- bool: exactly the twelve spellings of strconv.ParseBool -/
theorem C04_bool_text (s : Bytes) (b : Bool) (h : parseBool s = some b) :
    s ∈ ([[49], [116], [84], [84, 82, 85, 69], [116, 114, 117, 101], [84, 114, 117, 101],
          [48], [102], [70], [70, 65, 76, 83, 69], [102, 97, 108, 115, 101], [70, 97, 108, 115, 101]] : List Bytes) := by
  by_cases h1 : s = [49]
  · simp [h1]
  by_cases h2 : s = [116]
  · simp [h2]
  by_cases h3 : s = [84]
  · simp [h3]
  by_cases h4 : s = [84, 82, 85, 69]
  · simp [h4]
  by_cases h5 : s = [116, 114, 117, 101]
  · simp [h5]
  by_cases h6 : s = [84, 114, 117, 101]
  · simp [h6]
  by_cases h7 : s = [48]
  · simp [h7]
  by_cases h8 : s = [102]
  · simp [h8]
  by_cases h9 : s = [70]
  · simp [h9]
  by_cases h10 : s = [70, 65, 76, 83, 69]
  · simp [h10]
  by_cases h11 : s = [102, 97, 108, 115, 101]
  · simp [h11]
  by_cases h12 : s = [70, 97, 108, 115, 101]
  · simp [h12]
  exfalso
  simp [parseBool, h1, h2, h3, h4, h5, h6, h7, h8, h9, h10, h11, h12] at h

/-- base64 witnesses: both alphabets, padding required, newlines ignored, trailing bits not checked -/
example : parseBytes [65, 81, 73, 68] = some [1, 2, 3]                       -- "AQID"
    ∧ parseBytes [45, 95, 56, 61] = some [251, 255]                           -- "-_8=" (URL alphabet)
    ∧ parseBytes [43, 47, 56, 61] = some [251, 255]                           -- "+/8=" (standard alphabet)
    ∧ parseBytes [65, 81, 10, 61, 61] = some [1]                              -- "AQ\n=="
    ∧ parseBytes [65, 81] = none                                              -- "AQ" (padding missing)
    ∧ parseBytes [65, 82, 61, 61] = some [1]                                  -- "AR==" (non-zero trailing bits)
    ∧ parseBytes [] = some [] := by
  decide

/-! ## text forms of well-known types in path / query parameters (round 5)

  Modelled as coded (internal/gwquery parseMessage), no oracle: the wrappers Int64Value / Int32Value / UInt64Value /
  UInt32Value / BoolValue / StringValue / BytesValue (the scalar parsers above + `{value: v}`), FieldMask (UTF-8 check,
  `strings.Split(",")`), and — new — Duration: `time.ParseDuration` (sign, `([0-9]*(\.[0-9]*)?unit)+`, units
  ns us µs μs ms s m h, the 2^63 overflow checks in their places) followed by `durationpb.New`. The one place where Go
  leaves integer arithmetic — a fraction with more digits than the unit has decimal places, multiplied through float64 —
  is outside the model (`parseDurationGo = none`: post-library oracle, as float / double / Timestamp / Struct / Value).
  Differential cases: `pf Duration <text>` (≈ 1000 quick), and every tc/ts/st case with Duration-typed fields. -/

/-- **Duration, accepted text**: the message is `durationpb.New(ns)` for the int64 nanosecond count `ns` the text
    denotes — seconds and nanos of the same sign, |nanos| < 10^9, seconds·10^9 + nanos = ns: the value is never
    altered on the way into the message. -/
theorem C04_duration_text_accepted (orc : Oracle) (t : Bytes) (ns : Int) (h : parseDurationGo t = some (some ns)) :
    parseMessage orc wDuration t = .ok (durationEntries ns)
    ∧ -(2 ^ 63 : Int) ≤ ns ∧ ns < 2 ^ 63
    ∧ Int.tdiv ns 1000000000 * 1000000000 + Int.tmod ns 1000000000 = ns
    ∧ -1000000000 < Int.tmod ns 1000000000 ∧ Int.tmod ns 1000000000 < 1000000000
    ∧ (0 ≤ ns → 0 ≤ Int.tdiv ns 1000000000 ∧ 0 ≤ Int.tmod ns 1000000000)
    ∧ (ns ≤ 0 → Int.tdiv ns 1000000000 ≤ 0 ∧ Int.tmod ns 1000000000 ≤ 0) := by
  have h1 : (wDuration = wInt64) = False := by decide
  have h2 : (wDuration = wInt32) = False := by decide
  have h3 : (wDuration = wUInt64) = False := by decide
  have h4 : (wDuration = wUInt32) = False := by decide
  have h5 : (wDuration = wBool) = False := by decide
  have h6 : (wDuration = wString) = False := by decide
  have h7 : (wDuration = wBytes) = False := by decide
  have h8 : (wDuration = wFieldMask) = False := by decide
  obtain ⟨r1, r2⟩ := parseDurationGo_range t ns h
  obtain ⟨s1, s2, s3, s4, s5⟩ := duration_split ns
  exact ⟨by simp [parseMessage, h, h1, h2, h3, h4, h5, h6, h7, h8], r1, r2, s1, s2, s3, s4, s5⟩

/-- **Duration, rejected text** (no digits, missing / unknown unit, a component or the sum beyond int64 nanoseconds,
    junk): InvalidArgument — never a clamped or wrapped value, never Internal. -/
theorem C04_duration_text_rejected (orc : Oracle) (t : Bytes) (h : parseDurationGo t = some none) :
    parseMessage orc wDuration t = .error .invalidArgument := by
  have h1 : (wDuration = wInt64) = False := by decide
  have h2 : (wDuration = wInt32) = False := by decide
  have h3 : (wDuration = wUInt64) = False := by decide
  have h4 : (wDuration = wUInt32) = False := by decide
  have h5 : (wDuration = wBool) = False := by decide
  have h6 : (wDuration = wString) = False := by decide
  have h7 : (wDuration = wBytes) = False := by decide
  have h8 : (wDuration = wFieldMask) = False := by decide
  simp [parseMessage, h, h1, h2, h3, h4, h5, h6, h7, h8]

/-- **Duration, canonical proto3 JSON text** `"<seconds>.<fraction>s"` (decimal seconds, at most 9 fraction digits — the
    form protojson emits), within the int64 nanosecond range: accepted, with exactly the value the canonical mapping
    assigns, seconds·10^9 + fraction·10^(9−k) nanoseconds. (Beyond ±2^63 ns — canonical JSON allows ±10000 years — the
    code rejects: `C04_duration_text_rejected`; it additionally accepts Go's forms `1h2m`, `100ms`, `+3s`, `.5s`.) -/
theorem C04_duration_text_canonical (ds fs : Bytes) (hds : ds.all isDigit = true) (hne : ds ≠ [])
    (hfs : fs.all isDigit = true) (hk : fs.length ≤ 9)
    (hr : digitsVal 0 ds * 1000000000 + digitsVal 0 fs * 10 ^ (9 - fs.length) ≤ 9223372036854775807) :
    parseDurationGo (ds ++ 46 :: (fs ++ [115])) =
      some (some ((digitsVal 0 ds * 1000000000 + digitsVal 0 fs * 10 ^ (9 - fs.length) : Nat) : Int)) :=
  parseDurationGo_canonical ds fs hds hne hfs hk hr

/-- kernel-evaluated instances: "1.5s", "-2h3m", "100ms", "+3s", ".5s", "0", the int64 edge
    "2562047h47m16.854775807s" (accepted) / "…808s" (rejected) / "-…808s" (accepted: MinInt64), "1", "1d", "1 s", ""
    (rejected), "1.5ns" and "0.0000000001s" (float64 rounding: outside the model). -/
example :
    parseDurationGo [49, 46, 53, 115] = some (some 1500000000)
    ∧ parseDurationGo [45, 50, 104, 51, 109] = some (some (-7380000000000))
    ∧ parseDurationGo [49, 48, 48, 109, 115] = some (some 100000000)
    ∧ parseDurationGo [43, 51, 115] = some (some 3000000000)
    ∧ parseDurationGo [46, 53, 115] = some (some 500000000)
    ∧ parseDurationGo [48] = some (some 0)
    ∧ parseDurationGo [49] = some none
    ∧ parseDurationGo [49, 100] = some none
    ∧ parseDurationGo [49, 32, 115] = some none
    ∧ parseDurationGo [] = some none
    ∧ parseDurationGo [49, 46, 53, 110, 115] = none
    ∧ parseDurationGo [48, 46, 48, 48, 48, 48, 48, 48, 48, 48, 48, 49, 115] = none
    ∧ durationEntries 1500000000 = [([nSeconds], .single (.int 1)), ([nNanos], .single (.int 500000000))]
    ∧ durationEntries (-1500000000) = [([nSeconds], .single (.int (-1))), ([nNanos], .single (.int (-500000000)))] := by
  decide

/-- **Integer text, value**: an accepted text denotes its value — optional sign, then decimal digits read left to right
    (`digitsVal`): no other base, nothing truncated or wrapped (ranges: `C04_int_text`, `C04_uint_text`). The canonical
    proto3 JSON mapping assigns a decimal literal exactly this value; the code additionally accepts a leading '+' and
    leading zeros (as `strconv` does), with the same reading. -/
theorem C04_int_text_value (s : Bytes) (bits : Nat) (i : Int) (h : parseInt s bits = some i) :
    ∃ c rest, s = c :: rest ∧
      i = (if c == 45 then -1 else 1) * ((digitsVal 0 (if c == 43 || c == 45 then rest else s) : Nat) : Int) := by
  cases s with
  | nil => simp [parseInt] at h
  | cons c rest =>
    rw [parseInt_cons] at h
    refine ⟨c, rest, rfl, ?_⟩
    cases hd : parseDigits (if c == 43 || c == 45 then rest else c :: rest) with
    | none => simp only [hd] at h; simp at h
    | some n =>
      have hn : n = digitsVal 0 (if c == 43 || c == 45 then rest else c :: rest) := parseDigits_val hd
      simp only [hd] at h
      split at h
      · simp at h
      · split at h
        · simp at h
        · simp only [Option.some.injEq] at h
          rw [← h, ← hn]
          cases hb : (c == 45) <;> simp

theorem C04_uint_text_value (s : Bytes) (bits n : Nat) (h : parseUint s bits = some n) : n = digitsVal 0 s := by
  unfold parseUint at h
  cases hd : parseDigits s with
  | none => simp [hd] at h
  | some m =>
    have hm : m = digitsVal 0 s := parseDigits_val hd
    simp only [hd] at h
    split at h
    · simp at h; rw [← h, hm]
    · simp at h

/-- **Wrappers and FieldMask are fully modelled**: the result does not depend on the oracle table, an accepted text
    gives `{value: v}` for the value the scalar parser of the wrapped kind yields (`C04_int_text`, `C04_uint_text`,
    `C04_bool_text`, `C04_string_text`, `C04_bytes_text`: ranges per kind, leading '+' and leading zeros accepted for the
    signed / all integer kinds as `strconv` does, no hex, no underscores, no spaces), a rejected text is InvalidArgument. -/
theorem C04_wrapper_text (orc : Oracle) (t : Bytes) :
    parseMessage orc wInt64 t = (optToExcept (parseInt t 64)).map (fun i => wrapperEntries (.int i))
    ∧ parseMessage orc wInt32 t = (optToExcept (parseInt t 32)).map (fun i => wrapperEntries (.int i))
    ∧ parseMessage orc wUInt64 t = (optToExcept (parseUint t 64)).map (fun n => wrapperEntries (.int (Int.ofNat n)))
    ∧ parseMessage orc wUInt32 t = (optToExcept (parseUint t 32)).map (fun n => wrapperEntries (.int (Int.ofNat n)))
    ∧ parseMessage orc wBool t = (optToExcept (parseBool t)).map (fun b => wrapperEntries (.bool b))
    ∧ parseMessage orc wString t = (if validUTF8 t then .ok (wrapperEntries (.bytes t)) else .error .invalidArgument)
    ∧ parseMessage orc wBytes t = (optToExcept (parseBytes t)).map (fun b => wrapperEntries (.bytes b))
    ∧ parseMessage orc wFieldMask t =
        (if validUTF8 t then .ok [([nPaths], .list ((splitOnByte 44 t).map .bytes))] else .error .invalidArgument) := by
  have a1 : (wInt32 = wInt64) = False := by decide
  have b1 : (wUInt64 = wInt64) = False := by decide
  have b2 : (wUInt64 = wInt32) = False := by decide
  have c1 : (wUInt32 = wInt64) = False := by decide
  have c2 : (wUInt32 = wInt32) = False := by decide
  have c3 : (wUInt32 = wUInt64) = False := by decide
  have d1 : (wBool = wInt64) = False := by decide
  have d2 : (wBool = wInt32) = False := by decide
  have d3 : (wBool = wUInt64) = False := by decide
  have d4 : (wBool = wUInt32) = False := by decide
  have e1 : (wString = wInt64) = False := by decide
  have e2 : (wString = wInt32) = False := by decide
  have e3 : (wString = wUInt64) = False := by decide
  have e4 : (wString = wUInt32) = False := by decide
  have e5 : (wString = wBool) = False := by decide
  have f1 : (wBytes = wInt64) = False := by decide
  have f2 : (wBytes = wInt32) = False := by decide
  have f3 : (wBytes = wUInt64) = False := by decide
  have f4 : (wBytes = wUInt32) = False := by decide
  have f5 : (wBytes = wBool) = False := by decide
  have f6 : (wBytes = wString) = False := by decide
  have g1 : (wFieldMask = wInt64) = False := by decide
  have g2 : (wFieldMask = wInt32) = False := by decide
  have g3 : (wFieldMask = wUInt64) = False := by decide
  have g4 : (wFieldMask = wUInt32) = False := by decide
  have g5 : (wFieldMask = wBool) = False := by decide
  have g6 : (wFieldMask = wString) = False := by decide
  have g7 : (wFieldMask = wBytes) = False := by decide
  refine ⟨?_, ?_, ?_, ?_, ?_, ?_, ?_, ?_⟩
  · simp [parseMessage]
  · simp [parseMessage, a1]
  · simp [parseMessage, b1, b2]
  · simp [parseMessage, c1, c2, c3]
  · simp [parseMessage, d1, d2, d3, d4]
  · simp [parseMessage, e1, e2, e3, e4, e5]
  · simp [parseMessage, f1, f2, f3, f4, f5, f6]
  · simp [parseMessage, g1, g2, g3, g4, g5, g6, g7]

/-- a rejected wrapper / FieldMask / in-domain Duration text is InvalidArgument, whatever the oracle table holds -/
theorem C04_wkt_text_rejected_invalidArgument (orc : Oracle) (ref : Name) (t : Bytes) (e : Err)
    (href : ref = wInt64 ∨ ref = wInt32 ∨ ref = wUInt64 ∨ ref = wUInt32 ∨ ref = wBool ∨ ref = wString ∨ ref = wBytes ∨ ref = wFieldMask)
    (h : parseMessage orc ref t = .error e) : e = .invalidArgument := by
  obtain ⟨w1, w2, w3, w4, w5, w6, w7, w8⟩ := C04_wrapper_text orc t
  rcases href with rfl | rfl | rfl | rfl | rfl | rfl | rfl | rfl
  · rw [w1] at h; exact map_optToExcept_err h
  · rw [w2] at h; exact map_optToExcept_err h
  · rw [w3] at h; exact map_optToExcept_err h
  · rw [w4] at h; exact map_optToExcept_err h
  · rw [w5] at h; exact map_optToExcept_err h
  · rw [w6] at h; split at h <;> simp at h; exact h.symm
  · rw [w7] at h; exact map_optToExcept_err h
  · rw [w8] at h; split at h <;> simp at h; exact h.symm

/-! ## no model-input fault on well-formed inputs -/

/-- `wfInputs` (GB/C04/WF.lean, executable; the driver evaluates it on every case and answers BAD when it is
    false): every message/enum reference of the schema and of the root resolves inside the schema, map key
    kinds are protobuf's, and the oracle table answers — for every text of the request (path-variable values,
    query values, `key[sub]` sub keys) and every float/double/message-typed field — with a result of the right
    shape. On such inputs the model never answers `fault` … -/
theorem C04_no_fault (sch : Schema) (orc : Oracle) (root : MsgDesc) (bd : Binding) (dec : Dec) (rq : Request)
    (h : wfInputs sch orc root rq = true) : transcode sch orc root bd dec rq ≠ .error .fault :=
  transcodeWith_noFault h

/-- … nor on any message of a stream … -/
theorem C04_no_fault_stream (sch : Schema) (orc : Oracle) (root : MsgDesc) (bd : Binding) (rq : Request) (decs : List Dec)
    (h : wfInputs sch orc root rq = true) : ∀ r ∈ streamTranscode sch orc root bd rq decs, r ≠ .error .fault := by
  rw [C04_stream]
  intro r hr
  simp only [List.mem_map] at hr
  obtain ⟨d, _, rfl⟩ := hr
  exact transcodeWith_noFault h

/-- … so `C04_errors` holds without the fault alternative: InvalidArgument, or Internal for a bad binding,
    or the end-of-stream of a stream. -/
theorem C04_errors_wf (sch : Schema) (orc : Oracle) (root : MsgDesc) (bd : Binding) (dec : Dec) (rq : Request) (e : Err)
    (hwf : wfInputs sch orc root rq = true) (h : transcode sch orc root bd dec rq = .error e) :
    e = .invalidArgument ∨ (e = .internal ∧ BadBinding sch root bd) ∨ (e = .eof ∧ dec = .eof) := by
  rcases C04_errors sch orc root bd dec rq e h with h1 | h1 | h1 | h1
  · exact Or.inl h1
  · exact Or.inr (Or.inl h1)
  · exact Or.inr (Or.inr h1)
  · subst h1; exact absurd h (C04_no_fault sch orc root bd dec rq hwf)

/-- the predicate is satisfiable (and decidable): the example schema with a request -/
example : wfInputs exSchema exNoOracle exRoot ⟨[([97], [55])], [([98], [[121]])]⟩ = true := by decide

/-! ## refinement: the request message is the body with the parsed parameters written over it

  `allCalls` lists what the request asks to write, in order: every path variable, then (unless body = "*")
  every query key that the filter (body path, path-variable names) lets through, with its normalised field
  path. Hypotheses that remain, and why each is necessary:
   * `srcsOf … = some srcs` — every call either names no field at all (first element unknown: ignored by the
     code) or names, by proto/JSON names through singular messages, a field such that no field on the way is a
     member of a oneof (real or proto3-optional), and carries at least one value. Necessary: inside oneofs the
     outcome is not a function of the request (`C04_oneof_order_dependent_witness`) or contradicts the per-field
     rule (`C04_path_variable_over_body_optional_fails`, D4c); a key failing half-way leaves only empty sub-messages.
   * `Unrelated srcs` — no two calls write fields one of which contains the other (in particular no field is
     written twice). Necessary: otherwise the accepted message depends on Go map order
     (`C04_query_spelling_order_dependent_fails`, D4d).
  Nothing is assumed about kinds or cardinalities: scalar, enum, list, map, wrapper/well-known-type leaves alike
  (`leafParse`), nor about the body. `lget` compares populated leaves (presence of empty sub-messages is not compared). -/

/-- For every such request: (1) an accepted request yields exactly the body-stage message with every call's
    parsed value written at its field (`applyWrite`: singular = replace, zero of an implicit-presence scalar =
    clear, message = replace the sub-tree, list = append, map = set the entry) and nothing else changed;
    (2) it is accepted iff every call's values parse; (3) otherwise it is rejected. -/
theorem C04_refines (sch : Schema) (orc : Oracle) (root : MsgDesc) (bd : Binding) (dec : Dec) (rq : Request)
    (srcs : List Src) (m0 : Msg)
    (hs : srcsOf sch root (allCalls sch root bd rq) = some srcs) (hu : Unrelated srcs)
    (hb : bodyStage sch root bd dec = .ok m0) :
    (∀ m, transcode sch orc root bd dec rq = .ok m → StageSpec sch orc m0 srcs m)
    ∧ ((∃ m, transcode sch orc root bd dec rq = .ok m) ↔ ∀ s ∈ srcs, ∃ w, leafParse sch orc s.f s.vals = .ok w)
    ∧ ((∃ s ∈ srcs, ∃ e, leafParse sch orc s.f s.vals = .error e) → ∃ e, transcode sch orc root bd dec rq = .error e) := by
  have heq := transcode_eq sch orc root bd dec rq
  simp only [hb] at heq
  refine ⟨?_, ⟨?_, ?_⟩, ?_⟩
  · intro m hm
    rw [heq] at hm
    exact popStage_ok hs hu hm
  · rintro ⟨m, hm⟩ s hsm
    rw [heq] at hm
    obtain ⟨w, hw, _⟩ := (popStage_ok hs hu hm).1 s hsm
    exact ⟨w, hw⟩
  · intro hall
    rw [heq]
    exact popStage_succeeds hs hall
  · intro hex
    rw [heq]
    exact popStage_fails hs hex

/-- when the body stage fails, so does the request, with the same error (bad binding ⇒ Internal, undecodable body ⇒ InvalidArgument) -/
theorem C04_refines_body_error (sch : Schema) (orc : Oracle) (root : MsgDesc) (bd : Binding) (dec : Dec) (rq : Request) (e : Err)
    (hb : bodyStage sch root bd dec = .error e) : transcode sch orc root bd dec rq = .error e := by
  rw [transcode_eq, hb]

/-- non-vacuity of `C04_refines`: body "*" = {a: 1, b: "x"}, path variable a=7, query b=y: one call (a), accepted,
    a = 7 written over the body, b kept. -/
example :
    srcsOf exSchema exRoot (allCalls exSchema exRoot ⟨wildcard⟩ ⟨[([97], [55])], [([98], [[121]])]⟩) = some [⟨[[97]], exFa, [[55]]⟩]
    ∧ leafParse exSchema exNoOracle exFa [[55]] = .ok (.scalar (.int 7) true) := by
  decide

/-! ## the executable oracle of the differential run IS the declarative specification (round 5)

  `stageExpect` (GB/C04/StageOracle.lean) is what the driver judges every case inside the hypotheses of
  `C04_refines` by (branch suffix `-thm`): computed from descriptors and request alone — body-stage message, then
  `applyWrite` of every call's parsed values, no walk through `populateGo`, no `Mutable`. The three theorems below
  replace "both are checked on every case" by a proof, for every schema, body, path-parameter list and query:
  defined exactly on the theorem's domain; an accepting answer is a message satisfying `StageSpec`, `StageSpec`
  determines the populated leaves uniquely, and `transcode` accepts with exactly these leaves; a rejecting answer is
  `transcode`'s rejection with the same error. Requests through oneof members / with overlapping keys stay outside
  (`stageExpect = none`; judged by `expect`, `frameOK`, `mustFail` as before). -/

/-- the oracle speaks exactly on the domain of `C04_refines` -/
theorem C04_stage_oracle_defined (sch : Schema) (orc : Oracle) (root : MsgDesc) (bd : Binding) (dec : Dec) (rq : Request) :
    (∃ r, stageExpect sch orc root bd dec rq = some r) ↔
      ∃ srcs, srcsOf sch root (allCalls sch root bd rq) = some srcs ∧ Unrelated srcs := by
  constructor
  · rintro ⟨r, h⟩
    obtain ⟨srcs, hs, hu, _⟩ := stageExpect_some h
    exact ⟨srcs, hs, hu⟩
  · rintro ⟨srcs, hs, hu⟩
    exact stageExpect_defined sch orc root bd dec rq srcs hs hu

/-- an accepting answer `l` of the oracle: `l` satisfies `StageSpec` over the body-stage message and the request's
    sources; every message satisfying `StageSpec` has the populated leaves of `l`; the model of the code accepts
    with exactly the populated leaves of `l`. -/
theorem C04_stage_oracle_accepts (sch : Schema) (orc : Oracle) (root : MsgDesc) (bd : Binding) (dec : Dec) (rq : Request) (l : Msg)
    (h : stageExpect sch orc root bd dec rq = some (.ok l)) :
    ∃ m0 srcs m, bodyStage sch root bd dec = .ok m0
        ∧ srcsOf sch root (allCalls sch root bd rq) = some srcs ∧ Unrelated srcs
        ∧ StageSpec sch orc m0 srcs l
        ∧ (∀ m', StageSpec sch orc m0 srcs m' → ∀ q, lget m' q = lget l q)
        ∧ transcode sch orc root bd dec rq = .ok m ∧ (∀ q, lget m q = lget l q) :=
  stageExpect_ok sch orc root bd dec rq l h

/-- a rejecting answer of the oracle is the code's rejection, same error (first value in call order that does not
    parse, or the body stage's error) -/
theorem C04_stage_oracle_rejects (sch : Schema) (orc : Oracle) (root : MsgDesc) (bd : Binding) (dec : Dec) (rq : Request) (e : Err)
    (h : stageExpect sch orc root bd dec rq = some (.error e)) : transcode sch orc root bd dec rq = .error e :=
  stageExpect_error sch orc root bd dec rq e h

/-- conversely, whatever `transcode` answers inside the domain is what the oracle says (so a case judged OK against
    `stageExpect` is a case in which the implementation produced the `StageSpec` message) -/
theorem C04_stage_oracle_complete (sch : Schema) (orc : Oracle) (root : MsgDesc) (bd : Binding) (dec : Dec) (rq : Request)
    (srcs : List Src) (hs : srcsOf sch root (allCalls sch root bd rq) = some srcs) (hu : Unrelated srcs) :
    (∀ m, transcode sch orc root bd dec rq = .ok m →
        ∃ l, stageExpect sch orc root bd dec rq = some (.ok l) ∧ ∀ q, lget m q = lget l q)
    ∧ (∀ e, transcode sch orc root bd dec rq = .error e → stageExpect sch orc root bd dec rq = some (.error e)) := by
  obtain ⟨r, hr⟩ := stageExpect_defined sch orc root bd dec rq srcs hs hu
  constructor
  · intro m hm
    cases r with
    | error e => rw [stageExpect_error sch orc root bd dec rq e hr] at hm; simp at hm
    | ok l =>
      obtain ⟨_, _, m2, _, _, _, _, _, hm2, hl⟩ := stageExpect_ok sch orc root bd dec rq l hr
      rw [hm] at hm2
      cases hm2
      exact ⟨l, hr, hl⟩
  · intro e he
    cases r with
    | error e' =>
      rw [stageExpect_error sch orc root bd dec rq e' hr] at he
      cases he
      exact hr
    | ok l =>
      obtain ⟨_, _, m2, _, _, _, _, _, hm2, _⟩ := stageExpect_ok sch orc root bd dec rq l hr
      rw [he] at hm2; simp at hm2

/-- **`expect` — the executable oracle the driver judges every case by — is the declarative `StageSpec`** on every
    request inside the hypotheses of `C04_refines`, for every schema, body, path-parameter list and query: there it is
    defined and equals `stageExpect` … -/
theorem C04_expect_in_domain (sch : Schema) (orc : Oracle) (root : MsgDesc) (bd : Binding) (dec : Dec) (rq : Request)
    (srcs : List Src) (hs : srcsOf sch root (allCalls sch root bd rq) = some srcs) (hu : Unrelated srcs) :
    expect sch orc root bd dec rq = stageExpect sch orc root bd dec rq ∧ ∃ r, expect sch orc root bd dec rq = some r := by
  have h := expect_eq_stage sch orc root bd dec rq srcs hs hu
  obtain ⟨r, hr⟩ := stageExpect_defined sch orc root bd dec rq srcs hs hu
  exact ⟨h, r, by rw [h, hr]⟩

/-- … an accepting verdict `l` of `expect` is a message satisfying `StageSpec` over the body-stage message and the
    request's sources, `StageSpec` pins its populated leaves down uniquely, and the code's model accepts with exactly
    these leaves (so "impl leaves = expect leaves" in the driver IS "impl satisfies StageSpec") … -/
theorem C04_expect_accepts (sch : Schema) (orc : Oracle) (root : MsgDesc) (bd : Binding) (dec : Dec) (rq : Request)
    (srcs : List Src) (hs : srcsOf sch root (allCalls sch root bd rq) = some srcs) (hu : Unrelated srcs) (l : Msg)
    (h : expect sch orc root bd dec rq = some (.ok l)) :
    ∃ m0 m, bodyStage sch root bd dec = .ok m0
        ∧ StageSpec sch orc m0 srcs l
        ∧ (∀ m', StageSpec sch orc m0 srcs m' → ∀ q, lget m' q = lget l q)
        ∧ transcode sch orc root bd dec rq = .ok m ∧ (∀ q, lget m q = lget l q) := by
  rw [expect_eq_stage sch orc root bd dec rq srcs hs hu] at h
  obtain ⟨m0, srcs', m, hb, hs', _, hspec, huniq, ht, hl⟩ := stageExpect_ok sch orc root bd dec rq l h
  rw [hs] at hs'
  cases hs'
  exact ⟨m0, m, hb, hspec, huniq, ht, hl⟩

/-- … and a rejecting verdict is the code's rejection with the same error. -/
theorem C04_expect_rejects (sch : Schema) (orc : Oracle) (root : MsgDesc) (bd : Binding) (dec : Dec) (rq : Request)
    (srcs : List Src) (hs : srcsOf sch root (allCalls sch root bd rq) = some srcs) (hu : Unrelated srcs) (e : Err)
    (h : expect sch orc root bd dec rq = some (.error e)) : transcode sch orc root bd dec rq = .error e := by
  rw [expect_eq_stage sch orc root bd dec rq srcs hs hu] at h
  exact stageExpect_error sch orc root bd dec rq e h

/-- non-vacuity: body "*" = {a: 1, b: "x"}, path variable a=7: the oracle accepts with a = 7 over the body, b kept -/
example :
    stageExpect exSchema exNoOracle exRoot ⟨wildcard⟩ exBodyAB ⟨[([97], [55])], [([98], [[121]])]⟩
      = some (.ok [([[97]], .single (.int 7)), ([[98]], .single (.bytes [120]))]) := by
  decide

/-! ## the per-field clauses for every kind of leaf (list, map, wrapper / well-known type, scalar) -/

/-- Clause 1 for any leaf: a path variable naming (through fields outside oneofs) a field of ANY kind and
    cardinality writes its parsed value over whatever the body and the earlier path variables produced (`ma`),
    and that stays: everything at and below the field is as `applyWrite ma p w` says. -/
theorem C04_path_variable_wins_any_leaf_partial (sch : Schema) (orc : Oracle) (root : MsgDesc) (bd : Binding) (dec : Dec)
    (pp1 pp2 : List (Bytes × Bytes)) (k t : Bytes) (q : List (Bytes × List Bytes)) (m : Msg)
    (p : Path) (fs : List Field) (f : Field)
    (hres : resolveGo sch false root (splitDot k) = some (p, fs)) (hfree : oneofFree fs = true) (hlast : fs.getLast? = some f)
    (hpp : PathsAvoid sch root p pp2)
    (hq : QueryAvoids sch root (filterSeqs bd (pp1 ++ (k, t) :: pp2)) p q)
    (h : transcode sch orc root bd dec ⟨pp1 ++ (k, t) :: pp2, q⟩ = .ok m) :
    ∃ m0 ma w, bodyStage sch root bd dec = .ok m0 ∧ pathStage sch orc root m0 pp1 = .ok ma
      ∧ leafParse sch orc f [t] = .ok w
      ∧ ∀ x, p.isPrefixOf x = true → lget m x = lget (applyWrite ma p w) x := by
  unfold transcode transcodeWith at h
  simp only at h
  cases hb : bodyStage sch root bd dec with
  | error e => simp [hb] at h
  | ok m0 =>
    simp only [hb] at h
    cases hp : pathStage sch orc root m0 (pp1 ++ (k, t) :: pp2) with
    | error e => simp [hp] at h
    | ok m1 =>
      simp only [hp] at h
      obtain ⟨ma, ha, h3⟩ := pathStage_append hp
      simp only [pathStage] at h3
      cases hc : populateFieldValueFromPath sch orc root ma (splitDot k) [t] with
      | error e => simp [hc] at h3
      | ok mb =>
        simp only [hc] at h3
        have hgo := populate_ok hc
        obtain ⟨hne, hnw⟩ := populateGo_nf (orc := orc) (pre := []) (m := ma) (vals := [t]) hres hfree hlast
        cases hw : leafParse sch orc f [t] with
        | error e => rw [hne e hw] at hgo; simp at hgo
        | ok w =>
          obtain ⟨m1', hm1', hrel⟩ := hnw w hw
          rw [hm1'] at hgo
          simp only [List.nil_append, Except.ok.injEq] at hgo hrel
          refine ⟨m0, ma, w, rfl, ha, rfl, ?_⟩
          intro x hx
          have hppx : PathsAvoid sch root x pp2 := by
            intro kv hkv
            obtain ⟨p', fs', h1, h2, h3'⟩ := hpp kv hkv
            exact ⟨p', fs', h1, h2, under_unrelated h3' hx⟩
          have hqx : QueryAvoids sch root (filterSeqs bd (pp1 ++ (k, t) :: pp2)) x q := by
            intro kv hkv
            rcases hq kv hkv with hcv | ⟨p', fs', h1, h2, h3'⟩
            · exact Or.inl hcv
            · exact Or.inr ⟨p', fs', h1, h2, under_unrelated h3' hx⟩
          have hf1 := pathStage_frame hppx h3
          have hval : Msg.get mb x = Msg.get (applyWrite ma p w) x := by
            rw [← hgo]
            exact applyWrite_congr m1' ma p w (fun q' hq' => hrel.under q' hq') x hx
          apply lget_congr
          split at h
          · simp at h; subst h; rw [hf1, hval]
          · rw [queryStage_frame hqx h, hf1, hval]

/-- Clause 3 for any leaf: an unfiltered query key (body ≠ "*", `key[sub]` syntax included) naming a field of ANY
    kind and cardinality outside oneofs writes its parsed values over the message the earlier stages and keys
    produced (`ma`); later keys that do not overlap it leave that in place. -/
theorem C04_query_value_any_leaf_partial (sch : Schema) (orc : Oracle) (root : MsgDesc) (bd : Binding) (dec : Dec)
    (pp : List (Bytes × Bytes)) (q1 q2 : List (Bytes × List Bytes)) (k : Bytes) (vs : List Bytes) (m : Msg)
    (p : Path) (fs : List Field) (f : Field)
    (hstar : bd.bodyPath ≠ wildcard)
    (hnc : covered sch root (filterSeqs bd pp) (k, vs) = false)
    (hres : resolveGo sch false root (normalizeFieldPath sch root (splitDot (queryKey k vs).1)) = some (p, fs))
    (hfree : oneofFree fs = true) (hlast : fs.getLast? = some f)
    (hq : QueryAvoids sch root (filterSeqs bd pp) p q2)
    (h : transcode sch orc root bd dec ⟨pp, q1 ++ (k, vs) :: q2⟩ = .ok m) :
    ∃ ma w, leafParse sch orc f (queryKey k vs).2 = .ok w
      ∧ ∀ x, p.isPrefixOf x = true → lget m x = lget (applyWrite ma p w) x := by
  unfold transcode transcodeWith at h
  simp only at h
  cases hb : bodyStage sch root bd dec with
  | error e => simp [hb] at h
  | ok m0 =>
    simp only [hb] at h
    cases hp : pathStage sch orc root m0 pp with
    | error e => simp [hp] at h
    | ok m1 =>
      have hsq : shouldParseQuery bd = true := by simp [shouldParseQuery, hstar]
      simp only [hp, hsq, Bool.not_true, Bool.false_eq_true, if_false] at h
      obtain ⟨ma, _, h3⟩ := queryStage_append h
      simp only [queryStage] at h3
      cases hc : queryOne sch orc root (filterSeqs bd pp) ma k vs with
      | error e => simp [hc] at h3
      | ok mb =>
        simp only [hc] at h3
        rw [queryOne_uncovered hnc] at hc
        have hgo := populate_ok hc
        obtain ⟨hne, hnw⟩ := populateGo_nf (orc := orc) (pre := []) (m := ma) (vals := (queryKey k vs).2) hres hfree hlast
        cases hw : leafParse sch orc f (queryKey k vs).2 with
        | error e => rw [hne e hw] at hgo; simp at hgo
        | ok w =>
          obtain ⟨m1', hm1', hrel⟩ := hnw w hw
          rw [hm1'] at hgo
          simp only [List.nil_append, Except.ok.injEq] at hgo hrel
          refine ⟨ma, w, rfl, ?_⟩
          intro x hx
          have hqx : QueryAvoids sch root (filterSeqs bd pp) x q2 := by
            intro kv hkv
            rcases hq kv hkv with hcv | ⟨p', fs', h1, h2, h3'⟩
            · exact Or.inl hcv
            · exact Or.inr ⟨p', fs', h1, h2, under_unrelated h3' hx⟩
          apply lget_congr
          rw [queryStage_frame hqx h3, ← hgo]
          exact applyWrite_congr m1' ma p w (fun q' hq' => hrel.under q' hq') x hx

/-! ## Go map iteration order -/

/-- Where `C04_refines` applies, the order in which the Go runtime iterates `PathParams` and `url.Values`
    does not matter: for any permutation of the path variables and of the query keys the request is accepted
    or rejected alike, and the accepted messages have the same populated leaves. -/
theorem C04_order_independent (sch : Schema) (orc : Oracle) (root : MsgDesc) (bd : Binding) (dec : Dec)
    (pp pp' : List (Bytes × Bytes)) (q q' : List (Bytes × List Bytes)) (srcs : List Src)
    (hpp : pp.Perm pp') (hq : q.Perm q')
    (hs : srcsOf sch root (allCalls sch root bd ⟨pp, q⟩) = some srcs) (hu : Unrelated srcs) :
    (∀ m m', transcode sch orc root bd dec ⟨pp, q⟩ = .ok m → transcode sch orc root bd dec ⟨pp', q'⟩ = .ok m' →
        ∀ x, lget m x = lget m' x)
    ∧ ((∃ m, transcode sch orc root bd dec ⟨pp, q⟩ = .ok m) ↔ (∃ m', transcode sch orc root bd dec ⟨pp', q'⟩ = .ok m')) := by
  have hperm := allCalls_perm (sch := sch) (root := root) (bd := bd) hpp hq
  rw [transcode_eq, transcode_eq]
  cases hb : bodyStage sch root bd dec with
  | error e => simp
  | ok m0 =>
    simp only
    exact popStage_perm hperm hs hu

/-- OBSERVATION (kernel-checked witness; the property text is silent): with two path variables inside one oneof,
    one of them reaching its member through a sub-message, acceptance depends on map order. Message
    O { oneof o { S a = 1; int32 b = 2 } }, S { int32 x = 1 }: order [b=2, a.x=1] is ACCEPTED (walking to a.x
    `Mutable`s `a`, which silently clears `b`; only the last field of a path is checked for "oneof already set"),
    order [a.x=1, b=2] is REJECTED (InvalidArgument). Either way the request binds two members of one oneof. -/
theorem C04_oneof_order_dependent_witness :
    transcode exSchemaO exNoOracle exO ⟨[]⟩ .none ⟨[([98], [50]), ([97, 46, 120], [49])], []⟩
      = .ok [([[97], [120]], .single (.int 1)), ([[97]], .present)]
    ∧ transcode exSchemaO exNoOracle exO ⟨[]⟩ .none ⟨[([97, 46, 120], [49]), ([98], [50])], []⟩ = .error .invalidArgument := by
  decide

/-- D4d, REPAIRED by repo commit fc13e30 (negative witness about the PRE-fix code = `transcode` applied to the
    entries in whatever order the Go runtime listed them): two query keys that name the same field — its proto
    name and its JSON name — are both applied, in the order given, so before the fix the ACCEPTED message differed
    from run to run: J { int32 a_b = 1 [json_name="aB"] }, `?a_b=1&aB=2` gives a_b = 2 in one order and a_b = 1
    in the other. (`Unrelated` fails for this request, which is why `C04_order_independent` does not apply.)
    The fixed code is `transcodeSorted`: `C04_overlap_deterministic`, `C04_query_spelling_fixed`. -/
theorem C04_query_spelling_order_dependent_fails :
    transcode exSchemaJ exNoOracle exJ ⟨[]⟩ .none ⟨[], [([97, 95, 98], [[49]]), ([97, 66], [[50]])]⟩
      = .ok [([[97, 95, 98]], .single (.int 2))]
    ∧ transcode exSchemaJ exNoOracle exJ ⟨[]⟩ .none ⟨[], [([97, 66], [[50]]), ([97, 95, 98], [[49]])]⟩
      = .ok [([[97, 95, 98]], .single (.int 1))] := by
  decide

/-! ## after fix fc13e30: the keys are applied in sorted order (D4d repaired) -/

/-- The fixed code's result is a FUNCTION OF THE REQUEST: two listings of the same `PathParams` map and the same
    `url.Values` map (any permutations of each other; a Go map holds a key once) give the same outcome — the same
    error or the very same message — with NO hypothesis about overlapping keys, oneofs or the schema. -/
theorem C04_overlap_deterministic (sch : Schema) (orc : Oracle) (root : MsgDesc) (bd : Binding) (dec : Dec)
    (pp pp' : List (Bytes × Bytes)) (q q' : List (Bytes × List Bytes))
    (hpp : pp.Perm pp') (hq : q.Perm q')
    (hkp : (pp.map (·.1)).Nodup) (hkq : (q.map (·.1)).Nodup) :
    transcodeSorted sch orc root bd dec ⟨pp, q⟩ = transcodeSorted sch orc root bd dec ⟨pp', q'⟩ := by
  simp only [transcodeSorted, sortReq, sortKeys_canonical pp pp' hpp hkp, sortKeys_canonical q q' hq hkq]

/-- … and so is every message of a request stream. -/
theorem C04_overlap_deterministic_stream (sch : Schema) (orc : Oracle) (root : MsgDesc) (bd : Binding) (decs : List Dec)
    (pp pp' : List (Bytes × Bytes)) (q q' : List (Bytes × List Bytes))
    (hpp : pp.Perm pp') (hq : q.Perm q')
    (hkp : (pp.map (·.1)).Nodup) (hkq : (q.map (·.1)).Nodup) :
    streamTranscodeSorted sch orc root bd ⟨pp, q⟩ decs = streamTranscodeSorted sch orc root bd ⟨pp', q'⟩ decs := by
  simp only [streamTranscodeSorted, sortReq, sortKeys_canonical pp pp' hpp hkp, sortKeys_canonical q q' hq hkq]

/-- The fix invents no new behaviour: the outcome of the fixed code is one of the outcomes the pre-fix code (any
    iteration order of the two maps) could produce for this request. -/
theorem C04_sorted_is_some_order (sch : Schema) (orc : Oracle) (root : MsgDesc) (bd : Binding) (dec : Dec) (rq : Request) :
    ∃ pp' q', pp'.Perm rq.pathParams ∧ q'.Perm rq.query
      ∧ transcodeSorted sch orc root bd dec rq = transcode sch orc root bd dec ⟨pp', q'⟩ :=
  ⟨sortKeys rq.pathParams, sortKeys rq.query, sortKeys_perm _, sortKeys_perm _, rfl⟩

/-- The order the fixed code uses is sorted by key (Go string order, bytewise) and keeps exactly the entries. -/
theorem C04_sorted_order (rq : Request) :
    (sortReq rq).pathParams.Pairwise keyLe ∧ (sortReq rq).query.Pairwise keyLe
    ∧ (sortReq rq).pathParams.Perm rq.pathParams ∧ (sortReq rq).query.Perm rq.query :=
  ⟨sortKeys_sorted _, sortKeys_sorted _, sortKeys_perm _, sortKeys_perm _⟩

/-- `bytesLe` is Go's `<=` on strings read as a total order: reflexive, total, antisymmetric, transitive. -/
theorem C04_key_order_total :
    (∀ a, bytesLe a a = true) ∧ (∀ a b, bytesLe a b = true ∨ bytesLe b a = true)
    ∧ (∀ a b, bytesLe a b = true → bytesLe b a = true → a = b)
    ∧ (∀ a b c, bytesLe a b = true → bytesLe b c = true → bytesLe a c = true) :=
  ⟨bytesLe_refl, bytesLe_total, bytesLe_antisymm, bytesLe_trans⟩

/-- Where `C04_refines` applies (no oneofs on the way, no overlapping keys) the fix changes nothing observable:
    the fixed code accepts exactly when the order-parametric core does in the listed order, with the same
    populated leaves — so `C04_refines` / `StageSpec` carry over to the fixed code. -/
theorem C04_sorted_agrees_in_domain (sch : Schema) (orc : Oracle) (root : MsgDesc) (bd : Binding) (dec : Dec)
    (rq : Request) (srcs : List Src)
    (hs : srcsOf sch root (allCalls sch root bd rq) = some srcs) (hu : Unrelated srcs) :
    (∀ m m', transcode sch orc root bd dec rq = .ok m → transcodeSorted sch orc root bd dec rq = .ok m' →
        ∀ x, lget m x = lget m' x)
    ∧ ((∃ m, transcode sch orc root bd dec rq = .ok m) ↔ (∃ m', transcodeSorted sch orc root bd dec rq = .ok m')) :=
  C04_order_independent sch orc root bd dec rq.pathParams (sortKeys rq.pathParams) rq.query (sortKeys rq.query) srcs
    (sortKeys_perm _).symm (sortKeys_perm _).symm hs hu

/-- the fixed stream: every message is the fixed unary transcoding of its body -/
theorem C04_stream_sorted (sch : Schema) (orc : Oracle) (root : MsgDesc) (bd : Binding) (rq : Request) (decs : List Dec) :
    streamTranscodeSorted sch orc root bd rq decs = decs.map (fun d => transcodeSorted sch orc root bd d rq) :=
  C04_stream sch orc root bd (sortReq rq) decs

/-- D4d's witness request after the fix: `?a_b=1&aB=2` on J { int32 a_b = 1 [json_name="aB"] } gives a_b = 1 in
    BOTH listings ("aB" sorts before "a_b", so the proto spelling is applied last). -/
theorem C04_query_spelling_fixed :
    transcodeSorted exSchemaJ exNoOracle exJ ⟨[]⟩ .none ⟨[], [([97, 95, 98], [[49]]), ([97, 66], [[50]])]⟩
      = .ok [([[97, 95, 98]], .single (.int 1))]
    ∧ transcodeSorted exSchemaJ exNoOracle exJ ⟨[]⟩ .none ⟨[], [([97, 66], [[50]]), ([97, 95, 98], [[49]])]⟩
      = .ok [([[97, 95, 98]], .single (.int 1))] := by
  decide

/-- the oneof witness after the fix: path variables `b=2`, `a.x=1` on O { oneof o { S a = 1; int32 b = 2 } } are
    REJECTED in both listings ("a.x" sorts before "b": b is refused because the walk to a.x populated a). -/
theorem C04_oneof_order_fixed :
    transcodeSorted exSchemaO exNoOracle exO ⟨[]⟩ .none ⟨[([98], [50]), ([97, 46, 120], [49])], []⟩ = .error .invalidArgument
    ∧ transcodeSorted exSchemaO exNoOracle exO ⟨[]⟩ .none ⟨[([97, 46, 120], [49]), ([98], [50])], []⟩ = .error .invalidArgument := by
  decide

/-! ## base64 text of bytes fields -/

/-- `gwquery.Bytes` decodes what both Go encoders produce: for every byte string b,
    Bytes(StdEncoding.EncodeToString(b)) = b and Bytes(URLEncoding.EncodeToString(b)) = b
    (`b64encode false` / `b64encode true` are the two padded encoders; the URL text is first tried with the
    standard alphabet, which yields the same bytes or rejects it — `b64quanta_cross`). -/
theorem C04_b64_roundtrip (url : Bool) (b : Bytes) : parseBytes (b64encode url b) = some b :=
  parseBytes_encode url b

/-- each alphabet's decoder inverts its own encoder -/
theorem C04_b64_roundtrip_alphabet (url : Bool) (b : Bytes) : b64decode url (b64encode url b) = some b :=
  b64decode_encode url b

/-- accepted text consists of characters of ONE alphabet as coded — A–Z a–z 0–9 and `+ /` (standard, tried
    first) or `- _` (URL) — besides `=` padding and the ignored `\r` `\n`; and the result is the standard
    decoding if that succeeds, else the URL decoding. -/
theorem C04_bytes_text (s b : Bytes) (h : parseBytes s = some b) :
    (b64decode false s = some b ∧ ∀ c ∈ s, c = 10 ∨ c = 13 ∨ c = 61 ∨ (b64val false c).isSome = true)
    ∨ (b64decode false s = none ∧ b64decode true s = some b ∧ ∀ c ∈ s, c = 10 ∨ c = 13 ∨ c = 61 ∨ (b64val true c).isSome = true) := by
  unfold parseBytes at h
  cases hs : b64decode false s with
  | some x =>
    simp [hs] at h; subst h
    exact Or.inl ⟨rfl, b64decode_chars false s x hs⟩
  | none =>
    simp [hs] at h
    exact Or.inr ⟨rfl, h, b64decode_chars true s b h⟩

/-- the alphabets as coded: exactly 64 characters each, differing in the last two -/
example : (List.range 256).filter (fun n => (b64val false (UInt8.ofNat n)).isSome) =
      (List.range 256).filter (fun n => (65 ≤ n ∧ n ≤ 90) ∨ (97 ≤ n ∧ n ≤ 122) ∨ (48 ≤ n ∧ n ≤ 57) ∨ n = 43 ∨ n = 47)
    ∧ (List.range 256).filter (fun n => (b64val true (UInt8.ofNat n)).isSome) =
      (List.range 256).filter (fun n => (65 ≤ n ∧ n ≤ 90) ∨ (97 ≤ n ∧ n ≤ 122) ∨ (48 ≤ n ∧ n ≤ 57) ∨ n = 45 ∨ n = 95) := by
  decide

/-! ## streams through the forwarder: the bindings apply to EVERY message, and to each one afresh -/

/-- The pump of a transcoded client stream (grpcadapter forwardIncomingToOutgoing: a FRESH `Input.New()` per
    iteration, `Recv` = transcode onto it, `Send`) sends the target, for every client message until the first
    rejected one, exactly `transcode(binding, path, query, body_i)` — message i does not depend on any message j < i. -/
theorem C04_stream_each_message (sch : Schema) (orc : Oracle) (root : MsgDesc) (bd : Binding) (rq : Request) (decs : List Dec) :
    pump sch orc root bd rq decs = okPrefix (decs.map (fun d => transcode sch orc root bd d rq)) :=
  pump_eq sch orc root bd rq decs

/-- … in particular the i-th message sent, if any, is the unary transcoding of the i-th body alone -/
theorem C04_stream_each_message_get (sch : Schema) (orc : Oracle) (root : MsgDesc) (bd : Binding) (rq : Request) :
    ∀ (decs : List Dec) (i : Nat) (m : Msg), (pump sch orc root bd rq decs)[i]? = some m →
      ∃ d, decs[i]? = some d ∧ transcode sch orc root bd d rq = .ok m := by
  intro decs
  induction decs with
  | nil => intro i m h; simp [pump] at h
  | cons d rest ih =>
    intro i m h
    simp only [pump, transcodeOnto_nil] at h
    cases ht : transcode sch orc root bd d rq with
    | error e => simp [ht] at h
    | ok m0 =>
      simp only [ht] at h
      cases i with
      | zero => simp at h; subst h; exact ⟨d, by simp, ht⟩
      | succ j =>
        simp only [List.getElem?_cons_succ] at h
        obtain ⟨d', hd', ht'⟩ := ih j m h
        exact ⟨d', by simpa using hd', ht'⟩

/-- Negative witness for the variant that allocates ONE request message before the loop (seeded change C04-m6):
    message T { repeated int32 t = 1; }, no body, query `?t=1`, two client messages. The per-iteration pump sends
    {t: [1]} twice; the reuse variant sends {t: [1]} and then {t: [1, 1]} — the binding accumulates. -/
theorem C04_stream_reused_message_fails :
    pump exSchemaT exNoOracle exT ⟨[]⟩ ⟨[], [([116], [[49]])]⟩ [.none, .none]
      = [[([[116]], .list [.int 1])], [([[116]], .list [.int 1])]]
    ∧ pumpReuse exSchemaT exNoOracle exT ⟨[]⟩ ⟨[], [([116], [[49]])]⟩ [] [.none, .none]
      = [[([[116]], .list [.int 1])], [([[116]], .list [.int 1, .int 1])]] := by
  decide

/-! ## Any payloads: resolved against the target's own files only -/

/-- Whether the type URL of a `google.protobuf.Any` in a request body resolves — hence whether the body is
    decoded or rejected with InvalidArgument — is a function of the target's file set only: the message named
    after the last '/' must be defined by one of the target's own files. (`anyResolves` has no other argument;
    `./check` compares it with `Target.TypeResolver.FindMessageByURL` of a target built by the real
    reflection.parseFileDescriptors, op `anyres`.) -/
theorem C04_any_resolution_target_only (targetMsgs : List Name) (url : Bytes) :
    anyResolves targetMsgs url = true ↔ urlTypeName url ∈ targetMsgs := by
  simp [anyResolves]

/-- … and two bridges that differ only in what is linked into the binary agree; the fallback variant does not -/
theorem C04_any_resolution_fallback_fails :
    anyResolvesFallback [[77]] [] [120, 47, 71] = false ∧ anyResolvesFallback [[77]] [[71]] [120, 47, 71] = true
    ∧ anyResolves [[77]] [120, 47, 71] = false ∧ anyResolves [[77]] [120, 47, 77] = true ∧ anyResolves [[77]] [77] = true := by
  decide

/-! ## regenerated facts about the resolver glue (go/ast over reflection/, bridgedesc/, transcoding/, internal/gwquery/) -/

/-- reflection.parseFileDescriptors: files := protodesc.NewFiles(fds); types := dynamicpb.NewTypes(files);
    bridgedesc.ParseTarget(name, files, types, svcNames) — no wrapper, nothing else assigned to them -/
theorem C04_facts_resolver_defs :
    GB.Generated.c04ResolverDefs = [("files, err :=", "protodesc.NewFiles(fds)"), ("types :=", "dynamicpb.NewTypes(files)")]
    ∧ GB.Generated.c04ParseTargetArgs = ["name", "files", "types", "svcNames"]
    ∧ GB.Generated.c04ParseTypeDecls = ["parseResults"] := by
  decide

/-- bridgedesc.ParseTarget stores exactly its `files` / `types` parameters in Target.FileResolver / TypeResolver,
    and nothing in reflection/ or bridgedesc/ assigns those fields afterwards -/
theorem C04_facts_target_literal :
    GB.Generated.c04TargetLiteral = [("params", "name, files, types, svcNames"), ("FileResolver", "files"), ("TypeResolver", "types")]
    ∧ GB.Generated.c04ResolverAssignments = [] := by
  decide

/-- no production file of reflection/, bridgedesc/, transcoding/, internal/gwquery/ mentions
    protoregistry.GlobalTypes or protoregistry.GlobalFiles -/
theorem C04_facts_no_global_registry : GB.Generated.c04GlobalRegistryRefs = [] := by
  decide

/-! ## facts tie for the Duration text form (round 5; extract/c04.go, regenerated on every run) -/

/-- the Duration case of `gwquery.parseMessage` is `time.ParseDuration(value)` followed by `durationpb.New(d)` on the
    unmodified result — nothing in between (a truncation, a second parser, a lenient fallback would show up here) -/
theorem C04_facts_duration_calls :
    GB.Generated.c04DurationCalls = ["time.ParseDuration(value)", "durationpb.New(d)"] := by decide

/-- the model's unit table is `unitMap` of the time package the harness is built with (go/ast over GOROOT/src/time):
    the same eight units with the same nanosecond values — and nothing else is a unit -/
theorem C04_facts_duration_units :
    GB.Generated.c04TimeUnitMap.length = 8 ∧
    GB.Generated.c04TimeUnitMap.all (fun e => (durUnit (e.1.map UInt8.ofNat)).map Prod.fst == some e.2) = true := by
  decide

/-- why the model is exact inside its domain: for every unit, 10^maxk divides the unit (so `float64(unit)/scale` is an
    integer for fractions of at most maxk digits), and the unit — hence every product `f · unit/10^k` with `f < 10^k` —
    is below 2^53 (exactly representable in float64) -/
theorem C04_duration_exact_domain :
    GB.Generated.c04TimeUnitMap.all (fun e => match durUnit (e.1.map UInt8.ofNat) with
      | some (unit, maxk) => unit % 10 ^ maxk == 0 && decide (unit < 2 ^ 53) && decide (10 ^ maxk ≤ unit)
      | none => false) = true := by
  decide

/-! ## wave 7: the two specification oracles agree (`expectRules` vs `stageExpect`)

  Full statement aimed at (kept as the goal; executed per case by the driver, `BAD the two specification oracles
  disagree`):

    theorem C04_expectRules_eq_stageExpect … (hs : srcsOf sch root (allCalls sch root bd rq) = some srcs) (hu : Unrelated srcs)
        (h1 : expectRules sch orc root bd dec rq = some r1) (h2 : stageExpect sch orc root bd dec rq = some r2) :
        (∀ e, r1 = .error e ↔ r2 = .error e) ∧ (∀ l1 l2, r1 = .ok l1 → r2 = .ok l2 → ∀ q, lget l1 q = lget l2 q)

  Proved: the part of both oracles that judges the KEYS. Both reduce the request to a list of sources (resolved field,
  values) and judge each by a text-form parser (`specParseLeaf` in the rules, `leafParse` in the stage oracle), then
  combine (`firstError` over the results / `stageApply` in list order). Missing for the full statement: that the
  rules' own resolution of the keys (`resolveGo` strict/non-strict, `firstUnknown`, `hasCommonPrefix` on the proto
  path) yields the list `srcsOf (allCalls …)`, and the body stage (`bodyTarget`/`leaves (es.map …)` vs
  `traverseFieldPath`/`foldl Msg.put`, which agree only for decoded bodies without duplicate paths). -/

/-- Key verdicts agree, every cardinality and kind (lists, maps, well-known messages included): inside the hypotheses
    of `C04_refines` (sources pairwise unrelated, body stage accepted), if the rules judge the sources one by one
    with results `rs` (`SpecResults`: `specParseLeaf` on each source), then the rules' verdict `firstError rs` IS
    `stageExpect`'s verdict — rejected by both with the same error, or accepted by both. -/
theorem C04_expectRules_eq_stageExpect_partial (sch : Schema) (orc : Oracle) (root : MsgDesc) (bd : Binding) (dec : Dec)
    (rq : Request) (srcs : List Src) (rs : List (Except Err Msg)) (m0 : Msg)
    (hs : srcsOf sch root (allCalls sch root bd rq) = some srcs) (hu : Unrelated srcs)
    (hb : bodyStage sch root bd dec = .ok m0) (hr : SpecResults sch orc srcs rs) :
    (∀ e, firstError rs = some e → stageExpect sch orc root bd dec rq = some (.error e))
    ∧ (firstError rs = none → ∃ l, stageExpect sch orc root bd dec rq = some (.ok l)) := by
  obtain ⟨h1, h2⟩ := stageApply_firstError (sch := sch) (orc := orc) srcs rs m0 hr
  unfold stageExpect
  simp only [hs, pairwise_of_unrelated srcs hu, Bool.not_true, Bool.false_eq_true, if_false, hb]
  refine ⟨?_, ?_⟩
  · intro e he; rw [h1 e he]
  · intro hn; obtain ⟨m', hm'⟩ := h2 hn; exact ⟨m', by rw [hm']⟩

/-- the per-key core of the above: the two text-form parsers never disagree (the rules' parser may be silent —
    `none`, an oracle fault — but where it speaks the stage parser says the same) -/
theorem C04_key_parsers_agree (sch : Schema) (orc : Oracle) (p : Path) (f : Field) (vals : List Bytes) :
    (∀ e, specParseLeaf sch orc p f vals = some (.error e) → leafParse sch orc f vals = .error e)
    ∧ (∀ l, specParseLeaf sch orc p f vals = some (.ok l) → ∃ w, leafParse sch orc f vals = .ok w) :=
  ⟨fun _ h => specParseLeaf_error h, fun _ h => specParseLeaf_ok_parses h⟩

/-- … and for a singular scalar/enum leaf (no oneof, no map, no list) the VALUE agrees too: the leaves the rules
    attribute to the key are exactly the stage's write applied to an empty message (nothing for the zero value of an
    implicit-presence field, else the one cell) -/
theorem C04_key_value_scalar_agree (sch : Schema) (orc : Oracle) (p : Path) (f : Field) (vals : List Bytes) (l : Msg)
    (hc : f.card = .single) (hk : ∀ r, f.kind ≠ .message r)
    (h : specParseLeaf sch orc p f vals = some (.ok l)) :
    ∃ w, leafParse sch orc f vals = .ok w ∧ applyWrite [] p w = l :=
  specParseLeaf_scalar_value hc hk h

/-- `C04_overlap_deterministic` for the STREAM + websocket path as it is forwarded: the pump (fresh message per client
    message, first error ends the forwarding) run on the sorted request sends the target the same messages for any
    two listings of the same PathParams / url.Values maps. -/
theorem C04_overlap_deterministic_pump (sch : Schema) (orc : Oracle) (root : MsgDesc) (bd : Binding) (decs : List Dec)
    (pp pp' : List (Bytes × Bytes)) (q q' : List (Bytes × List Bytes))
    (hpp : pp.Perm pp') (hq : q.Perm q')
    (hkp : (pp.map (·.1)).Nodup) (hkq : (q.map (·.1)).Nodup) :
    pump sch orc root bd (sortReq ⟨pp, q⟩) decs = pump sch orc root bd (sortReq ⟨pp', q'⟩) decs
    ∧ pump sch orc root bd (sortReq ⟨pp, q⟩) decs
        = okPrefix (decs.map (fun d => transcodeSorted sch orc root bd d ⟨pp, q⟩)) := by
  refine ⟨?_, ?_⟩
  · simp only [sortReq, sortKeys_canonical pp pp' hpp hkp, sortKeys_canonical q q' hq hkq]
  · rw [pump_eq]; rfl
