/- C04 — property theorems (in progress). -/
import GB.C04.Spec
