import GB.C04.StageOracle
/-
  C04 — the two specification oracles (`expectRules`, GB/C04/Spec.lean; `stageExpect`, GB/C04/StageOracle.lean)
  agree on the verdict: helper lemmas for `C04_expectRules_eq_stageExpect_partial` (wave 7).

  Both oracles reduce a request to a list of sources (resolved field + values) and judge every source by a
  text-form parser: `specParseLeaf` (rules) and `leafParse` (stage). Proved here: the two parsers give the same
  verdict for every field of every cardinality and kind, and the two ways of combining the per-source verdicts
  (`firstError` over the results / `stageApply` in list order) give the same accept/reject verdict with the
  same error.
-/
set_option linter.unusedSimpArgs false
set_option linter.unusedVariables false
namespace GB.C04
open GB

/-- a rejection by the rules' parser is the same rejection by the stage parser -/
theorem specParseLeaf_error {sch : Schema} {orc : Oracle} {p : Path} {f : Field} {vals : List Bytes} {e : Err}
    (h : specParseLeaf sch orc p f vals = some (.error e)) : leafParse sch orc f vals = .error e := by
  unfold specParseLeaf at h
  unfold leafParse
  cases hc : f.card with
  | list =>
    simp only [hc] at h ⊢
    cases hp : parseAll sch orc f.kind vals with
    | error e' => cases e' <;> simp_all
    | ok vs => simp [hp] at h
  | map kk =>
    simp only [hc] at h ⊢
    split
    · rename_i kt vt
      simp only at h
      cases hk : parseScalar sch orc kk kt with
      | error e1 =>
        cases hv : parseElem sch orc f.kind vt with
        | error e2 => cases e1 <;> cases e2 <;> simp_all
        | ok v => cases e1 <;> simp_all
      | ok k =>
        cases hv : parseElem sch orc f.kind vt with
        | error e2 => cases e2 <;> simp_all
        | ok v => simp [hk, hv] at h
    · rename_i hne
      split at h
      · rename_i kt vt; exact absurd rfl (hne kt vt)
      · simp at h; simp [h]
  | single =>
    simp only [hc] at h ⊢
    split
    · rename_i t
      simp only at h
      cases hk : f.kind with
      | message r =>
        simp only [hk] at h ⊢
        cases hp : parseMessage orc r t with
        | error e' => cases e' <;> simp_all
        | ok es => simp [hp] at h
      | _ =>
        simp only [hk] at h ⊢
        split at h <;> rename_i hp <;> simp only [hp] <;> simp_all
    · rename_i hne
      split at h
      · rename_i t; exact absurd rfl (hne t)
      · simp at h; simp [h]

/-- an acceptance by the rules' parser is an acceptance by the stage parser -/
theorem specParseLeaf_ok_parses {sch : Schema} {orc : Oracle} {p : Path} {f : Field} {vals : List Bytes} {l : Msg}
    (h : specParseLeaf sch orc p f vals = some (.ok l)) : ∃ w, leafParse sch orc f vals = .ok w := by
  unfold specParseLeaf at h
  unfold leafParse
  cases hc : f.card with
  | list =>
    simp only [hc] at h ⊢
    cases hp : parseAll sch orc f.kind vals with
    | error e' => cases e' <;> simp [hp] at h
    | ok vs => exact ⟨_, rfl⟩
  | map kk =>
    simp only [hc] at h ⊢
    split
    · rename_i kt vt
      simp only at h
      cases hk : parseScalar sch orc kk kt with
      | error e1 =>
        cases hv : parseElem sch orc f.kind vt with
        | error e2 => cases e1 <;> cases e2 <;> simp [hk, hv] at h
        | ok v => cases e1 <;> simp [hk, hv] at h
      | ok k =>
        cases hv : parseElem sch orc f.kind vt with
        | error e2 => cases e2 <;> simp [hk, hv] at h
        | ok v => exact ⟨_, rfl⟩
    · rename_i hne
      split at h
      · rename_i kt vt; exact absurd rfl (hne kt vt)
      · simp at h
  | single =>
    simp only [hc] at h ⊢
    split
    · rename_i t
      simp only at h
      cases hk : f.kind with
      | message r =>
        simp only [hk] at h ⊢
        cases hp : parseMessage orc r t with
        | error e' => cases e' <;> simp [hp] at h
        | ok es => exact ⟨_, rfl⟩
      | _ =>
        simp only [hk] at h ⊢
        split at h <;> rename_i hp <;> simp only [hp] <;> simp_all
    · rename_i hne
      split at h
      · rename_i t; exact absurd rfl (hne t)
      · simp at h

/-- the sources judged one by one by the rules' parser: `rs` are their results, in order -/
def SpecResults (sch : Schema) (orc : Oracle) : List Src → List (Except Err Msg) → Prop
  | [], [] => True
  | s :: srcs, r :: rs => specParseLeaf sch orc s.p s.f s.vals = some r ∧ SpecResults sch orc srcs rs
  | _, _ => False

/-- `firstError` over the rules' per-source results and `stageApply` over the same sources: the same
    accept/reject verdict, the same error, whatever message the stage starts from -/
theorem stageApply_firstError {sch : Schema} {orc : Oracle} : ∀ (srcs : List Src) (rs : List (Except Err Msg)) (m : Msg),
    SpecResults sch orc srcs rs →
    (∀ e, firstError rs = some e → stageApply sch orc m srcs = .error e)
    ∧ (firstError rs = none → ∃ m', stageApply sch orc m srcs = .ok m') := by
  intro srcs
  induction srcs with
  | nil =>
    intro rs m h
    cases rs with
    | nil => exact ⟨by intro e he; simp [firstError] at he, fun _ => ⟨m, rfl⟩⟩
    | cons r rs => simp [SpecResults] at h
  | cons s srcs ih =>
    intro rs m h
    cases rs with
    | nil => simp [SpecResults] at h
    | cons r rs =>
      simp only [SpecResults] at h
      obtain ⟨hr, hrest⟩ := h
      cases r with
      | error e0 =>
        have hl := specParseLeaf_error hr
        refine ⟨?_, ?_⟩
        · intro e he
          simp [firstError] at he
          subst he
          simp [stageApply, hl]
        · intro hn; simp [firstError] at hn
      | ok l =>
        obtain ⟨w, hw⟩ := specParseLeaf_ok_parses hr
        simp only [firstError, stageApply, hw]
        exact ih rs _ hrest

/-- singular scalar/enum leaf: the leaves the rules attribute to the key are exactly what the stage's write puts
    into an empty message -/
theorem specParseLeaf_scalar_value {sch : Schema} {orc : Oracle} {p : Path} {f : Field} {vals : List Bytes} {l : Msg}
    (hc : f.card = .single) (hk : ∀ r, f.kind ≠ .message r)
    (h : specParseLeaf sch orc p f vals = some (.ok l)) :
    ∃ w, leafParse sch orc f vals = .ok w ∧ applyWrite [] p w = l := by
  unfold specParseLeaf at h
  unfold leafParse
  simp only [hc] at h ⊢
  split
  · rename_i t
    simp only at h
    cases hkk : f.kind with
    | message r => exact absurd hkk (hk r)
    | _ =>
      simp only [hkk] at h ⊢
      split at h <;> rename_i hp <;> simp only [hp] <;> simp at h
      all_goals (subst h; refine ⟨_, rfl, ?_⟩; rename_i v; cases f.presence <;> cases v.isZero <;> simp [applyWrite, Msg.put, Msg.erase])
  · rename_i hne
    split at h
    · rename_i t; exact absurd rfl (hne t)
    · simp at h

end GB.C04
