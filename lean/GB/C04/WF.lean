import GB.C04.Proofs
/-
  C04 — well-formedness of the model's inputs and freedom from the `fault` outcome.

  `fault` is the model's way of saying "my inputs are not a description of a real situation": a field
  refers to a message/enum the schema does not contain, a map key kind that protobuf does not allow, or
  the oracle table lacks the answer for a text of the request. `wfInputs` is the executable predicate
  (the driver evaluates it on every case and answers `BAD` if it is false); `transcode_noFault` shows it
  is sufficient.
-/
set_option linter.unusedSimpArgs false
set_option linter.unusedVariables false
namespace GB.C04
open GB

/-- type references resolve inside the schema -/
def refOK (sch : Schema) : Kind → Bool
  | .enum r => (sch.findEnum r).isSome
  | .message r => (sch.findMsg r).isSome
  | _ => true

/-- protobuf map key kinds -/
def keyKindOK : Kind → Bool
  | .bool | .int32 | .int64 | .uint32 | .uint64 | .string => true
  | _ => false

def isOracleRef (ref : Name) : Bool :=
  ref = wTimestamp || ref = wDuration || ref = wDouble || ref = wFloat || ref = wValue || ref = wStruct

/-- the oracle table answers what the model may ask about text `t` for a field of kind `k` -/
def textOK (orc : Oracle) (k : Kind) (t : Bytes) : Bool :=
  match k with
  | .float => (match orc tagFloat t with
    | some (.val _) => true
    | some .err => true
    | _ => false)
  | .double => (match orc tagDouble t with
    | some (.val _) => true
    | some .err => true
    | _ => false)
  | .message ref =>
    -- library-parsed types: an answer of the right shape; every parseable message text: a blob for list/map use
    (match parseMessage orc ref t with
      | .error .fault => false
      | .error _ => true
      | .ok _ => (match orc ref t with
        | some (.msg _ _) => true
        | _ => false))
  | _ => true

def fieldOK (sch : Schema) (orc : Oracle) (texts : List Bytes) (f : Field) : Bool :=
  refOK sch f.kind && texts.all (textOK orc f.kind) && (match f.card with
    | .map kk => keyKindOK kk
    | _ => true)

def mdOK (sch : Schema) (orc : Oracle) (texts : List Bytes) (md : MsgDesc) : Bool :=
  md.fields.all (fieldOK sch orc texts)

/-- every text the request can hand to a parser: path-variable values, query values, `key[sub]` sub keys -/
def rqTexts (rq : Request) : List Bytes :=
  rq.pathParams.map (·.2) ++ rq.query.flatMap (fun kv => (queryKey kv.1 kv.2).2)

/-- Well-formed model inputs: closed schema (root included), legal map key kinds, oracle table complete
    for the texts of this request. -/
def wfInputs (sch : Schema) (orc : Oracle) (root : MsgDesc) (rq : Request) : Bool :=
  mdOK sch orc (rqTexts rq) root && sch.msgs.all (mdOK sch orc (rqTexts rq))

/-! ### proofs -/

theorem keyKind_parse_noFault {sch orc kk t} (hk : keyKindOK kk = true) : parseScalar sch orc kk t ≠ .error .fault := by
  intro h
  cases kk <;> simp [keyKindOK] at hk <;> simp only [parseScalar] at h
  all_goals first
    | (have := map_optToExcept_err h; simp at this)
    | (split at h <;> simp at h)

theorem parseScalar_noFault {sch orc k t} (hr : refOK sch k = true) (ht : textOK orc k t = true)
    (hm : ∀ r, k ≠ .message r) : parseScalar sch orc k t ≠ .error .fault := by
  intro h
  cases k with
  | message r => exact hm r rfl
  | float =>
    simp only [parseScalar] at h
    simp only [textOK] at ht
    split at h <;> simp_all
  | double =>
    simp only [parseScalar] at h
    simp only [textOK] at ht
    split at h <;> simp_all
  | enum r =>
    simp only [parseScalar] at h
    simp only [refOK] at hr
    split at h
    · simp_all
    · split at h
      · simp at h
      · split at h
        · simp at h
        · try simp only at h
          split at h <;> simp at h
  | string =>
    simp only [parseScalar] at h
    split at h <;> simp at h
  | _ =>
    simp only [parseScalar] at h
    have := map_optToExcept_err h
    simp at this

theorem parseMessage_noFault {orc ref t} (ht : textOK orc (.message ref) t = true) :
    parseMessage orc ref t ≠ .error .fault := by
  intro h
  simp [textOK, h] at ht

theorem parseElem_noFault {sch orc k t} (hr : refOK sch k = true) (ht : textOK orc k t = true) :
    parseElem sch orc k t ≠ .error .fault := by
  intro h
  cases k with
  | message r =>
    simp only [parseElem] at h
    simp only [textOK] at ht
    split at h
    · rename_i e he
      simp at h; subst h
      simp [he] at ht
    · rename_i es he
      simp only [he] at ht
      split at h
      · simp at h
      · rename_i hne
        split at ht
        · rename_i b e2 heq
          exact hne b e2 heq
        · simp at ht
  | _ =>
    simp only [parseElem] at h
    exact parseScalar_noFault hr ht (by intro r hh; cases hh) h

theorem parseAll_noFault {sch orc k} (hr : refOK sch k = true) : ∀ {ts : List Bytes},
    (∀ t ∈ ts, textOK orc k t = true) → parseAll sch orc k ts ≠ .error .fault := by
  intro ts
  induction ts with
  | nil => intro _ h; simp [parseAll] at h
  | cons t rest ih =>
    intro ht h
    simp only [parseAll] at h
    split at h
    · rename_i e he
      simp at h; subst h
      exact parseElem_noFault hr (ht t (by simp)) he
    · split at h
      · rename_i e he
        simp at h; subst h
        exact ih (fun t' ht' => ht t' (by simp [ht'])) he
      · simp at h

theorem fieldOK_text {sch orc texts f t} (hf : fieldOK sch orc texts f = true) (ht : t ∈ texts) :
    textOK orc f.kind t = true := by
  simp only [fieldOK, Bool.and_eq_true, List.all_eq_true] at hf
  exact hf.1.2 t ht

theorem fieldOK_ref {sch orc texts f} (hf : fieldOK sch orc texts f = true) : refOK sch f.kind = true := by
  simp only [fieldOK, Bool.and_eq_true] at hf
  exact hf.1.1

theorem setLeaf_noFault {sch orc md pre m fd vals texts} (hf : fieldOK sch orc texts fd = true)
    (hv : ∀ t ∈ vals, t ∈ texts) : setLeaf sch orc md pre m fd vals ≠ .error .fault := by
  intro h
  have hr := fieldOK_ref hf
  unfold setLeaf at h
  simp only at h
  split at h
  · simp at h
  · split at h
    · -- list
      split at h
      · rename_i e he
        simp at h; subst h
        exact parseAll_noFault hr (fun t ht => fieldOK_text hf (hv t ht)) he
      · simp at h
    · -- map
      rename_i kk hcard
      have hkk : keyKindOK kk = true := by
        simp only [fieldOK, hcard, Bool.and_eq_true] at hf
        exact hf.2
      split at h
      · rename_i kt vt
        split at h
        · rename_i e he
          simp at h; subst h
          exact keyKind_parse_noFault hkk he
        · split at h
          · rename_i e he
            simp at h; subst h
            exact parseElem_noFault hr (fieldOK_text hf (hv vt (by simp))) he
          · simp at h
      · simp at h
    · -- single
      split at h
      · rename_i t
        have htx := fieldOK_text hf (hv t (by simp))
        cases hk : fd.kind with
        | message r =>
          simp only [hk] at h htx
          split at h
          · rename_i e he
            simp at h; subst h
            exact parseMessage_noFault htx he
          · simp at h
        | _ =>
          simp only [hk] at h htx hr
          split at h
          · rename_i e he
            simp at h; subst h
            exact parseScalar_noFault hr htx (by intro r hh; cases hh) he
          · simp at h
      · simp at h

theorem subMsgDesc_some {sch : Schema} {orc texts} {f : Field} (hf : fieldOK sch orc texts f = true)
    (hs : isSingularMessage f = true) : ∃ sub, subMsgDesc sch f = some sub ∧ sub ∈ sch.msgs := by
  have hr := fieldOK_ref hf
  unfold isSingularMessage at hs
  cases hk : f.kind with
  | message r =>
    simp only [hk, refOK] at hr
    simp only [subMsgDesc, hk]
    cases hfm : sch.findMsg r with
    | none => simp [hfm] at hr
    | some sub => exact ⟨sub, rfl, List.mem_of_find?_eq_some hfm⟩
  | _ => simp [hk] at hs

theorem lookup_mem {md : MsgDesc} {n : Name} {f : Field} (h : md.lookup n = some f) : f ∈ md.fields := by
  unfold MsgDesc.lookup at h
  split at h
  · rename_i f' hf
    simp at h; subst h
    exact List.mem_of_find?_eq_some hf
  · exact List.mem_of_find?_eq_some h

theorem byName_mem {md : MsgDesc} {n : Name} {f : Field} (h : md.byName n = some f) : f ∈ md.fields :=
  List.mem_of_find?_eq_some h

theorem mdOK_field {sch orc texts md f} (hm : mdOK sch orc texts md = true) (hf : f ∈ md.fields) :
    fieldOK sch orc texts f = true := by
  simp only [mdOK, List.all_eq_true] at hm
  exact hm f hf

theorem populateGo_noFault {sch orc texts} (hs : sch.msgs.all (mdOK sch orc texts) = true) :
    ∀ {els md pre m vals}, mdOK sch orc texts md = true → (∀ t ∈ vals, t ∈ texts) →
      populateGo sch orc md pre m els vals ≠ .error .fault := by
  intro els
  induction els with
  | nil => intro md pre m vals _ _ h; simp [populateGo] at h
  | cons name rest ih =>
    intro md pre m vals hm hv h
    cases rest with
    | nil =>
      simp only [populateGo] at h
      split at h
      · simp at h
      · rename_i fd hl
        exact setLeaf_noFault (mdOK_field hm (lookup_mem hl)) hv h
    | cons n2 r2 =>
      simp only [populateGo] at h
      split at h
      · simp at h
      · rename_i fd hl
        split at h
        · simp at h
        · rename_i hsm
          have hsm' : isSingularMessage fd = true := by simpa using hsm
          obtain ⟨sub, hsub, hmem⟩ := subMsgDesc_some (mdOK_field hm (lookup_mem hl)) hsm'
          rw [hsub] at h
          simp only at h
          simp only [List.all_eq_true] at hs
          exact ih (hs sub hmem) hv h

theorem populate_noFault {sch orc texts root m fp vals} (hs : sch.msgs.all (mdOK sch orc texts) = true)
    (hm : mdOK sch orc texts root = true) (hv : ∀ t ∈ vals, t ∈ texts) :
    populateFieldValueFromPath sch orc root m fp vals ≠ .error .fault := by
  intro h
  unfold populateFieldValueFromPath at h
  split at h
  · simp at h
  · split at h
    · simp at h
    · exact populateGo_noFault hs hm hv h

theorem traverseEls_noFault {sch orc texts} (hs : sch.msgs.all (mdOK sch orc texts) = true) :
    ∀ {els md pre m fd}, mdOK sch orc texts md = true → traverseEls sch md pre m fd els ≠ .error .fault := by
  intro els
  induction els with
  | nil => intro md pre m fd _ h; simp [traverseEls] at h
  | cons el rest ih =>
    intro md pre m fd hm h
    simp only [traverseEls] at h
    split at h
    · simp at h
    · split at h
      · simp at h
      · split at h
        · simp at h
        · rename_i f hbn
          split at h
          · simp at h
          · split at h
            · simp at h
            · rename_i hsm
              have hsm' : isSingularMessage f = true := by simpa using hsm
              obtain ⟨sub, hsub, hmem⟩ := subMsgDesc_some (mdOK_field hm (byName_mem hbn)) hsm'
              rw [hsub] at h
              simp only at h
              simp only [List.all_eq_true] at hs
              exact ih (hs sub hmem) h

theorem bodyStage_noFault {sch orc texts root bd dec} (hs : sch.msgs.all (mdOK sch orc texts) = true)
    (hm : mdOK sch orc texts root = true) : bodyStage sch root bd dec ≠ .error .fault := by
  intro h
  unfold bodyStage at h
  split at h
  · simp at h
  · split at h
    · rename_i e he
      simp at h; subst h
      unfold traverseFieldPath at he
      split at he
      · simp at he
      · exact traverseEls_noFault hs hm he
    · split at h <;> simp at h

theorem pathStage_noFault {sch orc texts root} (hs : sch.msgs.all (mdOK sch orc texts) = true)
    (hm : mdOK sch orc texts root = true) : ∀ {pp m}, (∀ kv ∈ pp, kv.2 ∈ texts) →
      pathStage sch orc root m pp ≠ .error .fault := by
  intro pp
  induction pp with
  | nil => intro m _ h; simp [pathStage] at h
  | cons kv rest ih =>
    intro m hv h
    obtain ⟨k, v⟩ := kv
    simp only [pathStage] at h
    split at h
    · rename_i e he
      simp at h; subst h
      exact populate_noFault hs hm (fun t ht => by simp at ht; subst ht; exact hv (k, _) (by simp)) he
    · exact ih (fun kv hkv => hv kv (by simp [hkv])) h

theorem queryOne_noFault {sch orc texts root seqs m k vs} (hs : sch.msgs.all (mdOK sch orc texts) = true)
    (hm : mdOK sch orc texts root = true) (hv : ∀ t ∈ (queryKey k vs).2, t ∈ texts) :
    queryOne sch orc root seqs m k vs ≠ .error .fault := by
  intro h
  unfold queryOne at h
  unfold queryKey at hv
  simp only at h hv
  split at h
  · rename_i k' sub hk
    simp only [hk] at hv
    split at h
    · simp at h
    · exact populate_noFault hs hm hv h
  · rename_i hk
    simp only [hk] at hv
    split at h
    · simp at h
    · exact populate_noFault hs hm hv h

theorem queryStage_noFault {sch orc texts root seqs} (hs : sch.msgs.all (mdOK sch orc texts) = true)
    (hm : mdOK sch orc texts root = true) : ∀ {q m}, (∀ kv ∈ q, ∀ t ∈ (queryKey kv.1 kv.2).2, t ∈ texts) →
      queryStage sch orc root seqs m q ≠ .error .fault := by
  intro q
  induction q with
  | nil => intro m _ h; simp [queryStage] at h
  | cons kv rest ih =>
    intro m hv h
    obtain ⟨k, vs⟩ := kv
    simp only [queryStage] at h
    split at h
    · rename_i e he
      simp at h; subst h
      exact queryOne_noFault hs hm (hv (k, vs) (by simp)) he
    · exact ih (fun kv hkv => hv kv (by simp [hkv])) h

theorem transcodeWith_noFault {sch orc root bd seqs dec rq} (h : wfInputs sch orc root rq = true) :
    transcodeWith sch orc root bd seqs dec rq ≠ .error .fault := by
  simp only [wfInputs, Bool.and_eq_true] at h
  obtain ⟨hm, hs⟩ := h
  intro hf
  unfold transcodeWith at hf
  split at hf
  · rename_i e he
    simp at hf; subst hf
    exact bodyStage_noFault hs hm he
  · split at hf
    · rename_i e he
      simp at hf; subst hf
      refine pathStage_noFault hs hm ?_ he
      intro kv hkv
      simp only [rqTexts, List.mem_append, List.mem_map]
      exact Or.inl ⟨kv, hkv, rfl⟩
    · split at hf
      · simp at hf
      · refine queryStage_noFault hs hm ?_ hf
        intro kv hkv t ht
        simp only [rqTexts, List.mem_append, List.mem_flatMap]
        exact Or.inr ⟨kv, hkv, ht⟩

end GB.C04
