import GB.Base.Proto
namespace GB.C04
open GB GB.Proto

/-- stub: replaced when the C04 slice is built -/
def handle : Handler := fun _ _ => "BAD c04 unimplemented"

end GB.C04
